#!/bin/bash
# usage: mut.sh <props,comma> <file> <old> <new> [count]
# Applies one textual replacement to a scratch copy of /repo (under /tmp), checks that it
# still builds, runs the listed property checks against the copy, prints one line per property.
set -u
PROPS="$1"; FILE="$2"; OLD="$3"; NEW="$4"; N="${5:-1}"
D=$(mktemp -d /tmp/mut.XXXXXX)
rsync -a --exclude .git /repo/ "$D/r/"
python3 - "$D/r/$FILE" "$OLD" "$NEW" "$N" <<'PY'
import sys
p,old,new,n=sys.argv[1],sys.argv[2],sys.argv[3],int(sys.argv[4])
s=open(p).read()
if old not in s:
    print("MUT-NOT-APPLICABLE: pattern not found"); sys.exit(3)
parts=s.split(old)
# replace the n-th occurrence (1-based)
s=old.join(parts[:n])+new+old.join(parts[n:])
open(p,'w').write(s)
PY
[ $? -eq 3 ] && { rm -rf "$D"; exit 3; }
export GOFLAGS=-mod=mod GOPROXY=off GOSUMDB=off GOTOOLCHAIN=local
if ! (cd "$D/r" && go build ./... 2>&1 | head -5); then echo BUILD-FAIL; fi
(cd "$D/r" && go vet ./... >/dev/null 2>&1) 
mkdir -p "$D/v"; cp /verif/known_findings.json "$D/v/" 2>/dev/null
for P in ${PROPS//,/ }; do
  OUT=$(IVG_REPO="$D/r" ${IVGSA:-/verif/bin/ivgsa} check -property "$P" -verif "$D/v" 2>&1); RC=$?
  echo "[$P] rc=$RC $(echo "$OUT" | grep -c -E '^   (VIOLATED|UNDECIDED)') findings: $(echo "$OUT" | grep -E '^   (VIOLATED|UNDECIDED)' | head -3 | cut -c1-160 | tr '\n' '|')"
  [ -n "${MUT_VERBOSE:-}" ] && echo "$OUT" | grep -A3 -E '^   (VIOLATED|UNDECIDED)' | head -40 | cut -c1-400
done
rm -rf "$D"
