#!/bin/bash
# Regression over the behaviour-preserving refactorings under /verif/benign: each is applied to a scratch copy of
# /repo (removed afterwards) and every check must stay silent. Prints one line per refactoring; exit 1 on an alarm.
set -u
cd /verif
export GOFLAGS=-mod=mod GOPROXY=off GOSUMDB=off GOTOOLCHAIN=local
FAIL=0
run_one() {
  ID=$1; D=$(mktemp -d "${TMPDIR:-/tmp}/benign.XXXXXX"); mkdir -p "$D/v"; cp known_findings.json "$D/v/"
  rsync -a --exclude .git /repo/ "$D/r/"
  if ! (cd "$D/r" && git init -q . >/dev/null 2>&1 && git apply "/verif/benign/$ID/patch.diff" >/dev/null 2>&1); then echo "$ID: patch does not apply (skipped)"; rm -rf "$D"; return 0; fi
  rm -rf "$D/r/.git"; AL=""
  for P in $(seq -f "C%02g" 1 20); do IVG_REPO="$D/r" ./bin/ivgsa check -property "$P" -verif "$D/v" >/dev/null 2>&1 || AL="$AL $P"; done
  rm -rf "$D"
  if [ -z "$AL" ]; then echo "$ID: silent"; return 0; else echo "$ID: FALSE ALARM in$AL"; return 1; fi
}
export -f run_one
ls benign | xargs -P "${JOBS:-8}" -I{} bash -c 'run_one {}' | sort | tee /tmp/benign.$$.log
grep -q "FALSE ALARM" /tmp/benign.$$.log && FAIL=1
rm -f /tmp/benign.$$.log
exit $FAIL
