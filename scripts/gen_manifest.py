#!/usr/bin/env python3
"""Regenerates /verif/MANIFEST.json from the table below. Run after a property's rules are built."""
import json
props=[json.loads(l) for l in open('/verif/properties.jsonl')]
TRUST="Trusted base: go/types and go/ssa (golang.org/x/tools v0.29.0), the Go memory model, the documented behaviour of the few standard-library functions the analysed code calls, and the analyser itself. "
# id -> (what the static check decides, what it does not decide, technique)
CLAIMS={
 "C03":("Keyed sparse conditional constant propagation over the decoder: for each of the 2x256 opcode bytes the extracted behaviour (operand kinds/order, repeat count, delivered method, argument wiring incl. arc flag bits, next mode, reserved=>DecodeError with nothing read) is compared with tables written from the specification; the nine operand decoders are compared with the number/colour tables as bit-wiring and rational normal forms (all 256 one-byte colours, every form of every number kind, acceptance gate on length and tag). Exhaustive over the key spaces; no input value is sampled.",
        "Values are decided as formulas over the reals / as bit wiring; the float32 reinterpretation is an opaque function; metadata framing is decided under C13.",
        "static analysis: keyed SCCP with gated joins over go/ssa, bit-level and rational normal forms, compared with specification tables"),
 "C04":("The register machine as implemented by the Renderer, decided per method on symbolic state: register index = (selector - ADJ) mod 64 using the pre-increment selector, post-increment exactly under the incrementing form, selectors stored as low 6 bits, Reset values (registers from the palette argument, zeros, LOD [0,+Inf)), SetCReg stores Color.Resolve(&palette,&registers), Resolve per colour kind incl. the blend formula ((255-t)c0+tc1+128)/255 on resolved one-byte operands, StartPath's disabled flag propositionally equivalent (truth table over the comparison atoms) to paint-disabled or not(LOD0<=H<LOD1) and rasteriser activity exactly when not disabled, flat/gradient paint choice, initGradient's stop validation (premultiplied, 0<=offset<=1, strictly increasing from -Inf), and no state-changing rasteriser call in any drawing-mode method when the path is disabled.",
        "Gradient colour arithmetic (C15); that the decoder leaves drawing mode for a skipped path (C11.1); pixels.",
        "static analysis: symbolic abstract interpretation of go/ssa, rational normal forms, propositional equivalence of path conditions by truth table"),
 "C05":("Every Renderer drawing method is evaluated once, symbolically, on the state Reset leaves; the state-changing rasteriser calls it makes (which, in which order, exactly once on the enabled path) and every coordinate argument, brought to rational normal form, are compared with the reference geometry of the property: affine viewBox->rectangle image for absolute operands, pen plus scaled operand for relative ones, untouched pen coordinate for H/V, reflection of the previous same-degree control point (or the pen) for smooth verbs, close before move with the pen re-read after closing, Reset(Dx,Dy)+MoveTo at path start, ClosePath+Draw(z.r, fill, (0,0)) at path end; smooth-curve state after each verb. All 16 non-arc verbs plus the four path-structure methods, for all operands/viewBoxes/rectangles at once.",
        "Rounding; that the rasteriser's ClosePath leaves the pen at the sub-path start (assumed); sequences of verbs are covered through the per-verb pre/post state, not as histories.",
        "static analysis: symbolic abstract interpretation of go/ssa with event traces + rational normal forms compared with a reference geometry"),
 "C06":("Structural clauses of the arc property: the zero-radius branch issues exactly one LineTo to the endpoint mapped into pixel space (and is taken whenever rx or ry is zero); every cubic receives x-map results in x positions and y-map results in y positions; the helper maps are the viewBox->rectangle map, its linear part and inverse; the arc is cut into n contiguous equal angle intervals by a loop counted 0..n with one cubic per iteration; the relative form adds the operand to the un-mapped pen and passes radii/rotation/flags through; smooth state reset.",
        "That the curve lies on the requested ellipse, direction/extent chosen by the flags, radius scale-up, and the <=4 bound on n (claimed under C02.8 when built): these depend on the numerical content of the endpoint-to-centre conversion and are not applicable to static analysis.",
        "static analysis: symbolic abstract interpretation of go/ssa with opaque helper summaries, rational normal forms, guard substitution"),
 "C07":("Sibling cross-check of the two bundled Destination implementations: for every ivg.Destination method (and both increment variants of the register writes) the value that CSel()/NSel() report afterwards is, modulo 64, the same rational function of the old selector and the arguments in Encoder and Renderer (fields anchored by role: the field each getter returns); every DestinationLogger/RasterizerLogger method forwards exactly once to the same-named method with its own parameters in order; no type assertion on a Destination anywhere in the module.",
        "Equality of rasteriser activity and paints up to quantisation between the direct and the encode+decode pipeline is covered structurally by C01 (call structure) and is not decided numerically.",
        "static analysis: effect summaries by symbolic abstract interpretation, sibling comparison of normal forms, SSA instruction scan"),
 "C10":("The Encoder's protocol automaton is extracted by keyed constant propagation: every exported method x every (mode, recorded error) pre-state x argument classes (ADJ in {0,3,6,7,200}, incr) - 780 keyed evaluations - gives the post-state; the set of reachable states is computed from the zero value through the extracted transitions (8 states) and on it the extracted table is compared with the specification automaton written from the property (error iff protocol violation, path open/closed), the recorded error is shown unchanged by every method but Reset, Bytes returns (nil, err) iff an error is recorded and the buffer otherwise, and every method entered in the initial mode first writes the default metadata, which equals Reset's output for the default metadata.",
        "That a violation-free history decodes to itself is C01; the zero value's LOD() getter differs from a reset Encoder's (noted, not part of the stream).",
        "static analysis: keyed sparse conditional constant propagation over go/ssa, automaton extraction and comparison, exhaustive over the abstract state space"),
 "C12":("Static decision over real arithmetic: the results of AspectMeet/AspectSlice/Size are brought to rational normal form per branch arm and the property's clauses (aspect, touches target, fits/covers under the arm's own condition, alignment at 0, 1/2, 1) are decided as polynomial identities for all inputs at once.",
        "float32 rounding is not decided; positive finite sizes are assumed as the property states.",
        "static analysis: gated-SSA algebraic value numbering (rational normal forms), identities by cross-multiplication"),
}
checks=[]
for pid in sorted(CLAIMS):
    dec,notdec,tech=CLAIMS[pid]
    checks.append({
     "property_id":pid,
     "quick_cmd":"./check.sh %s quick"%pid,
     "thorough_cmd":"./check.sh %s thorough"%pid,
     "evidence_file":"/verif/evidence/%s.json"%pid,
     "replay_cmd_template":"./bin/ivgsa explain {path}",
     "engine":"ivgsa",
     "level_claimed":{"category":"other","text":dec+" Not decided: "+notdec,"design_ref":"DESIGN.md section 5, "+pid},
     "level_note":TRUST+"The check decides the named structural clauses (necessary conditions of the property), not the behaviour as a whole.",
     "technique":tech})
NA_REASON={}
na=[{"property_id":p['id'],"reason":NA_REASON.get(p['id'],"check under construction in this session (static rules per DESIGN.md section 5); not claimed until its rules are built and pass on the unchanged tree")} for p in props if p['id'] not in CLAIMS]
m={"version":1,
 "setup_cmd":"cd /verif/tool && GOFLAGS=-mod=mod GOPROXY=off GOSUMDB=off GOTOOLCHAIN=local GOWORK=off go build -o ../bin/ivgsa ./cmd/ivgsa",
 "hooks":{"guard":"verif","enable":"none needed: the analysis reads the source of /repo and never builds or runs it with hooks","baseline_off_cmd":"cd /repo && go test -vet=off -count=1 ./...","source_commits":[],"add_only":True},
 "engines":[{"name":"ivgsa","path":"/verif/tool","serves_properties":sorted(CLAIMS),"kind_free_text":"repository-specific static analyser over go/packages + go/ssa: keyed sparse conditional constant propagation with gated joins and event traces, bit-level and rational normal forms, CFG dominance rules, effect analysis"}],
 "checks":checks,
 "notes":"Every check is static analysis of /repo's working tree; nothing from /repo is executed. See DESIGN.md.",
 "not_applicable":na}
json.dump(m,open('/verif/MANIFEST.json','w'),indent=1)
print("claimed:",sorted(CLAIMS))
