#!/bin/bash
# Regression over the seeded changes: apply each /verif/seeded/<id>/patch.diff to /repo, run the checks that are
# expected to catch it (meta.json caught_by; "all" as first argument runs every property), undo the change.
# Prints one line per seeded change; exits 1 if an expected check stays silent.
set -u
MODE="${1:-expected}"
cd /verif
[ -z "$(git -C /repo status --porcelain)" ] || { echo "refusing: /repo has local changes"; exit 2; }
trap 'git -C /repo checkout -- . 2>/dev/null' EXIT
FAIL=0
for D in seeded/*/; do
  ID=$(basename "$D")
  [ -f "$D/patch.diff" ] || continue
  if ! git -C /repo apply "/verif/$D/patch.diff" 2>/dev/null; then echo "$ID: patch does not apply"; FAIL=1; continue; fi
  if [ "$MODE" = all ]; then PROPS=$(seq -f "C%02g" 1 20); else PROPS=$(python3 -c "import json;print(' '.join(json.load(open('$D/meta.json'))['caught_by']))"); fi
  GOT=""
  for P in $PROPS; do
    ./check.sh "$P" quick >/dev/null 2>&1 && RC=0 || RC=$?
    [ $RC -ne 0 ] && GOT="$GOT $P"
  done
  git -C /repo checkout -- . ; git -C /repo clean -fdq 2>/dev/null
  WANT=$(python3 -c "import json;print(' '.join(json.load(open('$D/meta.json'))['caught_by']))")
  OK=yes; for P in $WANT; do case " $GOT " in *" $P "*) ;; *) OK=no;; esac; done
  echo "$ID: expected [$WANT] reported [${GOT# }] $OK"
  [ $OK = yes ] || FAIL=1
done
# evidence files were overwritten by runs against changed trees: regenerate them from the unchanged tree
for P in $(seq -f "C%02g" 1 20); do ./check.sh "$P" quick >/dev/null 2>&1 || { echo "UNCHANGED TREE: $P does not pass"; FAIL=1; }; done
exit $FAIL
