#!/usr/bin/env python3
"""First-order mutation sweep: an independent measure of what the static checks see.
usage: mutsweep.py <mutants.jsonl> <out.jsonl> [workers] [filter-regex-on-file]
For each mutant produced by tool/cmd/mutgen: apply it to a private scratch copy of /repo (under $TMPDIR, removed at
the end), `go build ./...` (fails: stillborn), `go test -vet=off ./...` with the unedited suite (fails: killed by
tests), otherwise run the property checks (most likely first, by file) until one reports; all 20 silent: unreported.
Nothing is applied to /repo itself. The result file is a measurement, not evidence of a property."""
import json, os, re, shutil, subprocess, sys, tempfile, multiprocessing as mp
ENV = dict(os.environ, GOFLAGS='-mod=mod', GOPROXY='off', GOSUMDB='off', GOTOOLCHAIN='local', GOWORK='off')
ALL = ['C%02d' % i for i in range(1, 21)]
PRIO = [(r'^decode/', ['C03', 'C02', 'C11', 'C13', 'C01', 'C14', 'C08', 'C09']),
        (r'^encode/', ['C01', 'C10', 'C08', 'C09', 'C07', 'C17', 'C02']),
        (r'^render/', ['C04', 'C05', 'C06', 'C15', 'C16', 'C07', 'C02', 'C17']),
        (r'^generate/', ['C19', 'C20', 'C05', 'C18']),
        (r'^color.go', ['C09', 'C04', 'C16', 'C11', 'C02']),
        (r'^ivg.go', ['C12', 'C13', 'C03', 'C01']),
        (r'^logger.go', ['C07', 'C11']),
        (r'^raster/', ['C16', 'C07', 'C15']),
        (r'^mdicons/', ['C20', 'C18'])]
IVGSA = os.environ.get('IVGSA', '/verif/bin/ivgsa')
def order(f):
    for pat, first in PRIO:
        if re.search(pat, f):
            return first + [p for p in ALL if p not in first]
    return ALL
def run(cmd, cwd, timeout, env=ENV):
    try:
        r = subprocess.run(cmd, cwd=cwd, env=env, stdout=subprocess.PIPE, stderr=subprocess.STDOUT, timeout=timeout)
        return r.returncode, r.stdout.decode(errors='replace')
    except subprocess.TimeoutExpired:
        return 124, 'timeout'
W = None
def init(parent):
    global W
    W = tempfile.mkdtemp(prefix='w.', dir=parent)
    subprocess.run(['rsync', '-a', '--exclude', '.git', '/repo/', W + '/r/'], check=True)
    os.makedirs(W + '/v', exist_ok=True); shutil.copy('/verif/known_findings.json', W + '/v/')
def one(m):
    p = os.path.join(W, 'r', m['file']); src = open(p, 'rb').read()
    res = dict(m)
    try:
        open(p, 'wb').write(src[:m['start']] + m['repl'].encode() + src[m['end']:])
        rc, out = run(['go', 'build', './...'], W + '/r', 120)
        if rc != 0:
            res['status'] = 'stillborn'; return res
        rc, out = run(['go', 'test', '-vet=off', '-count=1', '-timeout', '30s', './...'], W + '/r', 150)
        if rc != 0:
            res['status'] = 'killed-by-tests'; return res
        if os.environ.get('PHASE1'):
            res['status'] = 'survives-tests'; return res
        for P in order(m['file']):
            rc, out = run([IVGSA, 'check', '-property', P, '-verif', W + '/v'], '/verif', 300, dict(ENV, IVG_REPO=W + '/r'))
            if rc != 0:
                res['status'] = 'reported'; res['by'] = P; res['rc'] = rc
                res['first'] = [l.strip()[:240] for l in out.splitlines() if re.match(r'^   (VIOLATED|UNDECIDED)', l)][:2]
                return res
        res['status'] = 'unreported'; return res
    finally:
        open(p, 'wb').write(src)
if __name__ == '__main__':
    muts = [json.loads(l) for l in open(sys.argv[1])]
    n = int(sys.argv[3]) if len(sys.argv) > 3 else 8
    if len(sys.argv) > 4:
        muts = [m for m in muts if re.search(sys.argv[4], m['file'])]
    done = set()
    if os.path.exists(sys.argv[2]):
        done = {json.loads(l)['id'] for l in open(sys.argv[2])}
    muts = [m for m in muts if m['id'] not in done]
    parent = tempfile.mkdtemp(prefix='mutsweep.', dir=os.environ.get('TMPDIR', '/tmp'))
    try:
        with mp.Pool(n, initializer=init, initargs=(parent,)) as pool, open(sys.argv[2], 'a') as out:
            for r in pool.imap_unordered(one, muts, chunksize=1):
                out.write(json.dumps(r) + '\n'); out.flush()
    finally:
        shutil.rmtree(parent, ignore_errors=True)
