#!/bin/bash
# usage: seedtest.sh <dir-with-mK.diff/mK.json/mK_demo*.go> [props]
# For each change: scratch copy of /repo, apply, build+vet+suite (must pass), demo on original (must pass) and on
# the changed copy (must fail), then run the listed (default: all) property checks against the changed copy.
set -u
DIR="$1"; PROPS="${2:-C01 C02 C03 C04 C05 C06 C07 C08 C09 C10 C11 C12 C13 C14 C15 C16 C17 C18 C19 C20}"
export GOFLAGS=-mod=mod GOPROXY=off GOSUMDB=off GOTOOLCHAIN=local
for DIFF in "$DIR"/m*.diff; do
  [ -f "$DIFF" ] || continue
  K=$(basename "$DIFF" .diff)
  D=$(mktemp -d /tmp/seedt.XXXXXX)
  rsync -a --exclude .git /repo/ "$D/orig/"; rsync -a --exclude .git /repo/ "$D/mut/"
  if ! (cd "$D/mut" && git init -q . 2>/dev/null && git apply "$DIFF" 2>&1 | head -3); then echo "[$K] APPLY-FAIL"; fi
  if diff -rq "$D/orig" "$D/mut" -x .git >/dev/null; then echo "[$K] APPLY-FAIL (no change)"; rm -rf "$D"; continue; fi
  rm -rf "$D/mut/.git"
  B=$(cd "$D/mut" && go build ./... 2>&1 | head -3; go vet ./... 2>&1 | grep -v '^#' | head -3)
  T=$(cd "$D/mut" && go test -vet=off -count=1 ./... 2>&1 | grep -E '^(FAIL|---)' | head -3)
  DEMO=$(ls "$DIR"/${K}_demo* 2>/dev/null | head -1)
  PKG=$(grep -m1 '^package ' "$DEMO" | awk '{print $2}' | sed 's/_test$//')
  case "$PKG" in ivg|main) PKGDIR="";; *) PKGDIR="$PKG";; esac
  [ -d "/repo/$PKGDIR" ] || PKGDIR=$(cd /repo && find . -type d -name "$PKG" | head -1)
  RUNNAME=$(grep -o 'func Test[A-Za-z0-9_]*' "$DEMO" | head -1 | sed 's/func //')
  for W in orig mut; do
    mkdir -p "$D/$W/$PKGDIR"; cp "$DEMO" "$D/$W/$PKGDIR/zz_seed_demo_test.go"
  done
  # SEED_RACE=1: the demonstration needs the race detector (changes against C18)
  O=$(cd "$D/orig/$PKGDIR" && go test ${SEED_RACE:+-race} -vet=off -count=1 -run 'Test' . 2>&1 | tail -1)
  M=$(cd "$D/mut/$PKGDIR" && go test ${SEED_RACE:+-race} -vet=off -count=1 -run 'Test' . 2>&1 | tail -1)
  rm -f "$D/mut/$PKGDIR/zz_seed_demo_test.go"
  echo "[$K] build/vet: ${B:-clean} | suite: ${T:-pass} | demo orig: $O | demo mut: $M"
  mkdir -p "$D/v"; cp /verif/known_findings.json "$D/v/"
  CAUGHT=""
  for P in $PROPS; do
    OUT=$(IVG_REPO="$D/mut" /verif/bin/ivgsa check -property "$P" -verif "$D/v" 2>&1); RC=$?
    if [ $RC -ge 2 ]; then echo "    [$P] CHECK-CRASH rc=$RC $(echo "$OUT" | grep -i -m1 'panic\|INFRA' | cut -c1-200)"; fi
    if [ $RC -eq 1 ]; then
      CAUGHT="$CAUGHT $P"
      echo "    [$P] rc=$RC $(echo "$OUT" | grep -E '^   (VIOLATED|UNDECIDED)' | head -2 | cut -c1-220 | tr '\n' '|')"
    fi
  done
  echo "[$K] caught-by:${CAUGHT:- NONE}"
  rm -rf "$D"
done
