#!/bin/bash
# usage: seedimport.sh <Cxx> <k>   -- confirm /tmp/seed/Cxx/out/m<k>.* and store it as /verif/seeded/Cxx-m<k>/
set -u
P="$1"; K="$2"; ROOT="${3:-/tmp/seed}"; OFF="${4:-0}"; SRC=$ROOT/$P/out; ID="$P-m$((K+OFF))"; OUT="${SEED_OUT:-/verif/seeded}/$ID"
[ -f "$SRC/m$K.diff" ] || { echo "$ID: no diff"; exit 0; }
export GOFLAGS=-mod=mod GOPROXY=off GOSUMDB=off GOTOOLCHAIN=local
D=$(mktemp -d /tmp/seedi.XXXXXX)
mkdir -p "$D/in"; cp "$SRC/m$K.diff" "$D/in/m1.diff"; cp "$SRC/m$K.json" "$D/in/m1.json"
DEMO=$(ls "$SRC"/m${K}_demo* | head -1); cp "$DEMO" "$D/in/m1_$(basename "$DEMO" | sed "s/^m${K}_//")"
LOG=$(/verif/scripts/seedtest.sh "$D/in" 2>&1)
echo "$LOG" | sed "s/^\[m1\]/[$ID]/"
LINE=$(echo "$LOG" | grep '^\[m1\] build')
CAUGHT=$(echo "$LOG" | grep '^\[m1\] caught-by:' | sed 's/.*caught-by://')
if echo "$LINE" | grep -q "build/vet: clean | suite: pass | demo orig: ok" && echo "$LINE" | grep -q "demo mut: FAIL"; then
  mkdir -p "$OUT"; cp "$SRC/m$K.diff" "$OUT/patch.diff"; cp "$DEMO" "$OUT/$(basename "$DEMO" | sed "s/^m${K}_//")"
  PKG=$(grep -m1 '^package ' "$DEMO" | awk '{print $2}' | sed 's/_test$//'); case "$PKG" in ivg|main) PKGDIR=".";; *) PKGDIR="$PKG";; esac
  python3 - "$SRC/m$K.json" "$OUT/meta.json" "$ID" "$PKGDIR" "$CAUGHT" "$(echo "$LOG" | grep '^    \[' )" <<'PY'
import json,sys
src,out,id_,pkgdir,caught,detail=sys.argv[1:7]
d=json.load(open(src))
meta={"id":id_,"property":d.get("property"),"origin":"fresh sub-agent given only the property text and a scratch worktree",
 "summary":d.get("summary"),"files":d.get("files"),"mechanism":d.get("mechanism"),"trigger":d.get("trigger"),
 "demo":{"file":[f for f in __import__('os').listdir(__import__('os').path.dirname(out)) if 'demo' in f][0],"place_in":pkgdir,"run":"go test "+("-race " if __import__('os').environ.get('SEED_RACE') else "")+"-vet=off -count=1 -run Test . (in that package directory)",
         "on_original":"passes","on_changed":"fails"},
 "confirmed":{"builds":True,"vet_clean":True,"existing_suite_passes":True,"demo_passes_on_original":True,"demo_fails_on_changed":True},
 "caught_by":caught.split(),"first_reports":[l.strip() for l in detail.splitlines()][:6]}
json.dump(meta,open(out,'w'),indent=1)
PY
else
  echo "$ID: NOT CONFIRMED"
fi
rm -rf "$D"
