#!/bin/bash
# usage: thorough.sh <property-id>      (called by check.sh; cwd = /verif)
# The thorough tier of a static check cannot "explore deeper" - the quick tier already evaluates every rule over
# every key. It widens the basis of the verdict instead:
#   1. the analysis of the quick tier (GOARCH=amd64, x/tools v0.29.0 SSA builder);
#   2. the same rules over the program type-checked and lowered for GOARCH=386 (32-bit int);
#   3. the same rules through a second front end: x/tools v0.50.0 built with go1.26.8 (a different SSA builder);
#      a construct reported by any of the three is reported (union);
#   4. liveness of the rules on this very tree: every seeded change recorded under seeded/ as caught by this
#      property is applied to a scratch copy of the current tree (removed afterwards) and the check must report
#      it. A seeded change that no longer applies is skipped; one that applies and is not reported is printed as
#      LIVENESS-MISS and recorded in the evidence, but does not change the exit status (the verdict is about
#      /repo's current tree only).
set -u
ID="$1"
V=$(pwd)
REPO="${IVG_REPO:-/repo}"
T=$(mktemp -d "${TMPDIR:-/tmp}/ivgsa-thorough.XXXXXX")
trap 'rm -rf "$T"' EXIT
RC=0
./bin/ivgsa check -property "$ID" -tier thorough -verif "$V" > "$T/main.out" 2>&1; R1=$?
grep -v '^VIOLATION\|^PASS' "$T/main.out"
[ $R1 -gt 1 ] && { cat "$T/main.out" | tail -5; exit 2; }
[ $R1 -eq 1 ] && RC=1
# 2. GOARCH=386
mkdir -p "$T/v386"; cp known_findings.json "$T/v386/" 2>/dev/null
./bin/ivgsa check -property "$ID" -tier thorough -arch 386 -verif "$T/v386" > "$T/386.out" 2>&1; R2=$?
echo "   cross-check GOARCH=386: $(grep -E '^== ' "$T/386.out" | cut -c1-160) rc=$R2"
[ $R2 -eq 1 ] && { RC=1; grep -A2 -E '^   (VIOLATED|UNDECIDED)' "$T/386.out" | sed 's/^/   [386]/' | head -30; }
[ $R2 -gt 1 ] && { echo "   cross-check GOARCH=386 could not run"; tail -3 "$T/386.out"; }
# 3. second front end
R3=skipped
if command -v go1.26.8 >/dev/null 2>&1; then
  if [ ! -x bin/ivgsa50 ] || [ -n "$(find tool -newer bin/ivgsa50 -name '*.go' -print -quit 2>/dev/null)" ]; then
    (cd tool && go1.26.8 build -modfile=go50.mod -o ../bin/ivgsa50 ./cmd/ivgsa) > "$T/build50.out" 2>&1 || { echo "   second front end: build failed"; tail -3 "$T/build50.out"; }
  fi
  if [ -x bin/ivgsa50 ]; then
    mkdir -p "$T/v50"; cp known_findings.json "$T/v50/" 2>/dev/null
    ./bin/ivgsa50 check -property "$ID" -tier thorough -verif "$T/v50" > "$T/50.out" 2>&1; R3=$?
    echo "   cross-check x/tools v0.50.0 + go1.26.8: $(grep -E '^== ' "$T/50.out" | cut -c1-160) rc=$R3"
    [ "$R3" = 1 ] && { RC=1; grep -A2 -E '^   (VIOLATED|UNDECIDED)' "$T/50.out" | sed 's/^/   [v0.50]/' | head -30; }
  fi
else
  echo "   second front end: go1.26.8 not present, skipped"
fi
# 4. liveness on scratch copies of the current tree
LIVE_OK=0; LIVE_MISS=0; LIVE_SKIP=0; MISSES=""
for D in seeded/*/; do
  [ -f "$D/meta.json" ] || continue
  python3 -c "import json,sys; sys.exit(0 if '$ID' in json.load(open('$D/meta.json')).get('caught_by',[]) else 1)" || continue
  S="$T/seed"; rm -rf "$S"; mkdir -p "$S/v"; rsync -a --exclude .git "$REPO/" "$S/r/"
  if ! (cd "$S/r" && git init -q . >/dev/null 2>&1 && git apply "$V/$D/patch.diff" >/dev/null 2>&1); then LIVE_SKIP=$((LIVE_SKIP+1)); continue; fi
  rm -rf "$S/r/.git"; cp known_findings.json "$S/v/" 2>/dev/null
  IVG_REPO="$S/r" ./bin/ivgsa check -property "$ID" -tier quick -verif "$S/v" > "$S/out" 2>&1; RS=$?
  if [ $RS -eq 1 ]; then LIVE_OK=$((LIVE_OK+1)); else LIVE_MISS=$((LIVE_MISS+1)); MISSES="$MISSES $(basename "$D")"; echo "   LIVENESS-MISS seeded=$(basename "$D") (applies to the current tree but is not reported)"; fi
done
echo "   liveness: $LIVE_OK seeded changes reported, $LIVE_MISS missed, $LIVE_SKIP not applicable to this tree"
# merge into the evidence
python3 - "$V/evidence/$ID.json" "$R2" "$R3" "$LIVE_OK" "$LIVE_MISS" "$LIVE_SKIP" "$MISSES" "$T" <<'PY'
import json,sys,os
p,r2,r3,ok,miss,skip,misses,t=sys.argv[1:9]
e=json.load(open(p))
def summ(path):
    try:
        d=json.load(open(path)); c=d['coverage']; return {"obligations":c.get('obligations'),"discharged":c.get('discharged'),"violations":len(d.get('violations',[]))}
    except Exception as ex:
        return {"error":str(ex)}
e['coverage']['cross_checks']={
 "goarch_386":{"exit":int(r2), **summ(os.path.join(t,'v386','evidence',e['property_id']+'.json'))},
 "second_front_end_xtools_v0.50.0_go1.26.8":({"exit":int(r3), **summ(os.path.join(t,'v50','evidence',e['property_id']+'.json'))} if r3!='skipped' else {"skipped":"go1.26.8 not present"}),
 "rule_liveness_on_seeded_changes":{"reported":int(ok),"missed":int(miss),"not_applicable_to_this_tree":int(skip),"missed_ids":misses.split()}}
e['tier']='thorough'
json.dump(e,open(p,'w'),indent=1)
PY
if [ $RC -eq 0 ]; then echo "PASS property=$ID"; else echo "VIOLATION property=$ID replay=$V/evidence/$ID.violations.json"; fi
exit $RC
