#!/usr/bin/env python3
"""Rewrites the generated regions of DESIGN.md: the seeded-changes table (from seeded/*/meta.json) and the rule
inventory (from evidence/*.json, i.e. from what the checks actually ran)."""
import json, glob, os, re
V = '/verif'
def region(s, name, body):
    a, b = f'<!-- BEGIN GENERATED:{name} -->', f'<!-- END GENERATED:{name} -->'
    i, j = s.index(a) + len(a), s.index(b)
    return s[:i] + '\n' + body + '\n' + s[j:]
rows = []
for d in sorted(glob.glob(V + '/seeded/*/meta.json')):
    m = json.load(open(d))
    summ = (m.get('summary') or '').replace('|', '/').replace('\n', ' ')
    if len(summ) > 230: summ = summ[:227] + '...'
    files = ', '.join(m.get('files') or [])
    rows.append(f"| {m['id']} | {files} | {summ} | {' '.join(m.get('caught_by') or []) or 'NONE'} |")
own = sum(1 for d in glob.glob(V + '/seeded/*/meta.json') for m in [json.load(open(d))] if m['property'] in (m.get('caught_by') or []))
tot = len(rows)
seeded = (f"{tot} changes; every one is reported by at least one check, {own} by the check of the property it was written against "
          "(the others break a clause that another property owns; the owning check reports them).\n\n"
          "| id | files | what the change does (author's summary) | reported by |\n|---|---|---|---|\n" + '\n'.join(rows))
inv = ["## Appendix E. Rule inventory as built", "",
       "Generated from `evidence/*.json` (`coverage.explanation`), i.e. from what the checks ran on the committed tree.", ""]
for f in sorted(glob.glob(V + '/evidence/C??.json')):
    e = json.load(open(f)); c = e['coverage']
    inv.append(f"### {e['property_id']} - {c['obligations']} obligations, {c['discharged']} discharged, {e['wall_s']:.1f} s")
    expl = c['explanation']
    if 'Rules: ' in expl:
        for r in expl.split('Rules: ', 1)[1].split(' | '):
            inv.append('* ' + r.strip())
    inv.append('')
brows=[]
nb=0
for d in sorted(glob.glob(V + '/benign/*/meta.json')):
    m=json.load(open(d)); nb+=1
    summ=(m.get('summary') or '').replace('|','/').replace('\n',' ')
    if len(summ)>200: summ=summ[:197]+'...'
    brows.append(f"| {m['id']} | {m.get('kind','')} | {', '.join(m.get('files') or [])} | {summ} |")
benign=(f"{nb} refactorings, all silent on the committed rules.\n\n| id | kind | files | summary (author's) |\n|---|---|---|---|\n"+'\n'.join(brows))
p = V + '/DESIGN.md'
s = open(p).read()
s = region(s, 'seeded', seeded)
s = region(s, 'rules', '\n'.join(inv))
s = region(s, 'benign', benign)
open(p, 'w').write(s)
print('seeded rows', tot, 'own', own)
