#!/usr/bin/env python3
"""Writes the prompt for a fresh seeding sub-agent: seedprompt.py <Cnn> <root>  ->  <root>/<Cnn>/prompt.txt
The agent gets the text of one property, a scratch worktree <root>/<Cnn>/wt and one-line summaries of the changes
already kept under /verif/seeded for that property (so that it looks elsewhere). Nothing else from /verif."""
import json, sys, os, glob
pid, root = sys.argv[1], sys.argv[2]
prop = None
for line in open('/verif/properties.jsonl'):
    d = json.loads(line)
    if d['id'] == pid:
        prop = d
d = f"{root}/{pid}"
os.makedirs(d + "/out", exist_ok=True)
known = []
for m in sorted(glob.glob(f"/verif/seeded/{pid}-m*/meta.json")):
    known.append("- " + json.load(open(m))['summary'][:300].replace("\n", " "))
p = f"""You are working in a scratch git worktree of the Go repository reactivego/ivg (an encoder, decoder, disassembler and renderer for the IconVG FFV0 binary vector-icon format) at {d}/wt. Work ONLY inside {d}/ . Never touch /repo or /verif, and do not look at them.

Environment: there is no network. Before any go command run:
  export GOFLAGS=-mod=mod GOPROXY=off GOSUMDB=off GOTOOLCHAIN=local
The existing test suite is run with:  cd {d}/wt && go test -vet=off -count=1 ./...

Here is a semantic property of the library that users rely on:

{json.dumps(prop, indent=1)}

TASK. Produce a realistic change to the library's non-test .go files - the kind of mistake a maintainer could make in a refactor, an optimisation, a "simplification", a performance tweak, a bug "fix" that over-reaches, or a feature tweak - that BREAKS this property, such that:
 (1) the tree still compiles (go build ./... and go vet ./... are clean);
 (2) the full existing test suite, unedited, still passes;
 (3) the breakage needs something specific to manifest (a particular input, state, history or option), i.e. it is not visible on every input;
 (4) you have a demonstration: a small Go test file that is NOT part of the change, which passes on the original code and fails on the changed code. Actually run it both ways and record both outputs.
Produce TWO such changes with different mechanisms, each applying on its own to the original tree. Quality matters more than quantity; subtle is better than blatant; do not just delete a whole feature. The following changes are already known - do NOT repeat these ideas or close variants; look for clauses of the property, functions, files and kinds of mistake that none of them touches (read the whole statement and quantifier again and pick what is not covered below; mistakes in rarely exercised branches, off-by-one boundaries, wrong operand of a pair, stale state, aliasing of slices or captured variables, integer width/sign, float32 vs float64, evaluation order, error path vs success path are all fair game; so are the less travelled parts of the code base: the loggers, the generator helpers, cmd/ tools if the property reaches them, option handling, zero values, accessor methods, helper functions in the root package):
{chr(10).join(known)}

DELIVERABLES in {d}/out/ for each change k = 1, 2:
  m<k>.diff       - `git diff` of ONLY the library change, relative to the worktree root, so that `git apply m<k>.diff` works on a clean checkout;
  m<k>_demo_test.go - the demonstration (a _test.go file whose package clause matches the directory it must be placed in), with a header comment saying where to place it and the exact command to run it;
  m<k>.json       - {{"property":"{pid}","summary":"...","files":["..."],"mechanism":"...","trigger":"what specific input/state is needed","demo_place":"directory inside the repo where the demo file goes","demo_cmd":"...","original_output":"...","mutated_output":"..."}}
Do not use `git stash` (the stash is shared with other checkouts); use `git diff > file` and `git checkout -- .` instead. When you are done leave the worktree clean (git -C {d}/wt checkout -- . ; remove any untracked files you created there). Reply with a three-line report."""
open(d + "/prompt.txt", "w").write(p)
print(d + "/prompt.txt")
