#!/bin/bash
# usage: refactest.sh <dir-with-rK.diff> -- behaviour-preserving refactorings must leave every check silent.
set -u
DIR="$1"; PROPS="${2:-C01 C02 C03 C04 C05 C06 C07 C08 C09 C10 C11 C12 C13 C14 C15 C16 C17 C18 C19 C20}"
export GOFLAGS=-mod=mod GOPROXY=off GOSUMDB=off GOTOOLCHAIN=local
for DIFF in "$DIR"/r*.diff; do
  [ -f "$DIFF" ] || continue
  K=$(basename "$DIR" | sed 's#/out##')-$(basename "$DIFF" .diff)
  D=$(mktemp -d /tmp/refact.XXXXXX)
  rsync -a --exclude .git /repo/ "$D/mut/"
  if ! (cd "$D/mut" && git init -q . 2>/dev/null && git apply "$DIFF" 2>&1 | head -3); then echo "[$K] APPLY-FAIL"; rm -rf "$D"; continue; fi
  rm -rf "$D/mut/.git"
  B=$(cd "$D/mut" && go build ./... 2>&1 | head -3; go vet ./... 2>&1 | grep -v '^#' | head -3)
  T=$(cd "$D/mut" && go test -vet=off -count=1 ./... 2>&1 | grep -E '^(FAIL|---)' | head -3)
  mkdir -p "$D/v"; cp /verif/known_findings.json "$D/v/"
  ALARMS=""
  for P in $PROPS; do
    OUT=$(IVG_REPO="$D/mut" ${IVGSA:-/verif/bin/ivgsa} check -property "$P" -verif "$D/v" 2>&1); RC=$?
    if [ $RC -ne 0 ]; then
      ALARMS="$ALARMS $P"
      echo "    [$K/$P] rc=$RC $(echo "$OUT" | grep -E '^   (VIOLATED|UNDECIDED)' | head -3 | cut -c1-260 | tr '\n' '|')"
    fi
  done
  echo "[$K] build/vet: ${B:-clean} | suite: ${T:-pass} | alarms:${ALARMS:- none}"
  rm -rf "$D"
done
