#!/bin/bash
# Parallel regression over the seeded changes (same verdicts as seeded.sh, but on scratch copies under $TMPDIR so
# that /repo is never touched and several run at once): each patch is applied to a copy of /repo's working tree, the
# checks listed in its meta.json (caught_by) must all report. usage: seeded_par.sh [jobs] [id-glob]
set -u
cd /verif
export GOFLAGS=-mod=mod GOPROXY=off GOSUMDB=off GOTOOLCHAIN=local
one() {
  ID=$1; D=$(mktemp -d "${TMPDIR:-/tmp}/seedreg.XXXXXX"); mkdir -p "$D/v"; cp known_findings.json "$D/v/"
  rsync -a --exclude .git /repo/ "$D/r/"
  if ! (cd "$D/r" && git init -q . >/dev/null 2>&1 && git apply "/verif/seeded/$ID/patch.diff" >/dev/null 2>&1); then echo "$ID: patch does not apply"; rm -rf "$D"; return 0; fi
  rm -rf "$D/r/.git"
  WANT=$(python3 -c "import json;print(' '.join(json.load(open('/verif/seeded/$ID/meta.json'))['caught_by']))")
  MISS=""
  for P in $WANT; do IVG_REPO="$D/r" ${IVGSA:-./bin/ivgsa} check -property "$P" -verif "$D/v" >/dev/null 2>&1; [ $? -eq 1 ] || MISS="$MISS $P"; done
  rm -rf "$D"
  if [ -z "$MISS" ]; then echo "$ID: expected [$WANT] ok"; else echo "$ID: expected [$WANT] SILENT:$MISS"; fi
}
export -f one
ls seeded | grep -E "${2:-.}" | xargs -P "${1:-8}" -I{} bash -c 'one {}' | sort | tee /tmp/seeded_par.$$.log
if grep -q "SILENT" /tmp/seeded_par.$$.log; then rm -f /tmp/seeded_par.$$.log; exit 1; fi
rm -f /tmp/seeded_par.$$.log
