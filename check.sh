#!/bin/bash
# usage: ./check.sh <property-id> <quick|thorough>
# Decides the structural clauses of one property by static analysis of /repo's
# current working tree (nothing from /repo is executed). Exit 0: every
# obligation discharged (known findings are printed, not failed). Exit 1 with a
# "VIOLATION property=<id> replay=<path>" line: a violated or undecided
# obligation. Exit 2: the check itself is broken (load failure, analyser panic).
set -u
cd "$(dirname "$0")"
ID="${1:?property id}"
TIER="${VERIF_TIER:-${2:-quick}}"
export GOFLAGS=-mod=mod GOPROXY=off GOSUMDB=off GOTOOLCHAIN=local GOWORK=off
unset GOARCH GOOS
BIN=./bin/ivgsa
if [ ! -x "$BIN" ] || [ -n "$(find tool -newer "$BIN" -name '*.go' -print -quit 2>/dev/null)" ]; then
  (cd tool && go build -o ../bin/ivgsa ./cmd/ivgsa) || { echo "INFRA cannot build ivgsa"; exit 2; }
fi
if [ "$TIER" = thorough ]; then
  exec ./scripts/thorough.sh "$ID"
fi
exec "$BIN" check -property "$ID" -tier quick -verif "$(pwd)"
