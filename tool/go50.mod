module ivgsa

go 1.26.0

require golang.org/x/tools v0.50.0

require (
	golang.org/x/mod v0.41.0 // indirect
	golang.org/x/sync v0.23.0 // indirect
)
