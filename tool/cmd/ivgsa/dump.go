package main

import (
	"flag"
	"fmt"
	"strings"

	"golang.org/x/tools/go/ssa"

	"ivgsa/internal/load"
	"ivgsa/internal/rules"
	"ivgsa/internal/report"
	"ivgsa/internal/sym"
)

// dump evaluates one function with default symbolic arguments and prints the
// events, result and warnings: a debugging aid for rule development.
func dump(args []string) int {
	fs := flag.NewFlagSet("dump", flag.ExitOnError)
	fn := fs.String("func", "", "pkg.Func or pkg.Type.Method (module-relative, root package is '.')")
	key := fs.Int("key", -1, "pin input byte 0 of parameter src to this value and use the decoder hooks")
	fs.Parse(args)
	prog, err := load.Load(load.RepoDir(), "amd64")
	if err != nil {
		fmt.Println(err)
		return 2
	}
	parts := strings.Split(*fn, ".")
	rel := parts[0]
	if rel == "" || rel == "ivg" {
		rel = ""
	}
	var f *ssa.Function
	if len(parts) == 2 {
		f = prog.Func(rel, parts[1])
	} else if len(parts) == 3 {
		f = prog.Method(rel, parts[1], parts[2], true)
	}
	if f == nil {
		fmt.Println("function not found")
		return 2
	}
	ctx := &rules.Ctx{P: prog, R: report.NewRun("dump", "quick", 0)}
	in := ctx.Interp()
	if *key >= 0 {
		rules.DebugDecHooks(ctx, in, *key)
	}
	res, mem, _ := in.Run(f, nil, nil)
	for _, ev := range in.Events {
		if ev.Kind == "return" && ev.Frame.Parent != nil {
			continue
		}
		var as []string
		for _, a := range ev.Args {
			as = append(as, clip(a.Key()))
		}
		fmt.Printf("EV %-10s %-40s [%s]\n      guard=%s loops=%d stack=%s\n", ev.Kind, ev.Callee, strings.Join(as, ", "), clip(ev.Guard.Key()), len(ev.Loops), ev.Frame.Stack())
		for i, va := range ev.VarArgs {
			if va != nil {
				var vs []string
				for _, v := range va {
					vs = append(vs, clip(v.Key()))
				}
				fmt.Printf("      vararg[%d]=%s\n", i, strings.Join(vs, ", "))
			}
		}
	}
	fmt.Println("RESULT", clip(res.Key()))
	if mem != nil {
		for _, k := range mem.Keys() {
			if !strings.HasPrefix(k, "global:") {
				fmt.Println("MEM", k)
			}
		}
	}
	for _, w := range in.Warn {
		fmt.Println("WARN", w)
	}
	fmt.Println("steps", in.Steps)
	_ = sym.True
	return 0
}

var clipLen = 400

func clip(s string) string {
	if len(s) > clipLen {
		return s[:clipLen] + "…"
	}
	return s
}
