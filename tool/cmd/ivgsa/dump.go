package main

import (
	"flag"
	"fmt"
	"os"
	"strings"

	"golang.org/x/tools/go/ssa"

	"ivgsa/internal/load"
	"ivgsa/internal/report"
	"ivgsa/internal/rules"
	"ivgsa/internal/sym"
)

// dump evaluates one function with default symbolic arguments and prints the
// events, result and warnings: a debugging aid for rule development.
func dump(args []string) int {
	fs := flag.NewFlagSet("dump", flag.ExitOnError)
	fn := fs.String("func", "", "pkg.Func or pkg.Type.Method (module-relative, root package is '.')")
	encM := fs.String("enc", "", "evaluate this Encoder method; -ipin name=int,... pins integer fields (err=0 pins nil)")
	ipin := fs.String("ipin", "", "integer field pins for -enc")
	rendM := fs.String("rend", "", "evaluate this Renderer method on the post-Reset state")
	opq := fs.String("opaque", "", "comma separated function names kept opaque (with -rend)")
	pinA := fs.String("pin", "", "comma separated Renderer fields pinned to atoms (with -rend)")
	ssaOut := fs.Bool("ssa", false, "print the SSA form of -func instead of evaluating it")
	key := fs.Int("key", -1, "pin input byte 0 of parameter src to this value and use the decoder hooks")
	fs.Parse(args)
	prog, err := load.Load(load.RepoDir(), "amd64")
	if err != nil {
		fmt.Println(err)
		return 2
	}
	if *ssaOut && *fn != "" {
		parts := strings.Split(*fn, ".")
		var f *ssa.Function
		if len(parts) == 2 {
			rel := parts[0]
			if rel == "." {
				rel = ""
			}
			f = prog.Func(rel, parts[1])
			if f == nil && parts[1] == "init" {
				for _, pk := range prog.Pkgs {
					if prog.Rel(pk.Types) == rel {
						f = prog.SSA.Package(pk.Types).Func("init")
					}
				}
			}
		} else if len(parts) == 3 {
			rel := parts[0]
			if rel == "." {
				rel = ""
			}
			f = prog.Method(rel, parts[1], parts[2], true)
			if f == nil {
				f = prog.Method(rel, parts[1], parts[2], false)
			}
		}
		if f == nil {
			fmt.Println("not found")
			return 2
		}
		f.WriteTo(os.Stdout)
		return 0
	}
	if *encM != "" {
		ctx := &rules.Ctx{P: prog, R: report.NewRun("dump", "quick", 0)}
		var o, pa []string
		if *opq != "" {
			o = strings.Split(*opq, ",")
		}
		if *pinA != "" {
			pa = strings.Split(*pinA, ",")
		}
		ip := map[string]int64{}
		if *ipin != "" {
			for _, kv := range strings.Split(*ipin, ",") {
				var k string
				var v int64
				parts := strings.SplitN(kv, "=", 2)
				k = parts[0]
				fmt.Sscan(parts[1], &v)
				ip[k] = v
			}
		}
		in, mem := rules.DebugEnc(ctx, *encM, o, ip, pa)
		if in == nil {
			fmt.Println("not found")
			return 2
		}
		printRun(in, nil, mem)
		return 0
	}
	if *rendM != "" {
		ctx := &rules.Ctx{P: prog, R: report.NewRun("dump", "quick", 0)}
		var o, pa []string
		if *opq != "" {
			o = strings.Split(*opq, ",")
		}
		if *pinA != "" {
			pa = strings.Split(*pinA, ",")
		}
		in, mem := rules.DebugRend(ctx, *rendM, o, pa)
		if in == nil {
			fmt.Println("not found")
			return 2
		}
		printRun(in, nil, mem)
		return 0
	}
	parts := strings.Split(*fn, ".")
	rel := parts[0]
	if rel == "" || rel == "ivg" {
		rel = ""
	}
	var f *ssa.Function
	if len(parts) == 2 {
		f = prog.Func(rel, parts[1])
	} else if len(parts) == 3 {
		f = prog.Method(rel, parts[1], parts[2], true)
	}
	if f == nil {
		fmt.Println("function not found")
		return 2
	}
	ctx := &rules.Ctx{P: prog, R: report.NewRun("dump", "quick", 0)}
	in := ctx.Interp()
	if *key >= 0 {
		rules.DebugDecHooks(ctx, in, *key)
	}
	if *key == -2 {
		var o []string
		if *opq != "" {
			o = strings.Split(*opq, ",")
		}
		rules.DebugDecHooksOpaque(ctx, in, o)
	}
	res, mem, _ := in.Run(f, nil, nil)
	printRun(in, res, mem)
	return 0
}

func printRun(in *sym.Interp, res *sym.Term, mem *sym.Mem) {
	for _, ev := range in.Events {
		if ev.Kind == "return" && ev.Frame.Parent != nil {
			continue
		}
		var as []string
		for _, a := range ev.Args {
			as = append(as, clip(a.Key()))
		}
		fmt.Printf("EV %-10s %-40s [%s]\n      guard=%s loops=%d stack=%s\n", ev.Kind, ev.Callee, strings.Join(as, ", "), clip(ev.Guard.Key()), len(ev.Loops), ev.Frame.Stack())
		for i, va := range ev.VarArgs {
			if va != nil {
				var vs []string
				for _, v := range va {
					vs = append(vs, clip(v.Key()))
				}
				fmt.Printf("      vararg[%d]=%s\n", i, strings.Join(vs, ", "))
			}
		}
	}
	fmt.Println("RESULT", clip(res.Key()))
	if mem != nil {
		for _, k := range mem.Keys() {
			if !strings.HasPrefix(k, "global:") && !strings.HasPrefix(k, "alloc:") {
				fmt.Println("MEM", k, "=", clip(mem.ValueOf(k).Key()))
			}
		}
	}
	for _, w := range in.Warn {
		fmt.Println("WARN", w)
	}
	fmt.Println("steps", in.Steps)
}

var clipLen = 400

func clip(s string) string {
	if len(s) > clipLen {
		return s[:clipLen] + "…"
	}
	return s
}
