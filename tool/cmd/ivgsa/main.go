// Command ivgsa decides structural clauses of the ivg properties by static
// analysis of the repository's current working tree.
package main

import (
	"encoding/json"
	"flag"
	"fmt"
	"os"
	"runtime/debug"
	"strconv"
	"strings"

	"ivgsa/internal/canon"
	"ivgsa/internal/load"
	"ivgsa/internal/report"
	"ivgsa/internal/rules"
)

func main() {
	if len(os.Args) < 2 {
		fmt.Fprintln(os.Stderr, "usage: ivgsa check|dump|explain|list ...")
		os.Exit(2)
	}
	switch os.Args[1] {
	case "check":
		os.Exit(check(os.Args[2:]))
	case "dump":
		os.Exit(dump(os.Args[2:]))
	case "explain":
		os.Exit(explain(os.Args[2:]))
	case "snapshot":
		// the names the rules are written against, taken from the tree under analysis (run on the pinned tree)
		os.Setenv("IVGSA_NO_CANON", "1")
		prog, err := load.Load(load.RepoDir(), "amd64")
		if err != nil {
			fmt.Fprintln(os.Stderr, err)
			os.Exit(2)
		}
		snap := canon.Take(prog.RawPkgs, prog.Rel)
		b, _ := json.MarshalIndent(snap, "", " ")
		os.Stdout.Write(append(b, '\n'))
	case "list":
		for _, p := range rules.Properties() {
			fmt.Println(p)
		}
	default:
		fmt.Fprintln(os.Stderr, "unknown command", os.Args[1])
		os.Exit(2)
	}
}

func check(args []string) int {
	fs := flag.NewFlagSet("check", flag.ExitOnError)
	prop := fs.String("property", "", "property id (C01..C20)")
	tier := fs.String("tier", "quick", "quick|thorough")
	verif := fs.String("verif", "/verif", "verification directory (evidence, known findings)")
	arch := fs.String("arch", "amd64", "GOARCH analysed")
	fs.Parse(args)
	if t := os.Getenv("VERIF_TIER"); t == "quick" || t == "thorough" {
		*tier = t
	}
	seed, _ := strconv.ParseInt(os.Getenv("VERIF_SEED"), 10, 64)
	fns := rules.Registry[*prop]
	if len(fns) == 0 {
		fmt.Fprintf(os.Stderr, "no rules registered for property %q\n", *prop)
		return 2
	}
	run := report.NewRun(*prop, *tier, seed)
	prog, err := load.Load(load.RepoDir(), *arch)
	if err != nil {
		fmt.Printf("INFRA load failure: %v\n", err)
		return 2
	}
	run.Count("packages", len(prog.Pkgs))
	run.Count("functions", prog.NumFuncs)
	run.Note("analysed %s (GOOS=linux GOARCH=%s), %d packages, %d functions with bodies", prog.Dir, prog.Arch, len(prog.Pkgs), prog.NumFuncs)
	for _, r := range prog.Renames {
		run.Note("renamed identifier: %s", r.String())
	}
	for _, n := range prog.Normalised {
		run.Note("loop spelling: %s", strings.TrimPrefix(n, prog.Dir+"/"))
	}
	ctx := &rules.Ctx{P: prog, R: run, Tier: *tier}
	// A rule function that panics on an idiom it does not understand must not take the verdict down with it: the
	// panic becomes an undecided obligation (the check fails, naming the rule function), the other rules still run.
	for i, f := range fns {
		func() {
			defer func() {
				if r := recover(); r != nil {
					st := string(debug.Stack())
					where := ""
					for _, ln := range strings.Split(st, "\n") {
						if strings.Contains(ln, "/internal/rules/") || strings.Contains(ln, "/internal/sym/") || strings.Contains(ln, "/internal/poly/") {
							where = strings.TrimSpace(ln)
							break
						}
					}
					fmt.Printf("   analyser panic in rule function %d of %s: %v at %s\n", i, *prop, r, where)
					run.Only()
					run.Rule(*prop+".analysis", "every rule function of the property runs to completion on this tree", 0)
					run.Unknown(fmt.Sprintf("rule-function-%d#panic", i), where, fmt.Sprintf("the analyser panicked (%v): the code uses a shape this rule does not handle; no verdict", r))
				}
			}()
			f(ctx)
		}()
	}
	return run.Finish(*verif)
}

func explain(args []string) int {
	if len(args) < 1 {
		fmt.Fprintln(os.Stderr, "usage: ivgsa explain <violations.json>")
		return 2
	}
	b, err := os.ReadFile(args[0])
	if err != nil {
		fmt.Fprintln(os.Stderr, err)
		return 2
	}
	fmt.Println(strings.TrimSpace(string(b)))
	return 0
}
