// mutgen lists first-order mutants of the non-test Go files under a directory as JSON lines:
// {"id":..,"file":rel,"start":off,"end":off,"repl":text,"op":kind,"line":n,"orig":text}
// It is a generator only (go/parser + go/ast, no type information); whether a mutant compiles, survives the
// repository's tests and is reported by the checks is decided by scripts/mutsweep.py.
package main

import (
	"encoding/json"
	"fmt"
	"go/ast"
	"go/parser"
	"go/token"
	"os"
	"path/filepath"
	"strconv"
	"strings"
)

type mutant struct {
	ID    int    `json:"id"`
	File  string `json:"file"`
	Start int    `json:"start"`
	End   int    `json:"end"`
	Repl  string `json:"repl"`
	Op    string `json:"op"`
	Line  int    `json:"line"`
	Orig  string `json:"orig"`
	Func  string `json:"func"`
}

var swaps = map[token.Token][]token.Token{
	token.ADD: {token.SUB}, token.SUB: {token.ADD}, token.MUL: {token.QUO}, token.QUO: {token.MUL},
	token.LSS: {token.LEQ, token.GTR}, token.LEQ: {token.LSS}, token.GTR: {token.GEQ, token.LSS}, token.GEQ: {token.GTR},
	token.EQL: {token.NEQ}, token.NEQ: {token.EQL}, token.LAND: {token.LOR}, token.LOR: {token.LAND},
	token.AND: {token.OR}, token.OR: {token.AND}, token.SHL: {token.SHR}, token.SHR: {token.SHL},
	token.REM: {token.QUO}, token.XOR: {token.OR},
}
var assignSwaps = map[token.Token]token.Token{
	token.ADD_ASSIGN: token.SUB_ASSIGN, token.SUB_ASSIGN: token.ADD_ASSIGN, token.MUL_ASSIGN: token.QUO_ASSIGN,
	token.QUO_ASSIGN: token.MUL_ASSIGN, token.OR_ASSIGN: token.AND_ASSIGN, token.AND_ASSIGN: token.OR_ASSIGN,
	token.SHL_ASSIGN: token.SHR_ASSIGN, token.SHR_ASSIGN: token.SHL_ASSIGN,
}

func main() {
	root := os.Args[1]
	var out []mutant
	enc := json.NewEncoder(os.Stdout)
	filepath.Walk(root, func(p string, info os.FileInfo, err error) error {
		if err != nil {
			return nil
		}
		if info.IsDir() {
			if info.Name() == ".git" || info.Name() == "testdata" || info.Name() == "spec" {
				return filepath.SkipDir
			}
			return nil
		}
		rel, _ := filepath.Rel(root, p)
		if !strings.HasSuffix(p, ".go") || strings.HasSuffix(p, "_test.go") || strings.HasPrefix(rel, "cmd/mdicons/test") {
			return nil
		}
		src, _ := os.ReadFile(p)
		fset := token.NewFileSet()
		f, err := parser.ParseFile(fset, p, src, 0)
		if err != nil {
			return nil
		}
		off := func(pos token.Pos) int { return fset.Position(pos).Offset }
		curFunc := ""
		add := func(s, e token.Pos, repl, op string) {
			so, eo := off(s), off(e)
			out = append(out, mutant{File: rel, Start: so, End: eo, Repl: repl, Op: op, Line: fset.Position(s).Line, Orig: string(src[so:eo]), Func: curFunc})
		}
		for _, d := range f.Decls {
			curFunc = ""
			if fd, ok := d.(*ast.FuncDecl); ok {
				curFunc = fd.Name.Name
				if fd.Recv != nil && len(fd.Recv.List) > 0 {
					curFunc = string(src[off(fd.Recv.List[0].Type.Pos()):off(fd.Recv.List[0].Type.End())]) + "." + curFunc
				}
			}
			if gd, ok := d.(*ast.GenDecl); ok && gd.Tok == token.IMPORT {
				continue
			}
			ast.Inspect(d, func(n ast.Node) bool {
				switch x := n.(type) {
				case *ast.BinaryExpr:
					for _, t := range swaps[x.Op] {
						add(x.OpPos, x.OpPos+token.Pos(len(x.Op.String())), t.String(), "binop "+x.Op.String()+"->"+t.String())
					}
				case *ast.BasicLit:
					if x.Kind == token.INT {
						if v, err := strconv.ParseInt(x.Value, 0, 64); err == nil {
							add(x.Pos(), x.End(), strconv.FormatInt(v+1, 10), "int+1")
							if v > 0 {
								add(x.Pos(), x.End(), strconv.FormatInt(v-1, 10), "int-1")
							}
						}
					} else if x.Kind == token.FLOAT {
						if v, err := strconv.ParseFloat(x.Value, 64); err == nil && v != 0 {
							add(x.Pos(), x.End(), "("+x.Value+"*2)", "float*2")
						}
					}
				case *ast.IncDecStmt:
					t := "--"
					if x.Tok == token.DEC {
						t = "++"
					}
					add(x.TokPos, x.TokPos+2, t, "incdec")
				case *ast.AssignStmt:
					if t, ok := assignSwaps[x.Tok]; ok {
						add(x.TokPos, x.TokPos+token.Pos(len(x.Tok.String())), t.String(), "opassign")
					}
				case *ast.UnaryExpr:
					if x.Op == token.SUB {
						add(x.Pos(), x.X.Pos(), "", "drop-neg")
					}
					if x.Op == token.NOT {
						add(x.Pos(), x.X.Pos(), "", "drop-not")
					}
				case *ast.IfStmt:
					add(x.Cond.Pos(), x.Cond.End(), "!("+string(src[off(x.Cond.Pos()):off(x.Cond.End())])+")", "negate-if")
				case *ast.BlockStmt:
					for _, s := range x.List {
						switch st := s.(type) {
						case *ast.ExprStmt:
							add(st.Pos(), st.End(), "{}", "del-call")
						case *ast.AssignStmt:
							if st.Tok != token.DEFINE {
								add(st.Pos(), st.End(), "{}", "del-assign")
							}
						case *ast.IncDecStmt:
							add(st.Pos(), st.End(), "{}", "del-incdec")
						}
					}
				case *ast.CaseClause:
					for _, s := range x.Body {
						switch st := s.(type) {
						case *ast.ExprStmt:
							add(st.Pos(), st.End(), "{}", "del-call")
						case *ast.AssignStmt:
							if st.Tok != token.DEFINE {
								add(st.Pos(), st.End(), "{}", "del-assign")
							}
						}
					}
				case *ast.CallExpr:
					for i := 0; i+1 < len(x.Args); i++ {
						a, b := x.Args[i], x.Args[i+1]
						as, bs := string(src[off(a.Pos()):off(a.End())]), string(src[off(b.Pos()):off(b.End())])
						if as != bs {
							add(a.Pos(), b.End(), bs+string(src[off(a.End()):off(b.Pos())])+as, "swap-args")
						}
					}
				case *ast.Ident:
					if x.Name == "true" {
						add(x.Pos(), x.End(), "false", "bool")
					} else if x.Name == "false" {
						add(x.Pos(), x.End(), "true", "bool")
					}
				}
				return true
			})
		}
		return nil
	})
	for i := range out {
		out[i].ID = i
		enc.Encode(out[i])
	}
	fmt.Fprintln(os.Stderr, len(out), "mutants")
}
