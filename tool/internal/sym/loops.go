package sym

import (
	"go/token"
	"sort"

	"golang.org/x/tools/go/ssa"
)

// LoopInfo describes a counted loop: the induction phi starts at Init, is
// increased by Step on every back edge, and the loop continues while
// phi+Offset Op Bound.
type LoopInfo struct {
	Phi    *ssa.Phi
	Init   *Term
	Step   int64
	Offset int64
	Bound  *Term
	Op     token.Token
	// IndexVal is the term the body sees for phi+Offset.
	IndexVal *Term
	swapped  bool
}

func constInt(v ssa.Value) (int64, bool) {
	c, ok := v.(*ssa.Const)
	if !ok || c.Value == nil {
		return 0, false
	}
	return Const(c.Value, c.Type()).Int64()
}

// Loop recognises the counted loop headed by block h.
func (fr *Frame) Loop(h int) (*LoopInfo, bool) {
	blk := fr.Fn.Blocks[h]
	if len(blk.Instrs) == 0 {
		return nil, false
	}
	iff, ok := blk.Instrs[len(blk.Instrs)-1].(*ssa.If)
	if !ok {
		return nil, false
	}
	cmp, ok := iff.Cond.(*ssa.BinOp)
	if !ok {
		return nil, false
	}
	if !fr.inLoop(h, blk.Succs[0].Index) || fr.inLoop(h, blk.Succs[1].Index) {
		return nil, false // body must be on the true edge, exit on the false edge
	}
	li := &LoopInfo{Op: cmp.Op}
	var phi *ssa.Phi
	x := cmp.X
	// "bound < phi" is the same test as "phi > bound"
	if p, ok := cmp.Y.(*ssa.Phi); ok && p.Block() == blk {
		if _, isPhi := cmp.X.(*ssa.Phi); !isPhi || cmp.X.(*ssa.Phi).Block() != blk {
			switch cmp.Op {
			case token.LSS:
				li.Op = token.GTR
			case token.LEQ:
				li.Op = token.GEQ
			case token.GTR:
				li.Op = token.LSS
			case token.GEQ:
				li.Op = token.LEQ
			}
			x = cmp.Y
			li.swapped = true
		}
	}
	if p, ok := x.(*ssa.Phi); ok && p.Block() == blk {
		phi = p
	} else if add, ok := x.(*ssa.BinOp); ok && add.Op == token.ADD {
		if p, ok := add.X.(*ssa.Phi); ok && p.Block() == blk {
			if c, ok := constInt(add.Y); ok {
				phi, li.Offset = p, c
			}
		}
	}
	if phi == nil {
		return nil, false
	}
	li.Phi = phi
	if li.swapped {
		li.Bound = fr.operand(cmp.X, nil)
	} else {
		li.Bound = fr.operand(cmp.Y, nil)
	}
	li.IndexVal = fr.operand(x, nil)
	// init and step from the phi edges
	for i, p := range blk.Preds {
		e := phi.Edges[i]
		if blk.Dominates(p) { // back edge
			add, ok := e.(*ssa.BinOp)
			if !ok || (add.Op != token.ADD && add.Op != token.SUB) || add.X != ssa.Value(phi) {
				return nil, false
			}
			c, ok := constInt(add.Y)
			if !ok {
				return nil, false
			}
			if add.Op == token.SUB {
				c = -c
			}
			if li.Step != 0 && li.Step != c {
				return nil, false
			}
			li.Step = c
		} else {
			if !fr.Executable(p.Index, h) {
				continue
			}
			v := fr.operand(e, nil)
			if li.Init != nil && !Eq(li.Init, v) {
				return nil, false
			}
			li.Init = v
		}
	}
	if li.Init == nil || li.Step == 0 {
		return nil, false
	}
	return li, true
}

// EdgeVal returns the value flowing into phi along its i-th edge (final state).
func (fr *Frame) EdgeVal(phi *ssa.Phi, i int) *Term {
	if i < 0 || i >= len(phi.Edges) {
		return nil
	}
	return fr.operand(phi.Edges[i], nil)
}

// Headers returns the loop header blocks of the frame's function, sorted.
func (fr *Frame) Headers() []int {
	var out []int
	for h := range fr.headers {
		out = append(out, h)
	}
	sort.Ints(out)
	return out
}

// CurrentGuard returns the absolute path condition at the instruction being evaluated.
func (fr *Frame) CurrentGuard() *Term { return fr.absGuard(fr.curBlock) }

// EdgeGuard returns the condition under which control flows along the edge from block p to block b
// (relative to the function entry within one iteration: reach of p and the branch condition), or nil.
func (fr *Frame) EdgeGuard(p, b int) *Term {
	r := fr.reach[p]
	if r == nil {
		return nil
	}
	if c := fr.edgeCond[[2]int{p, b}]; c != nil {
		return And(r, c)
	}
	return r
}

// EquivalentReach returns the reach condition of the top-most block that block b is control-equivalent to (b
// post-dominates it and it dominates b, loops terminating): the condition under which b is executed, free of the
// exit conditions of the loops that lie in between.
func (fr *Frame) EquivalentReach(b int) *Term {
	blk := fr.Fn.Blocks[b]
	best := blk
	for {
		d := fr.controlEquivalentDominator(best)
		if d == nil {
			break
		}
		best = d
	}
	return fr.reach[best.Index]
}
