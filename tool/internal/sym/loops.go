package sym

import (
	"go/constant"
	"go/token"
	"go/types"
	"sort"
	"strings"

	"golang.org/x/tools/go/ssa"
)

// LoopInfo describes a counted loop: the induction phi starts at Init, is
// increased by Step on every back edge, and the loop continues while
// phi+Offset Op Bound.
type LoopInfo struct {
	Phi    *ssa.Phi
	Init   *Term
	Step   int64
	Offset int64
	Bound  *Term
	Op     token.Token
	// IndexVal is the term the body sees for phi+Offset.
	IndexVal *Term
	swapped  bool
}

func constInt(v ssa.Value) (int64, bool) {
	c, ok := v.(*ssa.Const)
	if !ok || c.Value == nil {
		return 0, false
	}
	return Const(c.Value, c.Type()).Int64()
}

// Loop recognises the counted loop headed by block h.
func (fr *Frame) Loop(h int) (*LoopInfo, bool) {
	blk := fr.Fn.Blocks[h]
	if len(blk.Instrs) == 0 {
		return nil, false
	}
	iff, ok := blk.Instrs[len(blk.Instrs)-1].(*ssa.If)
	if !ok {
		return nil, false
	}
	cmp, ok := iff.Cond.(*ssa.BinOp)
	if !ok {
		return nil, false
	}
	if !fr.inLoop(h, blk.Succs[0].Index) || fr.inLoop(h, blk.Succs[1].Index) {
		return nil, false // body must be on the true edge, exit on the false edge
	}
	li := &LoopInfo{Op: cmp.Op}
	var phi *ssa.Phi
	x := cmp.X
	// "bound < phi" is the same test as "phi > bound"
	if p, ok := cmp.Y.(*ssa.Phi); ok && p.Block() == blk {
		if _, isPhi := cmp.X.(*ssa.Phi); !isPhi || cmp.X.(*ssa.Phi).Block() != blk {
			switch cmp.Op {
			case token.LSS:
				li.Op = token.GTR
			case token.LEQ:
				li.Op = token.GEQ
			case token.GTR:
				li.Op = token.LSS
			case token.GEQ:
				li.Op = token.LEQ
			}
			x = cmp.Y
			li.swapped = true
		}
	}
	if p, ok := x.(*ssa.Phi); ok && p.Block() == blk {
		phi = p
	} else if add, ok := x.(*ssa.BinOp); ok && add.Op == token.ADD {
		if p, ok := add.X.(*ssa.Phi); ok && p.Block() == blk {
			if c, ok := constInt(add.Y); ok {
				phi, li.Offset = p, c
			}
		}
	}
	if phi == nil {
		return nil, false
	}
	li.Phi = phi
	if li.swapped {
		li.Bound = fr.operand(cmp.X, nil)
	} else {
		li.Bound = fr.operand(cmp.Y, nil)
	}
	li.IndexVal = fr.operand(x, nil)
	// init and step from the phi edges
	for i, p := range blk.Preds {
		e := phi.Edges[i]
		if blk.Dominates(p) { // back edge
			add, ok := e.(*ssa.BinOp)
			if !ok || (add.Op != token.ADD && add.Op != token.SUB) || add.X != ssa.Value(phi) {
				return nil, false
			}
			c, ok := constInt(add.Y)
			if !ok {
				return nil, false
			}
			if add.Op == token.SUB {
				c = -c
			}
			if li.Step != 0 && li.Step != c {
				return nil, false
			}
			li.Step = c
		} else {
			if !fr.Executable(p.Index, h) {
				continue
			}
			v := fr.operand(e, nil)
			if li.Init != nil && !Eq(li.Init, v) {
				return nil, false
			}
			li.Init = v
		}
	}
	if li.Init == nil || li.Step == 0 {
		return nil, false
	}
	return li, true
}

// EdgeVal returns the value flowing into phi along its i-th edge (final state).
func (fr *Frame) EdgeVal(phi *ssa.Phi, i int) *Term {
	if i < 0 || i >= len(phi.Edges) {
		return nil
	}
	return fr.operand(phi.Edges[i], nil)
}

// Headers returns the loop header blocks of the frame's function, sorted.
func (fr *Frame) Headers() []int {
	var out []int
	for h := range fr.headers {
		out = append(out, h)
	}
	sort.Ints(out)
	return out
}

// CurrentGuard returns the absolute path condition at the instruction being evaluated.
func (fr *Frame) CurrentGuard() *Term { return fr.absGuard(fr.curBlock) }

// EdgeGuard returns the condition under which control flows along the edge from block p to block b
// (relative to the function entry within one iteration: reach of p and the branch condition), or nil.
func (fr *Frame) EdgeGuard(p, b int) *Term {
	r := fr.reach[p]
	if r == nil {
		return nil
	}
	if c := fr.edgeCond[[2]int{p, b}]; c != nil {
		return And(r, c)
	}
	return r
}

// EquivalentReach returns the reach condition of the top-most block that block b is control-equivalent to (b
// post-dominates it and it dominates b, loops terminating): the condition under which b is executed, free of the
// exit conditions of the loops that lie in between.
func (fr *Frame) EquivalentReach(b int) *Term {
	blk := fr.Fn.Blocks[b]
	best := blk
	for {
		d := fr.controlEquivalentDominator(best)
		if d == nil {
			break
		}
		best = d
	}
	return fr.reach[best.Index]
}

// InLoop reports whether block b belongs to the natural loop of this frame headed by h.
func (fr *Frame) InLoop(h, b int) bool { return fr.headers[h] && fr.inLoop(h, b) }

// ExitedLoop returns the header of the innermost loop of this frame that block b leaves early: b is outside the loop
// but every way into b comes out of the loop's body (a `return` or `break` target inside a `for`). ok is false when
// b is not such a block.
func (fr *Frame) ExitedLoop(b int) (int, bool) {
	blocks := fr.Fn.Blocks
	best, found := -1, false
	for h := range fr.headers {
		if fr.inLoop(h, b) || !blocks[h].Dominates(blocks[b]) {
			continue
		}
		// walk predecessors through blocks outside the loop; all chains must start inside the loop, not at the
		// loop's own exit test (the header)
		seen := map[int]bool{}
		var fromBody func(x int) bool
		fromBody = func(x int) bool {
			if seen[x] {
				return true
			}
			seen[x] = true
			if len(blocks[x].Preds) == 0 {
				return false
			}
			for _, p := range blocks[x].Preds {
				if p.Index == h {
					return false
				}
				if fr.inLoop(h, p.Index) {
					continue
				}
				if !blocks[h].Dominates(p) || !fromBody(p.Index) {
					return false
				}
			}
			return true
		}
		if fromBody(b) {
			if !found || fr.inLoop(best, h) {
				best, found = h, true
			}
		}
	}
	return best, found
}


func (fr *Frame) noteHeaderJoin(skey string, b int, o *Object, p Path, vs []*Term) {
	if fr.hjoin == nil {
		fr.hjoin = map[string]headerJoin{}
	}
	fr.hjoin[skey] = headerJoin{header: b, obj: o, path: p, vals: append([]*Term{}, vs...)}
}

// exitMem is the memory on the edge that leaves the loop headed by h through the loop's own test, i.e. after all
// iterations. An array that a counted loop with a constant trip count fills completely, element I on the iteration
// with index I, unconditionally, with a value that depends on I and loop-invariant values only, is known at that
// point: element k is that value at I = k. (Inside the loop, and on early exits, the array stays an opaque atom.)
func (fr *Frame) exitMem(h int, m *Mem) *Mem {
	if len(fr.hjoin) == 0 {
		return m
	}
	var li *LoopInfo
	out := m
	for skey, hj := range fr.hjoin {
		if hj.header != h {
			continue
		}
		a := fr.sticky[skey]
		if a == nil {
			continue
		}
		cur, ok := m.lookupKey(hj.obj.ID, hj.path.String())
		if !ok || !Eq(cur.val, a) {
			continue
		}
		at, isArr := a.T.Underlying().(*types.Array)
		if a.T == nil || !isArr || at.Len() > 64 {
			continue
		}
		if li == nil {
			l, ok := fr.Loop(h)
			if !ok {
				return m
			}
			li = l
		}
		i0, okI := li.Init.Int64()
		n, okN := li.Bound.Int64()
		if !okI || !okN || li.Step != 1 || li.Op != token.LSS || i0+li.Offset != 0 || n != at.Len() {
			continue
		}
		// exactly one incoming value is "the array at the loop head with element I replaced"; the others are what the
		// array was before the loop (irrelevant: every element is overwritten)
		var val *Term
		nUpd := 0
		for _, v := range hj.vals {
			if v != nil && v.Op == "upd" && Eq(v.Args[0], a) && Eq(stripConv(v.Args[1]), stripConv(li.IndexVal)) {
				val = v.Args[2]
				nUpd++
			} else if v != nil && Mentions(v, a.Key()) {
				nUpd = 99 // the array is also carried round the loop in another way (conditional store, second store)
			}
		}
		if nUpd != 1 || val == nil {
			continue
		}
		phiAtom := fr.vals[li.Phi]
		if phiAtom == nil || phiAtom.Op != "atom" {
			continue
		}
		variant := false
		Walk(val, func(x *Term) bool {
			if x.Op == "atom" && x.Name != phiAtom.Name &&
				(strings.HasPrefix(x.Name, "phi#"+fr.ID+"#") || strings.HasPrefix(x.Name, "phi#"+fr.ID+"/") ||
					strings.HasPrefix(x.Name, "mem#"+fr.ID+"#") || strings.HasPrefix(x.Name, "mem#"+fr.ID+"/")) {
				variant = true
			}
			return !variant
		})
		if variant {
			continue
		}
		elems := make([]*Term, n)
		for k := int64(0); k < n; k++ {
			elems[k] = Subst(val, phiAtom, Const(constant.MakeInt64(k-li.Offset), phiAtom.T))
		}
		if out == m {
			out = m.Clone()
		}
		out.put(hj.obj, hj.path, &Term{Op: "agg", Args: elems, T: a.T})
	}
	return out
}

func stripConv(t *Term) *Term {
	for t != nil && t.Op == "conv" && len(t.Args) == 1 {
		t = t.Args[0]
	}
	return t
}
