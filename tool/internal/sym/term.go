// Package sym is an abstract interpreter over go/ssa in the style of sparse
// conditional constant propagation, whose value lattice is
//
//	⊥  <  term  <  opaque atom
//
// where a term is a hash-consed expression over constants, function
// constants, identity-carrying symbols (parameters, initial field contents,
// results of opaque calls) and gated joins (ite). Loops are solved by
// fixpoint: a loop-carried value that is not invariant becomes an opaque
// atom named after its phi. No input value is ever enumerated and nothing is
// executed; "keys" pin a dispatch value (an opcode byte, a mode field) to one
// constant of a finite set so that the dispatch resolves.
package sym

import (
	"fmt"
	"go/constant"
	"go/token"
	"go/types"
	"sort"
	"strconv"
	"strings"

	"golang.org/x/tools/go/ssa"
)

// Term is an immutable expression. Terms are compared by Key().
type Term struct {
	Op   string
	Args []*Term
	C    constant.Value // Op == "const" (nil C means the nil constant)
	T    types.Type     // value type when known
	Name string
	Fn   *ssa.Function // Op == "fn" / "closure"
	Obj  *Object       // Op == "ptr"
	Path Path          // Op == "ptr"
	Win  *Window       // Op == "ptr" with a symbolic index: the slice window the index ranges over
	// Mix: for the opaque stand-in of a large, partly initialised aggregate read from a zero-initialised object,
	// the cells it was read from (paths relative to the aggregate), so that a whole-value copy keeps them.
	Mix []MixCell
	key string
}

// MixCell is one initialised part of a large aggregate value.
type MixCell struct {
	Rel Path
	Val *Term
}

// Window is a constant index range [Lo,Hi) within the array a pointer with a
// symbolic index element may address.
type Window struct{ Lo, Hi int64 }

// Object is an abstract memory object.
type Object struct {
	ID   string
	Kind string     // "alloc", "param", "global", "deref"
	T    types.Type // pointee type
	G    *ssa.Global
}

// PathElem is one step into an object: a struct field, a constant index or a
// symbolic index.
type PathElem struct {
	Field int   // >=0: field index
	Index int64 // if Field<0 && Sym==nil
	Sym   *Term // symbolic index
}

type Path []PathElem

func (p Path) String() string {
	var sb strings.Builder
	for _, e := range p {
		switch {
		case e.Field >= 0:
			fmt.Fprintf(&sb, ".%d", e.Field)
		case e.Sym != nil:
			fmt.Fprintf(&sb, "[%s]", e.Sym.Key())
		default:
			fmt.Fprintf(&sb, "[%d]", e.Index)
		}
	}
	return sb.String()
}

func (p Path) hasSym() int {
	for i, e := range p {
		if e.Field < 0 && e.Sym != nil {
			return i
		}
	}
	return -1
}

func (p Path) extend(e PathElem) Path {
	q := make(Path, len(p)+1)
	copy(q, p)
	q[len(p)] = e
	return q
}

// Key returns the canonical string of the term.
func (t *Term) Key() string {
	if t == nil {
		return "<nil>"
	}
	if t.key != "" {
		return t.key
	}
	var sb strings.Builder
	switch t.Op {
	case "const":
		if t.C == nil {
			sb.WriteString("nil")
			if t.T != nil {
				sb.WriteString(":" + typeKey(t.T))
			}
		} else {
			sb.WriteString(t.C.ExactString())
			if t.C.Kind() == constant.String {
				// ExactString quotes
			}
		}
	case "atom":
		sb.WriteString("$" + t.Name)
	case "fn":
		sb.WriteString("fn:" + t.Fn.String())
	case "closure":
		sb.WriteString("closure:" + t.Fn.String() + "(")
		for i, a := range t.Args {
			if i > 0 {
				sb.WriteString(",")
			}
			sb.WriteString(a.Key())
		}
		sb.WriteString(")")
	case "ptr":
		sb.WriteString("&" + t.Obj.ID + t.Path.String())
		if t.Win != nil {
			fmt.Fprintf(&sb, "{%d:%d}", t.Win.Lo, t.Win.Hi)
		}
	default:
		sb.WriteString(t.Op)
		if t.Name != "" {
			sb.WriteString(":" + t.Name)
		}
		if t.Op == "conv" || t.Op == "zero" || t.Op == "makeiface" || t.Op == "typeassert" {
			sb.WriteString(":" + typeKey(t.T))
		}
		sb.WriteString("(")
		for i, a := range t.Args {
			if i > 0 {
				sb.WriteString(",")
			}
			sb.WriteString(a.Key())
		}
		sb.WriteString(")")
	}
	t.key = sb.String()
	return t.key
}

func (t *Term) String() string { return t.Key() }

func typeKey(t types.Type) string {
	if t == nil {
		return "?"
	}
	return types.TypeString(t, func(p *types.Package) string { return p.Name() })
}

// Eq reports structural equality.
func Eq(a, b *Term) bool {
	if a == nil || b == nil {
		return a == b
	}
	return a == b || a.Key() == b.Key()
}

// ---- constructors ----

var (
	True  = &Term{Op: "const", C: constant.MakeBool(true), T: types.Typ[types.Bool]}
	False = &Term{Op: "const", C: constant.MakeBool(false), T: types.Typ[types.Bool]}
)

func Const(c constant.Value, t types.Type) *Term { return &Term{Op: "const", C: c, T: t} }
func Nil(t types.Type) *Term                     { return &Term{Op: "const", C: nil, T: t} }
func Int(v int64) *Term {
	return &Term{Op: "const", C: constant.MakeInt64(v), T: types.Typ[types.Int]}
}
func Bool(b bool) *Term {
	if b {
		return True
	}
	return False
}
func Atom(name string, t types.Type) *Term { return &Term{Op: "atom", Name: name, T: t} }
func FnTerm(fn *ssa.Function) *Term        { return &Term{Op: "fn", Fn: fn, T: fn.Signature} }
func Ptr(o *Object, p Path) *Term          { return &Term{Op: "ptr", Obj: o, Path: p} }
func Tuple(args ...*Term) *Term            { return &Term{Op: "tuple", Args: args} }
func Call(name string, t types.Type, args ...*Term) *Term {
	return &Term{Op: "call", Name: name, Args: args, T: t}
}
func Op(op, name string, t types.Type, args ...*Term) *Term {
	return &Term{Op: op, Name: name, Args: args, T: t}
}

func (t *Term) IsConst() bool { return t != nil && t.Op == "const" }
func (t *Term) IsNil() bool   { return t != nil && t.Op == "const" && t.C == nil }

// Int64 returns the integer value of an integer constant term.
func (t *Term) Int64() (int64, bool) {
	if t == nil || t.Op != "const" || t.C == nil {
		return 0, false
	}
	if t.C.Kind() != constant.Int {
		// floats holding integral values are not ints
		return 0, false
	}
	if v, ok := constant.Int64Val(t.C); ok {
		return v, true
	}
	if v, ok := constant.Uint64Val(t.C); ok {
		return int64(v), true
	}
	return 0, false
}

func (t *Term) BoolVal() (bool, bool) {
	if t == nil || t.Op != "const" || t.C == nil || t.C.Kind() != constant.Bool {
		return false, false
	}
	return constant.BoolVal(t.C), true
}

func (t *Term) StringVal() (string, bool) {
	if t == nil || t.Op != "const" || t.C == nil || t.C.Kind() != constant.String {
		return "", false
	}
	return constant.StringVal(t.C), true
}

// ---- boolean connectives over guards ----

func Not(a *Term) *Term {
	if b, ok := a.BoolVal(); ok {
		return Bool(!b)
	}
	if a.Op == "not" {
		return a.Args[0]
	}
	return &Term{Op: "not", Args: []*Term{a}, T: types.Typ[types.Bool]}
}

func conjuncts(a *Term) []*Term {
	if a.Op == "and" {
		return a.Args
	}
	return []*Term{a}
}

func And(as ...*Term) *Term {
	seen := map[string]*Term{}
	var out []*Term
	for _, a := range as {
		for _, c := range conjuncts(a) {
			if b, ok := c.BoolVal(); ok {
				if !b {
					return False
				}
				continue
			}
			if _, dup := seen[c.Key()]; dup {
				continue
			}
			seen[c.Key()] = c
			out = append(out, c)
		}
	}
	for _, c := range out {
		if _, ok := seen[Not(c).Key()]; ok {
			return False
		}
	}
	if len(out) == 0 {
		return True
	}
	if len(out) == 1 {
		return out[0]
	}
	sort.Slice(out, func(i, j int) bool { return out[i].Key() < out[j].Key() })
	return &Term{Op: "and", Args: out, T: types.Typ[types.Bool]}
}

func Or(as ...*Term) *Term {
	var out []*Term
	seen := map[string]bool{}
	for _, a := range as {
		var ds []*Term
		if a.Op == "or" {
			ds = a.Args
		} else {
			ds = []*Term{a}
		}
		for _, d := range ds {
			if b, ok := d.BoolVal(); ok {
				if b {
					return True
				}
				continue
			}
			if seen[d.Key()] {
				continue
			}
			seen[d.Key()] = true
			out = append(out, d)
		}
	}
	// merge pairs that differ in exactly one complementary literal: (A∧c) ∨ (A∧¬c) = A
	for changed := true; changed; {
		changed = false
	outer:
		for i := 0; i < len(out); i++ {
			for j := i + 1; j < len(out); j++ {
				if m := mergeComplement(out[i], out[j]); m != nil {
					out[i] = m
					out = append(out[:j], out[j+1:]...)
					changed = true
					break outer
				}
			}
		}
		// absorption: A ∨ (A∧B) = A
		for i := 0; i < len(out) && !changed; i++ {
			for j := 0; j < len(out) && !changed; j++ {
				if i != j && implies(out[j], out[i]) {
					out = append(out[:j], out[j+1:]...)
					changed = true
				}
			}
		}
	}
	for _, d := range out {
		if b, ok := d.BoolVal(); ok && b {
			return True
		}
	}
	if len(out) == 0 {
		return False
	}
	if len(out) == 1 {
		return out[0]
	}
	sort.Slice(out, func(i, j int) bool { return out[i].Key() < out[j].Key() })
	return &Term{Op: "or", Args: out, T: types.Typ[types.Bool]}
}

// implies reports whether conjunction a syntactically implies conjunction b
// (every conjunct of b occurs in a).
func implies(a, b *Term) bool {
	ca := map[string]bool{}
	for _, c := range conjuncts(a) {
		ca[c.Key()] = true
	}
	for _, c := range conjuncts(b) {
		if !ca[c.Key()] {
			return false
		}
	}
	return true
}

func mergeComplement(a, b *Term) *Term {
	ca, cb := conjuncts(a), conjuncts(b)
	if len(ca) != len(cb) {
		return nil
	}
	mb := map[string]bool{}
	for _, c := range cb {
		mb[c.Key()] = true
	}
	var odd *Term
	var rest []*Term
	for _, c := range ca {
		if mb[c.Key()] {
			rest = append(rest, c)
			continue
		}
		if odd != nil {
			return nil
		}
		odd = c
	}
	if odd == nil {
		return a
	}
	if !mb[Not(odd).Key()] {
		return nil
	}
	return And(rest...)
}

// Ite builds a gated join.
func Ite(c, a, b *Term) *Term {
	if v, ok := c.BoolVal(); ok {
		if v {
			return a
		}
		return b
	}
	if Eq(a, b) {
		return a
	}
	if c.Op == "not" {
		return Ite(c.Args[0], b, a)
	}
	t := a.T
	if t == nil {
		t = b.T
	}
	// boolean-valued ite with a constant arm is a connective
	if av, ok := a.BoolVal(); ok {
		if av {
			return Or(c, b)
		}
		return And(Not(c), b)
	}
	if bv, ok := b.BoolVal(); ok {
		if bv {
			return Or(Not(c), a)
		}
		return And(c, a)
	}
	// boolean-valued ite in general: a propositional formula (so that path conditions stay within what the
	// truth-table reasoning understands); ite(c, c, e) = c or e, ite(c, a, c) = c and a
	if isBoolTerm(a) && isBoolTerm(b) {
		if Eq(c, a) {
			return Or(c, b)
		}
		if Eq(c, b) {
			return And(c, a)
		}
		if len(a.Key())+len(b.Key())+2*len(c.Key()) < 6000 {
			return Or(And(c, a), And(Not(c), b))
		}
	}
	return &Term{Op: "ite", Args: []*Term{c, a, b}, T: t}
}

// ---- arithmetic with constant folding ----

// IntSize is the bit width of int/uint/uintptr on the analysed target.
var IntSize uint = 64

func basicInfo(t types.Type) (bits uint, unsigned, isInt, isFloat bool) {
	if t == nil {
		return 0, false, false, false
	}
	b, ok := t.Underlying().(*types.Basic)
	if !ok {
		return 0, false, false, false
	}
	switch b.Kind() {
	case types.Int8:
		return 8, false, true, false
	case types.Int16:
		return 16, false, true, false
	case types.Int32:
		return 32, false, true, false
	case types.Int64:
		return 64, false, true, false
	case types.Int:
		return IntSize, false, true, false
	case types.Uint8:
		return 8, true, true, false
	case types.Uint16:
		return 16, true, true, false
	case types.Uint32:
		return 32, true, true, false
	case types.Uint64:
		return 64, true, true, false
	case types.Uint, types.Uintptr:
		return IntSize, true, true, false
	case types.Float32:
		return 32, false, false, true
	case types.Float64, types.UntypedFloat:
		return 64, false, false, true
	case types.UntypedInt, types.UntypedRune:
		return 0, false, true, false
	}
	return 0, false, false, false
}

// wrapInt reduces an integer constant to the range of type t.
func wrapInt(c constant.Value, t types.Type) constant.Value {
	bits, unsigned, isInt, _ := basicInfo(t)
	if !isInt || bits == 0 || c.Kind() != constant.Int {
		return c
	}
	mod := constant.Shift(constant.MakeInt64(1), token.SHL, bits)
	m := constant.BinaryOp(c, token.REM, mod) // sign follows dividend
	if constant.Sign(m) < 0 {
		m = constant.BinaryOp(m, token.ADD, mod)
	}
	if !unsigned {
		half := constant.Shift(constant.MakeInt64(1), token.SHL, bits-1)
		if constant.Compare(m, token.GEQ, half) {
			m = constant.BinaryOp(m, token.SUB, mod)
		}
	}
	return m
}

var cmpOps = map[token.Token]bool{token.EQL: true, token.NEQ: true, token.LSS: true, token.LEQ: true, token.GTR: true, token.GEQ: true}

// Bin builds a binary operation of result type t.
func Bin(op token.Token, a, b *Term, t types.Type) *Term {
	if cmpOps[op] {
		return cmp(op, a, b)
	}
	if a.Op == "const" && b.Op == "const" && a.C != nil && b.C != nil {
		if r := foldBin(op, a.C, b.C, t); r != nil {
			return Const(r, t)
		}
	}
	// push through ite when the other side is constant (keeps dispatch tables resolvable)
	if a.Op == "ite" && b.Op == "const" {
		return Ite(a.Args[0], Bin(op, a.Args[1], b, t), Bin(op, a.Args[2], b, t))
	}
	if b.Op == "ite" && a.Op == "const" {
		return Ite(b.Args[0], Bin(op, a, b.Args[1], t), Bin(op, a, b.Args[2], t))
	}
	_, _, isInt, _ := basicInfo(t)
	if isInt {
		// cheap integer identities used by offset tracking
		if bv, ok := b.Int64(); ok && bv == 0 && (op == token.ADD || op == token.SUB || op == token.OR || op == token.XOR || op == token.SHL || op == token.SHR) {
			return a
		}
		if av, ok := a.Int64(); ok && av == 0 && (op == token.ADD || op == token.OR || op == token.XOR) {
			return b
		}
		// (x + c1) + c2 -> x + (c1+c2)
		if op == token.ADD || op == token.SUB {
			if bv, ok := b.Int64(); ok && a.Op == "bin" && (a.Name == "+" || a.Name == "-") {
				if cv, ok2 := a.Args[1].Int64(); ok2 {
					if a.Name == "-" {
						cv = -cv
					}
					if op == token.SUB {
						bv = -bv
					}
					s := cv + bv
					if s == 0 {
						return a.Args[0]
					}
					if s > 0 {
						return &Term{Op: "bin", Name: "+", Args: []*Term{a.Args[0], Const(constant.MakeInt64(s), t)}, T: t}
					}
					return &Term{Op: "bin", Name: "-", Args: []*Term{a.Args[0], Const(constant.MakeInt64(-s), t)}, T: t}
				}
			}
		}
		// x - x = 0
		if op == token.SUB && Eq(a, b) {
			return Const(constant.MakeInt64(0), t)
		}
		// (x + y) - x = y ; (x + y) - y = x
		if op == token.SUB && a.Op == "bin" && a.Name == "+" {
			if Eq(a.Args[0], b) {
				return a.Args[1]
			}
			if Eq(a.Args[1], b) {
				return a.Args[0]
			}
		}
	}
	return &Term{Op: "bin", Name: op.String(), Args: []*Term{a, b}, T: t}
}

func foldBin(op token.Token, x, y constant.Value, t types.Type) (r constant.Value) {
	defer func() {
		if recover() != nil {
			r = nil
		}
	}()
	_, _, isInt, isFloat := basicInfo(t)
	switch op {
	case token.ADD, token.SUB, token.MUL:
		if x.Kind() == constant.String {
			if op == token.ADD {
				return constant.BinaryOp(x, op, y)
			}
			return nil
		}
		return wrapInt(constant.BinaryOp(x, op, y), t)
	case token.QUO:
		if constant.Sign(y) == 0 {
			return nil
		}
		if isInt {
			return wrapInt(constant.BinaryOp(constant.ToInt(x), token.QUO_ASSIGN, constant.ToInt(y)), t)
		}
		if isFloat {
			return constant.BinaryOp(constant.ToFloat(x), token.QUO, constant.ToFloat(y))
		}
		return nil
	case token.REM:
		if constant.Sign(y) == 0 || !isInt {
			return nil
		}
		return wrapInt(constant.BinaryOp(x, token.REM, y), t)
	case token.AND, token.OR, token.XOR, token.AND_NOT:
		if !isInt {
			return nil
		}
		// operate on the two's-complement representation for signed values
		return wrapInt(constant.BinaryOp(x, op, y), t)
	case token.SHL, token.SHR:
		s, ok := constant.Uint64Val(y)
		if !ok || s > 128 {
			return nil
		}
		return wrapInt(constant.Shift(x, op, uint(s)), t)
	}
	return nil
}

func cmp(op token.Token, a, b *Term) *Term {
	bt := types.Typ[types.Bool]
	if a.Op == "const" && b.Op == "const" {
		if a.C == nil || b.C == nil {
			eq := a.C == nil && b.C == nil
			switch op {
			case token.EQL:
				return Bool(eq)
			case token.NEQ:
				return Bool(!eq)
			}
		} else if a.C.Kind() == b.C.Kind() || (a.C.Kind() != constant.String && a.C.Kind() != constant.Bool && b.C.Kind() != constant.String && b.C.Kind() != constant.Bool) {
			return Bool(constant.Compare(a.C, op, b.C))
		}
	}
	// a boolean compared with a boolean constant is the boolean or its negation
	if op == token.EQL || op == token.NEQ {
		for k := 0; k < 2; k++ {
			x, kst := a, b
			if k == 1 {
				x, kst = b, a
			}
			if bv, isC := kst.BoolVal(); isC && x.Op != "const" {
				if _, xIsC := x.BoolVal(); !xIsC && isBoolTerm(x) {
					if bv == (op == token.EQL) {
						return x
					}
					return Not(x)
				}
			}
		}
	}
	// aggregates compare component-wise
	if op == token.EQL || op == token.NEQ {
		ea, eb := expandAgg(a), expandAgg(b)
		if ea != nil && eb != nil && len(ea) == len(eb) {
			var parts []*Term
			for i := range ea {
				parts = append(parts, cmp(token.EQL, ea[i], eb[i]))
			}
			r := And(parts...)
			if op == token.NEQ {
				return Not(r)
			}
			return r
		}
	}
	// known non-nil things compared with nil
	nn := func(x *Term) bool {
		switch x.Op {
		case "fn", "closure", "ptr", "makeiface":
			return true
		}
		return false
	}
	if (op == token.EQL || op == token.NEQ) && ((a.IsNil() && nn(b)) || (b.IsNil() && nn(a))) {
		return Bool(op == token.NEQ)
	}
	// interface holding a constant of a named type compared with another such: equal iff same key
	if (op == token.EQL || op == token.NEQ) && a.Op == "makeiface" && b.Op == "makeiface" && a.Args[0].IsConst() && b.Args[0].IsConst() {
		eq := Eq(a, b)
		return Bool(eq == (op == token.EQL))
	}
	if a.Op == "ite" && b.Op == "const" {
		return Ite(a.Args[0], cmp(op, a.Args[1], b), cmp(op, a.Args[2], b))
	}
	if b.Op == "ite" && a.Op == "const" {
		return Ite(b.Args[0], cmp(op, a, b.Args[1]), cmp(op, a, b.Args[2]))
	}
	if (op == token.EQL || op == token.NEQ) && Eq(a, b) {
		_, _, _, isFloat := basicInfo(a.T)
		if !isFloat && a.T != nil {
			return Bool(op == token.EQL)
		}
	}
	// canonical form: a > b is b < a, a >= b is b <= a
	if op == token.GTR {
		return cmp(token.LSS, b, a)
	}
	if op == token.GEQ {
		return cmp(token.LEQ, b, a)
	}
	// canonical form: express != as not(==) so that both edges of a branch share one atom
	if op == token.NEQ {
		return Not(&Term{Op: "bin", Name: "==", Args: []*Term{a, b}, T: bt})
	}
	return &Term{Op: "bin", Name: op.String(), Args: []*Term{a, b}, T: bt}
}

// Un builds a unary operation (-, !, ^).
func Un(op token.Token, a *Term, t types.Type) *Term {
	if op == token.NOT {
		return Not(a)
	}
	if a.Op == "const" && a.C != nil {
		switch op {
		case token.SUB:
			return Const(wrapInt(constant.UnaryOp(token.SUB, a.C, 0), t), t)
		case token.XOR:
			bits, unsigned, isInt, _ := basicInfo(t)
			if isInt && bits > 0 {
				if unsigned {
					return Const(wrapInt(constant.UnaryOp(token.XOR, a.C, bits), t), t)
				}
				return Const(wrapInt(constant.UnaryOp(token.XOR, a.C, 0), t), t)
			}
		}
	}
	if a.Op == "ite" {
		return Ite(a.Args[0], Un(op, a.Args[1], t), Un(op, a.Args[2], t))
	}
	return &Term{Op: "un", Name: op.String(), Args: []*Term{a}, T: t}
}

// Conv builds a numeric/string conversion to type t.
func Conv(a *Term, t types.Type) *Term {
	if a.T != nil && types.Identical(a.T, t) {
		return a
	}
	if a.Op == "const" && a.C != nil {
		_, _, isInt, isFloat := basicInfo(t)
		switch a.C.Kind() {
		case constant.Int:
			if isInt {
				return Const(wrapInt(a.C, t), t)
			}
			if isFloat {
				return Const(constant.ToFloat(a.C), t)
			}
		case constant.Float:
			if isFloat {
				return Const(a.C, t) // over the reals: rounding is never decided
			}
			if isInt {
				// truncate toward zero
				f, _ := constant.Float64Val(a.C)
				if f == f && f > -9e18 && f < 9e18 {
					return Const(wrapInt(constant.MakeInt64(int64(f)), t), t)
				}
			}
		case constant.String:
			if b, ok := t.Underlying().(*types.Basic); ok && b.Info()&types.IsString != 0 {
				return Const(a.C, t)
			}
		case constant.Bool:
			return Const(a.C, t)
		}
	}
	if a.Op == "ite" {
		return Ite(a.Args[0], Conv(a.Args[1], t), Conv(a.Args[2], t))
	}
	return &Term{Op: "conv", Args: []*Term{a}, T: t}
}

// Zero returns the zero value of type t.
func Zero(t types.Type) *Term {
	switch u := t.Underlying().(type) {
	case *types.Basic:
		switch {
		case u.Info()&types.IsBoolean != 0:
			return Const(constant.MakeBool(false), t)
		case u.Info()&types.IsInteger != 0:
			return Const(constant.MakeInt64(0), t)
		case u.Info()&types.IsFloat != 0:
			return Const(constant.ToFloat(constant.MakeInt64(0)), t)
		case u.Info()&types.IsString != 0:
			return Const(constant.MakeString(""), t)
		}
	case *types.Pointer, *types.Slice, *types.Map, *types.Chan, *types.Signature, *types.Interface:
		return Nil(t)
	}
	return &Term{Op: "zero", T: t}
}

// Field projects field i out of a struct-valued term.
func Field(a *Term, i int, ft types.Type) *Term {
	switch a.Op {
	case "zero":
		return Zero(ft)
	case "agg":
		if i < len(a.Args) {
			return a.Args[i]
		}
	case "ite":
		return Ite(a.Args[0], Field(a.Args[1], i, ft), Field(a.Args[2], i, ft))
	}
	return &Term{Op: "field", Name: strconv.Itoa(i), Args: []*Term{a}, T: ft}
}

// Index projects element idx out of an array-valued term.
func Index(a, idx *Term, et types.Type) *Term {
	if k, ok := idx.Int64(); ok {
		switch a.Op {
		case "zero":
			return Zero(et)
		case "agg":
			if k >= 0 && int(k) < len(a.Args) {
				return a.Args[k]
			}
		case "upd":
			if j, ok2 := a.Args[1].Int64(); ok2 {
				if j == k {
					return a.Args[2]
				}
				return Index(a.Args[0], idx, et)
			}
		case "const":
			if s, ok2 := a.StringVal(); ok2 && k >= 0 && int(k) < len(s) {
				return Const(constant.MakeInt64(int64(s[k])), et)
			}
		case "ite":
			return Ite(a.Args[0], Index(a.Args[1], idx, et), Index(a.Args[2], idx, et))
		}
	}
	if a.Op == "upd" && Eq(a.Args[1], idx) {
		return a.Args[2]
	}
	if a.Op == "zero" {
		return Zero(et)
	}
	return &Term{Op: "index", Args: []*Term{a, idx}, T: et}
}

// Extract projects component k of a tuple.
func Extract(a *Term, k int, t types.Type) *Term {
	switch a.Op {
	case "tuple":
		if k < len(a.Args) {
			return a.Args[k]
		}
	case "ite":
		return Ite(a.Args[0], Extract(a.Args[1], k, t), Extract(a.Args[2], k, t))
	}
	return &Term{Op: "extract", Name: strconv.Itoa(k), Args: []*Term{a}, T: t}
}

// Walk visits t and all sub-terms (pre-order); fn returning false prunes.
func Walk(t *Term, fn func(*Term) bool) {
	if t == nil || !fn(t) {
		return
	}
	for _, a := range t.Args {
		Walk(a, fn)
	}
	if t.Op == "ptr" {
		for _, e := range t.Path {
			if e.Sym != nil {
				Walk(e.Sym, fn)
			}
		}
	}
}

// Mentions reports whether t contains a sub-term with the given key.
func Mentions(t *Term, key string) bool {
	found := false
	Walk(t, func(x *Term) bool {
		if found {
			return false
		}
		if x.Key() == key {
			found = true
			return false
		}
		return true
	})
	return found
}

// Subst replaces every sub-term whose key equals from.Key() by to, rebuilding
// with the simplifying constructors.
func Subst(t, from, to *Term) *Term {
	if t == nil {
		return nil
	}
	if t.Key() == from.Key() {
		return to
	}
	if len(t.Args) == 0 {
		return t
	}
	changed := false
	args := make([]*Term, len(t.Args))
	for i, a := range t.Args {
		args[i] = Subst(a, from, to)
		if args[i] != a {
			changed = true
		}
	}
	if !changed {
		return t
	}
	return Rebuild(t, args)
}

// Rebuild re-creates t with new arguments through the simplifying constructors.
func Rebuild(t *Term, args []*Term) *Term {
	switch t.Op {
	case "bin":
		return Bin(tokenOf(t.Name), args[0], args[1], t.T)
	case "un":
		return Un(tokenOf(t.Name), args[0], t.T)
	case "not":
		return Not(args[0])
	case "and":
		return And(args...)
	case "or":
		return Or(args...)
	case "ite":
		return Ite(args[0], args[1], args[2])
	case "conv":
		return Conv(args[0], t.T)
	case "field":
		i, _ := strconv.Atoi(t.Name)
		return Field(args[0], i, t.T)
	case "index":
		return Index(args[0], args[1], t.T)
	case "extract":
		k, _ := strconv.Atoi(t.Name)
		return Extract(args[0], k, t.T)
	case "call":
		n := *t
		n.Args = args
		n.key = ""
		return FoldCall(&n)
	}
	n := *t
	n.Args = args
	n.key = ""
	return &n
}

var tokByName = map[string]token.Token{}

func init() {
	for _, tk := range []token.Token{token.ADD, token.SUB, token.MUL, token.QUO, token.REM, token.AND, token.OR,
		token.XOR, token.SHL, token.SHR, token.AND_NOT, token.EQL, token.NEQ, token.LSS, token.LEQ, token.GTR, token.GEQ, token.NOT} {
		tokByName[tk.String()] = tk
	}
}

func tokenOf(name string) token.Token { return tokByName[name] }

// TokenOf exposes the operator token of a "bin"/"un" term.
func TokenOf(t *Term) token.Token { return tokByName[t.Name] }

// TermCase is one leaf of a term whose top-level structure (through tuples)
// contains gated joins.
type TermCase struct {
	Conds []*Term
	Val   *Term
}

func flattenConds(cs []*Term) []*Term {
	var out []*Term
	seen := map[string]bool{}
	var add func(c *Term)
	add = func(c *Term) {
		if c.Op == "and" {
			for _, a := range c.Args {
				add(a)
			}
			return
		}
		if c.Op == "not" && c.Args[0].Op == "or" {
			for _, a := range c.Args[0].Args {
				add(Not(a))
			}
			return
		}
		if b, ok := c.BoolVal(); ok && b {
			return
		}
		if !seen[c.Key()] {
			seen[c.Key()] = true
			out = append(out, c)
		}
	}
	for _, c := range cs {
		add(c)
	}
	return out
}

// CondsContradict reports whether the conjunction of cs is syntactically
// unsatisfiable: it contains x and not(x), false, not(and(xs)) with every x
// present, or or(xs) with every not(x) present.
func CondsContradict(cs []*Term) bool { return condsContradict(cs) }

func condsContradict(cs []*Term) bool {
	cs = flattenConds(cs)
	// propositional atoms: maximal sub-terms that are not and/or/not
	idx := map[string]int{}
	var collect func(t *Term)
	collect = func(t *Term) {
		switch t.Op {
		case "and", "or", "not":
			for _, a := range t.Args {
				collect(a)
			}
		default:
			if t.Op == "ite" && isBoolTerm(t.Args[1]) && isBoolTerm(t.Args[2]) {
				for _, a := range t.Args {
					collect(a)
				}
				return
			}
			if _, ok := t.BoolVal(); ok {
				return
			}
			if _, ok := idx[t.Key()]; !ok {
				idx[t.Key()] = len(idx)
			}
		}
	}
	for _, c := range cs {
		collect(c)
	}
	if len(idx) > 20 {
		// too many atoms for a truth table: syntactic test only
		m := map[string]bool{}
		for _, c := range cs {
			m[c.Key()] = true
		}
		for _, c := range cs {
			if m[Not(c).Key()] {
				return true
			}
			if b, ok := c.BoolVal(); ok && !b {
				return true
			}
		}
		return false
	}
	var eval func(t *Term, asg uint) bool
	eval = func(t *Term, asg uint) bool {
		switch t.Op {
		case "and":
			for _, a := range t.Args {
				if !eval(a, asg) {
					return false
				}
			}
			return true
		case "or":
			for _, a := range t.Args {
				if eval(a, asg) {
					return true
				}
			}
			return false
		case "not":
			return !eval(t.Args[0], asg)
		case "ite":
			if isBoolTerm(t.Args[1]) && isBoolTerm(t.Args[2]) {
				if eval(t.Args[0], asg) {
					return eval(t.Args[1], asg)
				}
				return eval(t.Args[2], asg)
			}
		}
		if b, ok := t.BoolVal(); ok {
			return b
		}
		return asg&(1<<uint(idx[t.Key()])) != 0
	}
	n := uint(len(idx))
	for asg := uint(0); asg < 1<<n; asg++ {
		ok := true
		for _, c := range cs {
			if !eval(c, asg) {
				ok = false
				break
			}
		}
		if ok {
			return false // satisfiable as a propositional formula
		}
	}
	return true
}

// Cases expands gated joins at the top of t and inside tuples into a list of
// (conditions, ite-free-at-top value) leaves. Returns nil if more than max
// leaves would result.
func Cases(t *Term, max int) []TermCase { return CasesUnder(nil, t, max) }

// CasesUnder is Cases with an initial list of conditions known to hold; leaves
// contradicting them are dropped.
func CasesUnder(pre []*Term, t *Term, max int) []TermCase {
	out := casesRec(t, max)
	if out == nil {
		return nil
	}
	if len(pre) == 0 {
		return out
	}
	var kept []TermCase
	for _, x := range out {
		cs := flattenConds(append(append([]*Term{}, pre...), x.Conds...))
		if !condsContradict(cs) {
			kept = append(kept, TermCase{cs, x.Val})
		}
	}
	return kept
}

func casesRec(t *Term, max int) []TermCase {
	var rec func(t *Term) []TermCase
	rec = func(t *Term) []TermCase {
		switch t.Op {
		case "ite":
			var out []TermCase
			for _, x := range rec(t.Args[1]) {
				cs := append([]*Term{t.Args[0]}, x.Conds...)
				if !condsContradict(cs) {
					out = append(out, TermCase{cs, x.Val})
				}
			}
			nc := Not(t.Args[0])
			for _, x := range rec(t.Args[2]) {
				cs := append([]*Term{nc}, x.Conds...)
				if !condsContradict(cs) {
					out = append(out, TermCase{cs, x.Val})
				}
			}
			return out
		case "tuple":
			acc := []TermCase{{nil, &Term{Op: "tuple"}}}
			for _, a := range t.Args {
				var next []TermCase
				for _, pre := range acc {
					for _, x := range rec(a) {
						cs := append(append([]*Term{}, pre.Conds...), x.Conds...)
						// dedupe
						seen := map[string]bool{}
						var ds []*Term
						for _, c := range cs {
							if !seen[c.Key()] {
								seen[c.Key()] = true
								ds = append(ds, c)
							}
						}
						if condsContradict(ds) {
							continue
						}
						nt := &Term{Op: "tuple", Args: append(append([]*Term{}, pre.Val.Args...), x.Val)}
						next = append(next, TermCase{ds, nt})
						if max > 0 && len(next) > max {
							return nil
						}
					}
				}
				acc = next
			}
			return acc
		}
		return []TermCase{{nil, t}}
	}
	out := rec(t)
	if max > 0 && len(out) > max {
		return nil
	}
	return out
}

// WithKey returns a placeholder term whose key is exactly key; it is only
// meaningful as the "from" argument of Subst.
func WithKey(key string) *Term { return &Term{Op: "key", key: key} }

// FoldCall simplifies calls of a few pure standard-library functions on
// constant arguments.
func FoldCall(t *Term) *Term {
	if t.Op != "call" || len(t.Args) != 1 || !t.Args[0].IsConst() || t.Args[0].C == nil {
		return t
	}
	c := t.Args[0].C
	switch t.Name {
	case "math.Float32frombits":
		if v, ok := constant.Uint64Val(c); ok {
			switch v {
			case 0x7f800000:
				return Atom("+Inf", t.T)
			case 0xff800000:
				return Atom("-Inf", t.T)
			case 0:
				return Const(constant.ToFloat(constant.MakeInt64(0)), t.T)
			}
		}
	case "math.Abs":
		if constant.Sign(c) < 0 {
			return Const(constant.UnaryOp(token.SUB, c, 0), t.T)
		}
		return Const(c, t.T)
	case "math.Floor", "math.Ceil":
		f := constant.ToFloat(c)
		if f.Kind() != constant.Float {
			return t
		}
		num, den := constant.Num(f), constant.Denom(f)
		q := constant.BinaryOp(num, token.QUO_ASSIGN, den) // truncates toward zero
		exact := constant.Compare(constant.BinaryOp(q, token.MUL, den), token.EQL, num)
		if !exact {
			if t.Name == "math.Floor" && constant.Sign(f) < 0 {
				q = constant.BinaryOp(q, token.SUB, constant.MakeInt64(1))
			}
			if t.Name == "math.Ceil" && constant.Sign(f) > 0 {
				q = constant.BinaryOp(q, token.ADD, constant.MakeInt64(1))
			}
		}
		return Const(constant.ToFloat(q), t.T)
	}
	return t
}

func isBoolTerm(t *Term) bool {
	switch t.Op {
	case "and", "or", "not":
		return true
	case "bin":
		return cmpOps[tokByName[t.Name]]
	case "const":
		_, ok := t.BoolVal()
		return ok
	case "ite":
		return isBoolTerm(t.Args[1]) && isBoolTerm(t.Args[2])
	}
	if t.T != nil {
		if b, ok := t.T.Underlying().(*types.Basic); ok && b.Info()&types.IsBoolean != 0 {
			return true
		}
	}
	return false
}

// firstIteCond returns the condition of some gated join inside t, or nil.
func firstIteCond(t *Term) *Term {
	var found *Term
	Walk(t, func(x *Term) bool {
		if found != nil {
			return false
		}
		if x.Op == "ite" {
			// prefer the innermost-leftmost condition that itself contains no ite
			if c := firstIteCond(x.Args[0]); c != nil {
				found = c
			} else {
				found = x.Args[0]
			}
			return false
		}
		return true
	})
	return found
}

// Assume rebuilds t under the assumption that boolean term c has value val.
func Assume(t, c *Term, val bool) *Term {
	if t == nil {
		return nil
	}
	if t.Key() == c.Key() {
		return Bool(val)
	}
	if len(t.Args) == 0 {
		return t
	}
	changed := false
	args := make([]*Term, len(t.Args))
	for i, a := range t.Args {
		args[i] = Assume(a, c, val)
		if args[i] != a {
			changed = true
		}
	}
	if !changed {
		return t
	}
	return Rebuild(t, args)
}

// DeepCases splits t on every gated-join condition occurring anywhere inside
// it, returning ite-free leaves with the conditions assumed. nil if more than
// max leaves would result.
func DeepCases(t *Term, max int) []TermCase {
	var out []TermCase
	var rec func(t *Term, conds []*Term) bool
	rec = func(t *Term, conds []*Term) bool {
		c := firstIteCond(t)
		if c == nil {
			out = append(out, TermCase{append([]*Term{}, conds...), t})
			return max <= 0 || len(out) <= max
		}
		for _, val := range []bool{true, false} {
			lit := c
			if !val {
				lit = Not(c)
			}
			cs := append(append([]*Term{}, conds...), lit)
			if condsContradict(cs) {
				continue
			}
			if !rec(Assume(t, c, val), cs) {
				return false
			}
		}
		return true
	}
	if !rec(t, nil) {
		return nil
	}
	return out
}

// expandAgg returns the components of an aggregate value (agg, or zero of a
// struct/array type), or nil.
func expandAgg(t *Term) []*Term {
	switch t.Op {
	case "agg":
		return t.Args
	case "zero":
		if t.T == nil {
			return nil
		}
		switch u := t.T.Underlying().(type) {
		case *types.Struct:
			out := make([]*Term, u.NumFields())
			for i := range out {
				out[i] = Zero(u.Field(i).Type())
			}
			return out
		case *types.Array:
			if u.Len() <= 64 {
				out := make([]*Term, u.Len())
				for i := range out {
					out[i] = Zero(u.Elem())
				}
				return out
			}
		}
	}
	return nil
}
