package sym

import (
	"go/types"
	"sort"
	"strings"
)

// Mem is a flow-sensitive abstract memory: cells keyed by object id + constant
// path. A cell at a path covers everything below it unless a more specific
// cell exists.
type Mem struct {
	cells map[string]*cell
}

type cell struct {
	obj  *Object
	path Path
	val  *Term
}

func NewMem() *Mem { return &Mem{cells: map[string]*cell{}} }

func (m *Mem) Clone() *Mem {
	n := &Mem{cells: make(map[string]*cell, len(m.cells))}
	for k, c := range m.cells {
		n.cells[k] = c
	}
	return n
}

func cellKey(o *Object, p Path) string { return o.ID + "|" + p.String() }

// typeAt returns the type found by walking path from the object's type.
func typeAt(t types.Type, p Path) types.Type {
	for _, e := range p {
		if t == nil {
			return nil
		}
		switch u := t.Underlying().(type) {
		case *types.Struct:
			if e.Field < 0 || e.Field >= u.NumFields() {
				return nil
			}
			t = u.Field(e.Field).Type()
		case *types.Array:
			t = u.Elem()
		case *types.Slice:
			t = u.Elem()
		default:
			return nil
		}
	}
	return t
}

// dropObject removes every cell of the object (used when an Alloc re-executes).
func (m *Mem) dropObject(o *Object) {
	pre := o.ID + "|"
	for k := range m.cells {
		if strings.HasPrefix(k, pre) {
			delete(m.cells, k)
		}
	}
}

func isPrefix(p, q Path) bool { // p is a (non-strict) prefix of q
	if len(p) > len(q) {
		return false
	}
	for i := range p {
		a, b := p[i], q[i]
		if a.Field != b.Field {
			return false
		}
		if a.Field < 0 && a.Index != b.Index {
			return false
		}
	}
	return true
}

// cellsOf returns the cells of object o, sorted by key.
func (m *Mem) cellsOf(o *Object) []*cell {
	pre := o.ID + "|"
	var out []*cell
	for k, c := range m.cells {
		if strings.HasPrefix(k, pre) {
			out = append(out, c)
		}
	}
	sort.Slice(out, func(i, j int) bool { return cellKey(out[i].obj, out[i].path) < cellKey(out[j].obj, out[j].path) })
	return out
}

// store writes v at the constant path p of o, killing more specific cells.
func (m *Mem) store(o *Object, p Path, v *Term) {
	for _, c := range m.cellsOf(o) {
		if len(c.path) > len(p) && isPrefix(p, c.path) {
			delete(m.cells, cellKey(o, c.path))
		}
	}
	m.cells[cellKey(o, p)] = &cell{o, p, v}
}

// Keys returns all cell keys (for joins).
func (m *Mem) Keys() []string {
	out := make([]string, 0, len(m.cells))
	for k := range m.cells {
		out = append(out, k)
	}
	sort.Strings(out)
	return out
}

// Cells exposes (object, path, value) triples of an object, for rules.
func (m *Mem) Cells(o *Object) (paths []Path, vals []*Term) {
	for _, c := range m.cellsOf(o) {
		paths = append(paths, c.path)
		vals = append(vals, c.val)
	}
	return
}

// Store writes v at a constant path of o (exported for hooks).
func (m *Mem) Store(o *Object, p Path, v *Term) { m.store(o, p, v) }

// F is a field path element, I a constant index path element.
func F(i int) PathElem   { return PathElem{Field: i} }
func I(i int64) PathElem { return PathElem{Field: -1, Index: i} }

// ValueOf returns the value stored under a cell key (as listed by Keys).
func (m *Mem) ValueOf(key string) *Term {
	if c, ok := m.cells[key]; ok {
		return c.val
	}
	return nil
}
