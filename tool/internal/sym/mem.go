package sym

import (
	"go/types"
	"sort"
)

// Mem is a flow-sensitive abstract memory: cells keyed by object id + constant
// path. A cell at a path covers everything below it unless a more specific
// cell exists.
type Mem struct {
	objs map[string]map[string]*cell // object id -> path string -> cell
	// Frozen memories (the global memory after the init functions) cache loads.
	Frozen bool
	cache  map[string]*Term
}

type cell struct {
	obj  *Object
	path Path
	val  *Term
}

func NewMem() *Mem { return &Mem{objs: map[string]map[string]*cell{}} }

func (m *Mem) Clone() *Mem {
	n := &Mem{objs: make(map[string]map[string]*cell, len(m.objs))}
	for k, cs := range m.objs {
		nc := make(map[string]*cell, len(cs))
		for pk, c := range cs {
			nc[pk] = c
		}
		n.objs[k] = nc
	}
	return n
}

func cellKey(o *Object, p Path) string { return o.ID + "|" + p.String() }

// typeAt returns the type found by walking path from the object's type.
func typeAt(t types.Type, p Path) types.Type {
	for _, e := range p {
		if t == nil {
			return nil
		}
		switch u := t.Underlying().(type) {
		case *types.Struct:
			if e.Field < 0 || e.Field >= u.NumFields() {
				return nil
			}
			t = u.Field(e.Field).Type()
		case *types.Array:
			t = u.Elem()
		case *types.Slice:
			t = u.Elem()
		default:
			return nil
		}
	}
	return t
}

// dropObject removes every cell of the object (used when an Alloc re-executes).
func (m *Mem) dropObject(o *Object) { delete(m.objs, o.ID) }

func isPrefix(p, q Path) bool { // p is a (non-strict) prefix of q
	if len(p) > len(q) {
		return false
	}
	for i := range p {
		a, b := p[i], q[i]
		if a.Field != b.Field {
			return false
		}
		if a.Field < 0 && a.Index != b.Index {
			return false
		}
	}
	return true
}

// cellsOf returns the cells of object o in unspecified order.
func (m *Mem) cellsOf(o *Object) map[string]*cell { return m.objs[o.ID] }

// sortedCells returns the cells of o sorted by path.
func (m *Mem) sortedCells(o *Object) []*cell {
	var out []*cell
	for _, c := range m.objs[o.ID] {
		out = append(out, c)
	}
	sort.Slice(out, func(i, j int) bool { return out[i].path.String() < out[j].path.String() })
	return out
}

// store writes v at the constant path p of o, killing more specific cells.
func (m *Mem) store(o *Object, p Path, v *Term) {
	cs := m.objs[o.ID]
	if cs == nil {
		cs = map[string]*cell{}
		m.objs[o.ID] = cs
	}
	if len(cs) > 0 {
		for k, c := range cs {
			if len(c.path) > len(p) && isPrefix(p, c.path) {
				delete(cs, k)
			}
		}
	}
	cs[p.String()] = &cell{o, p, v}
}

// Keys returns all cell keys (for joins and listings), sorted.
func (m *Mem) Keys() []string {
	var out []string
	for id, cs := range m.objs {
		for pk := range cs {
			out = append(out, id+"|"+pk)
		}
	}
	sort.Strings(out)
	return out
}

// Cells exposes (path, value) pairs of an object, for rules.
func (m *Mem) Cells(o *Object) (paths []Path, vals []*Term) {
	for _, c := range m.sortedCells(o) {
		paths = append(paths, c.path)
		vals = append(vals, c.val)
	}
	return
}

// Store writes v at a constant path of o (exported for hooks).
func (m *Mem) Store(o *Object, p Path, v *Term) { m.store(o, p, v) }

// F is a field path element, I a constant index path element.
func F(i int) PathElem   { return PathElem{Field: i} }
func I(i int64) PathElem { return PathElem{Field: -1, Index: i} }

// ValueOf returns the value stored under a cell key (as listed by Keys).
func (m *Mem) ValueOf(key string) *Term {
	for id, cs := range m.objs {
		if len(key) > len(id) && key[:len(id)] == id && key[len(id)] == '|' {
			if c, ok := cs[key[len(id)+1:]]; ok {
				return c.val
			}
		}
	}
	return nil
}

// lookup returns the cell stored under key, if any.
func (m *Mem) lookupKey(id, pk string) (*cell, bool) {
	c, ok := m.objs[id][pk]
	return c, ok
}

func (m *Mem) put(o *Object, p Path, v *Term) {
	cs := m.objs[o.ID]
	if cs == nil {
		cs = map[string]*cell{}
		m.objs[o.ID] = cs
	}
	cs[p.String()] = &cell{o, p, v}
}
