package sym

import (
	"fmt"
	"go/constant"
	"go/token"
	"go/types"
	"ivgsa/internal/cfgx"
	"sort"
	"strings"

	"golang.org/x/tools/go/ssa"
)

// Hooks lets a rule steer the interpreter.
type Hooks interface {
	// Pin may override the value of v in frame fr (keys). nil = no override.
	Pin(fr *Frame, v ssa.Value) *Term
	// Init may give the initial content of obj at path (nothing stored yet). nil = default.
	Init(o *Object, p Path, t types.Type) *Term
	// Call is consulted for every call before the default treatment. callee is
	// nil for unresolved indirect calls and interface invokes. If handled, result
	// is the call's value (nil for no value).
	Call(in *Interp, fr *Frame, site ssa.CallInstruction, callee *ssa.Function, args []*Term) (handled bool, result *Term)
}

// NoHooks is the default Hooks.
type NoHooks struct{}

func (NoHooks) Pin(*Frame, ssa.Value) *Term          { return nil }
func (NoHooks) Init(*Object, Path, types.Type) *Term { return nil }
func (NoHooks) Call(*Interp, *Frame, ssa.CallInstruction, *ssa.Function, []*Term) (bool, *Term) {
	return false, nil
}

// Event is something a rule asked to be recorded.
type Event struct {
	Kind    string
	Site    ssa.Instruction
	Frame   *Frame
	Callee  string
	Args    []*Term
	VarArgs [][]*Term // for each arg that is a slice over a tracked local array: its elements
	Result  *Term
	Guard   *Term // conjunction of the block reach conditions of all frames on the stack
	Loops   []LoopRef
	Seq     int
	Note    string
	Mem     *Mem // for "return" events: the abstract memory at that return
}

// LoopRef names a loop (frame + header block) an event is nested in.
type LoopRef struct {
	Frame  *Frame
	Header int
}

// Interp is the abstract interpreter.
type Interp struct {
	// MapLits: contents of maps built by package initialisers with constant keys (map literals), by object id;
	// FrozenMaps: those that nothing outside the initialisers can change (decided by the caller, see rules.Ctx).
	MapLits    map[string][]MapPair
	FrozenMaps map[string]bool
	mapDirty   map[string]bool
	Collapsed  map[string]*Term
	InModule   func(fn *ssa.Function) bool
	Hooks      Hooks
	MaxDepth   int
	Global     *Mem // contents of package-level variables after the init functions
	Events     []*Event
	Warn       []string
	objs       map[string]*Object
	frameSeq   int
	// InlineExt lists non-module functions (by ssa String()) that are inlined.
	InlineExt map[string]bool
	// Pure lists non-module functions without effects on their pointer arguments.
	Pure  func(name string) bool
	Steps int
	// InitPkgs lists the packages whose init functions were evaluated by InitGlobals.
	InitPkgs map[*ssa.Package]bool
	// AtomDeps records, for every atom that abstracts joined values (loop-carried
	// values, joins too large to keep as gated terms), the atoms those values mentioned.
	AtomDeps map[string]map[string]bool
	// OnAccess, when set, is called for every operation that can panic at run time: kind is one of
	// "index" (idx, length), "slice" (low, high, length; nil for absent bounds), "div" (divisor),
	// "typeassert", "callvalue" (callee term), "invoke" (receiver term).
	OnAccess func(fr *Frame, site ssa.Instruction, kind string, a, b, c *Term)
	// OnStore, when set, is called for every store with a resolved pointer.
	OnStore func(fr *Frame, site ssa.Instruction, ptr, val *Term)
}

// Frame is one (inlined) function activation.
type Frame struct {
	pdom     *cfgx.Info
	Fn       *ssa.Function
	ID       string
	Parent   *Frame
	Site     ssa.Instruction // call site in parent
	Depth    int
	Args     []*Term
	Bindings []*Term
	vals     map[ssa.Value]*Term
	reach    []*Term
	edgeExec map[[2]int]bool
	edgeCond map[[2]int]*Term
	memOut   []*Mem
	record   bool
	guard    *Term // guard at the call site (absolute)
	loops    []LoopRef
	headers  map[int]bool
	rpo      []int
	sticky   map[string]*Term
	hjoin    map[string]headerJoin // per sticky memory atom of a loop header: the cell and the values last joined there
	curBlock int
	curMem   *Mem
	rets     []retInfo
	panics   int
	in       *Interp
}

// MapPair is one key/value of a map literal.
type MapPair struct{ Key, Val *Term }

type headerJoin struct {
	header int
	obj    *Object
	path   Path
	vals   []*Term
}

type retInfo struct {
	guard *Term
	val   *Term
	mem   *Mem
	block int
}

// New creates an interpreter.
func New(inModule func(fn *ssa.Function) bool) *Interp {
	return &Interp{InModule: inModule, Hooks: NoHooks{}, MaxDepth: 8, Global: NewMem(), objs: map[string]*Object{},
		InlineExt: map[string]bool{
			"(image.Rectangle).Dx": true, "(image.Rectangle).Dy": true, "(image.Rectangle).Size": true,
			"(image.Rectangle).Empty": true, "image.Pt": true,
		},
		Pure: defaultPure,
	}
}

func defaultPure(name string) bool {
	if strings.HasPrefix(name, "math.") || strings.HasPrefix(name, "bytes.HasPrefix") ||
		strings.HasPrefix(name, "strings.") || strings.HasPrefix(name, "strconv.") ||
		strings.HasPrefix(name, "fmt.Sprintf") || strings.HasPrefix(name, "fmt.Errorf") ||
		strings.HasPrefix(name, "fmt.Printf") || strings.HasPrefix(name, "fmt.Fprintf") ||
		strings.HasPrefix(name, "(*bytes.Buffer).Write") || strings.HasPrefix(name, "(*bytes.Buffer).Bytes") ||
		strings.HasPrefix(name, "(image/color.") || strings.HasPrefix(name, "(*image/color.") ||
		strings.HasPrefix(name, "(image.") {
		return true
	}
	return false
}

// noteDeps records that atom name abstracts the given values.
func (in *Interp) noteDeps(name string, vs []*Term) {
	if in.AtomDeps == nil {
		in.AtomDeps = map[string]map[string]bool{}
	}
	d := in.AtomDeps[name]
	if d == nil {
		d = map[string]bool{}
		in.AtomDeps[name] = d
	}
	for _, v := range vs {
		Walk(v, func(t *Term) bool {
			if t.Op == "slice" && Len(t).Key() == "0" {
				return false // x[:0]: none of x's content is visible
			}
			if t.Op == "atom" && t.Name != name {
				d[t.Name] = true
			}
			return true
		})
	}
}

// Deps returns every atom name t depends on, looking through abstracting atoms.
func (in *Interp) Deps(t *Term) map[string]bool {
	out := map[string]bool{}
	var visit func(name string)
	visit = func(name string) {
		if out[name] {
			return
		}
		out[name] = true
		for d := range in.AtomDeps[name] {
			visit(d)
		}
	}
	Walk(t, func(x *Term) bool {
		if x.Op == "atom" {
			visit(x.Name)
		}
		return true
	})
	return out
}

func (in *Interp) warn(format string, args ...interface{}) {
	s := fmt.Sprintf(format, args...)
	for _, w := range in.Warn {
		if w == s {
			return
		}
	}
	in.Warn = append(in.Warn, s)
}

// Obj interns an abstract object.
func (in *Interp) Obj(id, kind string, t types.Type) *Object {
	if o, ok := in.objs[id]; ok {
		return o
	}
	o := &Object{ID: id, Kind: kind, T: t}
	in.objs[id] = o
	return o
}

// GlobalObj returns the object of a package-level variable.
func (in *Interp) GlobalObj(g *ssa.Global) *Object {
	o := in.Obj("global:"+g.String(), "global", g.Type().(*types.Pointer).Elem())
	o.G = g
	return o
}

// InitGlobals evaluates the init function of pkg to learn the contents of its
// package-level variables. Justified by rule C18.1 (no global is written after init).
func (in *Interp) InitGlobals(pkg *ssa.Package) {
	fn := pkg.Func("init")
	if fn == nil || fn.Blocks == nil {
		return
	}
	if in.InitPkgs == nil {
		in.InitPkgs = map[*ssa.Package]bool{}
	}
	in.InitPkgs[pkg] = true
	save := in.Hooks
	in.Hooks = initHooks{}
	_, out, _ := in.CallFunction(fn, nil, nil, in.Global, nil, nil, false)
	if out != nil {
		in.Global = out
	}
	in.Hooks = save
}

// moduleGlobal reports whether g belongs to a package whose init was evaluated.
func (in *Interp) moduleGlobal(g *ssa.Global) bool {
	if in.InitPkgs == nil {
		return true
	}
	return in.InitPkgs[g.Pkg]
}

// FreezeGlobals marks the global memory read-only so that loads are cached.
func (in *Interp) FreezeGlobals() { in.Global.Frozen = true }

type initHooks struct{ NoHooks }

func (initHooks) Pin(fr *Frame, v ssa.Value) *Term {
	// the init guard is false on first entry
	if u, ok := v.(*ssa.UnOp); ok && u.Op == token.MUL {
		if g, ok := u.X.(*ssa.Global); ok && strings.HasPrefix(g.Name(), "init$guard") {
			return False
		}
	}
	return nil
}

func (initHooks) Call(in *Interp, fr *Frame, site ssa.CallInstruction, callee *ssa.Function, args []*Term) (bool, *Term) {
	if callee != nil && callee.Name() == "init" && callee.Signature.Recv() == nil && len(args) == 0 {
		return true, nil // other packages' init functions
	}
	return false, nil
}

// ParamTerm returns the default symbolic argument for a root parameter.
func (in *Interp) ParamTerm(name string, t types.Type) *Term {
	switch u := t.Underlying().(type) {
	case *types.Pointer:
		return Ptr(in.Obj("param:"+name, "param", u.Elem()), nil)
	case *types.Slice:
		base := Atom("param:"+name, t)
		return &Term{Op: "slice", Args: []*Term{base, Int(0), Op("len", "", types.Typ[types.Int], base)}, T: t}
	}
	return Atom("param:"+name, t)
}

// RootArgs builds default symbolic arguments for fn.
func (in *Interp) RootArgs(fn *ssa.Function) []*Term {
	var args []*Term
	for _, p := range fn.Params {
		args = append(args, in.ParamTerm(p.Name(), p.Type()))
	}
	return args
}

// Run evaluates fn as a root with the given arguments (nil = defaults) on a
// fresh memory and returns the result term, the final memory and the frame.
func (in *Interp) Run(fn *ssa.Function, args []*Term, m *Mem) (*Term, *Mem, *Frame) {
	if args == nil {
		args = in.RootArgs(fn)
	}
	if m == nil {
		m = NewMem()
	}
	return in.CallFunction(fn, args, nil, m, nil, nil, true)
}

// Emit records an event at the current point of frame fr.
func (in *Interp) Emit(fr *Frame, kind string, site ssa.Instruction, callee string, args []*Term, m *Mem) *Event {
	if !fr.record {
		return nil
	}
	ev := &Event{Kind: kind, Site: site, Frame: fr, Callee: callee, Args: args, Seq: len(in.Events)}
	ev.Guard = fr.absGuard(fr.curBlock)
	ev.Loops = fr.loopPath(fr.curBlock)
	if m != nil {
		for _, a := range args {
			ev.VarArgs = append(ev.VarArgs, in.SliceElems(m, a))
		}
	}
	in.Events = append(in.Events, ev)
	return ev
}

// SliceElems returns the elements of a slice term over a tracked array with
// constant bounds, or nil.
func (in *Interp) SliceElems(m *Mem, a *Term) []*Term {
	if a == nil || a.Op != "slice" || a.Args[0].Op != "ptr" {
		return nil
	}
	lo, ok1 := a.Args[1].Int64()
	hi, ok2 := a.Args[2].Int64()
	if !ok1 || !ok2 || hi-lo > 64 || hi < lo {
		return nil
	}
	base := a.Args[0]
	out := []*Term{}
	for k := lo; k < hi; k++ {
		out = append(out, in.load(m, base.Obj, base.Path.extend(PathElem{Field: -1, Index: k})))
	}
	return out
}

func (fr *Frame) absGuard(b int) *Term {
	g := fr.reach[b]
	if g == nil {
		g = True
	}
	if fr.guard != nil {
		return And(fr.guard, g)
	}
	return g
}

func (fr *Frame) loopPath(b int) []LoopRef {
	out := append([]LoopRef{}, fr.loops...)
	// all loops of this frame containing b, outermost first
	var hs []int
	for h := range fr.headers {
		if fr.inLoop(h, b) {
			hs = append(hs, h)
		}
	}
	sort.Slice(hs, func(i, j int) bool {
		// outer loops contain inner headers
		return fr.inLoop(hs[i], hs[j]) && hs[i] != hs[j]
	})
	for _, h := range hs {
		out = append(out, LoopRef{fr, h})
	}
	return out
}

// inLoop reports whether block b belongs to the natural loop headed by h.
func (fr *Frame) inLoop(h, b int) bool {
	if h == b {
		return true
	}
	blocks := fr.Fn.Blocks
	if !blocks[h].Dominates(blocks[b]) {
		return false
	}
	// b is in the loop if it can reach a back-edge source of h without leaving h's dominance region
	seen := map[int]bool{}
	var dfs func(x int) bool
	dfs = func(x int) bool {
		if seen[x] {
			return false
		}
		seen[x] = true
		for _, s := range blocks[x].Succs {
			if s.Index == h {
				return true
			}
			if blocks[h].Dominates(s) && dfs(s.Index) {
				return true
			}
		}
		return false
	}
	return dfs(b)
}

// Mem returns the abstract memory at the instruction being evaluated.
func (fr *Frame) Mem() *Mem { return fr.curMem }

// Val returns the final value of an SSA value in this frame.
func (fr *Frame) Val(v ssa.Value) *Term { return fr.vals[v] }

// Reach returns the reach condition of block b relative to the frame entry.
func (fr *Frame) Reach(b int) *Term { return fr.reach[b] }

// Executable reports whether the edge from->to was found executable.
func (fr *Frame) Executable(from, to int) bool { return fr.edgeExec[[2]int{from, to}] }

// BlockLive reports whether block b was reached.
func (fr *Frame) BlockLive(b int) bool { return fr.reach[b] != nil }

// Stack renders the inlining stack of the frame.
func (fr *Frame) Stack() string {
	var parts []string
	for f := fr; f != nil; f = f.Parent {
		parts = append(parts, f.Fn.Name())
	}
	for i, j := 0, len(parts)-1; i < j; i, j = i+1, j-1 {
		parts[i], parts[j] = parts[j], parts[i]
	}
	return strings.Join(parts, ">")
}

// HeaderCond returns the branch condition term at the end of loop header h.
func (fr *Frame) HeaderCond(h int) (cond *Term, bodyOnTrue bool, ok bool) {
	b := fr.Fn.Blocks[h]
	if len(b.Instrs) == 0 {
		return nil, false, false
	}
	iff, isIf := b.Instrs[len(b.Instrs)-1].(*ssa.If)
	if !isIf {
		return nil, false, false
	}
	c := fr.vals[iff.Cond]
	if c == nil {
		return nil, false, false
	}
	return c, fr.inLoop(h, b.Succs[0].Index), true
}

const maxPasses = 12

// CallFunction evaluates fn with the given arguments starting from memory m
// (which is not modified) and returns the joined result, the memory at return
// and the frame. out == nil means the function never returns normally.
func (in *Interp) CallFunction(fn *ssa.Function, args, bindings []*Term, m *Mem, parent *Frame, site ssa.Instruction, record bool) (*Term, *Mem, *Frame) {
	in.frameSeq++
	fr := &Frame{Fn: fn, Parent: parent, Site: site, Args: args, Bindings: bindings, in: in,
		headers: map[int]bool{}, sticky: map[string]*Term{}}
	if parent != nil {
		fr.Depth = parent.Depth + 1
		idx := -1
		if site != nil {
			idx = instrOrdinal(site)
		}
		fr.ID = fmt.Sprintf("%s/%s@%d", parent.ID, fn.Name(), idx)
		fr.guard = parent.absGuard(parent.curBlock)
		fr.loops = parent.loopPath(parent.curBlock)
	} else {
		fr.ID = fn.Name()
	}
	n := len(fn.Blocks)
	// RPO and loop headers
	seen := make([]bool, n)
	var post []int
	var dfs func(int)
	dfs = func(b int) {
		seen[b] = true
		for _, s := range fn.Blocks[b].Succs {
			if !seen[s.Index] {
				dfs(s.Index)
			}
		}
		post = append(post, b)
	}
	dfs(0)
	for i := len(post) - 1; i >= 0; i-- {
		fr.rpo = append(fr.rpo, post[i])
	}
	for _, b := range fn.Blocks {
		for _, s := range b.Succs {
			if s.Dominates(b) {
				fr.headers[s.Index] = true
			}
		}
	}
	passes := 1
	if len(fr.headers) > 0 {
		passes = maxPasses
	}
	var prevSig string
	stable := len(fr.headers) == 0
	for pass := 0; pass < passes; pass++ {
		last := stable
		fr.record = record && last
		fr.evalPass(m)
		if last {
			break
		}
		sig := fr.signature()
		if sig == prevSig {
			stable = true
			if !record {
				break
			}
			continue // one more pass, recording
		}
		prevSig = sig
		if pass == passes-2 {
			in.warn("no fixpoint in %s after %d passes", fn.String(), passes)
			stable = true
		}
	}
	// join returns
	if len(fr.rets) == 0 {
		return nil, nil, fr
	}
	// gate the join on the simplest return conditions: the alternative with the most complex condition becomes
	// the innermost "else", whose own condition a gated join does not record
	sort.SliceStable(fr.rets, func(i, j int) bool {
		gi, gj := fr.rets[i].guard, fr.rets[j].guard
		if gi == nil || gj == nil {
			return false
		}
		return len(gi.Key()) < len(gj.Key())
	})
	res := fr.rets[len(fr.rets)-1].val
	out := fr.rets[len(fr.rets)-1].mem
	if len(fr.rets) > 1 {
		mems := make([]*Mem, len(fr.rets))
		guards := make([]*Term, len(fr.rets))
		for i, r := range fr.rets {
			mems[i], guards[i] = r.mem, r.guard
		}
		guards = stripCommon(guards)
		for i := len(fr.rets) - 2; i >= 0; i-- {
			r := fr.rets[i]
			if res != nil && r.val != nil {
				res = Ite(guards[i], r.val, res)
			}
		}
		out = in.joinMems(fr, -1, mems, guards, false)
	}
	return res, out, fr
}

// controlEquivalentDominator returns the nearest dominator of blk that blk post-dominates (over executable edges,
// panics and non-termination aside), or nil.
func (fr *Frame) controlEquivalentDominator(blk *ssa.BasicBlock) *ssa.BasicBlock {
	if fr.pdom == nil {
		fr.pdom = cfgx.New(fr.Fn, func(from, to *ssa.BasicBlock) bool { return fr.edgeExec[[2]int{from.Index, to.Index}] })
	}
	for d := blk.Idom(); d != nil; d = d.Idom() {
		if fr.inAnyLoopNotContaining(d, blk) {
			continue
		}
		if fr.pdom.PostDominates(blk.Index, d.Index) {
			return d
		}
	}
	return nil
}

// inAnyLoopNotContaining: d lies in a loop that blk is not part of (then "reached when d is" would confuse
// iterations).
func (fr *Frame) inAnyLoopNotContaining(d, blk *ssa.BasicBlock) bool {
	for h := range fr.headers {
		if fr.inLoop(h, d.Index) && !fr.inLoop(h, blk.Index) {
			return true
		}
	}
	return false
}

func instrOrdinal(site ssa.Instruction) int {
	b := site.Block()
	if b == nil {
		return -1
	}
	for i, x := range b.Instrs {
		if x == site {
			return b.Index*1000 + i
		}
	}
	return -1
}

func (fr *Frame) signature() string {
	var sb strings.Builder
	for _, b := range fr.rpo {
		if fr.reach[b] == nil {
			continue
		}
		fmt.Fprintf(&sb, "B%d:", b)
		for _, ins := range fr.Fn.Blocks[b].Instrs {
			if v, ok := ins.(ssa.Value); ok {
				if t := fr.vals[v]; t != nil {
					sb.WriteString(t.Key())
				}
				sb.WriteByte(';')
			}
		}
		if mo := fr.memOut[b]; mo != nil {
			for _, k := range mo.Keys() {
				sb.WriteString(k)
				sb.WriteByte('=')
				sb.WriteString(mo.ValueOf(k).Key())
				sb.WriteByte(';')
			}
		}
	}
	var es []string
	for e, ok := range fr.edgeExec {
		if ok {
			es = append(es, fmt.Sprintf("%d>%d", e[0], e[1]))
		}
	}
	sort.Strings(es)
	sb.WriteString(strings.Join(es, ","))
	return sb.String()
}

// stripCommon removes conjuncts shared by all guards.
func stripCommon(gs []*Term) []*Term {
	if len(gs) < 2 {
		return gs
	}
	count := map[string]int{}
	for _, g := range gs {
		for _, c := range conjuncts(g) {
			count[c.Key()]++
		}
	}
	out := make([]*Term, len(gs))
	for i, g := range gs {
		var keep []*Term
		for _, c := range conjuncts(g) {
			if count[c.Key()] < len(gs) {
				keep = append(keep, c)
			}
		}
		out[i] = And(keep...)
	}
	return out
}

func (fr *Frame) evalPass(m0 *Mem) {
	in := fr.in
	fn := fr.Fn
	n := len(fn.Blocks)
	oldVals := fr.vals
	fr.vals = map[ssa.Value]*Term{}
	if oldVals != nil {
		// loop-carried values of the previous pass are needed when evaluating phis
		for k, v := range oldVals {
			fr.vals[k] = v
		}
	}
	oldExec := fr.edgeExec
	fr.edgeExec = map[[2]int]bool{}
	for e, ok := range oldExec {
		if ok {
			fr.edgeExec[e] = true // executable edges only grow
		}
	}
	if fr.edgeCond == nil {
		fr.edgeCond = map[[2]int]*Term{}
	}
	oldMemOut := fr.memOut
	fr.memOut = make([]*Mem, n)
	fr.reach = make([]*Term, n)
	fr.rets = nil
	fr.panics = 0
	for i, p := range fn.Params {
		if i < len(fr.Args) {
			fr.vals[p] = fr.Args[i]
			if pin := in.Hooks.Pin(fr, p); pin != nil {
				fr.vals[p] = pin
			}
		}
	}
	for i, fv := range fn.FreeVars {
		if i < len(fr.Bindings) {
			fr.vals[fv] = fr.Bindings[i]
		}
	}
	for _, b := range fr.rpo {
		blk := fn.Blocks[b]
		var mem *Mem
		if b == 0 {
			mem = m0.Clone()
			fr.reach[0] = True
		} else {
			var preds []int
			var mems []*Mem
			var guards []*Term
			for _, p := range blk.Preds {
				e := [2]int{p.Index, b}
				if !fr.edgeExec[e] {
					continue
				}
				pm := fr.memOut[p.Index]
				if pm == nil && oldMemOut != nil {
					pm = oldMemOut[p.Index] // back edge: state from the previous pass
				}
				if pm == nil {
					continue
				}
				if fr.headers[p.Index] && !fr.inLoop(p.Index, b) {
					pm = fr.exitMem(p.Index, pm) // leaving a counted loop through its test: arrays it filled are known
				}
				pr := fr.reach[p.Index]
				if pr == nil {
					pr = True // back edge source not yet visited in this pass
				}
				g := pr
				if c := fr.edgeCond[e]; c != nil {
					g = And(pr, c)
				}
				preds = append(preds, p.Index)
				mems = append(mems, pm)
				guards = append(guards, g)
			}
			if len(preds) == 0 {
				continue // not reachable (yet)
			}
			isHeader := fr.headers[b]
			// reach condition: forward edges only
			var fw []*Term
			for i, p := range preds {
				if isHeader && blk.Dominates(fn.Blocks[p]) {
					continue
				}
				fw = append(fw, guards[i])
			}
			if len(fw) == 0 {
				fr.reach[b] = True
			} else {
				r := Or(fw...)
				if len(r.Key()) > 8000 {
					// too large to keep. If the block is control-equivalent to one of its dominators (it post-dominates
					// it: every terminating path from there comes through here), it is reached exactly when that
					// dominator is; otherwise an opaque atom, keeping what the immediate dominator guarantees.
					if d := fr.controlEquivalentDominator(blk); d != nil && fr.reach[d.Index] != nil && len(fr.reach[d.Index].Key()) <= 8000 {
						r = fr.reach[d.Index]
					} else {
						r = Atom(fmt.Sprintf("reach#%s#%d", fr.ID, b), types.Typ[types.Bool])
						if d := blk.Idom(); d != nil && fr.reach[d.Index] != nil {
							r = And(fr.reach[d.Index], r)
						}
					}
				}
				fr.reach[b] = r
			}
			sg := stripCommon(guards)
			if len(mems) == 1 {
				mem = mems[0].Clone()
			} else {
				mem = in.joinMems(fr, b, mems, sg, isHeader)
			}
			// phis
			for _, ins := range blk.Instrs {
				phi, ok := ins.(*ssa.Phi)
				if !ok {
					break
				}
				var vs []*Term
				var gs []*Term
				for i, p := range preds {
					// index of pred p among blk.Preds
					for ei, bp := range blk.Preds {
						if bp.Index == p {
							v := fr.operand(phi.Edges[ei], mem)
							if pin := in.Hooks.Pin(fr, phi.Edges[ei]); pin != nil {
								v = pin
							}
							vs = append(vs, v)
							gs = append(gs, sg[i])
							break
						}
					}
				}
				fr.vals[phi] = fr.joinVals(phi, vs, gs, isHeader)
				if pin := in.Hooks.Pin(fr, phi); pin != nil {
					fr.vals[phi] = pin
				}
			}
		}
		fr.curBlock = b
		fr.execBlock(blk, mem)
	}
}

// joinVals joins the incoming values of a phi.
func (fr *Frame) joinVals(phi *ssa.Phi, vs, gs []*Term, header bool) *Term {
	key := "phi#" + fr.ID + "#" + phi.Name()
	if a := fr.sticky[key]; a != nil {
		fr.in.noteDeps(key, vs)
		return a
	}
	allEq := true
	for _, v := range vs {
		if v == nil {
			return Atom(key, phi.Type())
		}
		if !Eq(v, vs[0]) {
			allEq = false
		}
	}
	if allEq {
		return vs[0]
	}
	if header {
		a := Atom(key, phi.Type())
		fr.sticky[key] = a
		fr.in.noteDeps(key, vs)
		return a
	}
	res := vs[len(vs)-1]
	for i := len(vs) - 2; i >= 0; i-- {
		res = Ite(gs[i], vs[i], res)
	}
	if len(res.Key()) > 4000 {
		fr.in.noteDeps(key, []*Term{res})
		fr.in.noteCollapsed(key, res)
		return Atom(key, phi.Type())
	}
	return res
}

// noteCollapsed remembers the value an atom stands for when a join was only abbreviated because of its size (not
// widened at a loop head): analyses that need a bound of the value rather than its form can still look at it.
func (in *Interp) noteCollapsed(name string, v *Term) {
	if in.Collapsed == nil {
		in.Collapsed = map[string]*Term{}
	}
	in.Collapsed[name] = v
}

// CollapsedValue returns the value abbreviated by the atom of that name, if any.
func (fr *Frame) CollapsedValue(name string) *Term { return fr.in.Collapsed[name] }

// joinMems joins memories at a block entry (b<0: function exit).
func (in *Interp) joinMems(fr *Frame, b int, mems []*Mem, gs []*Term, header bool) *Mem {
	out := NewMem()
	keys := map[string]*cell{}
	for _, m := range mems {
		for id, cs := range m.objs {
			for pk, c := range cs {
				keys[id+"|"+pk] = c
			}
		}
	}
	var ks []string
	for k := range keys {
		ks = append(ks, k)
	}
	sort.Strings(ks)
	for _, k := range ks {
		c := keys[k]
		pk := c.path.String()
		vs := make([]*Term, len(mems))
		allEq := true
		for i, m := range mems {
			if mc, ok := m.lookupKey(c.obj.ID, pk); ok {
				vs[i] = mc.val
			} else {
				vs[i] = in.load(m, c.obj, c.path)
			}
			if !Eq(vs[i], vs[0]) {
				allEq = false
			}
		}
		if allEq {
			out.put(c.obj, c.path, vs[0])
			continue
		}
		skey := fmt.Sprintf("mem#%s#%d#%s", fr.ID, b, k)
		if a := fr.sticky[skey]; a != nil {
			in.noteDeps(skey, vs)
			if header {
				fr.noteHeaderJoin(skey, b, c.obj, c.path, vs)
			}
			out.put(c.obj, c.path, a)
			continue
		}
		// weak-update collapse: join(old, weak(site,j,old)) = weak(site,j,old)
		if w := collapseWeak(vs); w != nil {
			out.put(c.obj, c.path, w)
			continue
		}
		if header {
			a := Atom(skey, typeAt(c.obj.T, c.path))
			fr.sticky[skey] = a
			in.noteDeps(skey, vs)
			fr.noteHeaderJoin(skey, b, c.obj, c.path, vs)
			out.put(c.obj, c.path, a)
			continue
		}
		res := vs[len(vs)-1]
		for i := len(vs) - 2; i >= 0; i-- {
			res = Ite(gs[i], vs[i], res)
		}
		if len(res.Key()) > 4000 {
			in.noteDeps(skey, []*Term{res})
			in.noteCollapsed(skey, res)
			res = Atom(skey, typeAt(c.obj.T, c.path))
		}
		out.put(c.obj, c.path, res)
	}
	return out
}

func collapseWeak(vs []*Term) *Term {
	var w *Term
	for _, v := range vs {
		if v.Op == "weak" {
			if w != nil && !Eq(w, v) {
				return nil
			}
			w = v
		}
	}
	if w == nil {
		return nil
	}
	for _, v := range vs {
		if Eq(v, w) {
			continue
		}
		if !Eq(v, w.Args[1]) {
			return nil
		}
	}
	return w
}

// operand evaluates an SSA operand.
func (fr *Frame) operand(v ssa.Value, m *Mem) *Term {
	in := fr.in
	switch x := v.(type) {
	case *ssa.Const:
		if x.Value == nil {
			// nil or zero value of aggregate
			switch x.Type().Underlying().(type) {
			case *types.Struct, *types.Array:
				return Zero(x.Type())
			case *types.Basic:
				return Zero(x.Type())
			}
			return Nil(x.Type())
		}
		return Const(x.Value, x.Type())
	case *ssa.Function:
		return FnTerm(x)
	case *ssa.Global:
		return Ptr(in.GlobalObj(x), nil)
	case *ssa.Builtin:
		return Atom("builtin:"+x.Name(), x.Type())
	}
	if t := fr.vals[v]; t != nil {
		return t
	}
	return Atom(fmt.Sprintf("undef#%s#%s", fr.ID, v.Name()), v.Type())
}

func (fr *Frame) set(v ssa.Value, t *Term) {
	if pin := fr.in.Hooks.Pin(fr, v); pin != nil {
		t = pin
	}
	fr.vals[v] = t
}

func (fr *Frame) execBlock(blk *ssa.BasicBlock, mem *Mem) {
	in := fr.in
	b := blk.Index
	fr.curMem = mem
	for _, ins := range blk.Instrs {
		in.Steps++
		switch x := ins.(type) {
		case *ssa.Phi:
			// done
		case *ssa.Alloc:
			o := in.Obj(fmt.Sprintf("alloc:%s#%s", fr.ID, x.Name()), "alloc", x.Type().(*types.Pointer).Elem())
			mem.dropObject(o)
			fr.set(x, Ptr(o, nil))
		case *ssa.BinOp:
			if in.OnAccess != nil && fr.record && (x.Op == token.QUO || x.Op == token.REM) {
				if _, _, isInt, _ := basicInfo(x.Type()); isInt {
					in.OnAccess(fr, x, "div", fr.operand(x.Y, mem), nil, nil)
				}
			}
			fr.set(x, Bin(x.Op, fr.operand(x.X, mem), fr.operand(x.Y, mem), x.Type()))
		case *ssa.UnOp:
			a := fr.operand(x.X, mem)
			switch x.Op {
			case token.MUL:
				fr.set(x, in.loadPtr(mem, a, x.Type()))
			case token.ARROW:
				fr.set(x, Atom(fmt.Sprintf("recv#%s#%s", fr.ID, x.Name()), x.Type()))
				in.warn("channel receive in %s", fr.Fn.String())
			default:
				fr.set(x, Un(x.Op, a, x.Type()))
			}
		case *ssa.ChangeType:
			fr.set(x, fr.operand(x.X, mem))
		case *ssa.ChangeInterface:
			fr.set(x, fr.operand(x.X, mem))
		case *ssa.Convert:
			a := fr.operand(x.X, mem)
			fr.set(x, Conv(a, x.Type()))
		case *ssa.MakeInterface:
			a := fr.operand(x.X, mem)
			fr.set(x, &Term{Op: "makeiface", Args: []*Term{a}, T: x.X.Type()})
		case *ssa.TypeAssert:
			if in.OnAccess != nil && fr.record && !x.CommaOk {
				in.OnAccess(fr, x, "typeassert", fr.operand(x.X, mem), nil, nil)
			}
			fr.set(x, fr.typeAssert(x, fr.operand(x.X, mem)))
		case *ssa.MakeClosure:
			var bs []*Term
			for _, bnd := range x.Bindings {
				bs = append(bs, fr.operand(bnd, mem))
			}
			fr.set(x, &Term{Op: "closure", Fn: x.Fn.(*ssa.Function), Args: bs, T: x.Type()})
		case *ssa.MakeSlice:
			o := in.Obj(fmt.Sprintf("alloc:%s#%s", fr.ID, x.Name()), "alloc", types.NewSlice(x.Type().Underlying().(*types.Slice).Elem()))
			mem.dropObject(o)
			fr.set(x, &Term{Op: "slice", Args: []*Term{Ptr(o, nil), Int(0), fr.operand(x.Len, mem)}, T: x.Type()})
		case *ssa.MakeMap:
			o := in.Obj(fmt.Sprintf("alloc:%s#%s", fr.ID, x.Name()), "alloc", x.Type())
			fr.set(x, Ptr(o, nil))
		case *ssa.FieldAddr:
			p := in.asPtr(fr.operand(x.X, mem), x.X.Type())
			fr.set(x, &Term{Op: "ptr", Obj: p.Obj, Path: p.Path.extend(PathElem{Field: x.Field}), Win: p.Win})
		case *ssa.Field:
			a := fr.operand(x.X, mem)
			fr.set(x, Field(a, x.Field, x.Type()))
		case *ssa.IndexAddr:
			xv, iv := fr.operand(x.X, mem), fr.operand(x.Index, mem)
			if in.OnAccess != nil && fr.record {
				in.OnAccess(fr, x, "index", iv, in.containerLen(xv, x.X.Type()), nil)
			}
			fr.set(x, in.indexAddr(xv, iv, x.X.Type()))
		case *ssa.Index:
			xv, iv := fr.operand(x.X, mem), fr.operand(x.Index, mem)
			if in.OnAccess != nil && fr.record {
				in.OnAccess(fr, x, "index", iv, in.containerLen(xv, x.X.Type()), nil)
			}
			fr.set(x, Index(xv, iv, x.Type()))
		case *ssa.Lookup:
			a, k := fr.operand(x.X, mem), fr.operand(x.Index, mem)
			if mt, isMap := x.X.Type().Underlying().(*types.Map); isMap {
				v := Op("lookup", "", x.Type(), a, k)
				if x.CommaOk {
					tt := x.Type().(*types.Tuple)
					v = Tuple(Op("lookup", "", tt.At(0).Type(), a, k), Op("lookupok", "", tt.At(1).Type(), a, k))
				}
				// a package-level map literal that nothing can change after initialisation is a table: the lookup is a
				// case distinction over its keys
				if a != nil && a.Op == "ptr" && a.Obj != nil && in.FrozenMaps[a.Obj.ID] && len(in.MapLits[a.Obj.ID]) > 0 && len(in.MapLits[a.Obj.ID]) <= 64 && k != nil {
					ps := in.MapLits[a.Obj.ID]
					val := Zero(mt.Elem())
					okT := False
					for i := len(ps) - 1; i >= 0; i-- {
						eq := Bin(token.EQL, k, ps[i].Key, types.Typ[types.Bool])
						val = Ite(eq, ps[i].Val, val)
						okT = Or(eq, okT)
					}
					if x.CommaOk {
						v = Tuple(val, okT)
					} else {
						v = val
					}
				}
				fr.set(x, v)
			} else {
				if in.OnAccess != nil && fr.record {
					in.OnAccess(fr, x, "index", k, in.containerLen(a, x.X.Type()), nil)
				}
				fr.set(x, Index(a, k, x.Type()))
			}
		case *ssa.Slice:
			if in.OnAccess != nil && fr.record {
				xv := fr.operand(x.X, mem)
				var lo, hi *Term
				if x.Low != nil {
					lo = fr.operand(x.Low, mem)
				}
				if x.High != nil {
					hi = fr.operand(x.High, mem)
				}
				in.OnAccess(fr, x, "slice", lo, hi, in.containerLen(xv, x.X.Type()))
			}
			fr.set(x, in.sliceOp(fr, x, mem))
		case *ssa.Extract:
			fr.set(x, Extract(fr.operand(x.Tuple, mem), x.Index, x.Type()))
		case *ssa.Range:
			fr.set(x, Atom(fmt.Sprintf("range#%s#%s", fr.ID, x.Name()), x.Type()))
		case *ssa.Next:
			tt := x.Type().(*types.Tuple)
			var parts []*Term
			for i := 0; i < tt.Len(); i++ {
				parts = append(parts, Atom(fmt.Sprintf("next#%s#%s.%d", fr.ID, x.Name(), i), tt.At(i).Type()))
			}
			fr.set(x, Tuple(parts...))
		case *ssa.Store:
			in.storePtr(fr, x, mem, fr.operand(x.Addr, mem), fr.operand(x.Val, mem))
		case *ssa.MapUpdate:
			mv, kv, vv := fr.operand(x.Map, mem), fr.operand(x.Key, mem), fr.operand(x.Value, mem)
			if _, isInit := in.Hooks.(initHooks); isInit && mv != nil && mv.Op == "ptr" && mv.Obj != nil {
				// a map literal of a package-level variable: unconditional updates with constant keys, in order
				if in.MapLits == nil {
					in.MapLits, in.mapDirty = map[string][]MapPair{}, map[string]bool{}
				}
				r := fr.reach[b]
				if kv != nil && kv.IsConst() && vv != nil && r != nil && r.Key() == True.Key() && len(fr.loopPath(b)) == 0 && !in.mapDirty[mv.Obj.ID] {
					ps := in.MapLits[mv.Obj.ID]
					replaced := false
					for i := range ps {
						if Eq(ps[i].Key, kv) {
							ps[i].Val, replaced = vv, true
						}
					}
					if !replaced {
						ps = append(ps, MapPair{kv, vv})
					}
					in.MapLits[mv.Obj.ID] = ps
				} else {
					in.mapDirty[mv.Obj.ID] = true
					delete(in.MapLits, mv.Obj.ID)
				}
			}
			in.Emit(fr, "mapupdate", x, "", []*Term{mv, kv, vv}, nil)
		case *ssa.Call:
			res, noret := in.call(fr, x, mem)
			if noret {
				fr.memOut[b] = nil
				return
			}
			if res == nil && x.Type() != nil {
				if tt, ok := x.Type().(*types.Tuple); !ok || tt.Len() > 0 {
					res = Atom(fmt.Sprintf("call#%s#%s", fr.ID, x.Name()), x.Type())
				}
			}
			if res != nil {
				fr.set(x, res)
			}
		case *ssa.Defer:
			in.warn("defer in %s", fr.Fn.String())
		case *ssa.RunDefers:
		case *ssa.Go:
			in.warn("go statement in %s", fr.Fn.String())
		case *ssa.Send, *ssa.Select:
			in.warn("channel operation in %s", fr.Fn.String())
		case *ssa.DebugRef:
		case *ssa.If:
			c := fr.operand(x.Cond, mem)
			t, f := blk.Succs[0].Index, blk.Succs[1].Index
			fr.memOut[b] = mem
			fr.edgeCond[[2]int{b, t}] = c
			fr.edgeCond[[2]int{b, f}] = Not(c)
			if v, ok := c.BoolVal(); ok {
				if v {
					fr.edgeExec[[2]int{b, t}] = true
				} else {
					fr.edgeExec[[2]int{b, f}] = true
				}
			} else {
				fr.edgeExec[[2]int{b, t}] = true
				fr.edgeExec[[2]int{b, f}] = true
			}
			return
		case *ssa.Jump:
			fr.memOut[b] = mem
			fr.edgeExec[[2]int{b, blk.Succs[0].Index}] = true
			return
		case *ssa.Return:
			var val *Term
			if len(x.Results) == 1 {
				val = fr.operand(x.Results[0], mem)
			} else if len(x.Results) > 1 {
				var parts []*Term
				for _, r := range x.Results {
					parts = append(parts, fr.operand(r, mem))
				}
				val = Tuple(parts...)
			}
			fr.memOut[b] = mem
			fr.rets = append(fr.rets, retInfo{guard: fr.reach[b], val: val, mem: mem, block: b})
			if rev := in.Emit(fr, "return", x, "", []*Term{val}, nil); rev != nil {
				rev.Mem = mem
			}
			return
		case *ssa.Panic:
			fr.panics++
			in.Emit(fr, "panic", x, "", []*Term{fr.operand(x.X, mem)}, nil)
			fr.memOut[b] = nil
			return
		default:
			in.warn("unsupported instruction %T in %s", ins, fr.Fn.String())
			if v, ok := ins.(ssa.Value); ok {
				fr.set(v, Atom(fmt.Sprintf("unsupported#%s#%s", fr.ID, v.Name()), v.Type()))
			}
		}
	}
	fr.memOut[b] = mem
}

func (fr *Frame) typeAssert(x *ssa.TypeAssert, a *Term) *Term {
	mk := func(v *Term, ok bool) *Term {
		if x.CommaOk {
			return Tuple(v, Bool(ok))
		}
		return v
	}
	if a.Op == "makeiface" {
		if types.Identical(a.T, x.AssertedType) {
			return mk(a.Args[0], true)
		}
		if _, isIface := x.AssertedType.Underlying().(*types.Interface); !isIface {
			if x.CommaOk {
				return mk(Zero(x.AssertedType), false)
			}
		}
	}
	t := &Term{Op: "typeassert", Args: []*Term{a}, T: x.AssertedType}
	if x.CommaOk {
		return Tuple(t, Op("typeassertok", typeKey(x.AssertedType), types.Typ[types.Bool], a))
	}
	return t
}

// asPtr coerces a pointer-valued term into a "ptr" term, creating a deref
// object for opaque pointers.
func (in *Interp) asPtr(a *Term, t types.Type) *Term {
	if a.Op == "ptr" {
		return a
	}
	var elem types.Type
	if pt, ok := t.Underlying().(*types.Pointer); ok {
		elem = pt.Elem()
	}
	return Ptr(in.Obj("deref:"+a.Key(), "deref", elem), nil)
}

func (in *Interp) asSlice(a *Term, t types.Type) *Term {
	if a.Op == "slice" {
		return a
	}
	if a.IsNil() {
		return &Term{Op: "slice", Args: []*Term{a, Int(0), Int(0)}, T: t}
	}
	return &Term{Op: "slice", Args: []*Term{a, Int(0), Len(a)}, T: t}
}

// Len returns the length of a slice/string/array-pointer term.
func Len(a *Term) *Term {
	it := types.Typ[types.Int]
	switch a.Op {
	case "slice":
		return Bin(token.SUB, a.Args[2], a.Args[1], it)
	case "const":
		if a.C == nil {
			return Int(0)
		}
		if s, ok := a.StringVal(); ok {
			return Int(int64(len(s)))
		}
	case "append":
		return Bin(token.ADD, Len(a.Args[0]), Int(int64(len(a.Args)-1)), it)
	case "appendslice":
		return Bin(token.ADD, Len(a.Args[0]), Len(a.Args[1]), it)
	case "ite":
		return Ite(a.Args[0], Len(a.Args[1]), Len(a.Args[2]))
	case "conv":
		// []byte(string) and string([]byte) preserve length
		if a.T != nil {
			if _, ok := a.T.Underlying().(*types.Slice); ok {
				return Len(a.Args[0])
			}
		}
	}
	if a.T != nil {
		if arr, ok := a.T.Underlying().(*types.Array); ok {
			return Int(arr.Len())
		}
	}
	return Op("len", "", it, a)
}

func (in *Interp) indexAddr(x, idx *Term, xt types.Type) *Term {
	var base *Term
	var lo *Term = Int(0)
	var win *Window
	switch xt.Underlying().(type) {
	case *types.Pointer: // pointer to array
		base = in.asPtr(x, xt)
	case *types.Slice:
		s := in.asSlice(x, xt)
		lo = s.Args[1]
		if s.Args[0].Op == "ptr" {
			base = s.Args[0]
			l, ok1 := s.Args[1].Int64()
			h, ok2 := s.Args[2].Int64()
			if ok1 && ok2 {
				win = &Window{l, h}
			}
		} else {
			base = Ptr(in.Obj("deref:"+s.Args[0].Key(), "deref", xt), nil)
		}
	default:
		base = in.asPtr(x, xt)
	}
	pos := Bin(token.ADD, lo, Conv(idx, types.Typ[types.Int]), types.Typ[types.Int])
	if k, ok := pos.Int64(); ok {
		return &Term{Op: "ptr", Obj: base.Obj, Path: base.Path.extend(PathElem{Field: -1, Index: k})}
	}
	return &Term{Op: "ptr", Obj: base.Obj, Path: base.Path.extend(PathElem{Field: -1, Sym: pos}), Win: win}
}

func (in *Interp) sliceOp(fr *Frame, x *ssa.Slice, mem *Mem) *Term {
	a := fr.operand(x.X, mem)
	it := types.Typ[types.Int]
	var low, high *Term
	if x.Low != nil {
		low = Conv(fr.operand(x.Low, mem), it)
	}
	if x.High != nil {
		high = Conv(fr.operand(x.High, mem), it)
	}
	switch u := x.X.Type().Underlying().(type) {
	case *types.Pointer: // *array
		p := in.asPtr(a, x.X.Type())
		if low == nil {
			low = Int(0)
		}
		if high == nil {
			if arr, ok := u.Elem().Underlying().(*types.Array); ok {
				high = Int(arr.Len())
			} else {
				high = Op("len", "", it, a)
			}
		}
		return &Term{Op: "slice", Args: []*Term{p, low, high}, T: x.Type()}
	case *types.Slice:
		s := in.asSlice(a, x.X.Type())
		nlo, nhi := s.Args[1], s.Args[2]
		if high != nil {
			nhi = Bin(token.ADD, s.Args[1], high, it)
		}
		if low != nil {
			nlo = Bin(token.ADD, s.Args[1], low, it)
		}
		return &Term{Op: "slice", Args: []*Term{s.Args[0], nlo, nhi}, T: x.Type()}
	case *types.Basic: // string
		if s, ok := a.StringVal(); ok {
			l, h := int64(0), int64(len(s))
			okc := true
			if low != nil {
				if v, ok := low.Int64(); ok {
					l = v
				} else {
					okc = false
				}
			}
			if high != nil {
				if v, ok := high.Int64(); ok {
					h = v
				} else {
					okc = false
				}
			}
			if okc && 0 <= l && l <= h && h <= int64(len(s)) {
				return Const(constant.MakeString(s[l:h]), x.Type())
			}
		}
		if low == nil {
			low = Int(0)
		}
		if high == nil {
			high = Len(a)
		}
		return Op("strslice", "", x.Type(), a, low, high)
	}
	return Atom(fmt.Sprintf("slice#%s#%s", fr.ID, x.Name()), x.Type())
}

// ---- memory access ----

func (in *Interp) initial(m *Mem, o *Object, p Path, t types.Type) *Term {
	if h := in.Hooks.Init(o, p, t); h != nil {
		return h
	}
	switch o.Kind {
	case "alloc":
		if t == nil {
			return Atom("zero?:"+o.ID+p.String(), nil)
		}
		return Zero(t)
	case "global":
		if o.G != nil && o.G.Pkg != nil && !in.moduleGlobal(o.G) {
			// a variable of a package whose initialiser was not evaluated: unknown
			return Atom("init:"+o.ID+p.String(), t)
		}
		if m != in.Global {
			return in.load(in.Global, o, p)
		}
		if t != nil {
			return Zero(t)
		}
	}
	return Atom("init:"+o.ID+p.String(), t)
}

// Load reads the abstract memory at ptr.
func (in *Interp) Load(m *Mem, ptr *Term) *Term {
	if ptr.Op != "ptr" {
		return nil
	}
	return in.load(m, ptr.Obj, ptr.Path)
}

func (in *Interp) loadPtr(m *Mem, a *Term, t types.Type) *Term {
	if a.Op == "ite" {
		return Ite(a.Args[0], in.loadPtr(m, a.Args[1], t), in.loadPtr(m, a.Args[2], t))
	}
	if a.Op != "ptr" {
		p := Ptr(in.Obj("deref:"+a.Key(), "deref", t), nil)
		return in.load(m, p.Obj, p.Path)
	}
	return in.load(m, a.Obj, a.Path)
}

func (in *Interp) load(m *Mem, o *Object, p Path) *Term {
	if m.Frozen {
		k := cellKey(o, p)
		if v, ok := m.cache[k]; ok {
			return v
		}
		v := in.loadUncached(m, o, p)
		if m.cache == nil {
			m.cache = map[string]*Term{}
		}
		m.cache[k] = v
		return v
	}
	return in.loadUncached(m, o, p)
}

func (in *Interp) loadUncached(m *Mem, o *Object, p Path) *Term {
	if j := p.hasSym(); j >= 0 {
		arr := in.load(m, o, p[:j])
		v := Index(arr, p[j].Sym, typeAt(o.T, p[:j+1]))
		for k := j + 1; k < len(p); k++ {
			v = project(v, p[k], typeAt(o.T, p[:k+1]))
		}
		return v
	}
	t := typeAt(o.T, p)
	cs := m.cellsOf(o)
	var exact, coarse *cell
	finer := false
	if len(cs) > 0 {
		if c, ok := cs[p.String()]; ok {
			exact = c
		}
		// coarse prefixes: walk up the path
		for k := len(p) - 1; k >= 0 && coarse == nil; k-- {
			if c, ok := cs[p[:k].String()]; ok {
				coarse = c
			}
		}
		for _, c := range cs {
			if len(c.path) > len(p) && isPrefix(p, c.path) {
				finer = true
				break
			}
		}
	}
	if exact != nil && !finer {
		return exact.val
	}
	if finer {
		return in.materialise(m, o, p, t)
	}
	if coarse != nil {
		v := coarse.val
		for k := len(coarse.path); k < len(p); k++ {
			v = project(v, p[k], typeAt(o.T, p[:k+1]))
		}
		return v
	}
	return in.initial(m, o, p, t)
}

func project(v *Term, e PathElem, t types.Type) *Term {
	if e.Field >= 0 {
		if v.Op == "atom" && strings.HasPrefix(v.Name, "init:") {
			return Atom(fmt.Sprintf("%s.%d", v.Name, e.Field), t)
		}
		return Field(v, e.Field, t)
	}
	if e.Sym != nil {
		return Index(v, e.Sym, t)
	}
	if v.Op == "atom" && strings.HasPrefix(v.Name, "init:") {
		return Atom(fmt.Sprintf("%s[%d]", v.Name, e.Index), t)
	}
	return Index(v, Int(e.Index), t)
}

func (in *Interp) materialise(m *Mem, o *Object, p Path, t types.Type) *Term {
	if t == nil {
		return Atom("mixed:"+o.ID+p.String(), nil)
	}
	switch u := t.Underlying().(type) {
	case *types.Struct:
		args := make([]*Term, u.NumFields())
		for i := range args {
			args[i] = in.load(m, o, p.extend(PathElem{Field: i}))
		}
		return &Term{Op: "agg", Args: args, T: t}
	case *types.Array:
		if u.Len() <= 64 {
			args := make([]*Term, u.Len())
			for i := range args {
				args[i] = in.load(m, o, p.extend(PathElem{Field: -1, Index: int64(i)}))
			}
			return &Term{Op: "agg", Args: args, T: t}
		}
	}
	// too large or not an aggregate: opaque, but identity-carrying
	var sb strings.Builder
	var mix []MixCell
	for _, c := range m.sortedCells(o) {
		if isPrefix(p, c.path) {
			sb.WriteString(c.path.String() + "=" + c.val.Key() + ";")
			mix = append(mix, MixCell{Rel: append(Path{}, c.path[len(p):]...), Val: c.val})
		}
	}
	a := Atom("mixed:"+o.ID+p.String()+"{"+sb.String()+"}", t)
	if o.Kind == "alloc" {
		// a local is zero-initialised: the listed cells describe the value completely
		a.Mix = mix
		if a.Mix == nil {
			a.Mix = []MixCell{}
		}
	}
	return a
}

func (in *Interp) storePtr(fr *Frame, site ssa.Instruction, m *Mem, a, v *Term) {
	if a.Op == "ite" {
		in.warn("store through a conditional pointer in %s", fr.Fn.String())
		return
	}
	if a.Op != "ptr" {
		a = Ptr(in.Obj("deref:"+a.Key(), "deref", nil), nil)
	}
	o, p := a.Obj, a.Path
	if in.OnStore != nil && fr != nil {
		in.OnStore(fr, site, a, v)
	}
	if o.Kind == "global" && fr != nil {
		in.Emit(fr, "globalwrite", site, o.ID, []*Term{v}, nil)
	}
	j := p.hasSym()
	if j < 0 {
		if v != nil && v.Op == "atom" && v.Mix != nil {
			// whole-value copy of a large, partly initialised aggregate: zero, then the initialised parts
			t := typeAt(o.T, p)
			m.store(o, p, Zero(t))
			for _, mc := range v.Mix {
				if len(mc.Rel) == 0 {
					continue
				}
				m.store(o, append(append(Path{}, p...), mc.Rel...), mc.Val)
			}
			return
		}
		if v != nil && v.Op == "agg" && in.storeAgg(m, o, p, v) {
			return
		}
		m.store(o, p, v)
		return
	}
	arrPath, rest := p[:j], p[j+1:]
	if a.Win != nil && a.Win.Hi-a.Win.Lo <= 64 {
		siteKey := fmt.Sprintf("%s#%d", fr.ID, instrOrdinal(site))
		for k := a.Win.Lo; k < a.Win.Hi; k++ {
			cp := append(arrPath.extend(PathElem{Field: -1, Index: k}), rest...)
			old := in.load(m, o, cp)
			name := fmt.Sprintf("%s#%d", siteKey, k-a.Win.Lo)
			if old.Op == "weak" && old.Name == name {
				continue
			}
			rel := Bin(token.SUB, p[j].Sym, Int(a.Win.Lo), types.Typ[types.Int])
			m.store(o, cp, &Term{Op: "weak", Name: name, Args: []*Term{v, old, rel}, T: v.T})
		}
		return
	}
	arr := in.load(m, o, arrPath)
	if len(rest) == 0 {
		m.store(o, arrPath, &Term{Op: "upd", Args: []*Term{arr, p[j].Sym, v}, T: arr.T})
	} else {
		m.store(o, arrPath, &Term{Op: "updf", Name: Path(rest).String(), Args: []*Term{arr, p[j].Sym, v}, T: arr.T})
	}
}

// storeAgg stores an aggregate value component by component (recursively), so that the memory looks the same
// whether the program initialised the variable in place or built the value in a temporary and copied it.
func (in *Interp) storeAgg(m *Mem, o *Object, p Path, v *Term) bool {
	t := typeAt(o.T, p)
	if t == nil {
		return false
	}
	switch u := t.Underlying().(type) {
	case *types.Struct:
		if u.NumFields() != len(v.Args) {
			return false
		}
		m.store(o, p, v) // drops finer cells
		delete(m.objs[o.ID], p.String())
		for i, a := range v.Args {
			cp := append(append(Path{}, p...), PathElem{Field: i})
			if a != nil && a.Op == "agg" && in.storeAgg(m, o, cp, a) {
				continue
			}
			m.store(o, cp, a)
		}
		return true
	case *types.Array:
		if int(u.Len()) != len(v.Args) || u.Len() > 64 {
			return false
		}
		m.store(o, p, v)
		delete(m.objs[o.ID], p.String())
		for i, a := range v.Args {
			cp := append(append(Path{}, p...), PathElem{Field: -1, Index: int64(i)})
			if a != nil && a.Op == "agg" && in.storeAgg(m, o, cp, a) {
				continue
			}
			m.store(o, cp, a)
		}
		return true
	}
	return false
}

// havoc forgets everything reachable through pointer/slice arguments.
func (in *Interp) havoc(fr *Frame, site ssa.Instruction, m *Mem, args []*Term) {
	for _, a := range args {
		Walk(a, func(x *Term) bool {
			if x.Op == "ptr" {
				p := x.Path
				if j := p.hasSym(); j >= 0 {
					p = p[:j]
				}
				if x.Obj.Kind == "global" {
					in.Emit(fr, "globalescape", site, x.Obj.ID, nil, nil)
				}
				m.store(x.Obj, p, Atom(fmt.Sprintf("havoc#%s#%d:%s%s", fr.ID, instrOrdinal(site), x.Obj.ID, p.String()), typeAt(x.Obj.T, p)))
			}
			return true
		})
	}
}

// Havoc forgets everything reachable through pointer arguments (exported for hooks).
func (in *Interp) Havoc(fr *Frame, site ssa.Instruction, m *Mem, args []*Term) {
	in.havoc(fr, site, m, args)
}

// ---- calls ----

func (in *Interp) call(fr *Frame, x *ssa.Call, mem *Mem) (res *Term, noReturn bool) {
	cc := x.Common()
	var args []*Term
	var callee *ssa.Function
	var bindings []*Term

	if cc.IsInvoke() {
		recv := fr.operand(cc.Value, mem)
		if in.OnAccess != nil && fr.record {
			in.OnAccess(fr, x, "invoke", recv, nil, nil)
		}
		args = append(args, recv)
		for _, a := range cc.Args {
			args = append(args, fr.operand(a, mem))
		}
		if recv.Op == "makeiface" {
			if f := fr.Fn.Prog.LookupMethod(recv.T, cc.Method.Pkg(), cc.Method.Name()); f != nil {
				callee = f
				args[0] = recv.Args[0]
			}
		}
		if callee == nil {
			if h, r := in.Hooks.Call(in, fr, x, nil, args); h {
				return r, false
			}
			in.Emit(fr, "invoke", x, cc.Method.FullName(), args, mem)
			return nil, false
		}
	} else {
		for _, a := range cc.Args {
			args = append(args, fr.operand(a, mem))
		}
		switch v := cc.Value.(type) {
		case *ssa.Builtin:
			return in.builtin(fr, x, v, args, mem), false
		case *ssa.Function:
			callee = v
		default:
			ft := fr.operand(cc.Value, mem)
			if in.OnAccess != nil && fr.record {
				in.OnAccess(fr, x, "callvalue", ft, nil, nil)
			}
			switch ft.Op {
			case "fn":
				callee = ft.Fn
			case "closure":
				callee = ft.Fn
				bindings = ft.Args
			default:
				if h, r := in.Hooks.Call(in, fr, x, nil, append([]*Term{ft}, args...)); h {
					return r, false
				}
				in.Emit(fr, "indirect", x, ft.Key(), args, mem)
				in.havoc(fr, x, mem, args)
				return nil, false
			}
		}
	}
	if h, r := in.Hooks.Call(in, fr, x, callee, args); h {
		return r, false
	}
	name := callee.String()
	inline := callee.Blocks != nil && (in.InModule(callee) || in.InlineExt[name])
	if inline {
		for f := fr; f != nil; f = f.Parent {
			if f.Fn == callee {
				in.warn("recursion through %s", name)
				inline = false
			}
		}
		if fr.Depth >= in.MaxDepth {
			in.warn("inlining depth exceeded at %s", name)
			inline = false
		}
	}
	if !inline {
		if !in.Pure(name) {
			in.havoc(fr, x, mem, args)
		}
		in.Emit(fr, "extcall", x, name, args, mem)
		var rt types.Type
		if rs := callee.Signature.Results(); rs.Len() == 1 {
			rt = rs.At(0).Type()
		} else if rs.Len() > 1 {
			rt = rs
		} else {
			return nil, false
		}
		if in.Pure(name) {
			return FoldCall(Call(name, rt, args...)), false
		}
		return Atom(fmt.Sprintf("ext#%s#%s:%s", fr.ID, x.Name(), name), rt), false
	}
	r, out, _ := in.CallFunction(callee, args, bindings, mem, fr, x, fr.record)
	if out == nil {
		return nil, true
	}
	// adopt callee's memory
	mem.objs = out.objs
	return r, false
}

func (in *Interp) builtin(fr *Frame, x *ssa.Call, b *ssa.Builtin, args []*Term, mem *Mem) *Term {
	switch b.Name() {
	case "len":
		a := args[0]
		if a.Op != "slice" && a.Op != "const" {
			if _, ok := x.Common().Args[0].Type().Underlying().(*types.Slice); ok {
				a = in.asSlice(a, x.Common().Args[0].Type())
			}
		}
		return Len(a)
	case "cap":
		return Op("cap", "", types.Typ[types.Int], args[0])
	case "append":
		base := args[0]
		if len(args) == 2 {
			if elems := in.SliceElems(mem, args[1]); elems != nil {
				in.Emit(fr, "append", x, "append", append([]*Term{base}, elems...), nil)
				return &Term{Op: "append", Args: append([]*Term{base}, elems...), T: x.Type()}
			}
			in.Emit(fr, "appendslice", x, "append", args, nil)
			if args[1].IsNil() {
				return base
			}
			return &Term{Op: "appendslice", Args: []*Term{base, args[1]}, T: x.Type()}
		}
		return base
	case "copy":
		in.havoc(fr, x, mem, args[:1])
		in.Emit(fr, "copy", x, "copy", args, mem)
		return Op("copy", "", types.Typ[types.Int], args...)
	case "print", "println":
		return nil
	case "ssa:wrapnilchk":
		return args[0]
	case "min", "max":
		// integers only: for floats the built-ins treat NaN and signed zeros specially
		if bt, ok := x.Type().Underlying().(*types.Basic); ok && bt.Info()&types.IsInteger != 0 && len(args) >= 1 {
			res := args[0]
			for _, a := range args[1:] {
				if b.Name() == "min" {
					res = Ite(Bin(token.LSS, a, res, types.Typ[types.Bool]), a, res)
				} else {
					res = Ite(Bin(token.LSS, res, a, types.Typ[types.Bool]), a, res)
				}
			}
			return res
		}
		return Op("call", b.Name(), x.Type(), args...)
	case "delete":
		in.Emit(fr, "mapdelete", x, "delete", args, nil)
		return nil
	}
	in.warn("unsupported builtin %s in %s", b.Name(), fr.Fn.String())
	return nil
}

// LoadAt reads the abstract memory at a constant path of o (exported for hooks and rules).
func (in *Interp) LoadAt(m *Mem, o *Object, p Path) *Term { return in.load(m, o, p) }

// ParamObj returns the object a pointer-typed root parameter points to.
func (in *Interp) ParamObj(name string, elem types.Type) *Object {
	return in.Obj("param:"+name, "param", elem)
}

// containerLen returns the length term of an indexable value.
func (in *Interp) containerLen(x *Term, t types.Type) *Term {
	switch u := t.Underlying().(type) {
	case *types.Pointer:
		if arr, ok := u.Elem().Underlying().(*types.Array); ok {
			return Int(arr.Len())
		}
	case *types.Array:
		return Int(u.Len())
	case *types.Slice:
		return Len(in.asSlice(x, t))
	case *types.Basic:
		return Len(x)
	}
	return Op("len", "", types.Typ[types.Int], x)
}
