// Package load type-checks the repository under analysis and lowers it to SSA.
//
// Nothing in this package (or anywhere in ivgsa) executes the analysed code.
package load

import (
	"fmt"
	"go/ast"
	"go/token"
	"go/types"
	"os"
	"sort"
	"strings"

	"golang.org/x/tools/go/packages"
	"golang.org/x/tools/go/ssa"
	"golang.org/x/tools/go/ssa/ssautil"

	"ivgsa/internal/canon"
)

// ModulePath is the import path prefix of the analysed module.
const ModulePath = "github.com/reactivego/ivg"

// Program is the loaded, type-checked and SSA-lowered repository.
type Program struct {
	Dir   string
	Arch  string
	Fset  *token.FileSet
	Pkgs  []*packages.Package // module packages only, sorted by path
	SSA   *ssa.Program
	ByRel map[string]*ssa.Package // "", "decode", "encode", "render", ...
	Types map[string]*packages.Package

	NumFuncs int
	// Renames: identifiers of the tree that are analysed under the name the rules know them by (package canon)
	Renames []canon.Rename
	// Normalised: loops analysed in their long spelling (package canon, NormalizeLoops)
	Normalised []string
	// RawPkgs: the module packages as loaded, before SSA (for `ivgsa snapshot`)
	RawPkgs []*packages.Package
}

// RepoDir returns the directory analysed: $IVG_REPO or /repo.
func RepoDir() string {
	if d := os.Getenv("IVG_REPO"); d != "" {
		return d
	}
	return "/repo"
}

// Load loads all non-test packages of the module rooted at dir for linux/arch.
func Load(dir, arch string) (*Program, error) {
	if arch == "" {
		arch = "amd64"
	}
	env := []string{}
	for _, kv := range os.Environ() {
		if strings.HasPrefix(kv, "GOWORK=") || strings.HasPrefix(kv, "GOFLAGS=") ||
			strings.HasPrefix(kv, "GOPROXY=") || strings.HasPrefix(kv, "GOSUMDB=") ||
			strings.HasPrefix(kv, "GOTOOLCHAIN=") || strings.HasPrefix(kv, "GOOS=") ||
			strings.HasPrefix(kv, "GOARCH=") || strings.HasPrefix(kv, "CGO_ENABLED=") {
			continue
		}
		env = append(env, kv)
	}
	env = append(env, "GOWORK=off", "GOFLAGS=-mod=mod", "GOPROXY=off", "GOSUMDB=off",
		"GOTOOLCHAIN=local", "GOOS=linux", "GOARCH="+arch, "CGO_ENABLED=0")
	cfg := &packages.Config{
		Mode:  packages.LoadAllSyntax,
		Dir:   dir,
		Env:   env,
		Tests: false,
	}
	loadAll := func() ([]*packages.Package, error) {
		pkgs, err := packages.Load(cfg, "./...")
		if err != nil {
			return nil, fmt.Errorf("packages.Load: %w", err)
		}
		if len(pkgs) == 0 {
			return nil, fmt.Errorf("no packages loaded from %s", dir)
		}
		var errs []string
		packages.Visit(pkgs, nil, func(p *packages.Package) {
			for _, e := range p.Errors {
				errs = append(errs, e.Error())
			}
		})
		if len(errs) > 0 {
			sort.Strings(errs)
			return nil, fmt.Errorf("type-check/load errors (%d), first: %s", len(errs), errs[0])
		}
		return pkgs, nil
	}
	pkgs, err := loadAll()
	if err != nil {
		return nil, err
	}
	inMod := func(pks []*packages.Package) []*packages.Package {
		var out []*packages.Package
		for _, pk := range pks {
			if pk.PkgPath == ModulePath || strings.HasPrefix(pk.PkgPath, ModulePath+"/") {
				out = append(out, pk)
			}
		}
		return out
	}
	relOf := func(tp *types.Package) string {
		return strings.TrimPrefix(strings.TrimPrefix(tp.Path(), ModulePath), "/")
	}
	// identifiers the rules know under another name (unexported things and parameters renamed since the rules were
	// written): analyse an alpha-renamed copy held in memory. If that copy does not type-check the tree is analysed
	// as it is.
	var renames []canon.Rename
	var normNotes []string
	if os.Getenv("IVGSA_NO_CANON") == "" {
		overlay := map[string][]byte{}
		// stage 1: loop spellings
		if ov, notes := canon.NormalizeLoops(inMod(pkgs), nil); len(ov) > 0 {
			cfg.Overlay = ov
			if p2, err2 := loadAll(); err2 == nil {
				pkgs, normNotes, overlay = p2, notes, ov
			} else {
				cfg.Overlay = nil
			}
		}
		// stage 2: names
		if snap, serr := canon.Embedded(); serr == nil {
			if ov, rs := canon.Plan(snap, inMod(pkgs), relOf, overlay); len(ov) > 0 {
				merged := map[string][]byte{}
				for k, v := range overlay {
					merged[k] = v
				}
				for k, v := range ov {
					merged[k] = v
				}
				cfg.Overlay = merged
				if p2, err2 := loadAll(); err2 == nil {
					pkgs, renames = p2, rs
				} else {
					cfg.Overlay = overlay
					if len(overlay) == 0 {
						cfg.Overlay = nil
					}
					p3, err3 := loadAll()
					if err3 != nil {
						return nil, err3
					}
					pkgs = p3
				}
			}
		}
	}
	prog, _ := ssautil.AllPackages(pkgs, ssa.BuilderMode(0))
	prog.Build()

	p := &Program{Dir: dir, Arch: arch, Fset: prog.Fset, SSA: prog,
		ByRel: map[string]*ssa.Package{}, Types: map[string]*packages.Package{}, Renames: renames, Normalised: normNotes, RawPkgs: inMod(pkgs)}
	for _, pk := range pkgs {
		if pk.PkgPath != ModulePath && !strings.HasPrefix(pk.PkgPath, ModulePath+"/") {
			continue
		}
		p.Pkgs = append(p.Pkgs, pk)
		rel := strings.TrimPrefix(strings.TrimPrefix(pk.PkgPath, ModulePath), "/")
		sp := prog.Package(pk.Types)
		if sp == nil {
			return nil, fmt.Errorf("no SSA package for %s", pk.PkgPath)
		}
		p.ByRel[rel] = sp
		p.Types[rel] = pk
	}
	sort.Slice(p.Pkgs, func(i, j int) bool { return p.Pkgs[i].PkgPath < p.Pkgs[j].PkgPath })
	if len(p.Pkgs) == 0 {
		return nil, fmt.Errorf("no packages of module %s found under %s", ModulePath, dir)
	}
	for fn := range ssautil.AllFunctions(prog) {
		if fn.Pkg != nil && p.InModule(fn.Pkg.Pkg) && fn.Blocks != nil {
			p.NumFuncs++
		}
	}
	if p.NumFuncs == 0 {
		return nil, fmt.Errorf("no functions with bodies in module")
	}
	return p, nil
}

// InModule reports whether the types.Package belongs to the analysed module.
func (p *Program) InModule(tp *types.Package) bool {
	if tp == nil {
		return false
	}
	return tp.Path() == ModulePath || strings.HasPrefix(tp.Path(), ModulePath+"/")
}

// FnInModule reports whether fn (or its enclosing function for closures and
// wrappers) belongs to the module and has a body.
func (p *Program) FnInModule(fn *ssa.Function) bool {
	if fn == nil || fn.Blocks == nil {
		return false
	}
	for f := fn; f != nil; f = f.Parent() {
		if f.Pkg != nil {
			return p.InModule(f.Pkg.Pkg)
		}
	}
	if obj := fn.Object(); obj != nil && obj.Pkg() != nil {
		return p.InModule(obj.Pkg())
	}
	return false
}

// Rel returns the module-relative package path of tp ("" for the root).
func (p *Program) Rel(tp *types.Package) string {
	return strings.TrimPrefix(strings.TrimPrefix(tp.Path(), ModulePath), "/")
}

// Pkg returns the SSA package with the given module-relative path or nil.
func (p *Program) Pkg(rel string) *ssa.Package { return p.ByRel[rel] }

// Func returns the package-level function rel.name, or nil.
func (p *Program) Func(rel, name string) *ssa.Function {
	sp := p.ByRel[rel]
	if sp == nil {
		return nil
	}
	return sp.Func(name)
}

// Method returns the method named name of type rel.typ. If ptr, the method set
// of *T is used.
func (p *Program) Method(rel, typ, name string, ptr bool) *ssa.Function {
	sp := p.ByRel[rel]
	if sp == nil {
		return nil
	}
	t := sp.Type(typ)
	if t == nil {
		return nil
	}
	var T types.Type = t.Type()
	if ptr {
		T = types.NewPointer(T)
	}
	sel := p.SSA.MethodSets.MethodSet(T).Lookup(sp.Pkg, name)
	if sel == nil {
		return nil
	}
	return p.SSA.MethodValue(sel)
}

// Named returns the named type rel.name or nil.
func (p *Program) Named(rel, name string) *types.Named {
	sp := p.ByRel[rel]
	if sp == nil {
		return nil
	}
	t := sp.Type(name)
	if t == nil {
		return nil
	}
	n, _ := t.Type().(*types.Named)
	return n
}

// Global returns the package-level variable rel.name or nil.
func (p *Program) Global(rel, name string) *ssa.Global {
	sp := p.ByRel[rel]
	if sp == nil {
		return nil
	}
	return sp.Var(name)
}

// Pos renders a position as a repository-relative file:line.
func (p *Program) Pos(pos token.Pos) string {
	if !pos.IsValid() {
		return "-"
	}
	ps := p.Fset.Position(pos)
	f := strings.TrimPrefix(ps.Filename, p.Dir+"/")
	return fmt.Sprintf("%s:%d", f, ps.Line)
}

// FuncName returns a stable, module-relative name for fn such as
// "encode.(*Encoder).SetCReg" or "decode.Disassemble$1".
func (p *Program) FuncName(fn *ssa.Function) string {
	if fn == nil {
		return "<nil>"
	}
	s := fn.String()
	s = strings.ReplaceAll(s, ModulePath+"/", "")
	s = strings.ReplaceAll(s, ModulePath, "ivg")
	return s
}

// AllFuncs returns every function with a body that belongs to the module,
// including closures, in a deterministic order.
func (p *Program) AllFuncs() []*ssa.Function {
	var out []*ssa.Function
	for fn := range ssautil.AllFunctions(p.SSA) {
		if fn.Synthetic != "" && fn.Parent() == nil && fn.Pkg == nil {
			// wrappers/thunks/bound methods: synthetic, analysed through their targets
			continue
		}
		if p.FnInModule(fn) {
			out = append(out, fn)
		}
	}
	sort.Slice(out, func(i, j int) bool {
		a, b := out[i], out[j]
		if a.String() != b.String() {
			return a.String() < b.String()
		}
		return a.Pos() < b.Pos()
	})
	return out
}

// Files returns the syntax trees of the package with the given relative path.
func (p *Program) Files(rel string) []*ast.File {
	if pk := p.Types[rel]; pk != nil {
		return pk.Syntax
	}
	return nil
}
