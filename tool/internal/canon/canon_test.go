package canon

import (
	"go/types"
	"os"
	"path/filepath"
	"reflect"
	"strings"
	"testing"

	"golang.org/x/tools/go/packages"
)

const original = `package m

type buf []byte

type T struct {
	lo, hi float32
	kind   uint8
	data   buf
}

var table = [3]int{1, 2, 3}

func (t *T) set(lo, hi float32) { t.lo, t.hi = lo, hi }

func (b buf) first() byte { return b[0] }

func helper(x int, s string) int {
	f := func(a, b int) int { return a + b + len(s) }
	return f(x, table[0])
}

func count(n int) int {
	s := 0
	for i := 0; i < n; i++ {
		s += i
	}
	return s
}
`

// the same program after a maintainer's renames and a modernised loop
const renamed = `package m

type byteBuf []byte

type T struct {
	low, high float32
	tag       uint8
	data      byteBuf
}

var lookup = [3]int{1, 2, 3}

func (x *T) assign(a, b float32) { x.low, x.high = a, b }

func (bb byteBuf) head() byte { return bb[0] }

func aid(v int, str string) int {
	g := func(p, q int) int { return p + q + len(str) }
	return g(v, lookup[0])
}

func count(n int) int {
	s := 0
	for i := range n {
		s += i
	}
	return s
}
`

func load(t *testing.T, dir string, overlay map[string][]byte) []*packages.Package {
	t.Helper()
	cfg := &packages.Config{Mode: packages.LoadAllSyntax, Dir: dir, Overlay: overlay,
		Env: append(os.Environ(), "GOFLAGS=-mod=mod", "GOPROXY=off", "GOWORK=off")}
	pkgs, err := packages.Load(cfg, "./...")
	if err != nil {
		t.Fatal(err)
	}
	for _, p := range pkgs {
		for _, e := range p.Errors {
			t.Fatalf("load: %v", e)
		}
	}
	return pkgs
}

func write(t *testing.T, src string) string {
	t.Helper()
	dir := t.TempDir()
	if err := os.WriteFile(filepath.Join(dir, "go.mod"), []byte("module m\n\ngo 1.22\n"), 0o644); err != nil {
		t.Fatal(err)
	}
	if err := os.WriteFile(filepath.Join(dir, "m.go"), []byte(src), 0o644); err != nil {
		t.Fatal(err)
	}
	return dir
}

func TestRenamesAndLoopsAreUndone(t *testing.T) {
	rel := func(*types.Package) string { return "" }
	snap := Take(load(t, write(t, original), nil), rel)

	dir := write(t, renamed)
	pkgs := load(t, dir, nil)
	ov1, notes := NormalizeLoops(pkgs, nil)
	if len(ov1) != 1 || len(notes) != 1 {
		t.Fatalf("range-over-int loop not normalised: %v", notes)
	}
	pkgs = load(t, dir, ov1)
	ov2, renames := Plan(snap, pkgs, rel, ov1)
	if len(ov2) != 1 {
		t.Fatalf("no rename overlay; renames: %v", renames)
	}
	got := Take(load(t, dir, ov2), rel)
	if !reflect.DeepEqual(snap, got) {
		for _, r := range renames {
			t.Log(r)
		}
		for _, src := range ov2 {
			t.Log(string(src))
		}
		t.Fatalf("after undoing the renames the names differ from the snapshot")
	}
	for _, src := range ov2 {
		if strings.Contains(string(src), "range n") {
			t.Fatalf("loop spelling came back")
		}
	}
}

func TestNoRenameWhenNothingIsMissing(t *testing.T) {
	rel := func(*types.Package) string { return "" }
	dir := write(t, original)
	pkgs := load(t, dir, nil)
	snap := Take(pkgs, rel)
	if ov, rs := Plan(snap, pkgs, rel, nil); len(ov) != 0 || len(rs) != 0 {
		t.Fatalf("unexpected renames on the snapshot's own tree: %v", rs)
	}
	if ov, _ := NormalizeLoops(pkgs, nil); len(ov) != 0 {
		t.Fatalf("unexpected loop rewrite")
	}
}
