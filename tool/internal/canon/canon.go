// Package canon makes the rules independent of how unexported things are called.
//
// The rules find their anchors - a field of the Renderer, a helper of the decoder, the receiver of a method - by
// name. Names of unexported identifiers and of parameters are not behaviour: a maintainer may rename them at any
// time, and a check that answers "anchor not found" to a rename raises an alarm on code where the property holds.
// This package keeps a snapshot of the names the rules were written against (taken from the pinned tree with
// `ivgsa snapshot`; it records names, types and declaration order only, no code) and, when a name of the snapshot is
// missing from the tree under analysis, looks for the declaration that took its place: an identifier that the
// snapshot does not know, of the same kind, in the same place (same package, same struct, same receiver), with the
// same type, in declaration order. Where exactly such a declaration exists the tree is analysed under the old name:
// the sources are alpha-renamed in memory (every identifier that resolves to the renamed object, by the type
// checker's own resolution) and loaded again through an overlay. Nothing is decided by this package: a wrong guess
// can only make the rules fail where they would have failed for the missing anchor anyway, because every rule
// checks what the thing it is pointed at *does*.
package canon

import (
	_ "embed"
	"encoding/json"
	"fmt"
	"go/ast"
	"go/token"
	"go/types"
	"os"
	"regexp"
	"sort"
	"strings"

	"golang.org/x/tools/go/packages"
)

//go:embed snapshot.json
var snapshotJSON []byte

type FieldSnap struct{ Name, Type string }

type TypeSnap struct {
	Name       string
	Underlying string // "struct" for struct types
	Fields     []FieldSnap
	Methods    []string
}

type FuncSnap struct {
	Recv   string   // receiver type name, "" for functions
	Name   string
	Sig    string   // parameter and result types, no names
	Params []string // receiver, parameters and results in order; "" when unnamed
	Lits   [][]string // the same for every function literal in the body, in source order
}

type VarSnap struct{ Name, Type, Kind string }

type PkgSnap struct {
	Types []TypeSnap
	Funcs []FuncSnap
	Vars  []VarSnap
}

type Snapshot struct {
	Pkgs map[string]*PkgSnap // by module-relative path
}

// Embedded returns the snapshot compiled into the tool.
func Embedded() (*Snapshot, error) {
	var s Snapshot
	if err := json.Unmarshal(snapshotJSON, &s); err != nil {
		return nil, err
	}
	return &s, nil
}

func exported(name string) bool { return ast.IsExported(name) }

// cur is a package as it is now, with the objects behind the names.
type cur struct {
	pk       *packages.Package
	snap     *PkgSnap
	typeObj  map[string]*types.TypeName
	fieldObj map[string][]*types.Var // by type name
	funcObj  map[string]*types.Func  // by recv.name
	funcDecl map[string]*ast.FuncDecl
	litVars  map[string][][]*types.Var
	varObj   map[string]types.Object
}

func qual(pk *types.Package) types.Qualifier {
	return func(p *types.Package) string {
		if p == pk {
			return ""
		}
		return p.Name()
	}
}

func sigString(sig *types.Signature, q types.Qualifier) string {
	var ps, rs []string
	for i := 0; i < sig.Params().Len(); i++ {
		s := types.TypeString(sig.Params().At(i).Type(), q)
		if sig.Variadic() && i == sig.Params().Len()-1 {
			s = "..." + strings.TrimPrefix(s, "[]")
		}
		ps = append(ps, s)
	}
	for i := 0; i < sig.Results().Len(); i++ {
		rs = append(rs, types.TypeString(sig.Results().At(i).Type(), q))
	}
	return "(" + strings.Join(ps, ", ") + ") (" + strings.Join(rs, ", ") + ")"
}

func recvName(sig *types.Signature) (string, bool) {
	if sig.Recv() == nil {
		return "", false
	}
	t := sig.Recv().Type()
	ptr := false
	if p, ok := t.(*types.Pointer); ok {
		t, ptr = p.Elem(), true
	}
	if n, ok := t.(*types.Named); ok {
		return n.Obj().Name(), ptr
	}
	return "?", ptr
}

func take(pk *packages.Package) *cur {
	c := &cur{pk: pk, snap: &PkgSnap{}, typeObj: map[string]*types.TypeName{}, fieldObj: map[string][]*types.Var{},
		funcObj: map[string]*types.Func{}, funcDecl: map[string]*ast.FuncDecl{}, litVars: map[string][][]*types.Var{}, varObj: map[string]types.Object{}}
	q := qual(pk.Types)
	files := append([]*ast.File{}, pk.Syntax...)
	sort.Slice(files, func(i, j int) bool {
		return pk.Fset.Position(files[i].Pos()).Filename < pk.Fset.Position(files[j].Pos()).Filename
	})
	for _, f := range files {
		for _, d := range f.Decls {
			switch d := d.(type) {
			case *ast.GenDecl:
				for _, sp := range d.Specs {
					switch sp := sp.(type) {
					case *ast.TypeSpec:
						tn, _ := pk.TypesInfo.Defs[sp.Name].(*types.TypeName)
						if tn == nil || tn.IsAlias() {
							continue
						}
						named, ok := tn.Type().(*types.Named)
						if !ok {
							continue
						}
						ts := TypeSnap{Name: tn.Name()}
						if st, ok := named.Underlying().(*types.Struct); ok {
							ts.Underlying = "struct"
							for i := 0; i < st.NumFields(); i++ {
								ts.Fields = append(ts.Fields, FieldSnap{st.Field(i).Name(), types.TypeString(st.Field(i).Type(), q)})
								c.fieldObj[tn.Name()] = append(c.fieldObj[tn.Name()], st.Field(i))
							}
						} else {
							ts.Underlying = types.TypeString(named.Underlying(), q)
						}
						for i := 0; i < named.NumMethods(); i++ {
							ts.Methods = append(ts.Methods, named.Method(i).Name())
						}
						sort.Strings(ts.Methods)
						c.snap.Types = append(c.snap.Types, ts)
						c.typeObj[tn.Name()] = tn
					case *ast.ValueSpec:
						for _, id := range sp.Names {
							if id.Name == "_" || exported(id.Name) {
								continue
							}
							obj := pk.TypesInfo.Defs[id]
							if obj == nil {
								continue
							}
							kind := "var"
							if _, isC := obj.(*types.Const); isC {
								kind = "const"
							}
							c.snap.Vars = append(c.snap.Vars, VarSnap{id.Name, types.TypeString(obj.Type(), q), kind})
							c.varObj[id.Name] = obj
						}
					}
				}
			case *ast.FuncDecl:
				fn, _ := pk.TypesInfo.Defs[d.Name].(*types.Func)
				if fn == nil || d.Name.Name == "_" || d.Name.Name == "init" {
					continue
				}
				sig := fn.Type().(*types.Signature)
				rn, ptr := recvName(sig)
				fs := FuncSnap{Recv: rn, Name: fn.Name(), Sig: sigString(sig, q)}
				if ptr {
					fs.Sig = "*" + fs.Sig
				}
				if sig.Recv() != nil {
					fs.Params = append(fs.Params, sig.Recv().Name())
				}
				for i := 0; i < sig.Params().Len(); i++ {
					fs.Params = append(fs.Params, sig.Params().At(i).Name())
				}
				for i := 0; i < sig.Results().Len(); i++ {
					fs.Params = append(fs.Params, sig.Results().At(i).Name())
				}
				if d.Body != nil {
					ast.Inspect(d.Body, func(n ast.Node) bool {
						lit, ok := n.(*ast.FuncLit)
						if !ok {
							return true
						}
						lsig, _ := pk.TypesInfo.TypeOf(lit).(*types.Signature)
						var names []string
						var vars []*types.Var
						if lsig != nil {
							for i := 0; i < lsig.Params().Len(); i++ {
								names = append(names, lsig.Params().At(i).Name())
								vars = append(vars, lsig.Params().At(i))
							}
							for i := 0; i < lsig.Results().Len(); i++ {
								names = append(names, lsig.Results().At(i).Name())
								vars = append(vars, lsig.Results().At(i))
							}
						}
						fs.Lits = append(fs.Lits, names)
						c.litVars[rn+"."+fn.Name()] = append(c.litVars[rn+"."+fn.Name()], vars)
						return true
					})
				}
				c.snap.Funcs = append(c.snap.Funcs, fs)
				c.funcObj[rn+"."+fn.Name()] = fn
				c.funcDecl[rn+"."+fn.Name()] = d
			}
		}
	}
	return c
}

// Take records the names of the given module packages.
func Take(pkgs []*packages.Package, rel func(*types.Package) string) *Snapshot {
	s := &Snapshot{Pkgs: map[string]*PkgSnap{}}
	for _, pk := range pkgs {
		s.Pkgs[rel(pk.Types)] = take(pk).snap
	}
	return s
}

// Rename is one identifier analysed under its snapshot name.
type Rename struct {
	Pkg, What, From, To string
}

func (r Rename) String() string {
	p := r.Pkg
	if p == "" {
		p = "ivg"
	}
	return fmt.Sprintf("%s: %s %s analysed as %s", p, r.What, r.From, r.To)
}

// Plan compares the packages with the snapshot and returns, for files in which a renamed identifier occurs, their
// alpha-renamed content, together with the list of renames. Both are empty when every name of the snapshot is present.
func Plan(snap *Snapshot, pkgs []*packages.Package, rel func(*types.Package) string, prior map[string][]byte) (map[string][]byte, []Rename) {
	overlay := map[string][]byte{}
	var all []Rename
	for _, pk := range pkgs {
		r := rel(pk.Types)
		ps := snap.Pkgs[r]
		if ps == nil {
			continue
		}
		ren, log := planPkg(r, ps, pk)
		if len(ren) == 0 {
			continue
		}
		all = append(all, log...)
		type edit struct {
			off, n int
			to     string
		}
		edits := map[string][]edit{}
		add := func(id *ast.Ident, to string) {
			pos := pk.Fset.Position(id.Pos())
			edits[pos.Filename] = append(edits[pos.Filename], edit{pos.Offset, len(id.Name), to})
		}
		for id, obj := range pk.TypesInfo.Defs {
			if to, ok := ren[obj]; ok && obj != nil {
				add(id, to)
			}
		}
		for id, obj := range pk.TypesInfo.Uses {
			if to, ok := ren[obj]; ok {
				add(id, to)
			}
		}
		for file, es := range edits {
			src := append([]byte{}, prior[file]...)
			if len(src) == 0 {
				b, err := os.ReadFile(file)
				if err != nil {
					continue
				}
				src = b
			}
			sort.Slice(es, func(i, j int) bool { return es[i].off > es[j].off })
			last := -1
			for _, e := range es {
				if e.off == last || e.off+e.n > len(src) {
					continue
				}
				last = e.off
				src = append(src[:e.off], append([]byte(e.to), src[e.off+e.n:]...)...)
			}
			overlay[file] = src
		}
	}
	sort.Slice(all, func(i, j int) bool { return all[i].String() < all[j].String() })
	return overlay, all
}

func planPkg(rel string, ps *PkgSnap, pk *packages.Package) (map[types.Object]string, []Rename) {
	c := take(pk)
	ren := map[types.Object]string{}
	var log []Rename
	note := func(what, from, to string) { log = append(log, Rename{rel, what, from, to}) }

	// ---- types ----
	canonType := map[string]*TypeSnap{}
	for i := range ps.Types {
		canonType[ps.Types[i].Name] = &ps.Types[i]
	}
	curType := map[string]*TypeSnap{}
	for i := range c.snap.Types {
		curType[c.snap.Types[i].Name] = &c.snap.Types[i]
	}
	typeRen := map[string]string{} // current name -> snapshot name
	var newTypes []string           // current types the snapshot does not know and that replace nothing
	used := map[string]bool{}
	fieldTypes := func(t *TypeSnap) string {
		var s []string
		for _, f := range t.Fields {
			s = append(s, f.Type)
		}
		return strings.Join(s, ";")
	}
	for _, m := range ps.Types {
		if curType[m.Name] != nil || exported(m.Name) {
			continue
		}
		var cands []*TypeSnap
		for i := range c.snap.Types {
			u := &c.snap.Types[i]
			if canonType[u.Name] != nil || exported(u.Name) || used[u.Name] {
				continue
			}
			same := u.Underlying == m.Underlying && (m.Underlying != "struct" || fieldTypes(u) == fieldTypes(&m))
			if !same && len(m.Methods) > 0 && strings.Join(u.Methods, ",") == strings.Join(m.Methods, ",") {
				same = true
			}
			if same {
				cands = append(cands, u)
			}
		}
		if len(cands) == 1 {
			typeRen[cands[0].Name] = m.Name
			used[cands[0].Name] = true
		}
	}
	for _, u := range c.snap.Types {
		if canonType[u.Name] == nil && typeRen[u.Name] == "" {
			newTypes = append(newTypes, u.Name)
		}
	}
	norm := func(s string) string {
		for from, to := range typeRen {
			s = regexp.MustCompile(`\b`+regexp.QuoteMeta(from)+`\b`).ReplaceAllString(s, to)
		}
		return s
	}
	canonNameOfType := func(curName string) string {
		if t := typeRen[curName]; t != "" {
			return t
		}
		return curName
	}

	// ---- fields ----
	isNewType := func(name string) bool {
		for _, n := range newTypes {
			if n == name {
				return true
			}
		}
		return false
	}
	for i := range c.snap.Types {
		ct := &c.snap.Types[i]
		mt := canonType[canonNameOfType(ct.Name)]
		if mt == nil || mt.Underlying != "struct" || ct.Underlying != "struct" {
			continue
		}
		have := map[string]bool{}
		for _, f := range ct.Fields {
			have[f.Name] = true
		}
		known := map[string]bool{}
		for _, f := range mt.Fields {
			known[f.Name] = true
		}
		taken := map[*types.Var]bool{}
		for _, m := range mt.Fields {
			if have[m.Name] || m.Name == "_" {
				continue
			}
			found := false
			for j, f := range ct.Fields {
				fo := c.fieldObj[ct.Name][j]
				if known[f.Name] || taken[fo] || norm(f.Type) != m.Type || fo.Embedded() {
					continue
				}
				taken[fo], found = true, true
				ren[fo] = m.Name
				note("field "+mt.Name, f.Name, m.Name)
				break
			}
			if found {
				continue
			}
			// moved into a struct that did not exist before: a field of a new struct-typed field
			for j, f := range ct.Fields {
				if known[f.Name] || !isNewType(f.Type) || curType[f.Type] == nil || curType[f.Type].Underlying != "struct" {
					continue
				}
				_ = j
				clash := false
				for _, g := range curType[f.Type].Fields {
					if g.Name == m.Name {
						clash = true
					}
				}
				if clash {
					found = true // already called that inside the new struct: nothing to rename
					break
				}
				for k, g := range curType[f.Type].Fields {
					go_ := c.fieldObj[f.Type][k]
					if taken[go_] || norm(g.Type) != m.Type {
						continue
					}
					taken[go_], found = true, true
					ren[go_] = m.Name
					note("field "+mt.Name+"."+f.Name, g.Name, m.Name)
					break
				}
				if found {
					break
				}
			}
		}
	}

	// ---- package-level variables and constants ----
	{
		have := map[string]bool{}
		for _, v := range c.snap.Vars {
			have[v.Name] = true
		}
		known := map[string]bool{}
		for _, v := range ps.Vars {
			known[v.Name] = true
		}
		taken := map[string]bool{}
		for _, m := range ps.Vars {
			if have[m.Name] {
				continue
			}
			for _, v := range c.snap.Vars {
				if known[v.Name] || taken[v.Name] || v.Kind != m.Kind || norm(v.Type) != m.Type {
					continue
				}
				taken[v.Name] = true
				ren[c.varObj[v.Name]] = m.Name
				note(m.Kind, v.Name, m.Name)
				break
			}
		}
	}

	// ---- functions and methods ----
	funcCanon := map[string]string{} // current key -> snapshot key
	{
		have := map[string]bool{}
		for _, f := range c.snap.Funcs {
			have[canonNameOfType(f.Recv)+"."+f.Name] = true
		}
		known := map[string]bool{}
		for _, f := range ps.Funcs {
			known[f.Recv+"."+f.Name] = true
		}
		taken := map[string]bool{}
		for _, m := range ps.Funcs {
			if have[m.Recv+"."+m.Name] || exported(m.Name) {
				continue
			}
			for _, f := range c.snap.Funcs {
				k := f.Recv + "." + f.Name
				if known[canonNameOfType(f.Recv)+"."+f.Name] || taken[k] || exported(f.Name) || canonNameOfType(f.Recv) != m.Recv || norm(f.Sig) != m.Sig {
					continue
				}
				taken[k] = true
				ren[c.funcObj[k]] = m.Name
				funcCanon[k] = m.Recv + "." + m.Name
				what := "func"
				if m.Recv != "" {
					what = "method " + m.Recv
				}
				note(what, f.Name, m.Name)
				break
			}
		}
	}

	// ---- type names themselves ----
	for from, to := range typeRen {
		ren[c.typeObj[from]] = to
		note("type", from, to)
	}

	litSpan := map[types.Object]bool{}
	// ---- receivers, parameters, named results: by position ----
	canonFunc := map[string]*FuncSnap{}
	for i := range ps.Funcs {
		canonFunc[ps.Funcs[i].Recv+"."+ps.Funcs[i].Name] = &ps.Funcs[i]
	}
	for _, f := range c.snap.Funcs {
		k := f.Recv + "." + f.Name
		ck := canonNameOfType(f.Recv) + "." + f.Name
		if x := funcCanon[k]; x != "" {
			ck = x
		}
		m := canonFunc[ck]
		fn := c.funcObj[k]
		if m == nil || fn == nil || len(m.Params) != len(f.Params) || norm(f.Sig) != m.Sig {
			continue
		}
		sig := fn.Type().(*types.Signature)
		var vars []*types.Var
		if sig.Recv() != nil {
			vars = append(vars, sig.Recv())
		}
		for i := 0; i < sig.Params().Len(); i++ {
			vars = append(vars, sig.Params().At(i))
		}
		for i := 0; i < sig.Results().Len(); i++ {
			vars = append(vars, sig.Results().At(i))
		}
		if len(vars) != len(m.Params) {
			continue
		}
		for i, v := range vars {
			if v.Name() == m.Params[i] || v.Name() == "" || v.Name() == "_" || m.Params[i] == "" || m.Params[i] == "_" {
				continue
			}
			ren[v] = m.Params[i]
			note("parameter of "+strings.TrimPrefix(ck, "."), v.Name(), m.Params[i])
		}
		// function literals, by position in the body
		if lv := c.litVars[k]; len(lv) == len(m.Lits) {
			for li, vs := range lv {
				if len(vs) != len(m.Lits[li]) {
					continue
				}
				for i, v := range vs {
					to := m.Lits[li][i]
					if v.Name() == to || v.Name() == "" || v.Name() == "_" || to == "" || to == "_" {
						continue
					}
					ren[v] = to
					litSpan[v] = true
					note(fmt.Sprintf("parameter of literal %d in %s", li, strings.TrimPrefix(ck, ".")), v.Name(), to)
				}
			}
		}
	}

	// ---- conflicts: a rename must not capture or be captured ----
	drop := map[types.Object]bool{}
	info := pk.TypesInfo
	isSelectorName := func(o types.Object) bool {
		switch o := o.(type) {
		case *types.Var:
			return o.IsField()
		case *types.Func:
			return o.Type().(*types.Signature).Recv() != nil
		}
		return false
	}
	// where each function's declaration lies, for parameter renames
	type span struct{ lo, hi token.Pos }
	paramSpan := map[types.Object]span{}
	for k, d := range c.funcDecl {
		fn := c.funcObj[k]
		if fn == nil {
			continue
		}
		sig := fn.Type().(*types.Signature)
		mark := func(v *types.Var) {
			if v != nil {
				paramSpan[v] = span{d.Pos(), d.End()}
			}
		}
		mark(sig.Recv())
		for i := 0; i < sig.Params().Len(); i++ {
			mark(sig.Params().At(i))
		}
		for i := 0; i < sig.Results().Len(); i++ {
			mark(sig.Results().At(i))
		}
		for _, vs := range c.litVars[k] {
			for _, v := range vs {
				if litSpan[v] {
					mark(v)
				}
			}
		}
	}
	check := func(id *ast.Ident, obj types.Object) {
		if obj == nil {
			return
		}
		// (a) an identifier that already carries a target name inside the region where that name will now mean the
		// renamed object
		for ro, to := range ren {
			if id.Name != to || obj == ro || isSelectorName(obj) != isSelectorName(ro) {
				continue
			}
			if _, alsoRenamed := ren[obj]; alsoRenamed {
				continue // it gets another name itself
			}
			if sp, isParam := paramSpan[ro]; isParam {
				if id.Pos() >= sp.lo && id.Pos() < sp.hi {
					drop[ro] = true
				}
				continue
			}
			if isSelectorName(ro) {
				// a field or method of the same struct with that name
				if v, ok := obj.(*types.Var); ok && v.IsField() {
					if rv, ok := ro.(*types.Var); ok && sameStruct(pk.Types, v, rv) {
						drop[ro] = true
					}
				}
				continue
			}
			// package-level: any other non-selector identifier of that name in the package could capture a use
			drop[ro] = true
		}
	}
	for id, obj := range info.Defs {
		check(id, obj)
	}
	for id, obj := range info.Uses {
		check(id, obj)
	}
	for o := range drop {
		delete(ren, o)
	}
	if len(drop) > 0 {
		var kept []Rename
		for _, r := range log {
			keep := false
			for o, to := range ren {
				if o.Name() == r.From && to == r.To {
					keep = true
				}
			}
			if keep {
				kept = append(kept, r)
			}
		}
		log = kept
	}
	return ren, log
}

// sameStruct: the two fields belong to the same struct type of the package.
func sameStruct(pkg *types.Package, a, b *types.Var) bool {
	sc := pkg.Scope()
	for _, n := range sc.Names() {
		tn, ok := sc.Lookup(n).(*types.TypeName)
		if !ok {
			continue
		}
		st, ok := tn.Type().Underlying().(*types.Struct)
		if !ok {
			continue
		}
		ha, hb := false, false
		for i := 0; i < st.NumFields(); i++ {
			if st.Field(i) == a {
				ha = true
			}
			if st.Field(i) == b {
				hb = true
			}
		}
		if ha && hb {
			return true
		}
	}
	return false
}
