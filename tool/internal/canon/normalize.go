package canon

import (
	"fmt"
	"go/ast"
	"go/token"
	"go/types"
	"os"
	"sort"

	"golang.org/x/tools/go/packages"
)

// NormalizeLoops rewrites, in memory, loops that range over an integer (`for i := range n`, Go 1.22) as the counted
// loop they abbreviate: `for i, n' := T(0), n; i < n'; i++` - same trip count, n evaluated once, same type of i. The
// compiler's intermediate form of the short spelling is a rotated loop (test at the bottom, a copy of the test in
// front) which the loop rules of the analyser do not read; the long spelling is the form they were written for. A
// loop whose variable is captured by a function literal is left alone (there the two spellings differ in how often
// the variable is allocated, not in what is computed, but the analyser does not need to argue about it). Returns the
// changed files and a description of every rewritten loop.
func NormalizeLoops(pkgs []*packages.Package, prior map[string][]byte) (map[string][]byte, []string) {
	type edit struct {
		off, end int
		text     string
	}
	edits := map[string][]edit{}
	var notes []string
	serial := 0
	for _, pk := range pkgs {
		q := qual(pk.Types)
		for _, f := range pk.Syntax {
			ast.Inspect(f, func(n ast.Node) bool {
				rs, ok := n.(*ast.RangeStmt)
				if !ok || rs.Value != nil || (rs.Key != nil && rs.Tok != token.DEFINE) {
					return true
				}
				tv, ok := pk.TypesInfo.Types[rs.X]
				if !ok || tv.Type == nil {
					return true
				}
				bt, isBasic := tv.Type.Underlying().(*types.Basic)
				if !isBasic || bt.Info()&types.IsInteger == 0 {
					return true
				}
				key := ""
				if id, ok := rs.Key.(*ast.Ident); ok && id.Name != "_" {
					key = id.Name
					// captured by a function literal in the body?
					obj := pk.TypesInfo.Defs[id]
					captured := false
					ast.Inspect(rs.Body, func(m ast.Node) bool {
						if fl, ok := m.(*ast.FuncLit); ok {
							ast.Inspect(fl, func(k ast.Node) bool {
								if u, ok := k.(*ast.Ident); ok && pk.TypesInfo.Uses[u] == obj && obj != nil {
									captured = true
								}
								return true
							})
						}
						return true
					})
					if captured {
						return true
					}
				} else if rs.Key != nil {
					if _, isId := rs.Key.(*ast.Ident); !isId {
						return true
					}
				}
				serial++
				if key == "" {
					key = fmt.Sprintf("i__%d", serial)
				}
				bound := fmt.Sprintf("n__%d", serial)
				zero := "0"
				if bt.Kind() != types.UntypedInt && bt.Kind() != types.Int {
					// the counter has the type of the bound
					if named, isNamed := tv.Type.(*types.Named); isNamed && named.Obj().Pkg() != pk.Types {
						return true // a type of another package: leave the loop as it is
					}
					zero = types.TypeString(tv.Type, q) + "(0)"
				}
				start := pk.Fset.Position(rs.For)
				xs, xe := pk.Fset.Position(rs.X.Pos()), pk.Fset.Position(rs.X.End())
				lb := pk.Fset.Position(rs.Body.Lbrace)
				src := prior[start.Filename]
				if src == nil {
					b, err := os.ReadFile(start.Filename)
					if err != nil {
						return true
					}
					src = b
				}
				if xe.Offset > len(src) || lb.Offset > len(src) {
					return true
				}
				xtext := string(src[xs.Offset:xe.Offset])
				text := fmt.Sprintf("for %s, %s := %s, (%s); %s < %s; %s++ ", key, bound, zero, xtext, key, bound, key)
				edits[start.Filename] = append(edits[start.Filename], edit{start.Offset, lb.Offset, text})
				notes = append(notes, fmt.Sprintf("%s:%d: for %s := range %s analysed as a counted loop", start.Filename, start.Line, key, xtext))
				return true
			})
		}
	}
	out := map[string][]byte{}
	for file, es := range edits {
		src := prior[file]
		if src == nil {
			b, err := os.ReadFile(file)
			if err != nil {
				continue
			}
			src = b
		}
		src = append([]byte{}, src...)
		sort.Slice(es, func(i, j int) bool { return es[i].off > es[j].off })
		// nested loops: an outer header never contains an inner header, so the ranges are disjoint
		for _, e := range es {
			src = append(src[:e.off], append([]byte(e.text), src[e.end:]...)...)
		}
		out[file] = src
	}
	sort.Strings(notes)
	return out, notes
}
