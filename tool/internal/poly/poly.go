// Package poly brings arithmetic terms to a normal form as rational functions
// (quotients of multivariate polynomials with exact rational coefficients)
// over opaque atoms: an algebraic value numbering. Conversions between
// numeric types are the identity, so every verdict is over real arithmetic;
// rounding is never decided. Equality is decided by cross-multiplication; no
// search and no solver is involved.
package poly

import (
	"fmt"
	"go/constant"
	"go/token"
	"go/types"
	"math/big"
	"sort"
	"strings"

	"ivgsa/internal/sym"
)

// Poly is a polynomial: monomial key -> coefficient.
type Poly struct {
	terms map[string]*pterm
}

type pterm struct {
	coef *big.Rat
	vars []varPow // sorted by name
}

type varPow struct {
	name string
	pow  int
}

func monoKey(vs []varPow) string {
	var sb strings.Builder
	for i, v := range vs {
		if i > 0 {
			sb.WriteByte('*')
		}
		sb.WriteString(v.name)
		if v.pow != 1 {
			fmt.Fprintf(&sb, "^%d", v.pow)
		}
	}
	return sb.String()
}

func newPoly() *Poly { return &Poly{terms: map[string]*pterm{}} }

// ConstPoly returns the constant polynomial r.
func ConstPoly(r *big.Rat) *Poly {
	p := newPoly()
	if r.Sign() != 0 {
		p.terms[""] = &pterm{coef: new(big.Rat).Set(r)}
	}
	return p
}

// IntPoly returns the constant polynomial n.
func IntPoly(n int64) *Poly { return ConstPoly(new(big.Rat).SetInt64(n)) }

// VarPoly returns the polynomial consisting of the single variable name.
func VarPoly(name string) *Poly {
	p := newPoly()
	vs := []varPow{{name, 1}}
	p.terms[monoKey(vs)] = &pterm{coef: big.NewRat(1, 1), vars: vs}
	return p
}

func (p *Poly) addTerm(coef *big.Rat, vs []varPow) {
	k := monoKey(vs)
	if t, ok := p.terms[k]; ok {
		t.coef.Add(t.coef, coef)
		if t.coef.Sign() == 0 {
			delete(p.terms, k)
		}
		return
	}
	if coef.Sign() == 0 {
		return
	}
	p.terms[k] = &pterm{coef: new(big.Rat).Set(coef), vars: vs}
}

func (p *Poly) Add(q *Poly) *Poly {
	r := newPoly()
	for _, t := range p.terms {
		r.addTerm(t.coef, t.vars)
	}
	for _, t := range q.terms {
		r.addTerm(t.coef, t.vars)
	}
	return r
}

func (p *Poly) Neg() *Poly {
	r := newPoly()
	for _, t := range p.terms {
		r.addTerm(new(big.Rat).Neg(t.coef), t.vars)
	}
	return r
}

func (p *Poly) Sub(q *Poly) *Poly { return p.Add(q.Neg()) }

func mulVars(a, b []varPow) []varPow {
	m := map[string]int{}
	for _, v := range a {
		m[v.name] += v.pow
	}
	for _, v := range b {
		m[v.name] += v.pow
	}
	var out []varPow
	for n, pw := range m {
		if pw != 0 {
			out = append(out, varPow{n, pw})
		}
	}
	sort.Slice(out, func(i, j int) bool { return out[i].name < out[j].name })
	return out
}

func (p *Poly) Mul(q *Poly) *Poly {
	r := newPoly()
	for _, a := range p.terms {
		for _, b := range q.terms {
			r.addTerm(new(big.Rat).Mul(a.coef, b.coef), mulVars(a.vars, b.vars))
		}
	}
	return r
}

func (p *Poly) IsZero() bool { return len(p.terms) == 0 }

// IsConst reports whether p is a constant and returns it.
func (p *Poly) IsConst() (*big.Rat, bool) {
	if len(p.terms) == 0 {
		return new(big.Rat), true
	}
	if len(p.terms) == 1 {
		if t, ok := p.terms[""]; ok {
			return t.coef, true
		}
	}
	return nil, false
}

func (p *Poly) Equal(q *Poly) bool { return p.Sub(q).IsZero() }

func (p *Poly) String() string {
	if p == nil {
		return "<no normal form>"
	}
	if len(p.terms) == 0 {
		return "0"
	}
	var ks []string
	for k := range p.terms {
		ks = append(ks, k)
	}
	sort.Strings(ks)
	var sb strings.Builder
	for i, k := range ks {
		t := p.terms[k]
		if i > 0 {
			sb.WriteString(" + ")
		}
		c := t.coef.RatString()
		switch {
		case k == "":
			sb.WriteString(c)
		case c == "1":
			sb.WriteString(k)
		default:
			sb.WriteString(c + "*" + k)
		}
	}
	return sb.String()
}

// Vars returns the variable names occurring in p.
func (p *Poly) Vars() []string {
	m := map[string]bool{}
	for _, t := range p.terms {
		for _, v := range t.vars {
			m[v.name] = true
		}
	}
	var out []string
	for k := range m {
		out = append(out, k)
	}
	sort.Strings(out)
	return out
}

// SubstVar replaces variable name by polynomial q (non-negative powers only).
func (p *Poly) SubstVar(name string, q *Poly) *Poly {
	r := newPoly()
	for _, t := range p.terms {
		acc := ConstPoly(t.coef)
		for _, v := range t.vars {
			var f *Poly
			if v.name == name {
				f = q
			} else {
				f = VarPoly(v.name)
			}
			for i := 0; i < v.pow; i++ {
				acc = acc.Mul(f)
			}
		}
		r = r.Add(acc)
	}
	return r
}

// Rat is a rational function Num/Den.
type Rat struct {
	Num, Den *Poly
}

func RatOf(p *Poly) Rat      { return Rat{p, IntPoly(1)} }
func RatInt(n int64) Rat     { return RatOf(IntPoly(n)) }
func RatVar(name string) Rat { return RatOf(VarPoly(name)) }
func (a Rat) Add(b Rat) Rat {
	return Rat{a.Num.Mul(b.Den).Add(b.Num.Mul(a.Den)), a.Den.Mul(b.Den)}.reduce()
}
func (a Rat) Sub(b Rat) Rat {
	return Rat{a.Num.Mul(b.Den).Sub(b.Num.Mul(a.Den)), a.Den.Mul(b.Den)}.reduce()
}
func (a Rat) Mul(b Rat) Rat    { return Rat{a.Num.Mul(b.Num), a.Den.Mul(b.Den)}.reduce() }
func (a Rat) Div(b Rat) Rat    { return Rat{a.Num.Mul(b.Den), a.Den.Mul(b.Num)}.reduce() }
func (a Rat) Neg() Rat         { return Rat{a.Num.Neg(), a.Den} }
func (a Rat) Equal(b Rat) bool {
	if a.Num == nil || a.Den == nil || b.Num == nil || b.Den == nil {
		return false
	}
	return a.Num.Mul(b.Den).Equal(b.Num.Mul(a.Den))
}
func (a Rat) IsZero() bool     { return a.Num.IsZero() }

// reduce performs cheap simplifications: equal numerator and denominator
// parts, constant denominators and single-monomial common factors.
func (a Rat) reduce() Rat {
	if a.Num.IsZero() {
		return Rat{a.Num, IntPoly(1)}
	}
	if c, ok := a.Den.IsConst(); ok && c.Sign() != 0 {
		inv := new(big.Rat).Inv(c)
		return Rat{a.Num.Mul(ConstPoly(inv)), IntPoly(1)}
	}
	if a.Num.Equal(a.Den) {
		return RatInt(1)
	}
	// cancel a monomial denominator variable-wise when it divides every numerator term
	if len(a.Den.terms) == 1 {
		for _, d := range a.Den.terms {
			for _, dv := range d.vars {
				minPow := dv.pow
				for _, t := range a.Num.terms {
					pw := 0
					for _, v := range t.vars {
						if v.name == dv.name {
							pw = v.pow
						}
					}
					if pw < minPow {
						minPow = pw
					}
				}
				if minPow > 0 {
					div := []varPow{{dv.name, -minPow}}
					nn, nd := newPoly(), newPoly()
					for _, t := range a.Num.terms {
						nn.addTerm(t.coef, mulVars(t.vars, div))
					}
					for _, t := range a.Den.terms {
						nd.addTerm(t.coef, mulVars(t.vars, div))
					}
					return Rat{nn, nd}.reduce()
				}
			}
		}
	}
	return a
}

func (a Rat) String() string {
	if a.Num == nil || a.Den == nil {
		return "<no normal form>"
	}
	if c, ok := a.Den.IsConst(); ok && c.Cmp(big.NewRat(1, 1)) == 0 {
		return a.Num.String()
	}
	return "(" + a.Num.String() + ") / (" + a.Den.String() + ")"
}

// SubstVar substitutes a rational function for a variable.
func (a Rat) SubstVar(name string, q Rat) Rat {
	sub := func(p *Poly) Rat {
		acc := RatInt(0)
		for _, t := range p.terms {
			f := RatOf(ConstPoly(t.coef))
			for _, v := range t.vars {
				var x Rat
				if v.name == name {
					x = q
				} else {
					x = RatVar(v.name)
				}
				for i := 0; i < v.pow; i++ {
					f = f.Mul(x)
				}
			}
			acc = acc.Add(f)
		}
		return acc
	}
	return sub(a.Num).Div(sub(a.Den))
}

// ---- conversion from terms ----

// Case is one leaf of a gated value: the value under a conjunction of conditions.
type Case struct {
	Conds []*sym.Term
	Val   Rat
}

// Env controls the conversion.
type Env struct {
	// Atoms maps an atom name of the normal form back to the term it stands for.
	Atoms map[string]*sym.Term
	// Rename maps term keys to friendlier variable names.
	Rename map[string]string
	// Sqrt records, for each sqrt atom, the normal form of its argument.
	Sqrt map[string]Rat
	// MaxCases caps the number of leaves (0 = 64).
	MaxCases int
	// IteAsAtom treats gated joins as opaque atoms instead of splitting cases.
	IteAsAtom bool
	// Expand, when set, returns the value an atom merely abbreviates (nil if it is a genuine unknown).
	Expand func(name string) *sym.Term
	// Err is set when the conversion gave up.
	Err error
}

func NewEnv() *Env {
	return &Env{Atoms: map[string]*sym.Term{}, Rename: map[string]string{}, Sqrt: map[string]Rat{}}
}

func (e *Env) atom(t *sym.Term) Rat {
	k := t.Key()
	if n, ok := e.Rename[k]; ok {
		e.Atoms[n] = t
		return RatVar(n)
	}
	e.Atoms[k] = t
	return RatVar(k)
}

func constRat(c constant.Value) (*big.Rat, bool) {
	switch c.Kind() {
	case constant.Int:
		if i, ok := constant.Int64Val(c); ok {
			return new(big.Rat).SetInt64(i), true
		}
		if b, ok := constant.Val(c).(*big.Int); ok {
			return new(big.Rat).SetInt(b), true
		}
	case constant.Float:
		switch v := constant.Val(c).(type) {
		case *big.Rat:
			return new(big.Rat).Set(v), true
		case *big.Float:
			if r, _ := v.Rat(nil); r != nil {
				return r, true
			}
		}
		num, den := constant.Num(c), constant.Denom(c)
		if ni, ok := constant.Val(num).(*big.Int); ok {
			if di, ok := constant.Val(den).(*big.Int); ok {
				return new(big.Rat).SetFrac(ni, di), true
			}
		}
		if ni, ok := constant.Int64Val(num); ok {
			if di, ok := constant.Int64Val(den); ok && di != 0 {
				return big.NewRat(ni, di), true
			}
		}
	}
	return nil, false
}

func isIntType(t types.Type) bool {
	if t == nil {
		return false
	}
	b, ok := t.Underlying().(*types.Basic)
	return ok && b.Info()&types.IsInteger != 0
}

func isFloatType(t types.Type) bool {
	if t == nil {
		return false
	}
	b, ok := t.Underlying().(*types.Basic)
	return ok && b.Info()&types.IsFloat != 0
}

func contradictory(cs []*sym.Term) bool {
	m := map[string]bool{}
	for _, c := range cs {
		m[c.Key()] = true
	}
	for _, c := range cs {
		if m[sym.Not(c).Key()] {
			return true
		}
	}
	return false
}

func mergeConds(a, b []*sym.Term) []*sym.Term {
	out := append([]*sym.Term{}, a...)
	seen := map[string]bool{}
	for _, c := range a {
		seen[c.Key()] = true
	}
	for _, c := range b {
		if !seen[c.Key()] {
			seen[c.Key()] = true
			out = append(out, c)
		}
	}
	return out
}

// Cases converts t into its gated normal form.
func (e *Env) Cases(t *sym.Term) []Case {
	max := e.MaxCases
	if max == 0 {
		max = 64
	}
	cs := e.cases(t)
	if len(cs) > max {
		e.Err = fmt.Errorf("more than %d cases", max)
	}
	return cs
}

// One converts t, requiring a single unconditional case.
func (e *Env) One(t *sym.Term) (Rat, bool) {
	cs := e.Cases(t)
	if len(cs) != 1 || len(cs[0].Conds) != 0 {
		return Rat{}, false
	}
	return cs[0].Val, true
}

func (e *Env) combine(a, b []Case, f func(x, y Rat) Rat) []Case {
	var out []Case
	for _, x := range a {
		for _, y := range b {
			cs := mergeConds(x.Conds, y.Conds)
			if contradictory(cs) {
				continue
			}
			out = append(out, Case{cs, f(x.Val, y.Val)})
			if len(out) > 4096 {
				e.Err = fmt.Errorf("case explosion")
				return out
			}
		}
	}
	return out
}

func (e *Env) cases(t *sym.Term) []Case {
	one := func(r Rat) []Case { return []Case{{nil, r}} }
	if n, ok := e.Rename[t.Key()]; ok && t.Op != "const" {
		e.Atoms[n] = t
		return one(RatVar(n))
	}
	switch t.Op {
	case "atom":
		if e.Expand != nil {
			if v := e.Expand(t.Name); v != nil {
				return e.cases(v)
			}
		}
		return one(e.atom(t))
	case "const":
		if t.C != nil {
			if r, ok := constRat(t.C); ok {
				return one(RatOf(ConstPoly(r)))
			}
		}
		return one(e.atom(t))
	case "conv":
		src := t.Args[0]
		// numeric conversions are the identity over the reals, except float->int (truncation)
		if isIntType(t.T) && isFloatType(src.T) {
			return e.opaque("trunc", t, src)
		}
		if (isIntType(t.T) || isFloatType(t.T)) && (isIntType(src.T) || isFloatType(src.T) || src.T == nil) {
			return e.cases(src)
		}
		return one(e.atom(t))
	case "un":
		if t.Name == "-" {
			cs := e.cases(t.Args[0])
			for i := range cs {
				cs[i].Val = cs[i].Val.Neg()
			}
			return cs
		}
		return one(e.atom(t))
	case "bin":
		op := sym.TokenOf(t)
		switch op {
		case token.ADD, token.SUB, token.MUL:
			a, b := e.cases(t.Args[0]), e.cases(t.Args[1])
			return e.combine(a, b, func(x, y Rat) Rat {
				switch op {
				case token.ADD:
					return x.Add(y)
				case token.SUB:
					return x.Sub(y)
				}
				return x.Mul(y)
			})
		case token.QUO:
			if isIntType(t.T) {
				return e.opaque2("idiv", t, t.Args[0], t.Args[1])
			}
			a, b := e.cases(t.Args[0]), e.cases(t.Args[1])
			return e.combine(a, b, func(x, y Rat) Rat { return x.Div(y) })
		case token.SHL:
			if k, ok := t.Args[1].Int64(); ok && k >= 0 && k < 62 {
				a := e.cases(t.Args[0])
				for i := range a {
					a[i].Val = a[i].Val.Mul(RatInt(1 << uint(k)))
				}
				return a
			}
		}
		return one(e.atom(t))
	case "ite":
		if e.IteAsAtom {
			return one(e.atom(t))
		}
		var out []Case
		c := t.Args[0]
		for _, x := range e.cases(t.Args[1]) {
			cs := mergeConds([]*sym.Term{c}, x.Conds)
			if !contradictory(cs) {
				out = append(out, Case{cs, x.Val})
			}
		}
		nc := sym.Not(c)
		for _, x := range e.cases(t.Args[2]) {
			cs := mergeConds([]*sym.Term{nc}, x.Conds)
			if !contradictory(cs) {
				out = append(out, Case{cs, x.Val})
			}
		}
		return out
	case "call":
		switch t.Name {
		case "math.Sqrt":
			arg := e.cases(t.Args[0])
			var out []Case
			for _, a := range arg {
				name := "sqrt(" + a.Val.String() + ")"
				e.Sqrt[name] = a.Val
				out = append(out, Case{a.Conds, RatVar(name)})
			}
			return out
		case "math.Floor", "math.Ceil", "math.Abs", "math.Cos", "math.Sin", "math.Acos":
			arg := e.cases(t.Args[0])
			var out []Case
			for _, a := range arg {
				name := strings.TrimPrefix(t.Name, "math.")
				name = strings.ToLower(name) + "(" + a.Val.String() + ")"
				out = append(out, Case{a.Conds, RatVar(name)})
			}
			return out
		}
		return one(e.atom(t))
	}
	return one(e.atom(t))
}

func (e *Env) opaque(fn string, t *sym.Term, a *sym.Term) []Case {
	var out []Case
	for _, x := range e.cases(a) {
		out = append(out, Case{x.Conds, RatVar(fn + "(" + x.Val.String() + ")")})
	}
	return out
}

func (e *Env) opaque2(fn string, t *sym.Term, a, b *sym.Term) []Case {
	return e.combine(e.cases(a), e.cases(b), func(x, y Rat) Rat {
		return RatVar(fn + "(" + x.String() + "," + y.String() + ")")
	})
}

// SqrtSquare rewrites sqrt(a)^2 -> a in r using the recorded sqrt atoms.
func (e *Env) SqrtSquare(r Rat) Rat {
	fix := func(p *Poly) Rat {
		acc := RatInt(0)
		for _, t := range p.terms {
			f := RatOf(ConstPoly(t.coef))
			for _, v := range t.vars {
				arg, isSqrt := e.Sqrt[v.name]
				pw := v.pow
				if isSqrt {
					for ; pw >= 2; pw -= 2 {
						f = f.Mul(arg)
					}
				}
				for i := 0; i < pw; i++ {
					f = f.Mul(RatVar(v.name))
				}
			}
			acc = acc.Add(f)
		}
		return acc
	}
	return fix(r.Num).Div(fix(r.Den))
}

// MonomialSign reports the sign of p when p is a single monomial whose
// variables are all in pos (quantities known to be positive).
func (p *Poly) MonomialSign(pos []string) (int, bool) {
	if len(p.terms) != 1 {
		return 0, false
	}
	isPos := map[string]bool{}
	for _, v := range pos {
		isPos[v] = true
	}
	for _, t := range p.terms {
		for _, v := range t.vars {
			if !isPos[v.name] && v.pow%2 != 0 {
				return 0, false
			}
		}
		return t.coef.Sign(), true
	}
	return 0, false
}

// PrimitivePos divides p by the largest monomial in positive quantities common
// to all its terms and scales it by a positive constant so that the
// lexicographically first coefficient has absolute value 1. The result has
// the same sign as p wherever the quantities in pos are positive.
func (p *Poly) PrimitivePos(pos []string) (*Poly, bool) {
	if len(p.terms) == 0 {
		return p, true
	}
	isPos := map[string]bool{}
	for _, v := range pos {
		isPos[v] = true
	}
	minPow := map[string]int{}
	first := true
	for _, t := range p.terms {
		cur := map[string]int{}
		for _, v := range t.vars {
			if isPos[v.name] {
				cur[v.name] = v.pow
			}
		}
		if first {
			minPow = cur
			first = false
			continue
		}
		for n, pw := range minPow {
			if cur[n] < pw {
				minPow[n] = cur[n]
			}
		}
	}
	var div []varPow
	for n, pw := range minPow {
		if pw > 0 {
			div = append(div, varPow{n, -pw})
		}
	}
	var ks []string
	for k := range p.terms {
		ks = append(ks, k)
	}
	sort.Strings(ks)
	lead := new(big.Rat).Abs(p.terms[ks[0]].coef)
	inv := new(big.Rat).Inv(lead)
	r := newPoly()
	for _, t := range p.terms {
		r.addTerm(new(big.Rat).Mul(t.coef, inv), mulVars(t.vars, div))
	}
	// re-normalise: the first key may have changed after division
	ks = ks[:0]
	for k := range r.terms {
		ks = append(ks, k)
	}
	sort.Strings(ks)
	lead = new(big.Rat).Abs(r.terms[ks[0]].coef)
	inv = new(big.Rat).Inv(lead)
	out := newPoly()
	for _, t := range r.terms {
		out.addTerm(new(big.Rat).Mul(t.coef, inv), t.vars)
	}
	return out, true
}
