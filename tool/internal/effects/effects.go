// Package effects computes, for every function of the module, the abstract
// locations it may write to: package-level variables, memory reachable from
// each parameter (the receiver is parameter 0), memory reachable from free
// variables, and fresh memory. Pointer provenance is tracked through copies,
// field/index addressing, reslices, phis, loads, conversions and calls
// (summaries to fixpoint). No alias analysis library is needed because the
// analysed code keeps no pointers to shared state in heap objects.
package effects

import (
	"fmt"
	"go/token"
	"go/types"
	"sort"
	"strings"

	"golang.org/x/tools/go/ssa"
	"golang.org/x/tools/go/ssa/ssautil"
)

// Root is an abstract origin of a pointer.
type Root struct {
	Kind string // "global", "param", "freevar", "fresh", "unknown"
	Name string // global name / parameter index / free variable index
}

func (r Root) String() string {
	if r.Name == "" {
		return r.Kind
	}
	return r.Kind + ":" + r.Name
}

type rootSet map[Root]bool

func (s rootSet) add(o rootSet) bool {
	ch := false
	for r := range o {
		if !s[r] {
			s[r] = true
			ch = true
		}
	}
	return ch
}

func (s rootSet) list() []string {
	var out []string
	for r := range s {
		out = append(out, r.String())
	}
	sort.Strings(out)
	return out
}

// Write is one potential write effect.
type Write struct {
	Root Root
	Fn   *ssa.Function   // function containing the instruction
	Ins  ssa.Instruction // the store / map update / call
	Via  string          // "store", "append", "copy", "mapupdate", "call <callee>"
}

// Escape records a reference to package-level storage leaving it: stored into memory that is not package-level
// (an object's field, a caller's slice) or returned to the caller. Whoever later writes through that memory writes
// the shared package-level storage.
type Escape struct {
	Global string
	Fn     *ssa.Function
	Ins    ssa.Instruction
	Via    string // "store" or "return"
}

// Retain records that a function keeps a reference derived from one of its parameters in memory that outlives the
// call: another parameter's (typically the receiver's) memory or a package-level variable.
type Retain struct {
	Param int    // index of the parameter (receiver first) the retained reference derives from
	Into  Root   // the memory it is stored into
	Type  types.Type
	Fn    *ssa.Function
	Ins   ssa.Instruction
	Via   string
}

// Summary is the effect summary of one function.
type Summary struct {
	Retains map[string]Retain
	// ArgRoots: per call instruction of the function, the provenance roots of each argument
	ArgRoots map[ssa.CallInstruction][][]Root
	Escapes  map[string]Escape
	Fn      *ssa.Function
	Writes  map[string]Write // keyed by root+site
	Returns rootSet          // roots of pointer-like results
	// Holds: roots of values stored into memory rooted at the key (e.g. a fresh
	// object holding a pointer derived from a parameter)
	Holds map[Root]rootSet
}

// Analysis holds all summaries.
type Analysis struct {
	Prog     *ssa.Program
	InModule func(*ssa.Function) bool
	Sums     map[*ssa.Function]*Summary
	funcs    []*ssa.Function
	// implementations of interface methods and address-taken functions by signature
	byMethod map[string][]*ssa.Function
	bySig    map[string][]*ssa.Function
	// ReadOnly reports whether an external function does not write through its pointer arguments;
	// WritesRecvOnly: writes only through its first argument.
	ReadOnly       func(name string) bool
	WritesRecvOnly func(name string) bool
	Unresolved     []string
}

func pointerLike(t types.Type) bool {
	switch u := t.Underlying().(type) {
	case *types.Pointer, *types.Slice, *types.Map, *types.Chan, *types.Signature, *types.Interface:
		return true
	case *types.Struct:
		for i := 0; i < u.NumFields(); i++ {
			if pointerLike(u.Field(i).Type()) {
				return true
			}
		}
	case *types.Array:
		return pointerLike(u.Elem())
	case *types.Tuple:
		for i := 0; i < u.Len(); i++ {
			if pointerLike(u.At(i).Type()) {
				return true
			}
		}
	}
	return false
}

func defaultReadOnly(name string) bool {
	for _, p := range []string{"math.", "bytes.HasPrefix", "strings.", "strconv.", "fmt.Sprintf", "fmt.Sprint", "fmt.Errorf",
		"(image.Rectangle)", "(image.Point)", "image.Pt", "image.Rect", "(image/color.", "(*image/color.", "errors.New", "(*strings.Reader).Len",
		"unicode.", "path/filepath.", "sort.Strings", "(io/fs.", "os.ReadFile", "os.ReadDir", "os.Stat", "os.IsNotExist", "(*os.File).Name", "time.", "(time.",
		"(reflect.", "bytes.Equal", "bytes.NewReader", "bytes.NewBuffer", "strings.NewReader", "(error).Error", "encoding/xml.NewDecoder", "image.NewRGBA", "image.NewAlpha",
		"(*image.RGBA).Bounds", "(*image.Alpha).Bounds", "go/format.Source", "(*bytes.Buffer).Bytes", "(*bytes.Buffer).Len", "(*bytes.Buffer).String"} {
		if strings.HasPrefix(name, p) {
			return true
		}
	}
	return false
}

func defaultWritesRecvOnly(name string) bool {
	for _, p := range []string{"(*bytes.Buffer).", "fmt.Fprintf", "fmt.Fprint", "fmt.Fprintln", "fmt.Fscanf", "(*strings.Reader).", "(*golang.org/x/image/vector.Rasterizer).",
		"(*encoding/xml.Decoder).", "(*image.RGBA).", "(*image.Alpha).", "image/png.Encode", "image/draw.Draw", "(io.", "(*os.File).", "fmt.Printf", "fmt.Println", "fmt.Print",
		"(*bufio.", "os.WriteFile", "os.MkdirAll", "(*text/template.Template)."} {
		if strings.HasPrefix(name, p) {
			return true
		}
	}
	return false
}

// Analyze computes the summaries of all module functions.
func Analyze(prog *ssa.Program, inModule func(*ssa.Function) bool) *Analysis {
	a := &Analysis{Prog: prog, InModule: inModule, Sums: map[*ssa.Function]*Summary{}, byMethod: map[string][]*ssa.Function{}, bySig: map[string][]*ssa.Function{},
		ReadOnly: defaultReadOnly, WritesRecvOnly: defaultWritesRecvOnly}
	for fn := range ssautil.AllFunctions(prog) {
		if fn.Blocks == nil || !inModule(fn) {
			continue
		}
		a.funcs = append(a.funcs, fn)
	}
	sort.Slice(a.funcs, func(i, j int) bool { return a.funcs[i].String() < a.funcs[j].String() })
	// address-taken functions: those used as a value other than in call position
	taken := map[*ssa.Function]bool{}
	for _, fn := range a.funcs {
		for _, b := range fn.Blocks {
			for _, ins := range b.Instrs {
				var callee ssa.Value
				if ci, ok := ins.(ssa.CallInstruction); ok {
					callee = ci.Common().Value
				}
				for _, op := range ins.Operands(nil) {
					if op == nil || *op == nil {
						continue
					}
					if f, ok := (*op).(*ssa.Function); ok && *op != callee {
						taken[f] = true
					}
					if mc, ok := (*op).(*ssa.MakeClosure); ok && *op != callee {
						if f, ok := mc.Fn.(*ssa.Function); ok {
							taken[f] = true
						}
					}
				}
				if mc, ok := ins.(*ssa.MakeClosure); ok {
					if f, ok := mc.Fn.(*ssa.Function); ok {
						taken[f] = true
					}
				}
			}
		}
	}
	for _, fn := range a.funcs {
		a.Sums[fn] = &Summary{Fn: fn, Writes: map[string]Write{}, Returns: rootSet{}, Holds: map[Root]rootSet{}}
		if fn.Signature.Recv() != nil {
			a.byMethod[fn.Name()] = append(a.byMethod[fn.Name()], fn)
		}
		if taken[fn] {
			sig := types.TypeString(stripRecv(fn.Signature), nil)
			a.bySig[sig] = append(a.bySig[sig], fn)
		}
	}
	for iter := 0; iter < 50; iter++ {
		changed := false
		for _, fn := range a.funcs {
			if IsPkgInit(fn) {
				continue // initialisers write the package's variables by definition; they run before anything else
			}
			if a.analyzeFunc(fn) {
				changed = true
			}
		}
		if !changed {
			break
		}
	}
	return a
}

// IsPkgInit reports whether fn is a synthetic package initialiser.
func IsPkgInit(fn *ssa.Function) bool {
	return fn.Name() == "init" && fn.Signature.Recv() == nil && fn.Parent() == nil && fn.Synthetic != ""
}

func stripRecv(sig *types.Signature) *types.Signature {
	anon := func(t *types.Tuple) *types.Tuple {
		var vs []*types.Var
		for i := 0; i < t.Len(); i++ {
			vs = append(vs, types.NewVar(0, nil, "", t.At(i).Type()))
		}
		return types.NewTuple(vs...)
	}
	return types.NewSignatureType(nil, nil, nil, anon(sig.Params()), anon(sig.Results()), sig.Variadic())
}

// callees resolves the possible module callees of a call; ext is the name of
// an external static callee (or "" if none); unresolved is true for indirect
// calls with no candidate.
func (a *Analysis) callees(call ssa.CallInstruction) (mod []*ssa.Function, ext string, unresolved bool) {
	cc := call.Common()
	if cc.IsInvoke() {
		// class hierarchy: every module method with that name whose receiver implements the interface
		it, _ := cc.Value.Type().Underlying().(*types.Interface)
		for _, fn := range a.byMethod[cc.Method.Name()] {
			recv := fn.Signature.Recv().Type()
			if it != nil && (types.Implements(recv, it) || types.Implements(types.NewPointer(recv), it)) {
				mod = append(mod, fn)
			}
		}
		// the interface may also be implemented outside the module (image.Image, color.Color, io.Writer...)
		return mod, "invoke:" + cc.Method.FullName(), false
	}
	switch v := cc.Value.(type) {
	case *ssa.Function:
		if a.Sums[v] != nil {
			return []*ssa.Function{v}, "", false
		}
		return nil, v.String(), false
	case *ssa.Builtin:
		return nil, "builtin:" + v.Name(), false
	case *ssa.MakeClosure:
		if f, ok := v.Fn.(*ssa.Function); ok && a.Sums[f] != nil {
			return []*ssa.Function{f}, "", false
		}
	}
	// function value: every module function (incl. closures and thunks) of that signature
	sig, ok := cc.Value.Type().Underlying().(*types.Signature)
	if ok {
		key := types.TypeString(stripRecv(sig), nil)
		mod = append(mod, a.bySig[key]...)
		// method thunks have the receiver as first parameter: handled because thunks are functions of their own
	}
	if len(mod) == 0 {
		return nil, "", true
	}
	return mod, "", false
}

type funcState struct {
	a     *Analysis
	fn    *ssa.Function
	sum   *Summary
	roots map[ssa.Value]rootSet
}

func (a *Analysis) analyzeFunc(fn *ssa.Function) bool {
	st := &funcState{a: a, fn: fn, sum: a.Sums[fn], roots: map[ssa.Value]rootSet{}}
	before := st.signature()
	// iterate value roots to a local fixpoint (phis, holds)
	for i := 0; i < 8; i++ {
		ch := false
		for _, b := range fn.Blocks {
			for _, ins := range b.Instrs {
				if st.visit(ins) {
					ch = true
				}
			}
		}
		if !ch {
			break
		}
	}
	// keep the roots of call arguments: rules ask "what does this call site hand to parameter i?"
	if st.sum.ArgRoots == nil {
		st.sum.ArgRoots = map[ssa.CallInstruction][][]Root{}
	}
	for _, b := range fn.Blocks {
		for _, ins := range b.Instrs {
			ci, ok := ins.(ssa.CallInstruction)
			if !ok {
				continue
			}
			var per [][]Root
			for _, arg := range ci.Common().Args {
				var rs []Root
				for r := range st.rootsOf(arg) {
					rs = append(rs, r)
				}
				sort.Slice(rs, func(i, j int) bool { return rs[i].String() < rs[j].String() })
				per = append(per, rs)
			}
			st.sum.ArgRoots[ci] = per
		}
	}
	return st.signature() != before
}

func (st *funcState) signature() string {
	var ws []string
	for k := range st.sum.Writes {
		ws = append(ws, k)
	}
	sort.Strings(ws)
	var hs []string
	for r, s := range st.sum.Holds {
		hs = append(hs, r.String()+"<-"+strings.Join(s.list(), ","))
	}
	sort.Strings(hs)
	return strings.Join(ws, ";") + "|" + strings.Join(st.sum.Returns.list(), ",") + "|" + strings.Join(hs, ";")
}

func (st *funcState) rootsOf(v ssa.Value) rootSet {
	switch x := v.(type) {
	case *ssa.Global:
		return rootSet{Root{"global", x.String()}: true}
	case *ssa.Parameter:
		if !pointerLike(x.Type()) {
			return nil
		}
		for i, p := range st.fn.Params {
			if p == x {
				return rootSet{Root{"param", fmt.Sprint(i)}: true}
			}
		}
	case *ssa.FreeVar:
		for i, p := range st.fn.FreeVars {
			if p == x {
				return rootSet{Root{"freevar", fmt.Sprint(i)}: true}
			}
		}
	case *ssa.Const, *ssa.Function, *ssa.Builtin:
		return nil
	}
	return st.roots[v]
}

func (st *funcState) setRoots(v ssa.Value, rs rootSet) bool {
	if len(rs) == 0 {
		return false
	}
	cur := st.roots[v]
	if cur == nil {
		cur = rootSet{}
		st.roots[v] = cur
	}
	return cur.add(rs)
}

func (st *funcState) write(rs rootSet, ins ssa.Instruction, via string) bool {
	ch := false
	for r := range rs {
		k := fmt.Sprintf("%s@%s#%d", r, st.fn.String(), ordinal(ins))
		if _, ok := st.sum.Writes[k]; !ok {
			st.sum.Writes[k] = Write{Root: r, Fn: st.fn, Ins: ins, Via: via}
			ch = true
		}
	}
	return ch
}

// escape records global-rooted references stored into non-global memory or returned.
func (st *funcState) escape(val, into rootSet, ins ssa.Instruction, via string) {
	if st.sum.Escapes == nil {
		st.sum.Escapes = map[string]Escape{}
	}
	for r := range val {
		if r.Kind != "global" {
			continue
		}
		if via == "store" {
			// leaving = into memory the function does not own: a parameter's, a captured variable's, unknown. A store
			// into a fresh local is not an escape yet (the local "holds" the reference; it is reported if it is
			// stored on or returned)
			leaving := false
			for t := range into {
				if t.Kind != "global" && t.Kind != "fresh" {
					leaving = true
				}
			}
			if !leaving {
				continue
			}
		}
		k := fmt.Sprintf("%s@%s#%d", r.Name, st.fn.String(), ordinal(ins))
		st.sum.Escapes[k] = Escape{Global: r.Name, Fn: st.fn, Ins: ins, Via: via}
	}
}

func ordinal(ins ssa.Instruction) int {
	b := ins.Block()
	for i, x := range b.Instrs {
		if x == ins {
			return b.Index*1000 + i
		}
	}
	return -1
}

// loaded returns the roots of a pointer loaded from memory rooted at rs.
func (st *funcState) loaded(rs rootSet) rootSet {
	out := rootSet{}
	for r := range rs {
		out[r] = true // memory reachable from r stays reachable from r
		if h := st.sum.Holds[r]; h != nil {
			out.add(h)
		}
	}
	return out
}

func (st *funcState) hold(into rootSet, val rootSet) bool {
	ch := false
	for r := range into {
		if r.Kind != "fresh" {
			continue // values stored into parameter/global memory stay attributed to that root when loaded
		}
		h := st.sum.Holds[r]
		if h == nil {
			h = rootSet{}
			st.sum.Holds[r] = h
		}
		if h.add(val) {
			ch = true
		}
	}
	return ch
}

// retain records parameter-derived references (val) stored into memory rooted at another parameter or a global.
func (st *funcState) retain(val, into rootSet, t types.Type, ins ssa.Instruction, via string) bool {
	ch := false
	for r := range val {
		if r.Kind != "param" {
			continue
		}
		for in := range into {
			if !(in.Kind == "global" || in.Kind == "param" && in.Name != r.Name) {
				continue
			}
			if st.sum.Retains == nil {
				st.sum.Retains = map[string]Retain{}
			}
			k := fmt.Sprintf("%s>%s#%d", r.Name, in.String(), ordinal(ins))
			if _, ok := st.sum.Retains[k]; !ok {
				var i int
				fmt.Sscan(r.Name, &i)
				st.sum.Retains[k] = Retain{Param: i, Into: in, Type: t, Fn: st.fn, Ins: ins, Via: via}
				ch = true
			}
		}
	}
	return ch
}

// RetainsOf lists what fn keeps of its parameters, sorted by key.
func (a *Analysis) RetainsOf(fn *ssa.Function) []Retain {
	sum := a.Sums[fn]
	if sum == nil {
		return nil
	}
	var ks []string
	for k := range sum.Retains {
		ks = append(ks, k)
	}
	sort.Strings(ks)
	var out []Retain
	for _, k := range ks {
		out = append(out, sum.Retains[k])
	}
	return out
}

var fresh = rootSet{Root{"fresh", ""}: true}

func (st *funcState) visit(ins ssa.Instruction) bool {
	ch := false
	switch x := ins.(type) {
	case *ssa.Alloc, *ssa.MakeSlice, *ssa.MakeMap, *ssa.MakeChan:
		// one root per allocation site: what one local cell holds (a spilled parameter, a captured variable) must not
		// be attributed to every other local of the function
		ch = st.setRoots(x.(ssa.Value), rootSet{Root{"fresh", st.fn.String() + "#" + x.(ssa.Value).Name()}: true})
	case *ssa.MakeClosure:
		rs := rootSet{}
		rs.add(fresh)
		for _, b := range x.Bindings {
			rs.add(st.rootsOf(b))
		}
		ch = st.setRoots(x, rs)
	case *ssa.FieldAddr:
		ch = st.setRoots(x, st.rootsOf(x.X))
	case *ssa.IndexAddr:
		ch = st.setRoots(x, st.rootsOf(x.X))
	case *ssa.Slice:
		ch = st.setRoots(x, st.rootsOf(x.X))
	case *ssa.Field:
		if pointerLike(x.Type()) {
			ch = st.setRoots(x, st.rootsOf(x.X))
		}
	case *ssa.Index:
		if pointerLike(x.Type()) {
			ch = st.setRoots(x, st.rootsOf(x.X))
		}
	case *ssa.Lookup:
		vt := x.Type()
		if tup, ok := vt.(*types.Tuple); ok && x.CommaOk && tup.Len() == 2 {
			vt = tup.At(0).Type() // v, ok := m[k]: the tuple carries the value's provenance (Extract hands it on)
		}
		if pointerLike(vt) {
			ch = st.setRoots(x, st.loaded(st.rootsOf(x.X)))
		}
	case *ssa.UnOp:
		if x.Op == token.MUL && pointerLike(x.Type()) {
			ch = st.setRoots(x, st.loaded(st.rootsOf(x.X)))
		}
	case *ssa.Phi:
		rs := rootSet{}
		for _, e := range x.Edges {
			rs.add(st.rootsOf(e))
		}
		ch = st.setRoots(x, rs)
	case *ssa.ChangeType:
		ch = st.setRoots(x, st.rootsOf(x.X))
	case *ssa.ChangeInterface:
		ch = st.setRoots(x, st.rootsOf(x.X))
	case *ssa.Convert:
		if pointerLike(x.Type()) {
			// string <-> []byte conversions copy: fresh
			if _, isSlice := x.Type().Underlying().(*types.Slice); isSlice {
				if b, ok := x.X.Type().Underlying().(*types.Basic); ok && b.Info()&types.IsString != 0 {
					ch = st.setRoots(x, fresh)
					break
				}
			}
			ch = st.setRoots(x, st.rootsOf(x.X))
		}
	case *ssa.MakeInterface:
		if pointerLike(x.X.Type()) {
			ch = st.setRoots(x, st.rootsOf(x.X))
		}
	case *ssa.TypeAssert:
		ch = st.setRoots(x, st.rootsOf(x.X))
	case *ssa.Extract:
		if pointerLike(x.Type()) {
			ch = st.setRoots(x, st.rootsOf(x.Tuple))
		}
	case *ssa.Range:
		ch = st.setRoots(x, st.rootsOf(x.X))
	case *ssa.Next:
		ch = st.setRoots(x, st.loaded(st.rootsOf(x.Iter)))
	case *ssa.Store:
		rs := st.rootsOf(x.Addr)
		if len(rs) == 0 {
			rs = rootSet{Root{"unknown", ""}: true}
		}
		if st.write(rs, x, "store") {
			ch = true
		}
		if pointerLike(x.Val.Type()) {
			vr := st.rootsOf(x.Val)
			if st.hold(rs, vr) {
				ch = true
			}
			// a function value taken from a package-level table is code, not storage: no alias
			if _, isFunc := x.Val.Type().Underlying().(*types.Signature); !isFunc {
				st.escape(vr, rs, x, "store")
			}
			if st.retain(vr, rs, x.Val.Type(), x, "store") {
				ch = true
			}
		}
	case *ssa.MapUpdate:
		rs := st.rootsOf(x.Map)
		if len(rs) == 0 {
			rs = rootSet{Root{"unknown", ""}: true}
		}
		ch = st.write(rs, x, "mapupdate")
	case *ssa.Send:
		ch = st.write(st.rootsOf(x.Chan), x, "send")
	case *ssa.Return:
		for _, r := range x.Results {
			if pointerLike(r.Type()) {
				if st.sum.Returns.add(st.rootsOf(r)) {
					ch = true
				}
				if _, isFunc := r.Type().Underlying().(*types.Signature); !isFunc {
					st.escape(st.rootsOf(r), nil, x, "return")
				}
			}
		}
	case *ssa.Call:
		ch = st.visitCall(x, x)
	case *ssa.Defer:
		ch = st.visitCall(x, nil)
	case *ssa.Go:
		ch = st.visitCall(x, nil)
	}
	return ch
}

func (st *funcState) visitCall(call ssa.CallInstruction, val ssa.Value) bool {
	ch := false
	cc := call.Common()
	mod, ext, unresolved := st.a.callees(call)
	var args []ssa.Value
	if cc.IsInvoke() {
		args = append(args, cc.Value)
	}
	args = append(args, cc.Args...)
	argRoots := func(i int) rootSet {
		if i < len(args) {
			return st.rootsOf(args[i])
		}
		return nil
	}
	res := rootSet{}
	if strings.HasPrefix(ext, "builtin:") {
		switch strings.TrimPrefix(ext, "builtin:") {
		case "append":
			rs := argRoots(0)
			if len(rs) > 0 {
				// may write into the existing backing array
				if st.write(rs, call, "append") {
					ch = true
				}
			}
			res.add(rs)
			res.add(fresh)
			// the appended elements are held by the result
			if len(args) > 1 && pointerLike(args[1].Type()) {
				if el, ok := args[1].Type().Underlying().(*types.Slice); ok && pointerLike(el.Elem()) {
					res.add(st.loaded(argRoots(1)))
				}
			}
		case "copy":
			rs := argRoots(0)
			if len(rs) == 0 {
				rs = rootSet{Root{"unknown", ""}: true}
			}
			if st.write(rs, call, "copy") {
				ch = true
			}
		case "delete":
			if st.write(argRoots(0), call, "delete") {
				ch = true
			}
		}
		if val != nil && pointerLike(val.Type()) {
			if st.setRoots(val, res) {
				ch = true
			}
		}
		return ch
	}
	for _, callee := range mod {
		cs := st.a.Sums[callee]
		if cs == nil {
			continue
		}
		// map the callee's roots into ours
		mapRoot := func(r Root) rootSet {
			switch r.Kind {
			case "param":
				var i int
				fmt.Sscan(r.Name, &i)
				// for interface invokes the receiver is args[0]; for static method calls the receiver is cc.Args[0] as well
				return argRoots(i)
			case "freevar":
				if mc, ok := cc.Value.(*ssa.MakeClosure); ok {
					var i int
					fmt.Sscan(r.Name, &i)
					if i < len(mc.Bindings) {
						return st.rootsOf(mc.Bindings[i])
					}
				}
				// a closure value from elsewhere: its bindings are among the roots of the function value
				return st.rootsOf(cc.Value)
			case "fresh":
				return fresh
			}
			return rootSet{r: true}
		}
		for _, w := range cs.Writes {
			if w.Root.Kind == "fresh" {
				continue
			}
			rs := mapRoot(w.Root)
			if len(rs) == 0 && w.Root.Kind == "param" {
				// writing through a non-pointer-like argument cannot happen; the argument carried no provenance:
				// e.g. a constant nil. Nothing to record.
				continue
			}
			if st.write(rs, call, "call "+callee.String()) {
				ch = true
			}
		}
		for r := range cs.Returns {
			res.add(mapRoot(r))
		}
		for _, rt := range cs.Retains {
			if st.retain(argRoots(rt.Param), mapRoot(rt.Into), rt.Type, call, "call "+callee.String()) {
				ch = true
			}
		}
	}
	if ext != "" && !strings.HasPrefix(ext, "invoke:") {
		switch {
		case st.a.ReadOnly(ext):
		case st.a.WritesRecvOnly(ext):
			if rs := argRoots(0); len(rs) > 0 {
				if st.write(rs, call, "call "+ext) {
					ch = true
				}
			}
		default:
			for i := range args {
				if pointerLike(args[i].Type()) {
					if rs := argRoots(i); len(rs) > 0 {
						if st.write(rs, call, "call "+ext) {
							ch = true
						}
					}
				}
			}
		}
		// results of external calls: fresh or derived from the arguments
		res.add(fresh)
		for i := range args {
			if pointerLike(args[i].Type()) {
				res.add(argRoots(i))
			}
		}
	}
	if strings.HasPrefix(ext, "invoke:") && len(mod) == 0 {
		// an interface implemented outside the module (color.Color, image.Image, draw.Image, io.Writer):
		// assume it may write through its receiver only
		name := strings.TrimPrefix(ext, "invoke:")
		if !st.a.ReadOnly(name) {
			if rs := argRoots(0); len(rs) > 0 {
				if st.write(rs, call, "invoke "+name) {
					ch = true
				}
			}
		}
		res.add(fresh)
		res.add(argRoots(0))
	}
	if unresolved {
		msg := fmt.Sprintf("%s: unresolved indirect call", st.fn.String())
		found := false
		for _, u := range st.a.Unresolved {
			if u == msg {
				found = true
			}
		}
		if !found {
			st.a.Unresolved = append(st.a.Unresolved, msg)
		}
		for i := range args {
			if pointerLike(args[i].Type()) {
				if rs := argRoots(i); len(rs) > 0 {
					if st.write(rs, call, "unresolved call") {
						ch = true
					}
				}
			}
		}
		res.add(fresh)
	}
	if val != nil && pointerLike(val.Type()) {
		if st.setRoots(val, res) {
			ch = true
		}
	}
	return ch
}

// WritesOf returns the writes of fn sorted by key.
func (a *Analysis) WritesOf(fn *ssa.Function) []Write {
	s := a.Sums[fn]
	if s == nil {
		return nil
	}
	var ks []string
	for k := range s.Writes {
		ks = append(ks, k)
	}
	sort.Strings(ks)
	var out []Write
	for _, k := range ks {
		out = append(out, s.Writes[k])
	}
	return out
}

// EscapesOf lists the escapes recorded in fn, sorted by key.
func (a *Analysis) EscapesOf(fn *ssa.Function) []Escape {
	sum := a.Sums[fn]
	if sum == nil {
		return nil
	}
	var ks []string
	for k := range sum.Escapes {
		ks = append(ks, k)
	}
	sort.Strings(ks)
	var out []Escape
	for _, k := range ks {
		out = append(out, sum.Escapes[k])
	}
	return out
}

// Funcs returns the analysed functions.
func (a *Analysis) Funcs() []*ssa.Function { return a.funcs }

// Reachable returns the module functions reachable from roots through
// resolved calls, and the names of external callees met on the way.
func (a *Analysis) Reachable(roots []*ssa.Function) (map[*ssa.Function]bool, map[string]bool) {
	seen := map[*ssa.Function]bool{}
	ext := map[string]bool{}
	work := append([]*ssa.Function{}, roots...)
	for len(work) > 0 {
		fn := work[len(work)-1]
		work = work[:len(work)-1]
		if fn == nil || seen[fn] || fn.Blocks == nil {
			continue
		}
		seen[fn] = true
		for _, af := range fn.AnonFuncs {
			work = append(work, af)
		}
		for _, b := range fn.Blocks {
			for _, ins := range b.Instrs {
				ci, ok := ins.(ssa.CallInstruction)
				if !ok {
					continue
				}
				mod, e, _ := a.callees(ci)
				work = append(work, mod...)
				if e != "" && !strings.HasPrefix(e, "builtin:") {
					ext[e] = true
				}
			}
		}
	}
	return seen, ext
}
