package rules

import (
	"fmt"
	"go/constant"
	"go/types"
	"sort"
	"strings"

	"golang.org/x/tools/go/ssa"

	"ivgsa/internal/sym"
)

// encHooks steers the interpreter over package encode: the number/colour
// writers (pointer-receiver methods of the named type encode.buffer) are not
// entered but recorded as ENCODE events whose effect on the buffer is the
// opaque term enc:<kind>(old buffer, value) and whose result is an opaque
// byte count; selected functions can be kept as opaque pure calls.
type encHooks struct {
	sym.NoHooks
	c         *Ctx
	bufT      types.Type // encode.buffer
	pins      map[string]*sym.Term
	paramPins map[string]*sym.Term
	opaque    map[string]bool
	enter     map[string]bool
	// snap lists, per opaque callee, Encoder fields whose value at the call is appended to the event's arguments
	snap map[string][]string
	encT *types.Named
}

func (c *Ctx) newEncHooks(in *sym.Interp) *encHooks {
	h := &encHooks{c: c, pins: map[string]*sym.Term{}, paramPins: map[string]*sym.Term{}, opaque: map[string]bool{}, enter: map[string]bool{}, snap: map[string][]string{}}
	h.encT = c.P.Named("encode", "Encoder")
	if n := c.Named("encode", "buffer"); n != nil {
		h.bufT = n
	}
	in.Hooks = h
	return h
}

func (h *encHooks) Init(o *sym.Object, p sym.Path, t types.Type) *sym.Term {
	if v, ok := h.pins[o.ID+"|"+p.String()]; ok {
		return v
	}
	return nil
}

func (h *encHooks) Pin(fr *sym.Frame, v ssa.Value) *sym.Term {
	if fr.Parent == nil {
		if p, ok := v.(*ssa.Parameter); ok {
			if t, ok := h.paramPins[p.Name()]; ok {
				return t
			}
		}
	}
	return nil
}

func (h *encHooks) writerName(fn *ssa.Function) string {
	if fn == nil || h.bufT == nil {
		return ""
	}
	recv := fn.Signature.Recv()
	if recv == nil {
		return ""
	}
	if pt, ok := recv.Type().(*types.Pointer); ok && types.Identical(pt.Elem(), h.bufT) {
		// the number and colour writers (encodeXxx) are summarised; other methods of the buffer type are plain
		// helpers (byte-order helpers and the like) and are entered like any other function
		// the writers are the ones the codec pairing table knows (plus the shared 4-byte float form); anything else
		// on the buffer type is a helper and is entered like any other function
		if _, known := writerPairs[fn.Name()]; known || fn.Name() == "encode4ByteReal" {
			return fn.Name()
		}
	}
	return ""
}

func (h *encHooks) Call(in *sym.Interp, fr *sym.Frame, site ssa.CallInstruction, callee *ssa.Function, args []*sym.Term) (bool, *sym.Term) {
	if site == nil || callee == nil {
		return false, nil
	}
	if name := h.writerName(callee); name != "" && !h.enter[name] {
		id := fmt.Sprintf("%s#%d", fr.ID, ordinal(site))
		ptr := args[0]
		var val *sym.Term
		if len(args) > 1 {
			val = args[1]
		}
		var oldv *sym.Term
		if ptr.Op == "ptr" {
			oldv = in.Load(fr.Mem(), ptr)
		}
		ev := in.Emit(fr, "encode", site, name, []*sym.Term{ptr, val, oldv}, nil)
		if ptr.Op == "ptr" {
			old := oldv
			nt := &sym.Term{Op: "enc", Name: name, Args: []*sym.Term{old, val}, T: old.T}
			fr.Mem().Store(ptr.Obj, ptr.Path, nt)
		} else {
			in.Warn = append(in.Warn, "buffer writer called on an unresolved buffer in "+fr.Fn.String())
		}
		if callee.Signature.Results().Len() == 1 {
			n := sym.Atom("n@"+id, types.Typ[types.Int])
			if ev != nil {
				ev.Result = n
			}
			return true, n
		}
		return true, nil
	}
	if h.opaque[callee.Name()] {
		var rt types.Type
		if rs := callee.Signature.Results(); rs.Len() == 1 {
			rt = rs.At(0).Type()
		} else if rs.Len() > 1 {
			rt = rs
		}
		evArgs := canonArgs(callee, args)
		if fs := h.snap[callee.Name()]; len(fs) > 0 && h.encT != nil {
			evArgs = append([]*sym.Term{}, args...)
			eobj := in.ParamObj("e", h.encT)
			for _, f := range fs {
				if i := fieldIndex(h.encT, f); i >= 0 {
					evArgs = append(evArgs, in.LoadAt(fr.Mem(), eobj, sym.Path{sym.F(i)}))
				}
			}
		}
		in.Emit(fr, "opaquecall", site, callee.Name(), evArgs, fr.Mem())
		if rt == nil {
			return true, nil
		}
		return true, sym.Call(callee.Name(), rt, args...)
	}
	return false, nil
}

// encModel bundles what the encoder rules share.
type encModel struct {
	c     *Ctx
	T     *types.Named // encode.Encoder
	modes map[string]int64
	errs  map[string]*sym.Term // error global name -> interface value stored in e.err
	ok    bool
}

func (c *Ctx) newEncModel() *encModel {
	m := &encModel{c: c, modes: map[string]int64{}, errs: map[string]*sym.Term{}}
	m.T = c.Named("encode", "Encoder")
	modeT := c.Named("encode", "mode")
	errT := c.Named("encode", "EncodeError")
	sp := c.P.Pkg("encode")
	if m.T == nil || modeT == nil || errT == nil || sp == nil {
		return m
	}
	in := c.Interp()
	for name, mem := range sp.Members {
		switch x := mem.(type) {
		case *ssa.NamedConst:
			if types.Identical(x.Type(), modeT) && x.Value != nil && x.Value.Value != nil {
				if v, ok := constant.Int64Val(x.Value.Value); ok {
					m.modes[name] = v
				}
			}
		case *ssa.Global:
			if pt, ok := x.Type().(*types.Pointer); ok && types.Identical(pt.Elem(), errT) {
				val := in.LoadAt(in.Global, in.GlobalObj(x), nil)
				if val.IsConst() {
					m.errs[name] = &sym.Term{Op: "makeiface", Args: []*sym.Term{val}, T: errT}
				}
			}
		}
	}
	for _, n := range []string{"modeInitial", "modeStyling", "modeDrawing"} {
		if _, ok := m.modes[n]; !ok {
			c.R.Anchor("const encode." + n)
			return m
		}
	}
	if len(m.errs) == 0 {
		c.R.Anchor("error values of type encode.EncodeError")
		return m
	}
	m.ok = true
	return m
}

func (m *encModel) errNames() []string {
	var out []string
	for k := range m.errs {
		out = append(out, k)
	}
	sort.Strings(out)
	return out
}

func (m *encModel) fieldPath(dotted string) sym.Path {
	var p sym.Path
	var t types.Type = m.T
	for _, part := range strings.Split(dotted, ".") {
		i := fieldIndex(t, part)
		if i < 0 {
			m.c.R.Anchor("field encode.Encoder." + dotted)
			return nil
		}
		p = append(p, sym.F(i))
		t = t.Underlying().(*types.Struct).Field(i).Type()
	}
	return p
}

// encRun is one evaluation of an Encoder method.
type encRun struct {
	in  *sym.Interp
	mem *sym.Mem
	fr  *sym.Frame
	res *sym.Term
	h   *encHooks
	m   *encModel
}

// run evaluates method on a symbolic Encoder with the given field and
// parameter pins. fields maps dotted field names to terms.
func (m *encModel) run(fn *ssa.Function, fields map[string]*sym.Term, params map[string]*sym.Term, configure func(h *encHooks)) *encRun {
	in := m.c.Interp()
	h := m.c.newEncHooks(in)
	for k, v := range params {
		h.paramPins[k] = v
	}
	if configure != nil {
		configure(h)
	}
	mem := sym.NewMem()
	eobj := in.ParamObj("e", m.T)
	for name, v := range fields {
		if p := m.fieldPath(name); p != nil {
			mem.Store(eobj, p, v)
		}
	}
	res, out, fr := in.Run(fn, nil, mem)
	return &encRun{in: in, mem: out, fr: fr, res: res, h: h, m: m}
}

func (r *encRun) field(name string) *sym.Term {
	if r.mem == nil {
		return nil
	}
	return r.in.LoadAt(r.mem, r.in.ParamObj("e", r.m.T), r.m.fieldPath(name))
}

func modeConst(v int64, t types.Type) *sym.Term { return sym.Const(constant.MakeInt64(v), t) }

// bufItem is one thing appended to the encoder's output buffer.
type bufItem struct {
	Kind string    // "byte", "bytes" (a slice/string appended whole), "enc:<writer>"
	Val  *sym.Term // the byte expression, the appended slice, or the written value
}

// flattenBuf turns a buffer term into (base, appended items in order).
func flattenBuf(t *sym.Term) (*sym.Term, []bufItem) {
	switch t.Op {
	case "append":
		base, items := flattenBuf(t.Args[0])
		for _, e := range t.Args[1:] {
			items = append(items, bufItem{"byte", e})
		}
		return base, items
	case "appendslice":
		base, items := flattenBuf(t.Args[0])
		if s, ok := t.Args[1].StringVal(); ok {
			for i := 0; i < len(s); i++ {
				items = append(items, bufItem{"byte", u8(int64(s[i]))})
			}
			return base, items
		}
		return base, append(items, bufItem{"bytes", t.Args[1]})
	case "enc":
		base, items := flattenBuf(t.Args[0])
		// a constant natural number is the bytes the natural-number writer produces for it (its layout is C08.2's
		// business): writing the byte 0x00 and writing the natural 0 are the same thing
		if t.Name == "encodeNatural" {
			if k, ok := t.Args[1].Int64(); ok && k >= 0 && k < 1<<30 {
				switch {
				case k < 1<<7:
					return base, append(items, bufItem{"byte", u8(k << 1)})
				case k < 1<<14:
					v := k<<2 | 1
					return base, append(items, bufItem{"byte", u8(v & 0xff)}, bufItem{"byte", u8(v >> 8 & 0xff)})
				default:
					v := k<<2 | 3
					return base, append(items, bufItem{"byte", u8(v & 0xff)}, bufItem{"byte", u8(v >> 8 & 0xff)}, bufItem{"byte", u8(v >> 16 & 0xff)}, bufItem{"byte", u8(v >> 24 & 0xff)})
				}
			}
		}
		return base, append(items, bufItem{"enc:" + t.Name, t.Args[1]})
	case "conv":
		// buffer(x) / []byte(x) conversions
		if len(t.Args) == 1 {
			if _, ok := t.T.Underlying().(*types.Slice); ok && t.Args[0].T != nil {
				if _, ok2 := t.Args[0].T.Underlying().(*types.Slice); ok2 {
					return flattenBuf(t.Args[0])
				}
			}
		}
	}
	return t, nil
}

func describeItems(items []bufItem) string {
	var out []string
	for _, it := range items {
		out = append(out, it.Kind+"("+shortKey(it.Val)+")")
	}
	return strings.Join(out, " ")
}

// DebugEnc evaluates an Encoder method with integer field pins (for ivgsa dump).
func DebugEnc(c *Ctx, method string, opaque []string, intPins map[string]int64, atomPins []string) (*sym.Interp, *sym.Mem) {
	m := c.newEncModel()
	fn := c.Method("encode", "Encoder", method, true)
	if !m.ok || fn == nil {
		return nil, nil
	}
	fields := map[string]*sym.Term{}
	for k, v := range intPins {
		fields[k] = sym.Const(constant.MakeInt64(v), types.Typ[types.Uint8])
		if k == "err" {
			fields[k] = sym.Nil(types.Universe.Lookup("error").Type())
		}
	}
	for _, a := range atomPins {
		fields[a] = sym.Atom(a, nil)
	}
	run := m.run(fn, fields, nil, func(h *encHooks) {
		for _, o := range opaque {
			h.opaque[o] = true
		}
	})
	return run.in, run.mem
}
