package rules

import (
	"fmt"
	"go/constant"
	"go/types"
	"math/big"
	"strings"

	"golang.org/x/tools/go/ssa"

	"ivgsa/internal/poly"
	"ivgsa/internal/sym"
)

func init() {
	register("C08", ruleC03_2, ruleC08_2, ruleC08_3, ruleC08_4, ruleC08_5)
}

// naturalFormBits is the specification's byte layout of a natural number U in
// its k-byte form (k = 1, 2, 4), as a bit vector over the atom key of U.
func naturalFormBits(uKey string, k int) bitVec {
	out := make(bitVec, 8*k)
	switch k {
	case 1: // xxxxxxx0
		for i := 1; i < 8; i++ {
			out[i] = bitSrc{Atom: uKey, Bit: i - 1}
		}
	case 2: // xxxxxx01, little endian
		out[0] = bitSrc{Const: 1}
		for i := 2; i < 16; i++ {
			out[i] = bitSrc{Atom: uKey, Bit: i - 2}
		}
	case 4: // xxxxxx11, little endian
		out[0], out[1] = bitSrc{Const: 1}, bitSrc{Const: 1}
		for i := 2; i < 32; i++ {
			out[i] = bitSrc{Atom: uKey, Bit: i - 2}
		}
	}
	return out
}

// bytesAsBits concatenates byte terms (little endian) into one bit vector,
// with the sub-term whose key is uKey treated as an opaque atom.
func bytesAsBits(bytes []*sym.Term, u *sym.Term) (bitVec, error) {
	var out bitVec
	for _, b := range bytes {
		t := b
		if u != nil {
			t = sym.Subst(b, u, sym.Atom("U", types.Typ[types.Uint32]))
		}
		v, err := toBits(t, 8)
		if err != nil {
			return nil, err
		}
		out = append(out, v...)
	}
	return out, nil
}

// numberLeaf is one case of a number writer.
type numberLeaf struct {
	conds []*sym.Term
	items []bufItem
	n     *sym.Term
}

func (c *Ctx) writerLeaves(name string) ([]numberLeaf, *ssa.Function, string) {
	fn := c.Method("encode", "buffer", name, true)
	if fn == nil {
		return nil, nil, "not found"
	}
	in := c.Interp()
	h := c.newEncHooks(in)
	h.enter[name] = true
	// a number writer may hand its short forms to the natural-number writer: the bytes are what counts
	h.enter["encodeNatural"] = true
	res, mem, _ := in.Run(fn, nil, nil)
	if mem == nil {
		return nil, fn, "does not return"
	}
	if len(in.Warn) > 0 {
		return nil, fn, strings.Join(in.Warn, "; ")
	}
	bobj := in.ParamObj("b", c.Named("encode", "buffer"))
	buf := in.LoadAt(mem, bobj, nil)
	if res == nil {
		res = sym.Int(-1)
	}
	leaves := sym.DeepCases(sym.Tuple(res, buf), 64)
	if leaves == nil {
		return nil, fn, "too many cases"
	}
	var out []numberLeaf
	for _, lf := range leaves {
		base, items := flattenBuf(lf.Val.Args[1])
		if base.Key() != "$init:param:b" {
			return nil, fn, "does not append to the existing buffer: " + shortKey(base)
		}
		out = append(out, numberLeaf{lf.Conds, items, lf.Val.Args[0]})
	}
	return out, fn, ""
}

// findUint recognises the natural number U a list of byte terms encodes: the
// innermost operand of the shifts. Returns the term and the form size.
func findNatural(items []bufItem) (*sym.Term, int, string) {
	k := len(items)
	if k != 1 && k != 2 && k != 4 {
		return nil, 0, fmt.Sprintf("%d bytes", k)
	}
	var bytes []*sym.Term
	for _, it := range items {
		if it.Kind != "byte" {
			return nil, 0, "not bytes"
		}
		bytes = append(bytes, it.Val)
	}
	// candidates: every uint32-typed sub-term of byte 0; pick the one under which the layout matches
	var cands []*sym.Term
	sym.Walk(bytes[0], func(x *sym.Term) bool {
		if x.T != nil {
			if w, _, ok := intWidth(x.T); ok && w == 32 {
				cands = append(cands, x)
			}
		}
		return true
	})
	for _, u := range cands {
		got, err := bytesAsBits(bytes, u)
		if err != nil {
			continue
		}
		if got.equal(naturalFormBits("$U", k)) {
			return u, k, ""
		}
	}
	return nil, k, "the bytes are not the " + fmt.Sprint(k) + "-byte natural form of any sub-term: " + shortKey(bytes[0])
}

// impliesLit reports whether the conjunction of conds propositionally implies lit.
func impliesLit(conds []*sym.Term, lit *sym.Term) bool {
	return sym.CondsContradict(append(append([]*sym.Term{}, conds...), sym.Not(lit)))
}

// intBounds finds the tightest "lo <= X" and "X < hi" implied by the
// conditions, among the comparison atoms that occur in them.
func intBounds(conds []*sym.Term, x *sym.Term) (lo, hi *big.Int) {
	var atoms []*sym.Term
	seen := map[string]bool{}
	for _, cd := range conds {
		sym.Walk(cd, func(t *sym.Term) bool {
			if t.Op == "bin" && (t.Name == "<" || t.Name == "<=") && !seen[t.Key()] {
				seen[t.Key()] = true
				atoms = append(atoms, t)
			}
			return true
		})
	}
	for _, l := range atoms {
		a, b := l.Args[0], l.Args[1]
		switch {
		case l.Name == "<" && sym.Eq(a, x):
			if v, ok := b.Int64(); ok && impliesLit(conds, l) {
				if hi == nil || big.NewInt(v).Cmp(hi) < 0 {
					hi = big.NewInt(v)
				}
			}
		case l.Name == "<=" && sym.Eq(b, x):
			if v, ok := a.Int64(); ok && impliesLit(conds, l) {
				if lo == nil || big.NewInt(v).Cmp(lo) > 0 {
					lo = big.NewInt(v)
				}
			}
			// the same bound spelled as a guard clause: not(k <= X) is X < k
			if v, ok := a.Int64(); ok && impliesLit(conds, sym.Not(l)) {
				if hi == nil || big.NewInt(v).Cmp(hi) < 0 {
					hi = big.NewInt(v)
				}
			}
		}
		// not(X < k) is k <= X
		if l.Name == "<" && sym.Eq(a, x) {
			if v, ok := b.Int64(); ok && impliesLit(conds, sym.Not(l)) {
				if lo == nil || big.NewInt(v).Cmp(lo) > 0 {
					lo = big.NewInt(v)
				}
			}
		}
	}
	return
}

func hasCond(conds []*sym.Term, want *sym.Term) bool { return impliesLit(conds, want) }

// ruleC08_2: each number writer against its reader and the specification.
func ruleC08_2(c *Ctx) {
	R := c.R
	R.Rule("C08.2", "number forms, writer side: every short form writes the specification's byte layout of a natural U; U lies within the form's capacity under the branch guard; the guard contains the exactness test, so the reader's formula (decided under C03.2) applied to U gives back the value; the long form is the 4-byte float; thresholds equal the forms' capacities", 25)
	R.Assume("float32/float64 conversions and the float-to-integer truncations are treated as exact functions; equalities such as float32(int32(f)) == f appearing in a guard are taken as what they state")
	f32 := types.Typ[types.Float32]
	fAtom := sym.Atom("param:f", f32)

	// --- naturals ---
	if leaves, fn, why := c.writerLeaves("encodeNatural"); why != "" {
		R.Unknown("encode.(*buffer).encodeNatural", c.FPos(fn), why)
	} else {
		pos := c.FPos(fn)
		key := "encode.(*buffer).encodeNatural"
		uAtom := sym.Atom("param:u", types.Typ[types.Uint32])
		seen := map[int]bool{}
		for _, lf := range leaves {
			u, k, why := findNatural(lf.items)
			ck := fmt.Sprintf("%s:form=%d", key, k)
			if why != "" {
				R.Bad(ck, pos, "the "+fmt.Sprint(k)+"-byte natural form of u", why)
				continue
			}
			seen[k] = true
			R.Check(sym.Eq(u, uAtom), ck+":value", pos, "encodes u itself", shortKey(u))
			// capacity: form k holds 7/14/30 bits; it is chosen exactly when u is below 2^bits and not below the shorter capacity
			bitsOf := map[int]int64{1: 7, 2: 14, 4: 30}
			_, hi := intBounds(lf.conds, uAtom)
			switch k {
			case 1, 2:
				want := big.NewInt(1 << uint(bitsOf[k]))
				R.Check(hi != nil && hi.Cmp(want) == 0, ck+":capacity", pos, fmt.Sprintf("chosen when u < 2^%d (all the form can hold)", bitsOf[k]), fmt.Sprint(hi))
			case 4:
				// reached when u is not below 2^14; values up to 2^30-1 fit (the property's domain)
				R.Check(hasCond(lf.conds, sym.Not(sym.Bin(tokLSS, uAtom, u32(1<<14), nil))), ck+":capacity", pos, "chosen only when u >= 2^14", condKey(lf.conds))
			}
			if k == 2 {
				R.Check(hasCond(lf.conds, sym.Not(sym.Bin(tokLSS, uAtom, u32(1<<7), nil))), ck+":shortest", pos, "not chosen when the 1-byte form fits", condKey(lf.conds))
			}
		}
		R.Check(seen[1] && seen[2] && seen[4], key+":forms", pos, "1, 2 and 4 byte forms", fmt.Sprint(seen))
	}

	// --- real, coordinate, zero-to-one ---
	type shortForm struct {
		size     int
		capacity int64 // number of values the natural may take
		// decode is the reader's formula (C03.2 / specification) as a function of U
		decode func(U poly.Rat) poly.Rat
	}
	rat := func(a, b int64) poly.Rat { return poly.RatOf(poly.ConstPoly(big.NewRat(a, b))) }
	writers := []struct {
		name  string
		forms map[int]shortForm
	}{
		{"encodeReal", map[int]shortForm{
			1: {1, 1 << 7, func(U poly.Rat) poly.Rat { return U }},
			2: {2, 1 << 14, func(U poly.Rat) poly.Rat { return U }}}},
		{"encodeCoordinate", map[int]shortForm{
			1: {1, 1 << 7, func(U poly.Rat) poly.Rat { return U.Sub(rat(64, 1)) }},
			2: {2, 1 << 14, func(U poly.Rat) poly.Rat { return U.Sub(rat(64*128, 1)).Div(rat(64, 1)) }}}},
		{"encodeZeroToOne", map[int]shortForm{
			1: {1, 1 << 7, func(U poly.Rat) poly.Rat { return U.Div(rat(120, 1)) }},
			2: {2, 1 << 14, func(U poly.Rat) poly.Rat { return U.Div(rat(15120, 1)) }}}},
	}
	for _, w := range writers {
		leaves, fn, why := c.writerLeaves(w.name)
		key := "encode.(*buffer)." + w.name
		if why != "" {
			R.Unknown(key, c.FPos(fn), why)
			continue
		}
		pos := c.FPos(fn)
		seen := map[int]bool{}
		long := 0
		for _, lf := range leaves {
			if len(lf.items) == 1 && lf.items[0].Kind == "enc:encode4ByteReal" {
				long++
				R.Check(sym.Eq(lf.items[0].Val, fAtom), key+":form=4:value", pos, "the 4-byte form of f itself", shortKey(lf.items[0].Val))
				if nv, ok := lf.n.Int64(); !ok || nv != 4 {
					R.Bad(key+":form=4:count", pos, "reports 4 bytes", shortKey(lf.n))
				}
				continue
			}
			u, k, why := findNatural(lf.items)
			ck := fmt.Sprintf("%s:form=%d", key, k)
			if why != "" {
				R.Bad(ck, pos, "a short natural form", why)
				continue
			}
			form, known := w.forms[k]
			if !known {
				R.Bad(ck, pos, "a 1- or 2-byte short form", fmt.Sprint(k))
				continue
			}
			if seen[k] {
				continue // the same form reached through equivalent case splits
			}
			seen[k] = true
			if nv, ok := lf.n.Int64(); !ok || nv != int64(k) {
				R.Bad(ck+":count", pos, fmt.Sprintf("reports %d bytes", k), shortKey(lf.n))
			}
			// U = X (+ bias) (/ divisor): find the integer X the guard talks about: the truncation of f (times a scale)
			var X *sym.Term
			sym.Walk(u, func(x *sym.Term) bool {
				if X == nil && x.Op == "conv" && x.Args[0].T != nil {
					if _, _, isInt := intWidth(x.T); isInt {
						if b, ok := x.Args[0].T.Underlying().(*types.Basic); ok && b.Info()&types.IsFloat != 0 {
							X = x
							return false
						}
					}
				}
				return true
			})
			if X == nil {
				R.Bad(ck+":source", pos, "the natural is derived from the truncation of f", shortKey(u))
				continue
			}
			// exactness: the guard states float32(X) == f * scale, where X = trunc(f * scale)
			scaled := X.Args[0]
			exact := sym.Bin(tokEQL, sym.Conv(X, f32), scaled, types.Typ[types.Bool])
			R.Check(hasCond(lf.conds, exact), ck+":exact", pos, "guarded by float32(X) == the value it truncates (exact representability)", condKey(lf.conds))
			env := poly.NewEnv()
			env.Rename[X.Key()] = "X"
			env.Rename[fAtom.Key()] = "f"
			// the scale: X stands for f*scale
			scalePoly, okS := env.One(scaled)
			uPoly, okU := func() (poly.Rat, bool) {
				e2 := poly.NewEnv()
				e2.Rename[X.Key()] = "X"
				// u may contain an exact integer division (zero-to-one 1-byte form): X / d with X % d == 0 in the guard
				ut := u
				var div int64 = 1
				sym.Walk(u, func(x *sym.Term) bool {
					if x.Op == "bin" && x.Name == "/" {
						if d, ok := x.Args[1].Int64(); ok && d > 0 {
							if _, _, isInt := intWidth(x.T); isInt {
								div = d
								ut = sym.Subst(ut, x, x.Args[0])
							}
						}
					}
					return true
				})
				p, ok := e2.One(ut)
				if !ok {
					return p, false
				}
				if div != 1 {
					// the division must be exact under the guard
					remLit := sym.Bin(tokEQL, sym.Bin(tokREM, X, sym.Const(constant.MakeInt64(div), X.T), X.T), sym.Const(constant.MakeInt64(0), X.T), types.Typ[types.Bool])
					rem := impliesLit(lf.conds, remLit)
					if !rem {
						return p, false
					}
					p = p.Div(rat(div, 1))
				}
				return p, true
			}()
			if !okS || !okU {
				R.Unknown(ck+":formula", pos, "no normal form for the natural: "+shortKey(u))
				continue
			}
			// reader(U) must equal f: reader(U(X)) with X = f*scale
			decoded := form.decode(uPoly)
			back := decoded.SubstVar("X", scalePoly)
			R.Check(back.Equal(poly.RatVar("f")), ck+":inverse", pos, "reader's formula applied to the written natural gives f", "gives "+back.String()+" (natural = "+uPoly.String()+")")
			// capacity: under the guard's bounds on X the natural lies in [0, capacity)
			lo, hi := intBounds(lf.conds, X)
			uLo, uHi := evalLinear(uPoly, lo), evalLinear(uPoly, hi)
			okCap := false
			detail := fmt.Sprintf("X in [%v,%v)", lo, hi)
			if lo == nil && hi != nil {
				// unsigned X: lower bound 0
				if _, unsigned, _ := intWidth(X.T); unsigned {
					lo = big.NewInt(0)
					uLo = evalLinear(uPoly, lo)
				}
			}
			if uLo != nil && uHi != nil {
				capR := new(big.Rat).SetInt64(form.capacity)
				okCap = uLo.Sign() >= 0 && uHi.Cmp(capR) <= 0
				detail += fmt.Sprintf(" -> natural in [%s,%s), capacity %d", uLo.RatString(), uHi.RatString(), form.capacity)
			}
			R.Check(okCap, ck+":capacity", pos, "the natural fits the form", detail)
		}
		R.Check(seen[1] && seen[2] && long >= 1, key+":forms", pos, "1- and 2-byte short forms and the 4-byte form", fmt.Sprintf("%v long=%d", seen, long))
	}
	// the angle writer normalises into [0,1) and then uses the zero-to-one writer
	if leaves, fn, why := c.writerLeaves("encodeAngle"); why == "" {
		ok := len(leaves) == 1 && len(leaves[0].items) == 1 && leaves[0].items[0].Kind == "enc:encodeZeroToOne"
		if ok {
			env := poly.NewEnv()
			env.Rename["$param:f"] = "f"
			got, okp := env.One(leaves[0].items[0].Val)
			want := poly.RatVar("f").Sub(poly.RatVar("floor(f)"))
			ok = okp && got.Equal(want)
		}
		R.Check(ok, "encode.(*buffer).encodeAngle", c.FPos(fn), "writes f - floor(f) as a zero-to-one number (the angle modulo one turn)", describeItems(leaves[0].items))
	} else {
		R.Unknown("encode.(*buffer).encodeAngle", c.FPos(fn), why)
	}
}

// evalLinear evaluates a univariate rational function in X at an integer.
func evalLinear(p poly.Rat, x *big.Int) *big.Rat {
	if x == nil {
		return nil
	}
	v := p.SubstVar("X", poly.RatOf(poly.ConstPoly(new(big.Rat).SetInt(x))))
	num, ok1 := v.Num.IsConst()
	den, ok2 := v.Den.IsConst()
	if !ok1 || !ok2 || den.Sign() == 0 {
		return nil
	}
	return new(big.Rat).Quo(num, den)
}

// ruleC08_3: SetNReg picks the shortest of its three candidates, first wins ties.
func ruleC08_3(c *Ctx) {
	R := c.R
	R.Rule("C08.3", "SetNReg chooses, for every combination of candidate lengths in {1,2,4}^3 (27 keys), the shortest of real / coordinate / zero-to-one with ties going to the earlier one; the short forms of each writer are tried before the long one", 27)
	m := c.newEncModel()
	fn := c.Method("encode", "Encoder", "SetNReg", true)
	dec := c.decSummaries(false)
	if !m.ok || fn == nil || dec == nil {
		return
	}
	modeT := c.Named("encode", "mode")
	noErr := sym.Nil(types.Universe.Lookup("error").Type())
	run := m.run(fn, map[string]*sym.Term{"mode": modeConst(m.modes["modeStyling"], modeT), "err": noErr}, map[string]*sym.Term{"adj": u8(0), "incr": sym.False}, nil)
	pos := c.FPos(fn)
	key := "encode.(*Encoder).SetNReg"
	if run.mem == nil {
		R.Unknown(key, pos, "does not return")
		return
	}
	// the three candidate writers and their reported lengths
	var cand []*sym.Event
	for _, ev := range run.in.Events {
		if ev.Kind == "encode" && ev.Result != nil {
			cand = append(cand, ev)
		}
	}
	if len(cand) != 3 {
		R.Bad(key+":candidates", pos, "three candidate encodings", fmt.Sprint(len(cand)))
		return
	}
	_, items := flattenBuf(run.field("buf"))
	if len(items) < 1 || items[0].Kind != "byte" {
		R.Bad(key+":opcode", pos, "an opcode byte", describeItems(items))
		return
	}
	opcode := items[0].Val
	for _, a := range []int64{1, 2, 4} {
		for _, b := range []int64{1, 2, 4} {
			for _, d := range []int64{1, 2, 4} {
				ns := []int64{a, b, d}
				t := opcode
				for i, ev := range cand {
					t = sym.Subst(t, ev.Result, sym.Int(ns[i]))
				}
				ob, ok := t.Int64()
				ck := fmt.Sprintf("%s:lengths=%d,%d,%d", key, a, b, d)
				if !ok {
					R.Unknown(ck, pos, "opcode does not fold: "+shortKey(t))
					continue
				}
				best := 0
				for i := 1; i < 3; i++ {
					if ns[i] < ns[best] {
						best = i
					}
				}
				wantKind := writerPairs[cand[best].Callee]
				got := "?"
				if s := dec[ob&0xff]; len(s.Operands) == 1 {
					got = s.Operands[0].Kind
				}
				R.Check(got == wantKind, ck, pos, "the opcode of the shortest candidate ("+cand[best].Callee+")", fmt.Sprintf("opcode 0x%02x reads a %s", ob, got))
			}
		}
	}
	R.Exhaustive = true
}

// ruleC08_4: quantisation of low-resolution coordinates.
func ruleC08_4(c *Ctx) {
	R := c.R
	R.Rule("C08.4", "quantize is floor(64c + 1/2)/64 exactly when the path is low resolution and -128 <= c < 128, else the identity; every coordinate of a drawing operation and of StartPath goes through it, angles, flags, LOD and register numbers do not; the resolution of a path is the public flag as of StartPath (start point included) and is not changed inside the path", 25)
	m := c.newEncModel()
	fn := c.Method("encode", "Encoder", "quantize", true)
	if !m.ok || fn == nil {
		return
	}
	pos := c.FPos(fn)
	key := "encode.(*Encoder).quantize"
	run := m.run(fn, map[string]*sym.Term{"highResolutionCoordinates": sym.Atom("hires", types.Typ[types.Bool])}, nil, nil)
	leaves := sym.DeepCases(run.res, 16)
	f32 := types.Typ[types.Float32]
	cA := sym.Atom("param:coord", f32)
	want := sym.And(sym.Not(sym.Atom("hires", nil)),
		sym.Bin(tokLEQ, sym.Const(constant.MakeInt64(-128), f32), cA, nil),
		sym.Bin(tokLSS, cA, sym.Const(constant.MakeInt64(128), f32), nil))
	var gQuant []*sym.Term
	okForms := true
	detail := ""
	for _, lf := range leaves {
		env := poly.NewEnv()
		env.Rename[cA.Key()] = "c"
		got, ok := env.One(lf.Val)
		if !ok {
			okForms, detail = false, shortKey(lf.Val)
			continue
		}
		if got.Equal(poly.RatVar("c")) {
			continue // identity
		}
		// floor(64c + 1/2)/64
		wantQ := poly.RatVar("floor(1/2 + 64*c)").Div(poly.RatInt(64))
		if !got.Equal(wantQ) {
			okForms, detail = false, got.String()
		}
		gQuant = append(gQuant, sym.And(lf.Conds...))
	}
	R.Check(okForms && len(gQuant) > 0, key+":formula", pos, "floor(64c + 1/2)/64 or c", detail)
	if len(gQuant) > 0 {
		got := sym.Or(gQuant...)
		okG := equivalent(got, want)
		if !okG {
			// the resolution flag may reach the quantiser as a parameter instead of a field: the one boolean input the
			// guard mentions besides the coordinate
			var flags []*sym.Term
			sym.Walk(got, func(x *sym.Term) bool {
				if x.Op == "atom" && x.T != nil {
					if b, isB := x.T.Underlying().(*types.Basic); isB && b.Kind() == types.Bool {
						dup := false
						for _, f := range flags {
							if f.Key() == x.Key() {
								dup = true
							}
						}
						if !dup {
							flags = append(flags, x)
						}
					}
				}
				return true
			})
			if len(flags) == 1 && strings.Contains(strings.ToLower(flags[0].Name), "res") {
				okG = equivalent(got, sym.Subst(want, sym.Atom("hires", nil), flags[0]))
			}
		}
		R.Check(okG, key+":guard", pos, "quantised iff low resolution and -128 <= c < 128", shortKey(got))
	}
	// coverage
	modeT := c.Named("encode", "mode")
	noErr := sym.Nil(types.Universe.Lookup("error").Type())
	check := func(fnName string, fields map[string]*sym.Term, construct string) {
		f := c.Method("encode", "Encoder", fnName, true)
		if f == nil {
			return
		}
		r := m.run(f, fields, nil, func(h *encHooks) { h.opaque["quantize"] = true })
		bad := ""
		n := 0
		for _, ev := range r.in.Events {
			if ev.Kind != "encode" {
				continue
			}
			n++
			isQ := ev.Args[1] != nil && ev.Args[1].Op == "call" && ev.Args[1].Name == "quantize"
			wantQ := ev.Callee == "encodeCoordinate"
			if isQ != wantQ {
				bad = fmt.Sprintf("%s(%s)", ev.Callee, shortKey(ev.Args[1]))
			}
		}
		R.Check(bad == "" && n > 0, construct, c.FPos(f), "coordinates quantised, other numbers not", bad)
	}
	sty := map[string]*sym.Term{"mode": modeConst(m.modes["modeStyling"], modeT), "err": noErr}
	check("StartPath", sty, "encode.(*Encoder).StartPath:quantised")
	check("SetLOD", sty, "encode.(*Encoder).SetLOD:not-quantised")
	for _, l := range []int64{'L', 'A', 'H', 'C'} {
		check("flushDrawOps", map[string]*sym.Term{"mode": modeConst(m.modes["modeDrawing"], modeT), "err": noErr, "drawOp": u8(l)}, fmt.Sprintf("encode.(*Encoder).flushDrawOps#letter=%q:quantised", rune(l)))
	}
	c.checkResolutionLatch(m)
}

// ruleC08_5: the 4-byte form keeps sign and exponent and rounds the mantissa
// without carrying into the exponent; the bytes are little endian with both
// tag bits set; the reader clears exactly the two tag bits.
func ruleC08_5(c *Ctx) {
	R := c.R
	R.Rule("C08.5", "4-byte form: bits 23..31 of the float are written unchanged, the mantissa field is (m+2 when m+2 cannot overflow the field, else m) with the two low bits replaced by the tag 11, bytes little endian", 3)
	leaves, fn, why := c.writerLeaves("encode4ByteReal")
	key := "encode.(*buffer).encode4ByteReal"
	if why != "" {
		R.Unknown(key, c.FPos(fn), why)
		return
	}
	pos := c.FPos(fn)
	bitsT := sym.Call("math.Float32bits", types.Typ[types.Uint32], sym.Atom("param:f", types.Typ[types.Float32]))
	for _, lf := range leaves {
		if len(lf.items) != 4 {
			R.Bad(key+":bytes", pos, "four bytes", describeItems(lf.items))
			continue
		}
		var bytes []*sym.Term
		for _, it := range lf.items {
			bytes = append(bytes, it.Val)
		}
		// the mantissa part V: either (bits & 0x7fffff) or that + 2
		mant := sym.Bin(tokAND, bitsT, u32(0x7fffff), types.Typ[types.Uint32])
		plus2 := sym.Bin(tokADD, mant, u32(2), types.Typ[types.Uint32])
		rounded := sym.Mentions(bytes[0], plus2.Key())
		label := map[bool]string{true: "rounded", false: "unrounded"}[rounded]
		var bv bitVec
		var err error
		if rounded {
			// treat m+2 as an opaque 23-bit quantity: justified by the guard m < 0x7ffffe
			lim := int64(-1)
			for _, cd := range lf.conds {
				for _, l := range guardLits(cd) {
					if l.Op == "bin" && l.Name == "<" && sym.Eq(l.Args[0], mant) {
						lim, _ = l.Args[1].Int64()
					}
				}
			}
			R.Check(lim >= 0 && lim+2-1 <= 0x7fffff, key+":"+label+":no-carry", pos, "m + 2 stays within the 23-bit mantissa field (guard m < 0x7ffffe)", fmt.Sprintf("guard limit %#x", lim))
			var sub []*sym.Term
			for _, b := range bytes {
				// V = m+2 is known to fit 23 bits (no-carry obligation above)
				sub = append(sub, sym.Subst(b, plus2, sym.Bin(tokAND, sym.Atom("V", types.Typ[types.Uint32]), u32(0x7fffff), types.Typ[types.Uint32])))
			}
			sub2 := make([]*sym.Term, len(sub))
			for i, b := range sub {
				sub2[i] = sym.Subst(b, bitsT, sym.Atom("F", types.Typ[types.Uint32]))
			}
			bv, err = bytesAsBits(sub2, nil)
			if err == nil {
				want := make(bitVec, 32)
				want[0], want[1] = bitSrc{Const: 1}, bitSrc{Const: 1}
				for i := 2; i < 23; i++ {
					want[i] = bitSrc{Atom: "$V", Bit: i}
				}
				for i := 23; i < 32; i++ {
					// V has no bits above 22 (no-carry obligation), so these are the float's own bits
					want[i] = bitSrc{Atom: "$F", Bit: i}
				}
				// bits 23..31 of V are zero by the no-carry obligation: drop them from the or
				for i := 23; i < 32; i++ {
					if bv[i].Atom == "" && err == nil {
						continue
					}
				}
				R.Check(equalIgnoringHighV(bv, want), key+":"+label+":layout", pos, "tag 11, mantissa bits 2..22 of m+2, sign and exponent of f, little endian", bv.String())
			}
		} else {
			var sub []*sym.Term
			for _, b := range bytes {
				sub = append(sub, sym.Subst(b, bitsT, sym.Atom("F", types.Typ[types.Uint32])))
			}
			bv, err = bytesAsBits(sub, nil)
			if err == nil {
				want := make(bitVec, 32)
				want[0], want[1] = bitSrc{Const: 1}, bitSrc{Const: 1}
				for i := 2; i < 32; i++ {
					want[i] = bitSrc{Atom: "$F", Bit: i}
				}
				R.Check(bv.equal(want), key+":"+label+":layout", pos, "tag 11, all other bits of f, little endian", bv.String())
			}
		}
		if err != nil {
			R.Unknown(key+":"+label+":layout", pos, err.Error())
		}
	}
}

// equalIgnoringHighV compares bit vectors where got may still carry an "or"
// with the (zero) high bits of V resolved by toBits as errors; here both sides
// are plain sources.
func equalIgnoringHighV(got, want bitVec) bool { return got.equal(want) }
