package rules

import (
	"fmt"
	"go/constant"
	"go/token"
	"go/types"
	"strings"

	"golang.org/x/tools/go/ssa"

	"ivgsa/internal/poly"
	"ivgsa/internal/sym"
)

func init() {
	register("C20", ruleC20_2, ruleC20_1, ruleC20_3, func(c *Ctx) { c.checkNoRetainedStorage("C20.6") })
}

// T-SVG: verb -> (operand count, Destination method, wiring) for the generator.
type svgVerb struct {
	n      int
	method string
	// wiring: for each delivered argument, the index into args (-1: see special)
	wiring []int
}

var svgTable = map[byte]svgVerb{
	'H': {1, "AbsHLineTo", []int{0}}, 'h': {1, "RelHLineTo", []int{0}},
	'V': {1, "AbsVLineTo", []int{0}}, 'v': {1, "RelVLineTo", []int{0}},
	'L': {2, "AbsLineTo", []int{0, 1}}, 'l': {2, "RelLineTo", []int{0, 1}},
	'M': {2, "ClosePathAbsMoveTo", []int{0, 1}}, 'm': {2, "ClosePathRelMoveTo", []int{0, 1}},
	'T': {2, "AbsSmoothQuadTo", []int{0, 1}}, 't': {2, "RelSmoothQuadTo", []int{0, 1}},
	'Q': {4, "AbsQuadTo", []int{0, 1, 2, 3}}, 'q': {4, "RelQuadTo", []int{0, 1, 2, 3}},
	'S': {4, "AbsSmoothCubeTo", []int{0, 1, 2, 3}}, 's': {4, "RelSmoothCubeTo", []int{0, 1, 2, 3}},
	'C': {6, "AbsCubeTo", []int{0, 1, 2, 3, 4, 5}}, 'c': {6, "RelCubeTo", []int{0, 1, 2, 3, 4, 5}},
	'A': {7, "AbsArcTo", []int{0, 1, 2, 3, 4, 5, 6}}, 'a': {7, "RelArcTo", []int{0, 1, 2, 3, 4, 5, 6}},
	'Z': {0, "", nil}, 'z': {0, "", nil},
}

func oneElemSlice(name string, t types.Type) *sym.Term {
	base := sym.Atom("param:"+name, t)
	return &sym.Term{Op: "slice", Args: []*sym.Term{base, sym.Int(0), sym.Int(1)}, T: t}
}

// ruleC20_2: transform application.
func ruleC20_2(c *Ctx) {
	R := c.R
	R.Assume("real arithmetic; the configured transform is a scale-and-translate (the property's dialect), so only entries 0, 2, 4, 5 matter for H/V")
	R.Rule("C20.2", "transform application in the generator: MulAff3 is the affine map; Concat's loop step satisfies apply(step(a,b),p) = apply(b,apply(a,p)) and starts from the identity; Translate/Scale literals; normalize maps absolute operands (and the starting move) by the full transform, relative operands and arc radii by its linear diagonal part, leaves arc rotation and flags untouched, H by the x row and V by the y row - for every (operand count, verb) of the dialect", 35)
	u8t := types.Typ[types.Uint8]
	f32 := types.Typ[types.Float32]
	// MulAff3
	if fn := c.Fn("generate", "MulAff3"); fn != nil {
		in := c.Interp()
		res, _, _ := in.Run(fn, nil, nil)
		env := poly.NewEnv()
		env.Rename["$param:x"] = "x"
		env.Rename["$param:y"] = "y"
		for k := 0; k < 6; k++ {
			env.Rename[fmt.Sprintf("index($param:a,%d)", k)] = fmt.Sprintf("a%d", k)
		}
		ok := res != nil && res.Op == "tuple" && len(res.Args) == 2
		if ok {
			X, ok1 := env.One(res.Args[0])
			Y, ok2 := env.One(res.Args[1])
			ok = ok1 && ok2 && X.Equal(v("x").Mul(v("a0")).Add(v("y").Mul(v("a1"))).Add(v("a2"))) && Y.Equal(v("x").Mul(v("a3")).Add(v("y").Mul(v("a4"))).Add(v("a5")))
		}
		R.Check(ok, "generate.MulAff3", c.FPos(fn), "(x*a0 + y*a1 + a2, x*a3 + y*a4 + a5)", shortKey(res))
	}
	// Translate / Scale
	if fn := c.Fn("generate", "Translate"); fn != nil {
		in := c.Interp()
		res, _, _ := in.Run(fn, nil, nil)
		R.Check(res != nil && normAgg(res) == "{1,0,$param:x,0,1,$param:y}", "generate.Translate", c.FPos(fn), "{1,0,x,0,1,y}", normAgg(res))
	}
	// Scale: no factor is the identity, one factor scales both axes, two (or more) scale x and y
	if fn := c.Fn("generate", "Scale"); fn != nil && len(fn.Params) == 1 {
		for k := 0; k <= 3; k++ {
			in := c.Interp()
			vt := fn.Params[0].Type()
			arg := &sym.Term{Op: "slice", Args: []*sym.Term{sym.Atom("param:v", vt), sym.Int(0), sym.Int(int64(k))}, T: vt}
			res, _, _ := in.Run(fn, []*sym.Term{arg}, nil)
			want := "{1,0,0,0,1,0}"
			switch {
			case k == 1:
				want = "{v0,0,0,0,v0,0}"
			case k >= 2:
				want = "{v0,0,0,0,v1,0}"
			}
			got := "-"
			if res != nil {
				got = normAgg(res)
				for i := 0; i < 3; i++ {
					got = strings.ReplaceAll(got, fmt.Sprintf("$init:deref:$param:v[%d]", i), fmt.Sprintf("v%d", i))
					got = strings.ReplaceAll(got, fmt.Sprintf("index($param:v,%d)", i), fmt.Sprintf("v%d", i))
					got = strings.ReplaceAll(got, fmt.Sprintf("index(slice($param:v,0,%d),%d)", k, i), fmt.Sprintf("v%d", i))
				}
			}
			R.Check(got == want, fmt.Sprintf("generate.Scale#factors=%d", k), c.FPos(fn), want, got)
		}
	}
	// Concat: identity start and composition step
	if fn := c.Fn("generate", "Concat"); fn != nil {
		in := c.Interp()
		type st struct {
			k   int64
			val *sym.Term
			ev  *sym.Event
		}
		var stores []st
		var aAlloc string
		in.OnStore = func(fr *sym.Frame, site ssa.Instruction, ptr, val *sym.Term) {
			if ptr.Obj != nil && ptr.Obj.Kind == "alloc" && len(ptr.Path) == 1 && ptr.Path[0].Field < 0 && ptr.Path[0].Sym == nil {
				if ev := in.Emit(fr, "store:local", site, ptr.Obj.ID, []*sym.Term{ptr, val}, nil); ev != nil {
					stores = append(stores, st{ptr.Path[0].Index, val, ev})
				}
			}
			// the same assignment written as a copy of a whole array value built in a temporary
			if ptr.Obj != nil && ptr.Obj.Kind == "alloc" && len(ptr.Path) == 0 && val != nil && val.Op == "agg" && len(val.Args) == 6 {
				if ev := in.Emit(fr, "store:local", site, ptr.Obj.ID, []*sym.Term{ptr, val}, nil); ev != nil {
					for k, a := range val.Args {
						stores = append(stores, st{int64(k), a, ev})
					}
				}
			}
		}
		in.Run(fn, nil, nil)
		// the six stores inside the loop define the step; the same object's six stores before the loop are the start
		var step, start [6]*sym.Term
		// the accumulator is the local that is assigned both before and inside the loop
		inLoop, outLoop := map[string]int{}, map[string]int{}
		for _, s := range stores {
			if len(s.ev.Loops) == 1 {
				inLoop[s.ev.Callee]++
			} else if len(s.ev.Loops) == 0 {
				outLoop[s.ev.Callee]++
			}
		}
		for id := range inLoop {
			if outLoop[id] > 0 && (aAlloc == "" || id < aAlloc) {
				aAlloc = id
			}
		}
		for _, s := range stores {
			if s.k < 0 || s.k > 5 {
				continue
			}
			if len(s.ev.Loops) == 1 && s.ev.Callee == aAlloc {
				step[s.k] = s.val
			}
		}
		for _, s := range stores {
			if len(s.ev.Loops) == 0 && s.ev.Callee == aAlloc && s.k >= 0 && s.k <= 5 {
				start[s.k] = s.val
			}
		}
		okStart := true
		for k, want := range []int64{1, 0, 0, 0, 1, 0} {
			if start[k] == nil {
				okStart = false
				continue
			}
			e := poly.NewEnv()
			p, ok := e.One(start[k])
			if !ok || !p.Equal(poly.RatInt(want)) {
				okStart = false
			}
		}
		R.Check(okStart, "generate.Concat#start", c.FPos(fn), "the identity {1,0,0,0,1,0}", "")
		okStep := true
		detail := ""
		env := poly.NewEnv()
		var A, B, S [6]poly.Rat
		for k := 0; k < 6; k++ {
			if step[k] == nil {
				okStep = false
				detail = "step not found"
				break
			}
		}
		if okStep {
			// atoms: the loop-carried a[k] (memory-state atoms of the local) and the range element b[k]
			atoms := map[string]bool{}
			for k := 0; k < 6; k++ {
				for _, a := range atomsOf(step[k]) {
					atoms[a] = true
				}
			}
			// classify atoms by key suffix "[k]"
			for a := range atoms {
				for k := 0; k < 6; k++ {
					if strings.HasSuffix(a, fmt.Sprintf("|[%d]", k)) && strings.Contains(a, "mem#") {
						env.Rename[a] = fmt.Sprintf("a%d", k)
					}
				}
			}
			sym.Walk(sym.Tuple(step[:]...), func(t *sym.Term) bool {
				if t.Op == "index" && strings.Contains(t.Args[0].Key(), "param:affs") {
					if k, ok := t.Args[1].Int64(); ok {
						env.Rename[t.Key()] = fmt.Sprintf("b%d", k)
					}
				}
				return true
			})
			for k := 0; k < 6; k++ {
				A[k], B[k] = v(fmt.Sprintf("a%d", k)), v(fmt.Sprintf("b%d", k))
				p, ok := env.One(step[k])
				if !ok {
					okStep = false
					detail = "no normal form: " + shortKey(step[k])
				}
				S[k] = p
			}
		}
		if okStep {
			app := func(m [6]poly.Rat, x, y poly.Rat) (poly.Rat, poly.Rat) {
				return x.Mul(m[0]).Add(y.Mul(m[1])).Add(m[2]), x.Mul(m[3]).Add(y.Mul(m[4])).Add(m[5])
			}
			x, y := v("x"), v("y")
			ax, ay := app(A, x, y)
			wx, wy := app(B, ax, ay)
			gx, gy := app(S, x, y)
			okStep = gx.Equal(wx) && gy.Equal(wy)
			detail = "step applied to (x,y) = (" + gx.String() + ", " + gy.String() + ")"
		}
		R.Check(okStep, "generate.Concat#step", c.FPos(fn), "apply(step(a,b), p) == apply(b, apply(a, p)): matrix composition in argument order", detail)
		// the short cases are answered without the loop: no transform is the identity, one transform is itself
		// (what SetTransform() and SetTransform(t) configure)
		aff3T := c.Named("generate", "Aff3")
		for _, nArgs := range []int64{0, 1} {
			in := c.Interp()
			h := newSimpleHooks()
			base := sym.Atom("param:affs", types.NewSlice(aff3T))
			h.paramPins["affs"] = &sym.Term{Op: "slice", Args: []*sym.Term{base, sym.Int(0), sym.Int(nArgs)}, T: types.NewSlice(aff3T)}
			in.Hooks = h
			res, _, _ := in.Run(fn, nil, nil)
			ok := res != nil
			detail := ""
			for k := 0; ok && k < 6; k++ {
				el := sym.Index(res, sym.Int(int64(k)), f32)
				switch nArgs {
				case 0:
					e := poly.NewEnv()
					p, okp := e.One(el)
					if !okp || !p.Equal(poly.RatInt([]int64{1, 0, 0, 0, 1, 0}[k])) {
						ok = false
						detail = fmt.Sprintf("entry %d of Concat() is %s", k, shortKey(el))
					}
				case 1:
					okEl := false
					if el.Op == "index" && len(el.Args) == 2 {
						if kk, isK := el.Args[1].Int64(); isK && kk == int64(k) {
							if in0 := el.Args[0]; in0.Op == "index" && len(in0.Args) == 2 && sym.Mentions(in0.Args[0], "$param:affs") {
								if z, isZ := in0.Args[1].Int64(); isZ && z == 0 {
									okEl = true
								}
							} else if in0.Key() == "$init:deref:$param:affs[0]" {
								okEl = true // element 0 of the parameter's backing array, read through memory
							}
						}
					}
					if !okEl {
						ok = false
						detail = fmt.Sprintf("entry %d of Concat(t) is %s", k, shortKey(el))
					}
				}
			}
			R.Check(ok, fmt.Sprintf("generate.Concat#%d-arguments", nArgs), c.FPos(fn), map[int64]string{0: "the identity {1,0,0,0,1,0}", 1: "the one transform given"}[nArgs], detail)
		}
	}
	// normalize keyed by (n, verb)
	if fn := c.Fn("generate", "normalize"); fn != nil {
		aff3 := c.Named("generate", "Aff3")
		verbs := []byte{'@'}
		for vb := range svgTable {
			verbs = append(verbs, vb)
		}
		// def: no transform is configured (a Generator on which SetTransform was never called): the operands are
		// delivered as written - the identity, by the same rule
		for _, def := range []bool{false, true} {
			for _, verb := range verbs {
				n := 2
				if verb != '@' {
					n = svgTable[verb].n
				}
				in := c.Interp()
				h := newSimpleHooks("Concat")
				h.paramPins["n"] = sym.Int(int64(n))
				h.paramPins["verb"] = sym.Const(constant.MakeInt64(int64(verb)), u8t)
				h.paramPins["transforms"] = oneElemSlice("transforms", types.NewSlice(aff3))
				if def {
					h.paramPins["transforms"] = &sym.Term{Op: "slice", Args: []*sym.Term{sym.Atom("param:transforms", types.NewSlice(aff3)), sym.Int(0), sym.Int(0)}, T: types.NewSlice(aff3)}
				}
				in.Hooks = h
				_, mem, _ := in.Run(fn, nil, nil)
				key := fmt.Sprintf("generate.normalize#n=%d,verb=%q", n, rune(verb))
				if def {
					key += ",default"
				}
				if mem == nil {
					R.Unknown(key, c.FPos(fn), "does not return")
					continue
				}
				argT := types.NewArray(f32, 7)
				aobj := in.ParamObj("args", argT)
				env := poly.NewEnv()
				for k := 0; k < 7; k++ {
					env.Rename[fmt.Sprintf("$init:param:args[%d]", k)] = fmt.Sprintf("p%d", k)
				}
				var concat *sym.Term
				for _, ev := range in.Events {
					if ev.Kind == "opaquecall" && ev.Callee == "Concat" {
						concat = sym.Call("Concat", nil, ev.Args...)
					}
				}
				if concat == nil && !def {
					R.Bad(key, c.FPos(fn), "the configured transforms are concatenated", "no call of Concat")
					continue
				}
				if concat != nil {
					for k := 0; k < 6; k++ {
						env.Rename[sym.Index(concat, sym.Int(int64(k)), f32).Key()] = fmt.Sprintf("t%d", k)
					}
				}
				rel := verb >= 'a' && verb <= 'z'
				T := [6]poly.Rat{v("t0"), v("t1"), v("t2"), v("t3"), v("t4"), v("t5")}
				Sc := [6]poly.Rat{v("t0"), poly.RatInt(0), poly.RatInt(0), poly.RatInt(0), v("t4"), poly.RatInt(0)}
				if def {
					T = [6]poly.Rat{poly.RatInt(1), poly.RatInt(0), poly.RatInt(0), poly.RatInt(0), poly.RatInt(1), poly.RatInt(0)}
					Sc = T
				}
				M := T
				if rel {
					M = Sc
				}
				app := func(m [6]poly.Rat, x, y poly.Rat) (poly.Rat, poly.Rat) {
					return x.Mul(m[0]).Add(y.Mul(m[1])).Add(m[2]), x.Mul(m[3]).Add(y.Mul(m[4])).Add(m[5])
				}
				want := make([]poly.Rat, 7)
				for k := range want {
					want[k] = v(fmt.Sprintf("p%d", k))
				}
				switch n {
				case 7:
					want[0], want[1] = app(Sc, v("p0"), v("p1"))
					want[5], want[6] = app(M, v("p5"), v("p6"))
				case 6:
					want[4], want[5] = app(M, v("p4"), v("p5"))
					fallthrough
				case 4:
					want[2], want[3] = app(M, v("p2"), v("p3"))
					fallthrough
				case 2:
					want[0], want[1] = app(M, v("p0"), v("p1"))
				case 1:
					if verb == 'H' || verb == 'h' {
						want[0], _ = app(M, v("p0"), poly.RatInt(0))
					} else {
						_, want[0] = app(M, poly.RatInt(0), v("p0"))
					}
				}
				ok := true
				detail := ""
				for k := 0; k < 7; k++ {
					got, okp := env.One(in.LoadAt(mem, aobj, sym.Path{sym.I(int64(k))}))
					if !okp || !got.Equal(want[k]) {
						ok = false
						detail = fmt.Sprintf("operand %d becomes %s, want %s", k, got.String(), want[k].String())
					}
				}
				R.Check(ok, key, c.FPos(fn), map[bool]string{true: "relative: linear part only", false: "absolute: full transform"}[rel], detail)
			}
		}
	}
	// converter normalize: relative => a*out/size; absolute => a*out/size - out/2 - offset[axis]
	if fn := c.Fn("mdicons", "normalize"); fn != nil {
		for _, cse := range []struct {
			n        int
			op       byte
			relative bool
		}{{1, 'H', false}, {1, 'V', false}, {1, 'h', true}, {1, 'v', true}, {2, 'L', false}, {2, 'l', true}, {4, 'Q', false}, {4, 'q', true}, {6, 'C', false}, {6, 'c', true}, {2, 'M', false}, {2, 'm', true}} {
			in := c.Interp()
			h := newSimpleHooks()
			h.paramPins["n"] = sym.Int(int64(cse.n))
			h.paramPins["op"] = sym.Const(constant.MakeInt64(int64(cse.op)), u8t)
			h.paramPins["relative"] = sym.Bool(cse.relative)
			in.Hooks = h
			// the loop over i < n has a constant trip count: the interpreter leaves the array cells as loop-carried atoms, so
			// check the loop body instead: the value stored to args[i]
			var stored []*sym.Event
			in.OnStore = func(fr *sym.Frame, site ssa.Instruction, ptr, val *sym.Term) {
				if ptr.Obj != nil && ptr.Obj.ID == "param:args" {
					if ev := in.Emit(fr, "store:args", site, "", []*sym.Term{ptr, val}, nil); ev != nil {
						stored = append(stored, ev)
					}
				}
			}
			_, _, fr := in.Run(fn, nil, nil)
			key := fmt.Sprintf("mdicons.normalize#n=%d,op=%q,relative=%v", cse.n, rune(cse.op), cse.relative)
			if len(stored) == 0 || len(fr.Headers()) != 1 {
				R.Unknown(key, c.FPos(fn), "operand loop not found")
				continue
			}
			li, okl := fr.Loop(fr.Headers()[0])
			if !okl {
				R.Unknown(key, c.FPos(fn), "operand loop not counted")
				continue
			}
			trip, _ := loopTrip(sym.LoopRef{Frame: fr, Header: fr.Headers()[0]})
			// the last store on the path is the final value of args[i]; compose the chain: each store's value mentions the previous cell content
			// Evaluate per parity of i for n != 1 (offset[i&1]).
			okAll := trip == int64(cse.n)
			detail := fmt.Sprintf("trip %d", trip)
			for _, par := range []int64{0, 1} {
				if cse.n == 1 && par == 1 {
					continue
				}
				// final value: take the stores in program order and substitute the cell atom by the previous store's value
				// the stores of one iteration form a chain (each reads the cell the previous one wrote, which the
				// interpreter already resolves): the last store holds the final value
				cur := stored[len(stored)-1].Args[1]
				cur = sym.Subst(cur, sym.Bin(tokAND, li.IndexVal, sym.Int(1), types.Typ[types.Int]), sym.Int(par))
				env := poly.NewEnv()
				env.IteAsAtom = false
				env.Rename["$param:outSize"] = "out"
				env.Rename["$param:size"] = "size"
				for k := 0; k < 2; k++ {
					env.Rename[fmt.Sprintf("index($param:offset,%d)", k)] = fmt.Sprintf("off%d", k)
				}
				// the operand before normalisation
				sym.Walk(cur, func(t *sym.Term) bool {
					if t.Op == "index" && strings.Contains(t.Args[0].Key(), "param:args") && sym.Eq(stripConv(t.Args[1]), stripConv(li.IndexVal)) {
						env.Rename[t.Key()] = "a"
					}
					return true
				})
				got, okp := env.One(cur)
				want := v("a").Mul(v("out")).Div(v("size"))
				if !cse.relative {
					axis := par
					if cse.n == 1 {
						axis = map[byte]int64{'H': 0, 'V': 1}[cse.op]
					}
					want = want.Sub(v("out").Div(poly.RatInt(2))).Sub(v(fmt.Sprintf("off%d", axis)))
				}
				if !okp || !got.Equal(want) {
					okAll = false
					detail = fmt.Sprintf("operand with index parity %d becomes %s, want %s", par, got.String(), want.String())
				}
			}
			R.Check(okAll, key, c.FPos(fn), "scaled by out/size; absolute operands also shifted by -out/2 - offset[axis]", detail)
		}
	}
}

// replaceArgRead substitutes reads of args[idx] (whatever the array state) by cur.
func replaceArgRead(t *sym.Term, idx *sym.Term, cur *sym.Term) *sym.Term {
	var targets []*sym.Term
	sym.Walk(t, func(x *sym.Term) bool {
		if x.Op == "index" && sym.Eq(stripConv(x.Args[1]), stripConv(idx)) && (strings.Contains(x.Args[0].Key(), "param:args") || x.Args[0].Op == "upd") {
			targets = append(targets, x)
			return false
		}
		return true
	})
	for _, tg := range targets {
		t = sym.Subst(t, tg, cur)
	}
	return t
}

var _ = token.ADD
