package rules

import (
	"fmt"
	"go/constant"
	"go/token"
	"math/big"
	"strings"

	"ivgsa/internal/poly"
	"ivgsa/internal/sym"
)

func init() { register("C12", ruleC12) }

// ruleC12 decides, over real arithmetic, that AspectMeet / AspectSlice return a
// rectangle with the viewBox's aspect ratio that fits / covers the target,
// equals it in one dimension and is placed according to the alignment
// fractions, and that Size is max-min.
func ruleC12(c *Ctx) {
	R := c.R
	R.Assume("real arithmetic: float32 rounding is not decided; viewBox width/height and target size are positive and finite (as the property states)")

	// C12.4 the named alignment fractions
	R.Rule("C12.4", "the named alignment fractions are what their names say: Min = 0, Mid = 1/2, Max = 1 as constant values (an untyped integer quotient would make Mid 0)", 3)
	if sp := c.P.Pkg(""); sp != nil {
		for _, k := range []struct {
			name string
			num  int64
			den  int64
		}{{"Min", 0, 1}, {"Mid", 1, 2}, {"Max", 1, 1}} {
			cst := sp.Const(k.name)
			if cst == nil || cst.Value == nil || cst.Value.Value == nil {
				R.Unknown("ivg."+k.name, "-", "constant not found")
				continue
			}
			got := constant.ToFloat(cst.Value.Value)
			want := constant.BinaryOp(constant.ToFloat(constant.MakeInt64(k.num)), token.QUO, constant.ToFloat(constant.MakeInt64(k.den)))
			R.Check(got.Kind() != constant.Unknown && constant.Compare(got, token.EQL, want), "ivg."+k.name, c.P.Pos(cst.Pos()), fmt.Sprintf("%d/%d", k.num, k.den), cst.Value.Value.ExactString())
		}
	}

	// C12.1 Size
	R.Rule("C12.1", "ViewBox.Size() returns (MaxX-MinX, MaxY-MinY) (algebraic normal form)", 2)
	if fn := c.Method("", "ViewBox", "Size", false); fn != nil {
		in := c.Interp()
		res, _, _ := in.Run(fn, nil, nil)
		env := viewBoxEnv("param:v")
		want := []poly.Rat{poly.RatVar("MaxX").Sub(poly.RatVar("MinX")), poly.RatVar("MaxY").Sub(poly.RatVar("MinY"))}
		for i, name := range []string{"dx", "dy"} {
			key := "ivg.(ViewBox).Size#result:" + name
			if res == nil || res.Op != "tuple" || len(res.Args) != 2 {
				R.Unknown(key, c.FPos(fn), "result is not a pair: "+res.Key())
				continue
			}
			got, ok := env.One(res.Args[i])
			if !ok {
				R.Unknown(key, c.FPos(fn), "result is not a single rational function: "+res.Args[i].Key())
				continue
			}
			R.Check(got.Equal(want[i]), key, c.FPos(fn), want[i].String(), got.String())
		}
	}

	for _, mode := range []string{"AspectMeet", "AspectSlice"} {
		meet := mode == "AspectMeet"
		R.Rule("C12.2", "AspectMeet/AspectSlice: per branch arm — aspect ratio preserved, equals target in one dimension, other dimension fits (meet) / covers (slice) exactly under the arm's own branch condition, alignment fractions 0, 1/2, 1 place the slack", 20)
		fn := c.Method("", "ViewBox", mode, false)
		if fn == nil {
			continue
		}
		in := c.Interp()
		res, _, _ := in.Run(fn, nil, nil)
		pos := c.FPos(fn)
		fkey := "ivg.(ViewBox)." + mode
		if res == nil || res.Op != "tuple" || len(res.Args) != 4 {
			R.Unknown(fkey+"#result", pos, "result is not a 4-tuple")
			continue
		}
		if len(in.Warn) > 0 {
			R.Unknown(fkey+"#analysis", pos, "interpreter warnings: "+strings.Join(in.Warn, "; "))
		}
		env := viewBoxEnv("param:v")
		env.Rename["$param:dx"] = "dx"
		env.Rename["$param:dy"] = "dy"
		env.Rename["$param:ax"] = "ax"
		env.Rename["$param:ay"] = "ay"
		comps := make([][]poly.Case, 4)
		for i := range comps {
			comps[i] = env.Cases(res.Args[i])
		}
		if env.Err != nil {
			R.Unknown(fkey+"#normalform", pos, env.Err.Error())
			continue
		}
		// collect the distinct arms (condition sets)
		type arm struct {
			conds []*sym.Term
			v     [4]poly.Rat
		}
		arms := map[string]*arm{}
		var order []string
		for i := 0; i < 4; i++ {
			for _, cs := range comps[i] {
				k := condKey(cs.Conds)
				a := arms[k]
				if a == nil {
					a = &arm{conds: cs.Conds}
					arms[k] = a
					order = append(order, k)
				}
				a.v[i] = cs.Val
			}
		}
		R.Count("C12.arms", len(arms))
		if len(arms) != 2 {
			R.Unknown(fkey+"#arms", pos, fmt.Sprintf("expected one two-way branch, found %d arms", len(arms)))
			continue
		}
		// express everything in W = MaxX-MinX, H = MaxY-MinY
		toWH := func(r poly.Rat) poly.Rat {
			r = r.SubstVar("MaxX", poly.RatVar("MinX").Add(poly.RatVar("W")))
			r = r.SubstVar("MaxY", poly.RatVar("MinY").Add(poly.RatVar("H")))
			return r
		}
		dx, dy, W, H := poly.RatVar("dx"), poly.RatVar("dy"), poly.RatVar("W"), poly.RatVar("H")
		for ai, k := range order {
			a := arms[k]
			akey := fmt.Sprintf("%s#arm%d", fkey, ai)
			complete := true
			for i := 0; i < 4; i++ {
				if a.v[i].Num == nil {
					complete = false
				}
			}
			if !complete || len(a.conds) != 1 {
				R.Unknown(akey, pos, "arm does not define all four results under a single condition: "+k)
				continue
			}
			minX, minY, maxX, maxY := toWH(a.v[0]), toWH(a.v[1]), toWH(a.v[2]), toWH(a.v[3])
			w, h := maxX.Sub(minX), maxY.Sub(minY)
			// (a) aspect
			R.Check(w.Mul(H).Equal(h.Mul(W)), akey+":aspect", pos, "(maxX-minX)*H == (maxY-minY)*W", fmt.Sprintf("w=%s h=%s", w, h))
			// (b) equals target in one dimension
			eqX, eqY := w.Equal(dx), h.Equal(dy)
			R.Check(eqX || eqY, akey+":touches", pos, "width == dx or height == dy", fmt.Sprintf("w=%s h=%s", w, h))
			// (c) the other dimension fits / covers, and the reason is the arm's own condition
			cond := a.conds[0]
			neg := false
			if cond.Op == "not" {
				cond, neg = cond.Args[0], true
			}
			if cond.Op != "bin" || (cond.Name != "<" && cond.Name != "<=" && cond.Name != ">" && cond.Name != ">=") {
				R.Unknown(akey+":fits", pos, "branch condition is not an order comparison: "+cond.Key())
				continue
			}
			l, okl := env.One(cond.Args[0])
			r, okr := env.One(cond.Args[1])
			if !okl || !okr {
				R.Unknown(akey+":fits", pos, "branch condition operands are not rational functions")
				continue
			}
			l, r = toWH(l), toWH(r)
			// normalise the arm condition to "g >(=) 0"
			var g poly.Rat
			switch cond.Name {
			case "<", "<=":
				g = r.Sub(l)
			default:
				g = l.Sub(r)
			}
			if neg {
				g = g.Neg() // not(l<r)  ==  l-r >= 0 over the reals
			}
			// required: slack >= 0 where slack = target-other (meet) or other-target (slice)
			var slack poly.Rat
			switch {
			case eqX && !eqY:
				slack = dy.Sub(h)
			case eqY && !eqX:
				slack = dx.Sub(w)
			default:
				slack = poly.RatInt(0)
			}
			if !meet {
				slack = slack.Neg()
			}
			okSign, why := sameSign(slack, g, []string{"dx", "dy", "W", "H"})
			what := "fits inside"
			if !meet {
				what = "covers"
			}
			R.Check(okSign, akey+":"+map[bool]string{true: "fits", false: "covers"}[meet], pos,
				"result "+what+" the target: the slack has the sign of the arm's branch condition", why,
				"slack="+slack.String(), "branch="+g.String())
			// (d) alignment
			for _, al := range []struct {
				name string
				v    *big.Rat
			}{{"0", big.NewRat(0, 1)}, {"1", big.NewRat(1, 1)}, {"1/2", big.NewRat(1, 2)}} {
				cv := poly.RatOf(poly.ConstPoly(al.v))
				x0, x1 := minX.SubstVar("ax", cv), maxX.SubstVar("ax", cv)
				y0, y1 := minY.SubstVar("ay", cv), maxY.SubstVar("ay", cv)
				var okx, oky bool
				var exp string
				switch al.name {
				case "0":
					okx, oky, exp = x0.IsZero(), y0.IsZero(), "min == 0"
				case "1":
					okx, oky, exp = x1.Equal(dx), y1.Equal(dy), "max == target"
				default:
					okx, oky, exp = x0.Add(x1).Equal(dx), y0.Add(y1).Equal(dy), "min + max == target"
				}
				R.Check(okx, akey+":alignX="+al.name, pos, exp, fmt.Sprintf("minX=%s maxX=%s", x0, x1))
				R.Check(oky, akey+":alignY="+al.name, pos, exp, fmt.Sprintf("minY=%s maxY=%s", y0, y1))
			}
			// x placement must not depend on ay and vice versa
			R.Check(!hasVar(minX, "ay") && !hasVar(maxX, "ay") && !hasVar(minY, "ax") && !hasVar(maxY, "ax"),
				akey+":axes", pos, "x placement independent of ay, y placement independent of ax", "cross dependence")
			R.Sample(map[string]string{"function": mode, "arm": k, "minX": minX.String(), "maxX": maxX.String(), "minY": minY.String(), "maxY": maxY.String()})
		}
	}
	R.Exhaustive = true
}

func hasVar(r poly.Rat, name string) bool {
	for _, v := range append(r.Num.Vars(), r.Den.Vars()...) {
		if v == name {
			return true
		}
	}
	return false
}

func condKey(cs []*sym.Term) string {
	var ks []string
	for _, c := range cs {
		ks = append(ks, c.Key())
	}
	return strings.Join(ks, " && ")
}

// viewBoxEnv names the four fields of a ViewBox value held in the given atom.
func viewBoxEnv(atom string) *poly.Env {
	env := poly.NewEnv()
	for i, n := range []string{"MinX", "MinY", "MaxX", "MaxY"} {
		env.Rename[fmt.Sprintf("field:%d($%s)", i, atom)] = n
		env.Rename[fmt.Sprintf("$init:%s.%d", atom, i)] = n
	}
	return env
}

// sameSign reports whether rational functions a and b have the same sign for
// all positive values of the atoms in pos (and arbitrary values of the
// others): both are brought to numerator/denominator form; denominators must
// be monomials in positive atoms with positive coefficient, and the
// numerators must agree up to a positive monomial factor.
func sameSign(a, b poly.Rat, pos []string) (bool, string) {
	if a.IsZero() && b.IsZero() {
		return true, "both zero"
	}
	sa, ok1 := a.Den.MonomialSign(pos)
	sb, ok2 := b.Den.MonomialSign(pos)
	if !ok1 || !ok2 {
		return false, "a denominator is not a monomial in positive quantities: " + a.Den.String() + " ; " + b.Den.String()
	}
	na, nb := a.Num, b.Num
	if sa < 0 {
		na = na.Neg()
	}
	if sb < 0 {
		nb = nb.Neg()
	}
	pa, oka := na.PrimitivePos(pos)
	pb, okb := nb.PrimitivePos(pos)
	if !oka || !okb {
		return false, "numerators share a factor of unknown sign"
	}
	if pa.Equal(pb) {
		return true, "numerators agree up to a positive factor: " + pa.String()
	}
	return false, fmt.Sprintf("numerators differ: %s vs %s", pa, pb)
}
