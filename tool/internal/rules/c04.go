package rules

import (
	"fmt"
	"go/constant"
	"go/types"
	"strings"

	"ivgsa/internal/poly"
	"ivgsa/internal/sym"
)

func init() { register("C04", ruleC04) }

// mod64 recognises "X reduced modulo 64" (X & 63, or X % 64 of an unsigned X)
// and returns X.
func mod64(idx *sym.Term) (*sym.Term, bool) {
	// conversions of the index to int do not change it
	for idx.Op == "conv" {
		idx = idx.Args[0]
	}
	if idx.Op != "bin" {
		return nil, false
	}
	a, b := idx.Args[0], idx.Args[1]
	switch idx.Name {
	case "&":
		if k, ok := b.Int64(); ok && k == 63 {
			return a, true
		}
		if k, ok := a.Int64(); ok && k == 63 {
			return b, true
		}
	case "%":
		if k, ok := b.Int64(); ok && k == 64 {
			if _, unsigned, isInt := intWidth(idx.T); isInt && unsigned {
				return a, true
			}
		}
	}
	return nil, false
}

// equivalent decides propositional equivalence of two boolean terms by truth
// table over their atoms (comparisons are atoms).
func equivalent(a, b *sym.Term) bool {
	if sym.Eq(a, b) {
		return true
	}
	return sym.CondsContradict([]*sym.Term{a, sym.Not(b)}) && sym.CondsContradict([]*sym.Term{sym.Not(a), b})
}

func ruleC04(c *Ctx) {
	R := c.R
	R.Assume("the selectors are compared modulo 64 (uint8 wrap-around is compatible with it); gradient colour arithmetic is decided under C15")
	r := c.newRend()
	if !r.ok {
		return
	}
	u8t := types.Typ[types.Uint8]
	f32 := types.Typ[types.Float32]

	// ---- C04.3 Reset values ----
	R.Rule("C04.3", "Reset: colour registers and custom palette = the palette argument, number registers and both selectors = 0, LOD = [0,+Inf), viewBox = the argument, smooth state None", 9)
	{
		in := c.Interp()
		z := in.ParamObj("z", r.T)
		get := func(f string) *sym.Term { return in.LoadAt(r.resetM, z, r.fieldPath(f)) }
		pos := c.FPos(c.P.Method("render", "Renderer", "Reset", true))
		key := "render.(*Renderer).Reset#"
		isZero := func(t *sym.Term) bool {
			if v, ok := t.Int64(); ok {
				return v == 0
			}
			if t.IsConst() && t.C != nil && t.C.Kind() == constant.Float {
				return constant.Sign(t.C) == 0
			}
			return t.Op == "zero"
		}
		R.Check(get("cReg").Key() == "$param:palette", key+"cReg", pos, "the palette argument", shortKey(get("cReg")))
		R.Check(get("palette").Key() == "$param:palette", key+"palette", pos, "the palette argument", shortKey(get("palette")))
		R.Check(get("viewBox").Key() == "$param:viewbox", key+"viewBox", pos, "the viewBox argument", shortKey(get("viewBox")))
		R.Check(isZero(get("nReg")), key+"nReg", pos, "all zero", shortKey(get("nReg")))
		R.Check(isZero(get("cSel")), key+"cSel", pos, "0", shortKey(get("cSel")))
		R.Check(isZero(get("nSel")), key+"nSel", pos, "0", shortKey(get("nSel")))
		R.Check(isZero(get("lod0")), key+"lod0", pos, "0", shortKey(get("lod0")))
		R.Check(get("lod1").Key() == "$+Inf", key+"lod1", pos, "+Inf", shortKey(get("lod1")))
		if k, ok := get("prevSmoothType").Int64(); !ok || k != r.none {
			R.Bad(key+"prevSmoothType", pos, "none", shortKey(get("prevSmoothType")))
		} else {
			R.OK(key+"prevSmoothType", pos)
		}
	}

	// ---- C04.1/2 addressing and post-increment ----
	R.Rule("C04.1", "register addressing: the register written/read is (selector - ADJ) modulo 64, with the selector value from before any increment", 4)
	R.Rule("C04.2", "post-increment: the selector becomes old+1 exactly when the incrementing form is used, and is unchanged otherwise; SetCSel/SetNSel store the low 6 bits", 6)
	selPins := map[string]*sym.Term{"cSel": sym.Atom("cSel", u8t), "nSel": sym.Atom("nSel", u8t)}
	checkIndex := func(construct, pos string, idx *sym.Term, sel string) {
		R.Use("C04.1")
		x, ok := mod64(idx)
		if !ok {
			R.Bad(construct, pos, "("+sel+" - adj) reduced modulo 64", shortKey(idx))
			return
		}
		env := poly.NewEnv()
		env.Rename["$"+sel] = sel
		env.Rename["$param:adj"] = "adj"
		got, ok := env.One(x)
		want := v(sel).Sub(v("adj"))
		R.Check(ok && got.Equal(want), construct, pos, want.String()+" (mod 64)", shortKey(x))
	}
	checkIncr := func(construct, pos string, after *sym.Term, sel string) {
		R.Use("C04.2")
		cases := sym.Cases(after, 8)
		okAll := len(cases) == 2
		why := shortKey(after)
		for _, cs := range cases {
			env := poly.NewEnv()
			env.Rename["$"+sel] = sel
			got, ok := env.One(cs.Val)
			if !ok || len(cs.Conds) != 1 {
				okAll = false
				continue
			}
			switch cs.Conds[0].Key() {
			case "$param:incr":
				if !got.Equal(v(sel).Add(poly.RatInt(1))) {
					okAll = false
				}
			case "not($param:incr)":
				if !got.Equal(v(sel)) {
					okAll = false
				}
			default:
				okAll = false
			}
		}
		R.Check(okAll, construct, pos, "ite(incr, "+sel+"+1, "+sel+")", why)
	}
	for _, reg := range []struct{ method, sel, regs string }{{"SetCReg", "cSel", "cReg"}, {"SetNReg", "nSel", "nReg"}} {
		fn := c.Method("render", "Renderer", reg.method, true)
		if fn == nil {
			continue
		}
		pos := c.FPos(fn)
		key := "render.(*Renderer)." + reg.method
		in, mem, _ := r.run(fn, selPins, "Resolve")
		z := r.zobj(in)
		regs := in.LoadAt(mem, z, r.fieldPath(reg.regs))
		if regs.Op != "upd" {
			R.Use("C04.1")
			R.Bad(key+"#index", pos, "exactly one register is written", shortKey(regs))
		} else {
			checkIndex(key+"#index", pos, regs.Args[1], reg.sel)
			if reg.method == "SetCReg" {
				R.Rule("C04.4", "colours are resolved when stored: SetCReg stores Color.Resolve(&palette, &registers); Resolve reads the palette / the registers at the masked index per colour kind; a blend resolves both one-byte operands and combines them with the specification's formula", 8)
				val := regs.Args[2]
				ok := val.Op == "call" && val.Name == "Resolve" && len(val.Args) == 3 &&
					val.Args[0].Key() == "$param:c" &&
					val.Args[1].Op == "ptr" && val.Args[1].Path.String() == r.fieldPath("palette").String() &&
					val.Args[2].Op == "ptr" && val.Args[2].Path.String() == r.fieldPath("cReg").String()
				R.Check(ok, key+"#value", pos, "c.Resolve(&z.palette, &z.cReg)", shortKey(val))
			} else {
				R.Use("C04.1")
				R.Check(regs.Args[2].Key() == "$param:f", key+"#value", pos, "the number argument", shortKey(regs.Args[2]))
			}
		}
		checkIncr(key+"#"+reg.sel, pos, in.LoadAt(mem, z, r.fieldPath(reg.sel)), reg.sel)
		// the other selector is untouched
		other := map[string]string{"cSel": "nSel", "nSel": "cSel"}[reg.sel]
		R.Use("C04.2")
		R.Check(in.LoadAt(mem, z, r.fieldPath(other)).Key() == "$"+other, key+"#"+other, pos, "unchanged", shortKey(in.LoadAt(mem, z, r.fieldPath(other))))
	}
	for _, s := range []struct{ method, sel, param string }{{"SetCSel", "cSel", "cSel"}, {"SetNSel", "nSel", "nSel"}} {
		fn := c.Method("render", "Renderer", s.method, true)
		if fn == nil {
			continue
		}
		in, mem, _ := r.run(fn, selPins)
		after := in.LoadAt(mem, r.zobj(in), r.fieldPath(s.sel))
		x, ok := mod64(after)
		R.Use("C04.2")
		R.Check(ok && x.Key() == "$param:"+s.param, "render.(*Renderer)."+s.method+"#"+s.sel, c.FPos(fn), "argument & 63", shortKey(after))
	}

	// SetLOD stores the bounds as given (an inverted pair is an empty range, not a reordered one)
	if fn := c.Method("render", "Renderer", "SetLOD", true); fn != nil {
		in, mem, _ := r.run(fn, map[string]*sym.Term{"lod0": sym.Atom("old.lod0", f32), "lod1": sym.Atom("old.lod1", f32)})
		z := r.zobj(in)
		R.Use("C04.5")
		l0 := in.LoadAt(mem, z, r.fieldPath("lod0"))
		l1 := in.LoadAt(mem, z, r.fieldPath("lod1"))
		ok := len(fn.Params) == 3 && l0.Key() == "$param:"+fn.Params[1].Name() && l1.Key() == "$param:"+fn.Params[2].Name()
		R.Check(ok, "render.(*Renderer).SetLOD#bounds", c.FPos(fn), "lod0, lod1 := the two arguments, in order, unconditionally", shortKey(l0)+", "+shortKey(l1))
	}

	ruleResolve(c, "C04.4")

	// ---- C04.5/6 StartPath: paint classification and LOD test ----
	R.Rule("C04.5", "StartPath: the path is disabled iff its paint is disabled or not (LOD0 <= H < LOD1) with H the raster height; rasteriser activity happens exactly when it is not disabled", 3)
	R.Rule("C04.6", "paint classification: valid premultiplied colour -> flat paint, disabled iff alpha is 0; else gradient-encoding colour -> gradient paint, disabled iff initGradient fails; anything else disabled; initGradient fails on a non-premultiplied stop colour, an offset outside [0,1] or a non-increasing offset", 6)
	if fn := c.Method("render", "Renderer", "StartPath", true); fn != nil {
		pos := c.FPos(fn)
		key := "render.(*Renderer).StartPath"
		pins := map[string]*sym.Term{"cSel": sym.Atom("cSel", u8t), "lod0": sym.Atom("lod0", f32), "lod1": sym.Atom("lod1", f32),
			"disabled": sym.Atom("oldDisabled", types.Typ[types.Bool])}
		in, mem, _ := r.run(fn, pins, "initGradient", "ValidAlphaPremulColor", "ValidGradient")
		z := r.zobj(in)
		fc := in.LoadAt(mem, z, r.fieldPath("flatColor"))
		if fc.Op == "index" {
			checkIndex(key+"#paint.index", pos, fc.Args[1], "cSel")
			R.Use("C04.1")
			R.Check(fc.Args[0].Key() == "$param:palette", key+"#paint.registers", pos, "the colour registers", shortKey(fc.Args[0]))
		} else {
			R.Use("C04.1")
			R.Bad(key+"#paint.index", pos, "a colour register read", shortKey(fc))
		}
		P := sym.Call("ValidAlphaPremulColor", types.Typ[types.Bool], fc)
		G := sym.Call("ValidGradient", types.Typ[types.Bool], fc)
		var I *sym.Term
		for _, ev := range in.Events {
			if ev.Kind == "opaquecall" && ev.Callee == "initGradient" {
				I = sym.Call("initGradient", types.Typ[types.Bool], ev.Args...)
				R.Use("C04.6")
				R.Check(len(ev.Args) == 2 && sym.Eq(ev.Args[1], fc), key+"#initGradient.arg", pos, "initGradient(the paint colour)", shortKey(ev.Args[len(ev.Args)-1]))
			}
		}
		if I == nil {
			R.Use("C04.6")
			R.Bad(key+"#initGradient", pos, "a gradient paint is initialised by initGradient", "no call")
			I = sym.False
		}
		alpha := sym.Field(fc, 3, u8t)
		a0 := sym.Bin(tokEQL, alpha, sym.Const(constant.MakeInt64(0), u8t), types.Typ[types.Bool])
		d0 := sym.Ite(P, a0, sym.Ite(G, sym.Not(I), sym.True))
		// the raster height: r.Max.Y - r.Min.Y of the target rectangle as the object holds it (wherever the field sits)
		rp := r.fieldPath("r").String()
		hT := sym.Conv(sym.Bin(tokSUB, sym.Atom("init:param:z"+rp+".1.1", types.Typ[types.Int]), sym.Atom("init:param:z"+rp+".0.1", types.Typ[types.Int]), types.Typ[types.Int]), f32)
		lodOK := sym.And(sym.Bin(tokLEQ, sym.Atom("lod0", f32), hT, nil), sym.Bin(tokLSS, hT, sym.Atom("lod1", f32), nil))
		want := sym.Or(d0, sym.Not(lodOK))
		got := in.LoadAt(mem, z, r.fieldPath("disabled"))
		R.Use("C04.5")
		R.Check(equivalent(got, want), key+"#disabled", pos, shortKey(want), shortKey(got))
		for _, ev := range rasterEvents(in) {
			if rasterQueries[ev.Callee] {
				continue
			}
			R.Check(equivalent(ev.Guard, sym.Not(want)), key+"#active:"+ev.Callee, c.Pos(ev.Site), "reached exactly when the path is not disabled", shortKey(ev.Guard))
		}
		// paint: flat image over the colour under P, the gradient under not P and G
		fill := in.LoadAt(mem, z, r.fieldPath("fill"))
		R.Use("C04.6")
		okFill := false
		var flatOK, gradOK bool
		for _, cs := range sym.CasesUnder(nil, fill, 16) {
			g := sym.And(cs.Conds...)
			inner := cs.Val
			if inner.Op == "makeiface" {
				inner = inner.Args[0]
			}
			if inner.Op != "ptr" {
				continue
			}
			switch inner.Path.String() {
			case r.fieldPath("flatImage").String():
				flatOK = equivalent(g, P)
			case r.fieldPath("gradient").String():
				gradOK = equivalent(g, sym.And(sym.Not(P), G))
			}
		}
		okFill = flatOK && gradOK
		R.Check(okFill, key+"#paint.choice", pos, "fill = &flatImage iff valid premultiplied; &gradient iff not and gradient-encoding", shortKey(fill))
		fic := in.LoadAt(mem, z, append(r.fieldPath("flatImage"), sym.F(0)))
		okC := false
		for _, cs := range sym.CasesUnder(nil, fic, 16) {
			inner := cs.Val
			if inner.Op == "makeiface" {
				inner = inner.Args[0]
			}
			if inner.Op == "ptr" && inner.Path.String() == r.fieldPath("flatColor").String() && equivalent(sym.And(cs.Conds...), P) {
				okC = true
			}
		}
		R.Check(okC, key+"#paint.flat", pos, "the flat paint shows the register colour (flatImage.C = &flatColor)", shortKey(fic))
	}

	checkInitGradientValidation(c, r, "C04.6")

	// ---- C04.7 disabled => silent ----
	R.Rule("C04.7", "a disabled path causes no rasteriser activity: with the disabled flag set, no drawing-mode method makes a state-changing rasteriser call", 21)
	drawing := []string{"ClosePathEndPath", "ClosePathAbsMoveTo", "ClosePathRelMoveTo", "AbsHLineTo", "RelHLineTo", "AbsVLineTo", "RelVLineTo",
		"AbsLineTo", "RelLineTo", "AbsSmoothQuadTo", "RelSmoothQuadTo", "AbsQuadTo", "RelQuadTo", "AbsSmoothCubeTo", "RelSmoothCubeTo",
		"AbsCubeTo", "RelCubeTo", "AbsArcTo", "RelArcTo"}
	for _, m := range drawing {
		fn := c.Method("render", "Renderer", m, true)
		if fn == nil {
			continue
		}
		in, _, _ := r.run(fn, map[string]*sym.Term{"disabled": sym.True})
		var bad []string
		for _, ev := range rasterEvents(in) {
			if !rasterQueries[ev.Callee] {
				bad = append(bad, ev.Callee)
			}
		}
		R.Check(len(bad) == 0, "render.(*Renderer)."+m+"#disabled", c.FPos(fn), "no rasteriser activity", strings.Join(bad, ","))
		// and with the flag unknown every state-changing call is guarded by its negation
		in2, _, _ := r.run(fn, map[string]*sym.Term{"disabled": sym.Atom("disabled", types.Typ[types.Bool])})
		okAll := true
		for _, ev := range rasterEvents(in2) {
			if rasterQueries[ev.Callee] {
				continue
			}
			if !sym.CondsContradict([]*sym.Term{ev.Guard, sym.Atom("disabled", nil)}) {
				okAll = false
			}
		}
		R.Check(okAll, "render.(*Renderer)."+m+"#guarded", c.FPos(fn), "every rasteriser call is under the not-disabled guard", "unguarded call")
	}
}

// prevOffsetPhi checks that the loop phi starts at -Inf and is updated to off.
func prevOffsetPhi(fr *sym.Frame, phiAtom, off *sym.Term) bool {
	for _, b := range fr.Fn.Blocks {
		for _, ins := range b.Instrs {
			phi, ok := ins.(*ssaPhi)
			if !ok {
				break
			}
			if fr.Val(phi) == nil || fr.Val(phi).Key() != phiAtom.Key() {
				continue
			}
			okInit, okStep := false, false
			for i, p := range b.Preds {
				val := fr.EdgeVal(phi, i)
				if val == nil {
					continue
				}
				if b.Dominates(p) {
					if sym.Eq(val, off) {
						okStep = true
					}
				} else if val.Key() == "$-Inf" {
					okInit = true
				}
			}
			return okInit && okStep
		}
	}
	return false
}

// ruleResolve decides Color.Resolve per colour kind: direct colours are
// themselves, palette/register references read the right table at the masked
// index, and a blend combines its two resolved one-byte operands with
// ((255-t)*c0 + t*c1 + 128)/255 per channel. Shared by C04.4 and C09.5; the
// rule must have been declared by the caller.
func ruleResolve(c *Ctx, ruleID string) {
	R := c.R
	R.Use(ruleID)
	u8t := types.Typ[types.Uint8]
	if fn := c.Method("", "Color", "Resolve", false); fn != nil {
		pos := c.FPos(fn)
		key := "ivg.(Color).Resolve"
		typOf := func(ctor string) *sym.Term {
			f := c.Fn("", ctor)
			if f == nil {
				return nil
			}
			in := c.Interp()
			res, _, _ := in.Run(f, nil, nil)
			if res == nil || res.Op != "agg" || len(res.Args) != 2 {
				return nil
			}
			return res.Args[0]
		}
		ch := []*sym.Term{sym.Atom("R", u8t), sym.Atom("G", u8t), sym.Atom("B", u8t), sym.Atom("A", u8t)}
		data := &sym.Term{Op: "agg", Args: ch}
		run := func(typ *sym.Term) (*sym.Term, *sym.Interp) {
			in := c.Interp()
			h := c.newRendHooks(in)
			h.opaque["Resolve"] = true
			h.opaque["DecodeColor1"] = true
			col := &sym.Term{Op: "agg", Args: []*sym.Term{typ, data}}
			args := in.RootArgs(fn)
			args[0] = col
			res, _, _ := in.Run(fn, args, nil)
			return res, in
		}
		if t := typOf("RGBAColor"); t != nil {
			res, _ := run(t)
			R.Check(res != nil && normAgg(res) == normAgg(data), key+"#kind=RGBA", pos, "the colour itself", shortKey(res))
		}
		for _, k := range []struct{ ctor, table string }{{"PaletteIndexColor", "palette"}, {"CRegColor", "cReg"}} {
			t := typOf(k.ctor)
			if t == nil {
				R.Anchor("constructor ivg." + k.ctor)
				continue
			}
			res, _ := run(t)
			ok := res != nil && res.Op == "index" && res.Args[0].Key() == "$init:param:"+k.table
			if ok {
				x, isMod := mod64(res.Args[1])
				ok = isMod && x.Key() == "$R"
			}
			R.Check(ok, key+"#kind="+k.ctor, pos, k.table+"[index & 63]", shortKey(res))
		}
		if t := typOf("BlendColor"); t != nil {
			res, _ := run(t)
			// each channel k: uint8(((255-t)*c0.k + t*c1.k + 128) / 255) with c0 = DecodeColor1(G).Resolve(..), c1 = DecodeColor1(B).Resolve(..)
			if res == nil || res.Op != "agg" || len(res.Args) != 4 {
				R.Bad(key+"#kind=Blend", pos, "an RGBA value with four blended channels", shortKey(res))
			} else {
				for k, name := range []string{"R", "G", "B", "A"} {
					t := res.Args[k]
					for t.Op == "conv" {
						t = t.Args[0]
					}
					construct := key + "#kind=Blend:" + name
					if t.Op != "bin" || t.Name != "/" {
						R.Bad(construct, pos, "(...)/255", shortKey(t))
						continue
					}
					if d, ok := t.Args[1].Int64(); !ok || d != 255 {
						R.Bad(construct, pos, "division by 255", shortKey(t.Args[1]))
						continue
					}
					env := poly.NewEnv()
					env.Rename["$R"] = "t"
					got, ok := env.One(t.Args[0])
					if !ok {
						R.Unknown(construct, pos, "numerator has no normal form: "+shortKey(t.Args[0]))
						continue
					}
					// find the two resolved operands among the atoms
					var c0, c1 string
					for name, at := range env.Atoms {
						if at.Op != "field" || at.Name != fmt.Sprint(k) {
							continue
						}
						inner := at.Args[0]
						if inner.Op == "call" && inner.Name == "Resolve" && len(inner.Args) == 3 && inner.Args[0].Op == "call" && inner.Args[0].Name == "DecodeColor1" &&
							inner.Args[1].Key() == "&param:palette" && inner.Args[2].Key() == "&param:cReg" {
							switch inner.Args[0].Args[0].Key() {
							case "$G":
								c0 = name
							case "$B":
								c1 = name
							}
						}
					}
					if c0 == "" || c1 == "" {
						R.Bad(construct, pos, "channel "+name+" of DecodeColor1(c0).Resolve(palette, cReg) and of DecodeColor1(c1).Resolve(palette, cReg)", got.String())
						continue
					}
					want := poly.RatInt(255).Sub(v("t")).Mul(v(c0)).Add(v("t").Mul(v(c1))).Add(poly.RatInt(128))
					R.Check(got.Equal(want), construct, pos, "((255-t)*c0 + t*c1 + 128)/255", got.String())
				}
			}
		}
	}

}

// checkInitGradientValidation: which gradients are painted at all. initGradient walks the NSTOPS stops the gradient
// colour names and refuses exactly on a non-premultiplied stop colour, an offset outside [0,1] or a non-increasing
// offset - nothing else (in particular no bound on the number of stops: all 58 that fit are drawn). Shared by
// C04.6, C15.6 and C19.6.
func checkInitGradientValidation(c *Ctx, r *rend, rule string) {
	R := c.R
	u8t := types.Typ[types.Uint8]
	// initGradient: stop validation
	if fn := c.Method("render", "Renderer", "initGradient", true); fn != nil {
		pos := c.FPos(fn)
		key := "render.(*Renderer).initGradient"
		in, _, fr := r.run(fn, map[string]*sym.Term{"cReg": sym.Atom("cReg", nil), "nReg": sym.Atom("nReg", nil)}, "ValidAlphaPremulColor", "DecodeGradient", "Init")
		R.Use(rule)
		root := fr
		// the in-loop returns of false
		var falseGuards []*sym.Term
		var loopHeader = -1
		isFalse := func(t *sym.Term) bool {
			if b, ok := t.BoolVal(); ok && !b {
				return true
			}
			if t.Op == "tuple" {
				for _, a := range t.Args {
					if a != nil {
						if b, ok := a.BoolVal(); ok && !b {
							return true
						}
					}
				}
			}
			return false
		}
		// the stop loop is the loop the failing returns sit in - in initGradient itself or in a helper it was moved
		// into; other loops of the function (e.g. one that reads the matrix registers) are none of this rule's business
		stopLoops := map[sym.LoopRef]bool{}
		for _, ev := range in.Events {
			if ev.Kind == "return" && len(ev.Args) > 0 && ev.Args[0] != nil && isFalse(ev.Args[0]) && ev.Site != nil {
				if h, ok := ev.Frame.ExitedLoop(ev.Site.Block().Index); ok {
					stopLoops[sym.LoopRef{Frame: ev.Frame, Header: h}] = true
				}
			}
		}
		if len(stopLoops) == 1 {
			for lr := range stopLoops {
				fr, loopHeader = lr.Frame, lr.Header
			}
		}
		for _, ev := range in.Events {
			if ev.Kind != "return" || ev.Frame != fr || len(ev.Args) == 0 || ev.Args[0] == nil {
				continue
			}
			if isFalse(ev.Args[0]) {
				falseGuards = append(falseGuards, ev.Guard)
			}
		}
		// every other way out builds the gradient: what initGradient returns is a refusal (checked below) or the
		// verdict of Gradient.Init on this very call - never a remembered or defaulted answer
		{
			okRet := true
			detail := ""
			nRet := 0
			// decided on an ARBITRARY Renderer state (every field unknown), not on the state Reset leaves: a shortcut
			// that depends on what an earlier path left behind is not taken right after Reset
			in2 := r.c.Interp()
			h2 := r.c.newRendHooks(in2)
			for _, o := range []string{"ValidAlphaPremulColor", "DecodeGradient", "Init"} {
				h2.opaque[o] = true
			}
			_, _, root2 := in2.Run(fn, nil, nil)
			_ = root
			for _, ev := range in2.Events {
				if ev.Kind != "return" || ev.Frame != root2 || len(ev.Args) == 0 || ev.Args[0] == nil {
					continue
				}
				nRet++
				for _, lf := range sym.DeepCases(ev.Args[0], 16) {
					if sym.CondsContradict(lf.Conds) || isFalse(lf.Val) {
						continue
					}
					if !(lf.Val.Op == "call" && lf.Val.Name == "Init") {
						okRet = false
						detail = "returns " + shortKey(lf.Val) + " under " + shortKey(ev.Guard)
					}
				}
			}
			R.Check(okRet && nRet > 0, key+"#verdict", pos, "false for an invalid stop, else the result of Gradient.Init for this call", detail)
		}
		if loopHeader < 0 || len(falseGuards) == 0 {
			R.Bad(key+"#validation", pos, "one stop loop that returns false on an invalid stop", fmt.Sprintf("%d loops with failing returns, %d failing returns", len(stopLoops), len(falseGuards)))
		} else {
			li, ok := fr.Loop(loopHeader)
			if !ok {
				R.Unknown(key+"#validation", pos, "stop loop is not a counted loop")
			} else {
				i := li.IndexVal
				nStops := li.Bound
				R.Check(stripIntConv(nStops).Key() == "extract:4(call:DecodeGradient($param:rgba))", key+"#stops.count", pos, "loop over NSTOPS of the gradient colour", shortKey(nStops))
				dg := func(k int) *sym.Term {
					return sym.Extract(sym.Call("DecodeGradient", nil, sym.Atom("param:rgba", nil)), k, u8t)
				}
				mask := func(x *sym.Term) *sym.Term { return sym.Bin(tokAND, x, sym.Const(constant.MakeInt64(63), u8t), u8t) }
				_ = mask
				isRegRead := func(t *sym.Term, regs string, base *sym.Term) bool {
					if t.Op != "index" || t.Args[0].Key() != regs {
						return false
					}
					x, ok := mod64(t.Args[1])
					if !ok {
						return false
					}
					e := poly.NewEnv()
					e.Rename[base.Key()] = "base"
					e.Rename[i.Key()] = "i"
					g, ok := e.One(x)
					return ok && g.Equal(v("base").Add(v("i")))
				}
				// rebuild the expected failure condition from the actual atoms: find the three literals by shape
				all := sym.Or(falseGuards...)
				var lits []*sym.Term
				seen := map[string]bool{}
				var collect func(t *sym.Term)
				collect = func(t *sym.Term) {
					switch t.Op {
					case "and", "or", "not":
						for _, a := range t.Args {
							collect(a)
						}
					default:
						if !seen[t.Key()] {
							seen[t.Key()] = true
							lits = append(lits, t)
						}
					}
				}
				collect(all)
				var P, ge0, le1, incr, loopc *sym.Term
				for _, l := range lits {
					switch {
					case l.Op == "call" && l.Name == "ValidAlphaPremulColor":
						P = l
						R.Check(isRegRead(l.Args[0], "$cReg", dg(0)), key+"#stop.colour", pos, "the colour register (CBASE+i) mod 64", shortKey(l.Args[0]))
					case l.Op == "bin" && (l.Name == "<=" || l.Name == "<"):
						a, b := l.Args[0], l.Args[1]
						isN := func(t *sym.Term) bool { return isRegRead(t, "$nReg", dg(1)) }
						isConst := func(t *sym.Term, k int64) bool {
							if !t.IsConst() || t.C == nil {
								return false
							}
							return constant.Compare(constant.ToFloat(t.C), tokEQL, constant.ToFloat(constant.MakeInt64(k)))
						}
						switch {
						case l.Name == "<=" && isConst(a, 0) && isN(b):
							ge0 = l
						case l.Name == "<=" && isN(a) && isConst(b, 1):
							le1 = l
						case l.Name == "<" && isN(b) && a.Op == "atom" && strings.HasPrefix(a.Name, "phi#"):
							incr = l
							// the loop-carried previous offset: starts at -Inf, becomes the offset
							R.Check(prevOffsetPhi(fr, a, b), key+"#stop.previous", pos, "previous offset starts at -Inf and is updated to the stop's offset", shortKey(a))
						case l.Name == "<" && sym.Eq(a, i) || sym.Eq(a, li.IndexVal):
							loopc = l
						}
					}
				}
				if P == nil || ge0 == nil || le1 == nil || incr == nil {
					R.Bad(key+"#validation", pos, "tests: premultiplied colour, 0 <= offset, offset <= 1, previous < offset", shortKey(all))
				} else {
					want := sym.Or(sym.Not(P), sym.Not(ge0), sym.Not(le1), sym.Not(incr))
					if loopc != nil {
						want = sym.And(loopc, want)
					}
					// strip reach atoms common to all
					R.Check(equivalent(all, want), key+"#validation", pos, "returns false iff "+shortKey(want), shortKey(all))
				}
			}
		}
	}

}
