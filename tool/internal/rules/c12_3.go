package rules

import (
	"fmt"
	"go/constant"
	"strings"

	"ivgsa/internal/sym"
)

func init() { register("C12", ruleC12_3) }

// ruleC12_3: a units-of-measure (degree) analysis of the fitting functions.
//
// C12.2 decides the result over the reals. Over float32 the same formula is
// only usable "over many orders of magnitude" if no intermediate value has a
// magnitude the inputs do not have: a product of two lengths overflows at the
// square root of the float range. Lengths (viewBox coordinates, target size)
// get degree 1, alignment fractions and constants degree 0; + and - need equal
// degrees, * adds and / subtracts them. Every intermediate of the evaluated
// function - results and branch conditions alike - must have degree 0 or 1.
func ruleC12_3(c *Ctx) {
	R := c.R
	R.Rule("C12.3", "magnitude discipline (float32 range): in AspectMeet, AspectSlice and Size every intermediate value is a length (degree 1) or a ratio (degree 0) - never a product of lengths or the reciprocal of one, which overflow or underflow long before the inputs do; sums and comparisons combine equal degrees; the fitting functions use viewBox coordinates only through the size differences (no cancellation of the viewBox position)", 5)
	for _, mode := range []string{"Size", "AspectMeet", "AspectSlice"} {
		fn := c.Method("", "ViewBox", mode, false)
		if fn == nil {
			R.Unknown("ivg.(ViewBox)."+mode+"#degrees", "-", "not found")
			continue
		}
		in := c.Interp()
		res, _, _ := in.Run(fn, nil, nil)
		if res == nil {
			R.Unknown("ivg.(ViewBox)."+mode+"#degrees", c.FPos(fn), "no result")
			continue
		}
		var bad []string
		seen := map[string]bool{}
		memo := map[string]int{}
		const unknown = -99
		var deg func(t *sym.Term) int
		report := func(t *sym.Term, why string) {
			k := why + ": " + shortKey(t)
			if !seen[k] {
				seen[k] = true
				bad = append(bad, k)
			}
		}
		deg = func(t *sym.Term) int {
			if d, ok := memo[t.Key()]; ok {
				return d
			}
			d := unknown
			switch t.Op {
			case "const":
				d = 0
				if t.C != nil && constant.Sign(t.C) == 0 {
					d = -1 // zero has every degree
				}
			case "atom":
				switch {
				case strings.HasSuffix(t.Name, "param:dx"), strings.HasSuffix(t.Name, "param:dy"):
					d = 1
				case strings.HasSuffix(t.Name, "param:ax"), strings.HasSuffix(t.Name, "param:ay"):
					d = 0
				}
			case "field":
				if t.Args[0].Key() == "$param:v" {
					d = 1
				}
			case "conv", "un":
				d = deg(t.Args[0])
			case "ite":
				deg(t.Args[0])
				a, b := deg(t.Args[1]), deg(t.Args[2])
				d = a
				if a == -1 {
					d = b
				}
				if a != b && a != -1 && b != -1 && a != unknown && b != unknown {
					report(t, fmt.Sprintf("joins degree %d with degree %d", a, b))
				}
			case "and", "or", "not":
				for _, a := range t.Args {
					deg(a)
				}
				d = 0
			case "bin":
				a, b := deg(t.Args[0]), deg(t.Args[1])
				if a == unknown || b == unknown {
					break
				}
				switch t.Name {
				case "+", "-", "<", "<=", "==":
					switch {
					case a == -1:
						d = b
					case b == -1 || a == b:
						d = a
					default:
						report(t, fmt.Sprintf("combines degree %d with degree %d", a, b))
						d = a
					}
					if t.Name != "+" && t.Name != "-" {
						d = 0
					}
				case "*":
					if a == -1 || b == -1 {
						d = -1
					} else {
						d = a + b
					}
				case "/":
					if a == -1 {
						d = -1
					} else if b == -1 {
						d = unknown
					} else {
						d = a - b
					}
				}
				if d != unknown && d != -1 && (d < 0 || d > 1) && t.Name != "<" && t.Name != "<=" && t.Name != "==" {
					report(t, fmt.Sprintf("has degree %d", d))
				}
			case "tuple", "agg":
				for _, a := range t.Args {
					deg(a)
				}
				d = 0
			}
			if d == unknown {
				report(t, "has no degree (unrecognised operation)")
			}
			memo[t.Key()] = d
			return d
		}
		deg(res)
		R.Check(len(bad) == 0, "ivg.(ViewBox)."+mode+"#degrees", c.FPos(fn), "every intermediate has degree 0 or 1", strings.Join(bad, " ; "))
		// position independence: the placement of a viewBox does not depend on where the viewBox lies, only on its
		// size. A formula in which a viewBox coordinate occurs outside the differences MaxX-MinX / MaxY-MinY can be
		// position independent only by cancellation, which costs float32 precision in proportion to the distance of
		// the viewBox from the origin (the property asks for rounding relative to the target size).
		var stray []string
		var scan func(t *sym.Term, parent *sym.Term)
		seenT := map[string]bool{}
		scan = func(t *sym.Term, parent *sym.Term) {
			if t == nil {
				return
			}
			if t.Op == "field" && len(t.Args) == 1 && t.Args[0].Key() == "$param:v" {
				okDiff := false
				if parent != nil && parent.Op == "bin" && parent.Name == "-" && len(parent.Args) == 2 {
					a, b := parent.Args[0], parent.Args[1]
					if a.Op == "field" && b.Op == "field" && a.Args[0].Key() == "$param:v" && b.Args[0].Key() == "$param:v" {
						// MaxX - MinX (fields 2,0) or MaxY - MinY (fields 3,1)
						okDiff = (a.Name == "2" && b.Name == "0") || (a.Name == "3" && b.Name == "1")
					}
				}
				if !okDiff {
					k := "coordinate " + t.Name + " of the viewBox is used outside a size difference"
					if !seenT[k] {
						seenT[k] = true
						stray = append(stray, k)
					}
				}
				return
			}
			for _, a := range t.Args {
				scan(a, t)
			}
		}
		if mode != "Size" {
			scan(res, nil)
			R.Check(len(stray) == 0, "ivg.(ViewBox)."+mode+"#position-independent", c.FPos(fn), "viewBox coordinates enter only through MaxX-MinX and MaxY-MinY", strings.Join(stray, "; "))
		}
	}
}
