package rules

import (
	"fmt"
	"go/token"
	"go/types"
	"sort"
	"strings"

	"golang.org/x/tools/go/ssa"

	"ivgsa/internal/sym"
)

func init() { register("C17", ruleC17) }

// staleAtoms returns the "old." atoms a term mentions outside a length-zero reslice.
func staleAtoms(t *sym.Term) []string { return staleAtomsIn(nil, t) }

// staleAtomsIn also looks through atoms that abstract joined values.
func staleAtomsIn(in *sym.Interp, t *sym.Term) []string {
	m := map[string]bool{}
	var walk func(t *sym.Term)
	walk = func(t *sym.Term) {
		if t == nil {
			return
		}
		if t.Op == "slice" && sym.Len(t).Key() == "0" {
			return // x[:0]: the old backing array is reused but none of its content is visible
		}
		if t.Op == "atom" && strings.HasPrefix(t.Name, "old.") {
			m[t.Name] = true
		}
		if t.Op == "atom" && in != nil {
			for d := range in.Deps(t) {
				if strings.HasPrefix(d, "old.") {
					m[d] = true
				}
			}
		}
		for _, a := range t.Args {
			walk(a)
		}
	}
	walk(t)
	return sortedKeys(m)
}

func ruleC17(c *Ctx) {
	R := c.R

	// ---- C17.1 Encoder.Reset ----
	R.Rule("C17.1", "Encoder.Reset is total: with every field holding an arbitrary old value, after Reset no field depends on any old value (the recycled buffers are resliced to length 0 first); this includes the error, the mode, pending draw arguments, selectors, LOD and both resolution flags", 12)
	m := c.newEncModel()
	if m.ok {
		if fn := c.Method("encode", "Encoder", "Reset", true); fn != nil {
			st := m.T.Underlying().(*types.Struct)
			fields := map[string]*sym.Term{}
			for i := 0; i < st.NumFields(); i++ {
				fields[st.Field(i).Name()] = sym.Atom("old."+st.Field(i).Name(), st.Field(i).Type())
			}
			run := m.run(fn, fields, nil, func(h *encHooks) {
				for _, o := range []string{"Encode1", "Encode2", "Is1", "Is2", "Is3"} {
					h.opaque[o] = true
				}
			})
			if run.mem == nil {
				R.Unknown("encode.(*Encoder).Reset", c.FPos(fn), "does not return")
			} else {
				for i := 0; i < st.NumFields(); i++ {
					name := st.Field(i).Name()
					val := run.field(name)
					stale := staleAtomsIn(run.in, val)
					R.Check(len(stale) == 0, "encode.(*Encoder).Reset#field:"+name, c.FPos(fn), "independent of the state before Reset", "depends on "+strings.Join(stale, ","))
				}
			}
		}
		// ---- C17.4 Bytes repeatable ----
		R.Rule("C17.4", "Bytes is repeatable: outside the initial mode a second call stores nothing and sees the same buffer (the first may write out pending drawing operations); in the initial mode it only (re)writes the default metadata from length 0; state invariant used: outside drawing mode no drawing operation is pending (inductive over all exported methods)", 60)
		if fn := c.Method("encode", "Encoder", "Bytes", true); fn != nil {
			modeT := c.Named("encode", "mode")
			noErr := sym.Nil(types.Universe.Lookup("error").Type())
			for _, md := range []string{"modeInitial", "modeStyling", "modeDrawing"} {
				in := c.Interp()
				h := c.newEncHooks(in)
				_ = h
				var stores []string
				in.OnStore = func(fr *sym.Frame, site ssa.Instruction, ptr, val *sym.Term) {
					if ptr.Obj != nil && ptr.Obj.Kind != "alloc" {
						stores = append(stores, ptr.Obj.ID+ptr.Path.String())
					}
				}
				mem := sym.NewMem()
				eobj := in.ParamObj("e", m.T)
				mem.Store(eobj, m.fieldPath("mode"), modeConst(m.modes[md], modeT))
				mem.Store(eobj, m.fieldPath("err"), noErr)
				if md != "modeDrawing" {
					mem.Store(eobj, m.fieldPath("drawOp"), u8(0)) // state invariant, decided below
				}
				_, out, _ := in.Run(fn, nil, mem)
				key := "encode.(*Encoder).Bytes#mode=" + strings.TrimPrefix(md, "mode")
				if md == "modeInitial" {
					ok := out != nil
					if ok {
						buf := in.LoadAt(out, eobj, m.fieldPath("buf"))
						base, items := flattenBuf(buf)
						ok = defaultMetadataPrefix(base, items) && len(items) == 5
					}
					R.Check(ok, key, c.FPos(fn), "rewrites exactly the default metadata from length 0 (idempotent)", strings.Join(stores, ","))
				} else {
					// writing out pending drawing operations is allowed when it is idempotent: a second call,
					// started from the state the first one leaves, stores nothing and returns the same buffer
					first := strings.Join(stores, ",")
					ok := len(stores) == 0
					detail := first
					if !ok && out != nil {
						stores = nil
						res1 := in.LoadAt(out, eobj, m.fieldPath("buf"))
						st2 := out.Clone()
						// nothing is pending after the first call, on every path
						if pendingIsZero(in.LoadAt(out, eobj, m.fieldPath("drawOp"))) {
							st2.Store(eobj, m.fieldPath("drawOp"), u8(0))
						}
						_, out2, _ := in.Run(fn, nil, st2)
						ok = len(stores) == 0 && out2 != nil && sym.Eq(in.LoadAt(out2, eobj, m.fieldPath("buf")), res1)
						detail = "pending operation after the first call: " + shortKey(in.LoadAt(out, eobj, m.fieldPath("drawOp"))) + "; second call stores " + strings.Join(stores, ",")
					}
					R.Check(ok, key, c.FPos(fn), "no store, or only stores that a second call does not repeat (equal bytes both times)", detail)
				}
			}
			// the state invariant used above: nothing is pending outside a path
			c.checkPendingInvariant(m)
		}
	}

	// ---- C17.2 Renderer ----
	R.Rule("C17.2", "Renderer state across Reset: every field is either configuration (written only by SetRasterizer), recomputed by Reset from its arguments and the configuration, or per-path state that StartPath writes before any drawing method can read it (disabled on every path; fill, flat colour, flat image and gradient on every path that leaves the path enabled); Gradient.Init overwrites all of its fields", 20)
	r := c.newRend()
	if r.ok {
		st := r.T.Underlying().(*types.Struct)
		config := map[string]bool{}
		if sr := c.Method("render", "Renderer", "SetRasterizer", true); sr != nil {
			in := c.Interp()
			c.newRendHooks(in)
			in.OnStore = func(fr *sym.Frame, site ssa.Instruction, ptr, val *sym.Term) {
				if ptr.Obj != nil && ptr.Obj.ID == "param:z" && len(ptr.Path) > 0 && ptr.Path[0].Field >= 0 && fr.Parent == nil {
					config[st.Field(ptr.Path[0].Field).Name()] = true
				}
			}
			in.Run(sr, nil, nil)
		}
		reset := c.Method("render", "Renderer", "Reset", true)
		start := c.Method("render", "Renderer", "StartPath", true)
		if reset != nil && start != nil {
			pins := map[string]*sym.Term{}
			for i := 0; i < st.NumFields(); i++ {
				pins[st.Field(i).Name()] = sym.Atom("old."+st.Field(i).Name(), st.Field(i).Type())
			}
			// Reset on arbitrary old state
			in := c.Interp()
			c.newRendHooks(in)
			mem := sym.NewMem()
			zobj := in.ParamObj("z", r.T)
			for name, v := range pins {
				mem.Store(zobj, r.fieldPath(name), v)
			}
			_, afterReset, _ := in.Run(reset, nil, mem)
			// StartPath after that Reset, following the enabled exit
			in2 := c.Interp()
			h2 := c.newRendHooks(in2)
			h2.opaque["ValidAlphaPremulColor"] = true
			h2.opaque["ValidGradient"] = true
			var enabledMem *sym.Mem
			_, _, fr2 := in2.Run(start, nil, afterReset.Clone())
			for _, ev := range in2.Events {
				if ev.Kind == "return" && ev.Frame == fr2 && ev.Mem != nil {
					d := in2.LoadAt(ev.Mem, zobj, r.fieldPath("disabled"))
					if b, ok := d.BoolVal(); ok && !b {
						enabledMem = ev.Mem
					} else if !ok && enabledMem == nil {
						enabledMem = ev.Mem
					}
				}
			}
			perPath := map[string]bool{"disabled": true, "fill": true, "flatColor": true, "flatImage": true, "gradient": true}
			for i := 0; i < st.NumFields(); i++ {
				name := st.Field(i).Name()
				key := "render.(*Renderer)#field:" + name
				val := in.LoadAt(afterReset, zobj, r.fieldPath(name))
				stale := staleAtomsIn(in, val)
				// dependence on configuration is fine
				var bad []string
				for _, s := range stale {
					if !config[strings.TrimPrefix(s, "old.")] {
						bad = append(bad, s)
					}
				}
				switch {
				case config[name]:
					R.OK(key, c.FPos(reset), "configuration: written only by SetRasterizer")
				case len(bad) == 0:
					R.OK(key, c.FPos(reset), "fresh after Reset (depends only on its arguments and the configuration)")
				case perPath[name]:
					// must be rewritten by StartPath before use
					if enabledMem == nil {
						R.Unknown(key, c.FPos(start), "StartPath has no enabled exit")
						continue
					}
					v2 := in2.LoadAt(enabledMem, zobj, r.fieldPath(name))
					d2 := in2.LoadAt(enabledMem, zobj, r.fieldPath("disabled"))
					var bad2 []string
					if name == "gradient" || name == "flatImage" {
						// only the paint the fill pointer selects is read; each is (re)initialised on the arm that selects it
						// (flatImage.C and Gradient.Init are checked separately)
					} else {
						leaves := sym.DeepCases(sym.Tuple(d2, v2), 256)
						if leaves == nil {
							bad2 = append(bad2, "too many cases")
						}
						for _, lf := range leaves {
							if b, isC := lf.Val.Args[0].BoolVal(); isC && b {
								continue // this exit leaves the path disabled: nothing will read the field
							}
							for _, s := range staleAtomsIn(in2, lf.Val.Args[1]) {
								if !config[strings.TrimPrefix(s, "old.")] && s != "old.stops" {
									bad2 = append(bad2, s)
								}
							}
						}
					}
					R.Check(len(bad2) == 0, key, c.FPos(start), "per-path: rewritten by StartPath on every path that leaves the path enabled", "still depends on "+strings.Join(bad2, ","))
				case name == "stops":
					R.OK(key, c.FPos(reset), "scratch: elements [0,NSTOPS) are written by initGradient before Gradient.Init reads stops[:NSTOPS] in the same call (exception table)")
				case c.fieldOnlyRead(r.T, i):
					R.OK(key, c.FPos(reset), "never written: no function of the module stores into the field or takes its address for anything but a load, so it cannot carry history")
				default:
					R.Bad(key, c.FPos(reset), "configuration, reset by Reset, or per-path state", "keeps "+strings.Join(bad, ",")+" across Reset")
				}
			}
			// disabled is written on every path of StartPath
			okDis := true
			n := 0
			dbg := ""
			for _, ev := range in2.Events {
				if ev.Kind == "return" && ev.Frame == fr2 && ev.Mem != nil {
					n++
					for _, sa := range staleAtomsIn(in2, in2.LoadAt(ev.Mem, zobj, r.fieldPath("disabled"))) {
						if !config[strings.TrimPrefix(sa, "old.")] && sa != "old.stops" {
							okDis = false
							dbg = sa
						}
					}
				}
			}
			R.Check(okDis && n > 0, "render.(*Renderer).StartPath#disabled-every-path", c.FPos(start), "the disabled flag is decided anew on every exit", fmt.Sprintf("%d exits; %s", n, dbg))
		}
		// Gradient.Init overwrites everything
		gradT := c.Named("render", "Gradient")
		if init := c.Method("render", "Gradient", "Init", true); init != nil && gradT != nil {
			gs := gradT.Underlying().(*types.Struct)
			in := c.Interp()
			in.Hooks = newSimpleHooks("AppendRanges")
			mem := sym.NewMem()
			gobj := in.ParamObj("g", gradT)
			for i := 0; i < gs.NumFields(); i++ {
				mem.Store(gobj, sym.Path{sym.F(i)}, sym.Atom("old."+gs.Field(i).Name(), gs.Field(i).Type()))
			}
			_, out, _ := in.Run(init, nil, mem)
			for i := 0; i < gs.NumFields(); i++ {
				name := gs.Field(i).Name()
				ok := out != nil
				detail := ""
				if ok {
					stale := staleAtomsIn(in, in.LoadAt(out, gobj, sym.Path{sym.F(i)}))
					ok = len(stale) == 0
					detail = strings.Join(stale, ",")
				}
				R.Check(ok, "render.(*Gradient).Init#field:"+name, c.FPos(init), "overwritten on every path (Ranges from [:0])", "depends on "+detail)
			}
		}
	}

	// ---- C17.3 determinism ----
	R.Rule("C17.3", "determinism: nothing reachable from the Encoder, Renderer, Gradient, Generator and decoder entry points iterates over a map, or calls into time, math/rand, crypto/rand, os or runtime; together with C18.1 (no mutable package state) the output is a function of the calls made", 3)
	a := c.effects()
	var roots []*ssa.Function
	for _, own := range []struct{ rel, typ string }{{"encode", "Encoder"}, {"render", "Renderer"}, {"render", "Gradient"}, {"generate", "Generator"}, {"raster/vec", "Rasterizer"}} {
		if n := c.Named(own.rel, own.typ); n != nil {
			ms := c.P.SSA.MethodSets.MethodSet(types.NewPointer(n))
			for i := 0; i < ms.Len(); i++ {
				if f := c.P.SSA.MethodValue(ms.At(i)); f != nil {
					roots = append(roots, f)
				}
			}
		}
	}
	for _, e := range []string{"Decode", "DecodeViewBox", "Disassemble"} {
		if f := c.Fn("decode", e); f != nil {
			roots = append(roots, f)
		}
	}
	reach, ext := a.Reachable(roots)
	R.Count("C17.3.reachable_functions", len(reach))
	var mapRanges []string
	for fn := range reach {
		for _, b := range fn.Blocks {
			for _, ins := range b.Instrs {
				if rg, ok := ins.(*ssa.Range); ok {
					if _, isMap := rg.X.Type().Underlying().(*types.Map); isMap {
						mapRanges = append(mapRanges, c.P.FuncName(fn)+" "+c.Pos(ins))
					}
				}
			}
		}
	}
	sort.Strings(mapRanges)
	R.Check(len(mapRanges) == 0, "module#no-map-iteration", "-", "no range over a map", strings.Join(mapRanges, "; "))
	var badExt []string
	for e := range ext {
		name := strings.TrimPrefix(e, "invoke:")
		for _, p := range []string{"time.", "(time.", "math/rand", "crypto/rand", "os.", "(*os.", "runtime."} {
			if strings.HasPrefix(name, p) || strings.Contains(name, "("+p) {
				badExt = append(badExt, name)
			}
		}
	}
	sort.Strings(badExt)
	R.Check(len(badExt) == 0, "module#no-ambient-inputs", "-", "no time, randomness, environment or scheduler dependence", strings.Join(badExt, "; "))
	R.Check(len(reach) >= 100, "module#reachability-nonvacuous", "-", "at least 100 functions reached", fmt.Sprint(len(reach)))
}

// pendingIsZero: the term is 0 on every path, where a path that assumes "x == k" sees x as k.
func pendingIsZero(t *sym.Term) bool {
	leaves := sym.DeepCases(t, 64)
	if leaves == nil {
		return false
	}
	for _, lf := range leaves {
		v := lf.Val
		for _, cnd := range lf.Conds {
			if cnd.Op == "bin" && cnd.Name == "==" && cnd.Args[1].IsConst() && !cnd.Args[0].IsConst() {
				v = sym.Subst(v, cnd.Args[0], cnd.Args[1])
			}
		}
		if k, ok := v.Int64(); !ok || k != 0 {
			return false
		}
	}
	return true
}

// fieldOnlyRead: every use of field number idx of struct type t in the module is a load of the field's value (the
// address is taken only to be dereferenced at once). Such a field is never assigned individually.
func (c *Ctx) fieldOnlyRead(t types.Type, idx int) bool {
	for _, fn := range c.P.AllFuncs() {
		for _, b := range fn.Blocks {
			for _, ins := range b.Instrs {
				fa, ok := ins.(*ssa.FieldAddr)
				if !ok || fa.Field != idx {
					continue
				}
				pt, ok := fa.X.Type().Underlying().(*types.Pointer)
				if !ok || !types.Identical(pt.Elem(), t) {
					continue
				}
				if fa.Referrers() == nil {
					return false
				}
				for _, r := range *fa.Referrers() {
					switch u := r.(type) {
					case *ssa.UnOp:
						if u.Op != token.MUL {
							return false
						}
					case *ssa.DebugRef:
					default:
						return false
					}
				}
			}
		}
	}
	return true
}
