package rules

import (
	"go/types"
	"strings"
	"sync"

	"golang.org/x/tools/go/ssa"

	"ivgsa/internal/canon"
	"ivgsa/internal/load"
	"ivgsa/internal/sym"
)

var (
	canonOnce sync.Once
	canonSnap *canon.Snapshot
)

// canonArgs returns the arguments of a call of callee in the order in which the rules know the callee's parameters
// (the order recorded in the snapshot of internal/canon): the order of an unexported helper's parameters is not
// behaviour, and rules that read "the third argument of scan" must keep reading the operand count when a maintainer
// moves it. Only a pure permutation of the same parameter names is undone; anything else is returned as it is.
func canonArgs(callee *ssa.Function, args []*sym.Term) []*sym.Term {
	canonOnce.Do(func() { canonSnap, _ = canon.Embedded() })
	if canonSnap == nil || callee == nil || callee.Pkg == nil || len(args) != len(callee.Params) {
		return args
	}
	rel := strings.TrimPrefix(strings.TrimPrefix(callee.Pkg.Pkg.Path(), load.ModulePath), "/")
	ps := canonSnap.Pkgs[rel]
	if ps == nil {
		return args
	}
	recv := ""
	if r := callee.Signature.Recv(); r != nil {
		recv = recvNamed(callee)
	}
	for _, f := range ps.Funcs {
		if f.Name != callee.Name() || f.Recv != recv {
			continue
		}
		want := f.Params[:]
		// the snapshot lists results after the parameters
		if len(want) < len(args) {
			return args
		}
		want = want[:len(args)]
		pos := map[string]int{}
		for i, p := range callee.Params {
			if p.Name() == "" || p.Name() == "_" {
				return args
			}
			if _, dup := pos[p.Name()]; dup {
				return args
			}
			pos[p.Name()] = i
		}
		out := make([]*sym.Term, len(args))
		same := true
		for i, n := range want {
			j, ok := pos[n]
			if !ok {
				return args
			}
			out[i] = args[j]
			if i != j {
				same = false
			}
		}
		if same {
			return args
		}
		return out
	}
	return args
}

// canonIndex returns the position of the parameter called name in the argument list of an event emitted for callee
// (canonical order when canonArgs permuted it, the declared order otherwise), or -1.
func canonIndex(callee *ssa.Function, name string) int {
	if callee == nil {
		return -1
	}
	probe := make([]*sym.Term, len(callee.Params))
	for i := range probe {
		probe[i] = sym.Int(int64(i))
	}
	perm := canonArgs(callee, probe)
	for i, t := range perm {
		j, _ := t.Int64()
		if int(j) < len(callee.Params) && callee.Params[j].Name() == name {
			return i
		}
	}
	return -1
}

// printerFunc finds the function Disassemble hands to decode as its printer: a function literal, a named function
// or a method value - whatever form the argument of printer type takes. For a method value it returns the method
// (the receiver is then an ordinary first parameter).
func (c *Ctx) printerFunc() *ssa.Function {
	dis := c.Fn("decode", "Disassemble")
	pt := c.P.Named("decode", "printer")
	if dis == nil {
		return nil
	}
	target := func(v ssa.Value) *ssa.Function {
		for {
			switch x := v.(type) {
			case *ssa.ChangeType:
				v = x.X
				continue
			case *ssa.MakeClosure:
				fn, _ := x.Fn.(*ssa.Function)
				if fn != nil && fn.Synthetic != "" && len(fn.Blocks) > 0 {
					// bound method wrapper: the method it forwards to
					for _, b := range fn.Blocks {
						for _, ins := range b.Instrs {
							if call, ok := ins.(ssa.CallInstruction); ok {
								if sc := call.Common().StaticCallee(); sc != nil && c.P.FnInModule(sc) {
									return sc
								}
							}
						}
					}
				}
				return fn
			case *ssa.Function:
				return x
			case *ssa.Call:
				// built by a helper: the one closure that helper returns
				if sc := x.Call.StaticCallee(); sc != nil && c.P.FnInModule(sc) {
					if rcs := returnedClosures(sc); len(rcs) == 1 {
						fn, _ := rcs[0].Fn.(*ssa.Function)
						return fn
					}
				}
				return nil
			}
			return nil
		}
	}
	var found *ssa.Function
	n := 0
	for _, b := range dis.Blocks {
		for _, ins := range b.Instrs {
			call, ok := ins.(ssa.CallInstruction)
			if !ok {
				continue
			}
			for _, a := range call.Common().Args {
				isPrinter := pt != nil && types.Identical(a.Type(), pt)
				if !isPrinter {
					if sig, ok := a.Type().Underlying().(*types.Signature); !ok || pt == nil || !types.Identical(sig, pt.Underlying()) {
						continue
					}
				}
				if fn := target(a); fn != nil && fn.Blocks != nil {
					if found != fn {
						n++
					}
					found = fn
				}
			}
		}
	}
	if n == 1 {
		return found
	}
	if len(dis.AnonFuncs) == 1 {
		return dis.AnonFuncs[0]
	}
	return nil
}
