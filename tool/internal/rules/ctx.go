// Package rules holds the repository-specific static rules, one file per
// property, and the shared context they run in.
package rules

import (
	"fmt"
	"go/ast"
	"go/token"
	"go/types"
	"sort"

	"golang.org/x/tools/go/ssa"

	"ivgsa/internal/effects"
	"ivgsa/internal/load"
	"ivgsa/internal/report"
	"ivgsa/internal/sym"
)

// Ctx is what a rule gets.
type Ctx struct {
	palFlags *paletteFlagModel
	P        *load.Program
	R        *report.Run
	Tier     string
	global   *sym.Mem
	decCache map[bool][]*opSummary
	eff      *effects.Analysis
	initPkgs map[*ssa.Package]bool
	mapLits  map[string][]sym.MapPair
	frozen   map[string]bool
}

// RuleFunc implements one or more rules of a property.
type RuleFunc func(c *Ctx)

// Registry maps property ids to their rule functions.
var Registry = map[string][]RuleFunc{}

func register(prop string, fs ...RuleFunc) { Registry[prop] = append(Registry[prop], fs...) }

// Properties returns the registered property ids, sorted.
func Properties() []string {
	var out []string
	for k := range Registry {
		out = append(out, k)
	}
	sort.Strings(out)
	return out
}

// pkgOrder is the order in which package init functions are evaluated.
var pkgOrder = []string{"", "raster", "raster/vec", "render", "encode", "decode", "generate", "mdicons"}

// Interp returns a fresh interpreter whose global memory holds the contents of
// the module's package-level variables as established by the init functions.
func (c *Ctx) Interp() *sym.Interp {
	in := sym.New(c.P.FnInModule)
	if c.P.Arch == "386" {
		sym.IntSize = 32
	} else {
		sym.IntSize = 64
	}
	if c.global == nil {
		for _, rel := range pkgOrder {
			if sp := c.P.Pkg(rel); sp != nil {
				in.InitGlobals(sp)
			}
		}
		in.FreezeGlobals()
		c.global = in.Global
		c.initPkgs = in.InitPkgs
		c.mapLits = in.MapLits
		c.frozen = c.frozenMaps(in)
		in.FrozenMaps = c.frozen
	} else {
		in.Global = c.global
		in.InitPkgs = c.initPkgs
		in.MapLits = c.mapLits
		in.FrozenMaps = c.frozen
	}
	return in
}

// Fn resolves a package-level function or reports an unresolved anchor.
func (c *Ctx) Fn(rel, name string) *ssa.Function {
	f := c.P.Func(rel, name)
	if f == nil || f.Blocks == nil {
		// the helper may have been turned into a method of some type of the same package (or back): unexported
		// helpers are found by name alone when exactly one function of the package carries it
		if len(name) > 0 && name[0] >= 'a' && name[0] <= 'z' {
			var cands []*ssa.Function
			for _, g := range c.P.AllFuncs() {
				if g.Name() == name && g.Blocks != nil && g.Pkg != nil && c.P.Rel(g.Pkg.Pkg) == rel && g.Parent() == nil && g.Synthetic == "" {
					cands = append(cands, g)
				}
			}
			if len(cands) == 1 {
				return cands[0]
			}
		}
	}
	if f == nil || f.Blocks == nil {
		c.R.Anchor(fmt.Sprintf("func %s.%s", rel, name))
		return nil
	}
	return f
}

// Method resolves a method or reports an unresolved anchor.
func (c *Ctx) Method(rel, typ, name string, ptr bool) *ssa.Function {
	f := c.P.Method(rel, typ, name, ptr)
	if (f == nil || f.Blocks == nil) && len(name) > 0 && name[0] >= 'a' && name[0] <= 'z' {
		// an unexported method may have become a plain function or moved to another receiver
		var cands []*ssa.Function
		for _, g := range c.P.AllFuncs() {
			if g.Name() == name && g.Blocks != nil && g.Pkg != nil && c.P.Rel(g.Pkg.Pkg) == rel && g.Parent() == nil && g.Synthetic == "" {
				cands = append(cands, g)
			}
		}
		if len(cands) == 1 {
			return cands[0]
		}
	}
	if f == nil || f.Blocks == nil {
		c.R.Anchor(fmt.Sprintf("method %s.%s.%s", rel, typ, name))
		return nil
	}
	return f
}

// Named resolves a named type or reports an unresolved anchor.
func (c *Ctx) Named(rel, name string) *types.Named {
	n := c.P.Named(rel, name)
	if n == nil {
		c.R.Anchor(fmt.Sprintf("type %s.%s", rel, name))
	}
	return n
}

// Pos renders the position of an instruction.
func (c *Ctx) Pos(ins ssa.Instruction) string {
	if ins == nil {
		return "-"
	}
	if p := ins.Pos(); p.IsValid() {
		return c.P.Pos(p)
	}
	// fall back to the enclosing function
	if f := ins.Parent(); f != nil {
		return c.P.Pos(f.Pos())
	}
	return "-"
}

// FPos renders the position of a function.
func (c *Ctx) FPos(fn *ssa.Function) string {
	if fn == nil {
		return "-"
	}
	return c.P.Pos(fn.Pos())
}

// frozenMaps decides which package-level maps of the module are tables: built by a literal in the package
// initialiser and, everywhere else in the module, only ever loaded in order to be looked up in, ranged over or
// measured. Nothing can change such a map after initialisation (it is not exported either). Returns object ids.
func (c *Ctx) frozenMaps(in *sym.Interp) map[string]bool {
	out := map[string]bool{}
	for _, rel := range pkgOrder {
		sp := c.P.Pkg(rel)
		if sp == nil {
			continue
		}
		for _, mem := range sp.Members {
			g, ok := mem.(*ssa.Global)
			if !ok || ast.IsExported(g.Name()) {
				continue
			}
			pt, ok := g.Type().(*types.Pointer)
			if !ok {
				continue
			}
			if _, isMap := pt.Elem().Underlying().(*types.Map); !isMap {
				continue
			}
			frozen := true
			for _, fn := range c.P.AllFuncs() {
				if isPkgInit(fn) {
					continue
				}
				for _, b := range fn.Blocks {
					for _, ins := range b.Instrs {
						for _, op := range ins.Operands(nil) {
							if op == nil || *op != ssa.Value(g) {
								continue
							}
							ld, isLoad := ins.(*ssa.UnOp)
							if !isLoad || ld.Op != token.MUL || ld.Referrers() == nil {
								frozen = false
								continue
							}
							for _, r := range *ld.Referrers() {
								switch u := r.(type) {
								case *ssa.Lookup:
									if u.X != ssa.Value(ld) {
										frozen = false
									}
								case *ssa.Range:
								case *ssa.DebugRef:
								case *ssa.Call:
									if bi, ok := u.Common().Value.(*ssa.Builtin); !ok || bi.Name() != "len" {
										frozen = false
									}
								default:
									frozen = false
								}
							}
						}
					}
				}
			}
			if !frozen {
				continue
			}
			v := in.LoadAt(in.Global, in.GlobalObj(g), nil)
			if v != nil && v.Op == "ptr" && v.Obj != nil {
				out[v.Obj.ID] = true
			}
		}
	}
	return out
}
