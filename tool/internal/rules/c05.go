package rules

import (
	"fmt"
	"go/types"
	"strings"

	"ivgsa/internal/poly"
	"ivgsa/internal/sym"
)

func init() { register("C05", ruleC05, ruleC05_shared) }

// ruleC05_shared: the viewBox->rectangle map C05 relies on is only right if it is recomputed whenever the target
// rectangle is set (shared with C16.1, which owns the rule).
func ruleC05_shared(c *Ctx) {
	c.R.Only("C16.1")
	ruleC16(c)
	c.R.Only()
	// the coordinate helpers are the maps of the rectangle and viewBox held at that point, after Reset and after a
	// later SetRasterizer alike (owned by C06, which also needs their inverse)
	only(c, ruleC06, "C06.0")
}

// verbExp is the reference meaning of one Renderer drawing method, written
// from the property statement: which rasteriser calls, with which pixel-space
// arguments, and what the smooth-curve state becomes.
type verbExp struct {
	name   string
	calls  []string // state-changing rasteriser calls in order
	penVer int      // version of the pen the method reads (number of state-changing calls before)
	// args of the last call, as a function of the pen and of the smooth reflection point
	args func(g geom, px, py, sx, sy poly.Rat) []poly.Rat
	// smooth state after: type constant name and which argument pair becomes the smooth point (-1: none)
	smooth   string
	smoothAt int
	// usesSmooth: "" or the type whose reflection is used for the first control point
	usesSmooth string
}

func v(name string) poly.Rat { return poly.RatVar(name) }

func verbTable() []verbExp {
	absPt := func(g geom, x, y string) (poly.Rat, poly.Rat) { return g.AX(v(x)), g.AY(v(y)) }
	return []verbExp{
		{name: "AbsLineTo", calls: []string{"LineTo"}, smooth: "none", smoothAt: -1,
			args: func(g geom, px, py, sx, sy poly.Rat) []poly.Rat { x, y := absPt(g, "x", "y"); return []poly.Rat{x, y} }},
		{name: "RelLineTo", calls: []string{"LineTo"}, smooth: "none", smoothAt: -1,
			args: func(g geom, px, py, sx, sy poly.Rat) []poly.Rat {
				return []poly.Rat{px.Add(g.RX(v("x"))), py.Add(g.RY(v("y")))}
			}},
		{name: "AbsHLineTo", calls: []string{"LineTo"}, smooth: "none", smoothAt: -1,
			args: func(g geom, px, py, sx, sy poly.Rat) []poly.Rat { return []poly.Rat{g.AX(v("x")), py} }},
		{name: "RelHLineTo", calls: []string{"LineTo"}, smooth: "none", smoothAt: -1,
			args: func(g geom, px, py, sx, sy poly.Rat) []poly.Rat { return []poly.Rat{px.Add(g.RX(v("x"))), py} }},
		{name: "AbsVLineTo", calls: []string{"LineTo"}, smooth: "none", smoothAt: -1,
			args: func(g geom, px, py, sx, sy poly.Rat) []poly.Rat { return []poly.Rat{px, g.AY(v("y"))} }},
		{name: "RelVLineTo", calls: []string{"LineTo"}, smooth: "none", smoothAt: -1,
			args: func(g geom, px, py, sx, sy poly.Rat) []poly.Rat { return []poly.Rat{px, py.Add(g.RY(v("y")))} }},
		{name: "AbsQuadTo", calls: []string{"QuadTo"}, smooth: "quad", smoothAt: 0,
			args: func(g geom, px, py, sx, sy poly.Rat) []poly.Rat {
				x1, y1 := absPt(g, "x1", "y1")
				x, y := absPt(g, "x", "y")
				return []poly.Rat{x1, y1, x, y}
			}},
		{name: "RelQuadTo", calls: []string{"QuadTo"}, smooth: "quad", smoothAt: 0,
			args: func(g geom, px, py, sx, sy poly.Rat) []poly.Rat {
				return []poly.Rat{px.Add(g.RX(v("x1"))), py.Add(g.RY(v("y1"))), px.Add(g.RX(v("x"))), py.Add(g.RY(v("y")))}
			}},
		{name: "AbsSmoothQuadTo", calls: []string{"QuadTo"}, smooth: "quad", smoothAt: 0, usesSmooth: "quad",
			args: func(g geom, px, py, sx, sy poly.Rat) []poly.Rat {
				x, y := absPt(g, "x", "y")
				return []poly.Rat{sx, sy, x, y}
			}},
		{name: "RelSmoothQuadTo", calls: []string{"QuadTo"}, smooth: "quad", smoothAt: 0, usesSmooth: "quad",
			args: func(g geom, px, py, sx, sy poly.Rat) []poly.Rat {
				return []poly.Rat{sx, sy, px.Add(g.RX(v("x"))), py.Add(g.RY(v("y")))}
			}},
		{name: "AbsCubeTo", calls: []string{"CubeTo"}, smooth: "cube", smoothAt: 2,
			args: func(g geom, px, py, sx, sy poly.Rat) []poly.Rat {
				x1, y1 := absPt(g, "x1", "y1")
				x2, y2 := absPt(g, "x2", "y2")
				x, y := absPt(g, "x", "y")
				return []poly.Rat{x1, y1, x2, y2, x, y}
			}},
		{name: "RelCubeTo", calls: []string{"CubeTo"}, smooth: "cube", smoothAt: 2,
			args: func(g geom, px, py, sx, sy poly.Rat) []poly.Rat {
				return []poly.Rat{px.Add(g.RX(v("x1"))), py.Add(g.RY(v("y1"))), px.Add(g.RX(v("x2"))), py.Add(g.RY(v("y2"))), px.Add(g.RX(v("x"))), py.Add(g.RY(v("y")))}
			}},
		{name: "AbsSmoothCubeTo", calls: []string{"CubeTo"}, smooth: "cube", smoothAt: 2, usesSmooth: "cube",
			args: func(g geom, px, py, sx, sy poly.Rat) []poly.Rat {
				x2, y2 := absPt(g, "x2", "y2")
				x, y := absPt(g, "x", "y")
				return []poly.Rat{sx, sy, x2, y2, x, y}
			}},
		{name: "RelSmoothCubeTo", calls: []string{"CubeTo"}, smooth: "cube", smoothAt: 2, usesSmooth: "cube",
			args: func(g geom, px, py, sx, sy poly.Rat) []poly.Rat {
				return []poly.Rat{sx, sy, px.Add(g.RX(v("x2"))), py.Add(g.RY(v("y2"))), px.Add(g.RX(v("x"))), py.Add(g.RY(v("y")))}
			}},
		// close-and-move: close the sub-path first; a relative move is relative to the pen after closing
		{name: "ClosePathAbsMoveTo", calls: []string{"ClosePath", "MoveTo"}, smooth: "none", smoothAt: -1,
			args: func(g geom, px, py, sx, sy poly.Rat) []poly.Rat { x, y := absPt(g, "x", "y"); return []poly.Rat{x, y} }},
		{name: "ClosePathRelMoveTo", calls: []string{"ClosePath", "MoveTo"}, penVer: 1, smooth: "none", smoothAt: -1,
			args: func(g geom, px, py, sx, sy poly.Rat) []poly.Rat {
				return []poly.Rat{px.Add(g.RX(v("x"))), py.Add(g.RY(v("y")))}
			}},
	}
}

func ruleC05(c *Ctx) {
	R := c.R
	R.Assume("real arithmetic: rounding is not decided; the rasteriser's ClosePath leaves the pen at the sub-path start (as golang.org/x/image/vector does)")
	R.Assume("the Renderer state analysed is the one Reset leaves (viewBox and transform from Reset's parameters), with arbitrary smooth-curve state, selectors and target rectangle")
	r := c.newRend()
	if !r.ok {
		return
	}
	g := newGeom()
	f32 := types.Typ[types.Float32]
	pins := map[string]*sym.Term{
		"disabled":         sym.False,
		"prevSmoothType":   sym.Atom("prevType", types.Typ[types.Uint8]),
		"prevSmoothPointX": sym.Atom("prevX", f32),
		"prevSmoothPointY": sym.Atom("prevY", f32),
	}
	typeConst := map[string]int64{"none": r.none, "quad": r.quad, "cube": r.cube}

	R.Rule("C05.3", "each drawing method makes exactly the state-changing rasteriser calls of its verb, in order (line/H/V->LineTo, quadratic->QuadTo, cubic->CubeTo, close-and-move->ClosePath then MoveTo)", 16)
	R.Rule("C05.4", "every coordinate handed to the rasteriser equals, as a rational function, the affine viewBox->rectangle image of the operand (absolute), the pen plus the scaled operand (relative), the unchanged pen coordinate (H/V), or the reflected/plain smooth point", 56)
	R.Rule("C05.5", "smooth-curve state after each verb: type None/Quad/Cube as the property prescribes and the remembered point is the control point handed to the rasteriser", 16)
	for _, ve := range verbTable() {
		fn := c.Method("render", "Renderer", ve.name, true)
		if fn == nil {
			continue
		}
		pos := c.FPos(fn)
		key := "render.(*Renderer)." + ve.name
		in, mem, _ := r.run(fn, pins)
		if len(in.Warn) > 0 {
			R.Use("C05.3")
			R.Unknown(key+":analysis", pos, strings.Join(in.Warn, "; "))
		}
		evs := rasterEvents(in)
		var muts []*sym.Event
		var names []string
		for _, ev := range evs {
			if !rasterQueries[ev.Callee] {
				muts = append(muts, ev)
				names = append(names, ev.Callee)
			}
		}
		R.Use("C05.3")
		if !R.Check(strings.Join(names, ",") == strings.Join(ve.calls, ","), key+":calls", pos, strings.Join(ve.calls, ","), strings.Join(names, ",")) {
			continue
		}
		// each call unconditional on the enabled path
		for _, ev := range muts {
			if lits := guardLits(ev.Guard); len(lits) != 0 {
				R.Bad(key+":unconditional:"+ev.Callee, c.Pos(ev.Site), "exactly once on the enabled path", "conditional on "+shortKey(ev.Guard))
			}
		}
		last := muts[len(muts)-1]
		px, py := v(fmt.Sprintf("$penX@%d", ve.penVer)), v(fmt.Sprintf("$penY@%d", ve.penVer))
		env := r.env()
		env.Rename["$prevX"] = "prevX"
		env.Rename["$prevY"] = "prevY"
		// smooth point: reflection when the previous verb was of the same degree, else the pen
		two := poly.RatInt(2)
		refl := [2]poly.Rat{two.Mul(px).Sub(v("prevX")), two.Mul(py).Sub(v("prevY"))}
		plain := [2]poly.Rat{px, py}
		R.Use("C05.4")
		if len(last.Args) != len(ve.args(g, px, py, px, py)) {
			R.Bad(key+":arity", pos, fmt.Sprint(len(ve.args(g, px, py, px, py))), fmt.Sprint(len(last.Args)))
			continue
		}
		checkVal := func(construct string, t *sym.Term, wantHit, wantMiss poly.Rat) {
			cases := env.Cases(t)
			if env.Err != nil || len(cases) == 0 {
				R.Unknown(construct, pos, "no normal form: "+shortKey(t))
				return
			}
			for _, cs := range cases {
				want := wantMiss
				switch {
				case len(cs.Conds) == 0:
					if ve.usesSmooth != "" && !wantHit.Equal(wantMiss) {
						R.Bad(construct, pos, "depends on whether the previous verb was a "+ve.usesSmooth+" curve", "unconditional "+cs.Val.String())
						return
					}
				case len(cs.Conds) == 1 && ve.usesSmooth != "":
					hit, ok := smoothCond(cs.Conds[0], typeConst[ve.usesSmooth])
					if !ok {
						R.Bad(construct, pos, "conditional only on prevSmoothType == "+ve.usesSmooth, shortKey(cs.Conds[0]))
						return
					}
					if hit {
						want = wantHit
					}
				default:
					R.Bad(construct, pos, "no other case distinction", condKey(cs.Conds))
					return
				}
				if !cs.Val.Equal(want) {
					R.Bad(construct, pos, want.String(), cs.Val.String(), "case: "+condKey(cs.Conds))
					return
				}
			}
			R.OK(construct, pos, "= "+wantMiss.String())
		}
		wantHit := ve.args(g, px, py, refl[0], refl[1])
		wantMiss := ve.args(g, px, py, plain[0], plain[1])
		for i, a := range last.Args {
			checkVal(fmt.Sprintf("%s:%s.arg%d", key, last.Callee, i), a, wantHit[i], wantMiss[i])
		}
		// smooth state
		R.Use("C05.5")
		zobj := r.zobj(in)
		st := in.LoadAt(mem, zobj, r.fieldPath("prevSmoothType"))
		if k, ok := st.Int64(); !ok || k != typeConst[ve.smooth] {
			R.Bad(key+":smoothType", pos, fmt.Sprintf("prevSmoothType = %s (%d) on the enabled path", ve.smooth, typeConst[ve.smooth]), shortKey(st))
		} else {
			R.OK(key+":smoothType", pos)
		}
		if ve.smoothAt >= 0 {
			sx := in.LoadAt(mem, zobj, r.fieldPath("prevSmoothPointX"))
			sy := in.LoadAt(mem, zobj, r.fieldPath("prevSmoothPointY"))
			R.Use("C05.5")
			checkVal(key+":smoothPointX", sx, wantHit[ve.smoothAt], wantMiss[ve.smoothAt])
			checkVal(key+":smoothPointY", sy, wantHit[ve.smoothAt+1], wantMiss[ve.smoothAt+1])
		}
		R.Sample(map[string]string{"method": ve.name, "calls": strings.Join(names, ","), "arg0": wantMiss[0].String()})
	}

	// C05.6 StartPath and ClosePathEndPath
	R.Rule("C05.6", "StartPath resets the rasteriser to the rectangle size and moves to the mapped start point; ClosePathEndPath closes then draws exactly once over the target rectangle with the chosen paint at offset (0,0)", 6)
	if fn := c.Method("render", "Renderer", "StartPath", true); fn != nil {
		pos := c.FPos(fn)
		key := "render.(*Renderer).StartPath"
		// enabled path: pin the paint classification by keeping initGradient opaque and a flat opaque colour is not needed:
		// we only look at the calls and their arguments, whatever their guard.
		in, mem, _ := r.run(fn, pins, "initGradient")
		var names []string
		var muts []*sym.Event
		for _, ev := range rasterEvents(in) {
			if !rasterQueries[ev.Callee] {
				muts = append(muts, ev)
				names = append(names, ev.Callee)
			}
		}
		if R.Check(strings.Join(names, ",") == "Reset,MoveTo", key+":calls", pos, "Reset,MoveTo", strings.Join(names, ",")) {
			env := r.env()
			w, ok1 := env.One(muts[0].Args[0])
			h, ok2 := env.One(muts[0].Args[1])
			R.Check(ok1 && ok2 && w.Equal(g.Dx) && h.Equal(g.Dy), key+":Reset.args", pos, "Reset(r.Dx(), r.Dy())", shortKey(muts[0].Args[0])+", "+shortKey(muts[0].Args[1]))
			x, ok1 := env.One(muts[1].Args[0])
			y, ok2 := env.One(muts[1].Args[1])
			R.Check(ok1 && ok2 && x.Equal(g.AX(v("x"))) && y.Equal(g.AY(v("y"))), key+":MoveTo.args", pos, "MoveTo(mapped start point)", shortKey(muts[1].Args[0]))
			st := in.LoadAt(mem, r.zobj(in), r.fieldPath("prevSmoothType"))
			// on the enabled path the smooth type is None; the value at exit may be an ite over the early return
			okNone := false
			for _, cs := range sym.Cases(st, 16) {
				if k, ok := cs.Val.Int64(); ok && k == r.none {
					okNone = true
				}
			}
			R.Check(okNone, key+":smoothType", pos, "prevSmoothType = none when the path starts", shortKey(st))
		}
	}
	if fn := c.Method("render", "Renderer", "ClosePathEndPath", true); fn != nil {
		pos := c.FPos(fn)
		key := "render.(*Renderer).ClosePathEndPath"
		in, _, _ := r.run(fn, pins)
		var names []string
		var muts []*sym.Event
		for _, ev := range rasterEvents(in) {
			if !rasterQueries[ev.Callee] {
				muts = append(muts, ev)
				names = append(names, ev.Callee)
			}
		}
		if R.Check(strings.Join(names, ",") == "ClosePath,Draw", key+":calls", pos, "ClosePath,Draw", strings.Join(names, ",")) {
			d := muts[1]
			zr := in.LoadAt(r.resetM, r.zobj(in), r.fieldPath("r"))
			fill := in.LoadAt(r.resetM, r.zobj(in), r.fieldPath("fill"))
			R.Check(len(d.Args) == 3 && normAgg(d.Args[0]) == normAgg(zr), key+":Draw.rect", pos, "the target rectangle z.r", shortKey(d.Args[0]))
			R.Check(len(d.Args) == 3 && sym.Eq(d.Args[1], fill), key+":Draw.paint", pos, "the paint chosen at StartPath (z.fill)", shortKey(d.Args[1]))
			zeroPt := len(d.Args) == 3 && isZeroPoint(d.Args[2])
			R.Check(zeroPt, key+":Draw.offset", pos, "image.Point{0,0}", shortKey(d.Args[2]))
			for _, ev := range muts {
				if len(guardLits(ev.Guard)) != 0 {
					R.Bad(key+":unconditional:"+ev.Callee, pos, "exactly once on the enabled path", shortKey(ev.Guard))
				}
			}
		}
	}
}

// smoothCond recognises "prevType == k" (hit) or its negation (miss).
func smoothCond(c *sym.Term, k int64) (hit bool, ok bool) {
	neg := false
	if c.Op == "not" {
		c, neg = c.Args[0], true
	}
	if c.Op != "bin" || c.Name != "==" {
		return false, false
	}
	a, b := c.Args[0], c.Args[1]
	if a.IsConst() {
		a, b = b, a
	}
	if a.Key() != "$prevType" {
		return false, false
	}
	if kv, isC := b.Int64(); !isC || kv != k {
		return false, false
	}
	return !neg, true
}

func isZeroPoint(t *sym.Term) bool {
	switch t.Op {
	case "zero":
		return true
	case "agg":
		for _, a := range t.Args {
			if v, ok := a.Int64(); !ok || v != 0 {
				return false
			}
		}
		return true
	}
	return false
}
