package rules

import (
	"fmt"
	"go/types"
	"strings"

	"golang.org/x/tools/go/ssa"

	"ivgsa/internal/sym"
)

func pickFn(drawing bool, sty, drw *ssa.Function) *ssa.Function {
	if drawing {
		return drw
	}
	return sty
}

// bufferBase / bufferLo: the base and start offset of a buffer value (slice term); other terms are their own base at offset 0.
func bufferBase(t *sym.Term) *sym.Term {
	if t.Op == "slice" {
		return t.Args[0]
	}
	return t
}

func bufferLo(t *sym.Term) *sym.Term {
	if t.Op == "slice" {
		return t.Args[1]
	}
	return sym.Int(0)
}

// ruleC11_45: per opcode key, the listing has one instruction (head) line per
// delivered operation and one operand line per operand read, and the values
// printed are the values delivered.
func ruleC11_45(c *Ctx) {
	R := c.R
	R.Rule("C11.4", "per opcode key: exactly one head line per delivered operation (the opcode line for the first repetition, one byte-less 'implicit' line for each further repetition, guarded by the repetition counter being non-zero) and exactly one operand line per operand read, printing exactly the bytes that read consumed", 400)
	R.Rule("C11.5", "printed = delivered: every operand value that reaches a delivered argument is an argument of its operand line; constants derived from the opcode (selector, ADJ, repeat count) are the same in the head line and in the delivery", 400)
	sty, drw := c.modeFuncs()
	if sty == nil || drw == nil {
		return
	}
	for _, drawing := range []bool{false, true} {
		sums := c.decSummaries(drawing)
		fnName := "decodeStyling"
		if drawing {
			fnName = "decodeDrawing"
		}
		for k, s := range sums {
			if s.Reserved || s.Deliver == nil || len(s.Problems) > 0 {
				continue
			}
			tr := s.tr
			construct := fmt.Sprintf("decode.%s#opcode=0x%02x", fnName, k)
			var heads, implicit []*sym.Event
			operandLine := map[*sym.Event]int{}
			var diffs4, diffs5 []string
			for _, pr := range tr.Prints {
				b := pr.Args[0]
				switch {
				case b.IsNil():
					implicit = append(implicit, pr)
				case b.Op == "slice" && b.Args[0].Key() == "$param:src" && b.Args[1].Key() == "0" && b.Args[2].Key() == "1":
					heads = append(heads, pr)
				default:
					// an operand line: its length must be the byte count of a read in the same frame
					matched := false
					ln := sym.Len(b)
					for _, cs := range tr.Consumes {
						if cs.Result != nil && sym.Eq(ln, cs.Result.Args[1]) && cs.Frame == pr.Frame {
							operandLine[cs]++
							matched = true
							// the bytes printed start where the read started: same buffer value
							if !sym.Eq(b.Args[0], bufferBase(cs.Args[0])) || !sym.Eq(b.Args[1], bufferLo(cs.Args[0])) {
								diffs4 = append(diffs4, "an operand line prints bytes from a different position than the read")
							}
						}
					}
					if !matched {
						diffs4 = append(diffs4, "a line prints bytes that are not an operand's: "+shortKey(b))
					}
				}
			}
			if len(heads) != 1 || len(heads[0].Loops) != 0 {
				diffs4 = append(diffs4, fmt.Sprintf("%d opcode lines", len(heads)))
			}
			if s.HasLoop {
				if len(implicit) != 1 || len(implicit[0].Loops) != 1 {
					diffs4 = append(diffs4, fmt.Sprintf("%d byte-less head lines in the repetition loop", len(implicit)))
				} else {
					// guarded by the repetition counter being non-zero, and by nothing else but the printer
					li, ok := implicit[0].Loops[0].Frame.Loop(implicit[0].Loops[0].Header)
					okG := false
					if ok {
						// "not the first repetition": the counter differs from the value it has on the first iteration
						// (0 when counting up from 0, the repeat count when counting down)
						if i0, isC := li.Init.Int64(); isC {
							want := sym.Not(sym.Bin(tokEQL, li.IndexVal, sym.Int(i0+li.Offset), nil))
							okG = impliesLit([]*sym.Term{implicit[0].Guard}, want)
						}
					}
					if !okG {
						diffs4 = append(diffs4, "the implicit head line is not guarded by 'not the first repetition'")
					}
				}
			} else if len(implicit) != 0 {
				diffs4 = append(diffs4, "byte-less line outside a repetition")
			}
			for _, cs := range tr.Consumes {
				if operandLine[cs] != 1 {
					diffs4 = append(diffs4, fmt.Sprintf("%d operand lines for a %s read", operandLine[cs], cs.Callee))
				}
			}
			// every print depends only on the printer being present (and the implicit one on the counter), reads succeeding, loops
			for _, pr := range tr.Prints {
				for _, lit := range guardLits(pr.Guard) {
					bad := ""
					sym.Walk(lit, func(x *sym.Term) bool {
						if x.Op == "atom" {
							switch {
							case x.Name == "param:p", strings.HasPrefix(x.Name, "n@"), strings.HasPrefix(x.Name, "phi#"):
							default:
								bad = x.Name
							}
						}
						return true
					})
					if bad != "" {
						diffs4 = append(diffs4, "a line is printed depending on "+bad)
					}
				}
			}
			// C11.5: operand values delivered are printed on their operand line
			for _, a := range s.Deliver.Args[1:] {
				for _, atom := range valAtomsIn(a) {
					found := false
					for _, pr := range tr.Prints {
						for _, va := range pr.VarArgs {
							for _, e := range va {
								inner := e
								if inner.Op == "makeiface" {
									inner = inner.Args[0]
								}
								// the value itself (possibly gated by its own read's failure test), not a function of it
								if isValOrGated(inner, atom) {
									found = true
								}
							}
						}
					}
					if !found {
						diffs5 = append(diffs5, "the delivered operand "+atom+" is never printed as such")
					}
				}
			}
			// flags: a delivered boolean computed from an operand (arc flags) is "printed argument != 0" for an argument of
			// the operand's line other than the raw number - the flag the listing shows is the flag delivered, for every
			// value of the number; two flags take two different arguments, in order
			usedFlagArg := -1
			for ai, a := range s.Deliver.Args[1:] {
				if a.IsConst() || a.T == nil {
					continue
				}
				if bt, isB := a.T.Underlying().(*types.Basic); !isB || bt.Info()&types.IsBoolean == 0 {
					continue
				}
				atoms := valAtomsIn(a)
				if len(atoms) != 1 {
					continue
				}
				atom, nAtom := atoms[0], ""
				for _, cs := range tr.Consumes {
					if eventValAtom(cs) == atom && cs.Result != nil && len(cs.Result.Args) > 1 {
						nAtom = cs.Result.Args[1].Name
					}
				}
				akey := sym.Atom(atom, nil).Key()
				found, idx, why := false, 0, "no printed argument is this flag"
				for _, pr := range tr.Prints {
					for _, va := range pr.VarArgs {
						for _, e := range va {
							idx++
							inner := e
							if inner.Op == "makeiface" {
								inner = inner.Args[0]
							}
							for inner.Op == "ite" && (inner.Args[1].IsConst() || inner.Args[2].IsConst()) {
								if inner.Args[1].IsConst() {
									inner = inner.Args[2]
								} else {
									inner = inner.Args[1]
								}
							}
							if found || idx <= usedFlagArg || isValOrGated(inner, atom) || !sym.Mentions(inner, akey) {
								continue
							}
							w, _, isInt := intWidth(inner.T)
							if !isInt {
								continue
							}
							bits, err := toBits(inner, w)
							if err != nil || len(bits) == 0 || bits[0].Atom != akey {
								continue
							}
							single := true
							for _, b := range bits[1:] {
								if b.Atom != "" || b.Const != 0 {
									single = false
								}
							}
							if !single {
								continue
							}
							if ok, y := flagBitOf(a, atom, uint(bits[0].Bit), nAtom); ok {
								found, usedFlagArg = true, idx
							} else {
								why = fmt.Sprintf("the listing shows bit %d of the number, but %s", bits[0].Bit, y)
							}
						}
					}
				}
				if !found {
					diffs5 = append(diffs5, fmt.Sprintf("delivered flag (argument %d) is not what its operand line shows: %s", ai, why))
				}
			}
			// constants: every constant integer argument of the delivery appears among the head line's arguments; the repeat count too
			if len(heads) == 1 {
				var headConsts []int64
				for _, va := range heads[0].VarArgs {
					for _, e := range va {
						inner := e
						if inner.Op == "makeiface" {
							inner = inner.Args[0]
						}
						if v, ok := inner.Int64(); ok {
							headConsts = append(headConsts, v)
						}
					}
				}
				has := func(v int64) bool {
					for _, h := range headConsts {
						if h == v {
							return true
						}
					}
					return false
				}
				fmtStr, _ := heads[0].Args[1].StringVal()
				for i, a := range s.Deliver.Args[1:] {
					if v, ok := a.Int64(); ok {
						// ADJ 0 of an incrementing form is spelled "CSEL-0" in the format string itself
						if !has(v) && !(v == 0 && strings.Contains(fmtStr, "-0]")) {
							diffs5 = append(diffs5, fmt.Sprintf("constant argument %d (= %d) is not what the head line prints %v", i, v, headConsts))
						}
					}
				}
				if s.HasLoop && !has(s.Reps) {
					diffs5 = append(diffs5, fmt.Sprintf("repeat count %d is not printed", s.Reps))
				}
				// incrementing forms say so
				for _, a := range s.Deliver.Args[1:] {
					if b, ok := a.BoolVal(); ok && a.IsConst() && (s.Method == "SetCReg" || s.Method == "SetNReg") {
						if b != strings.Contains(fmtStr, "++") {
							diffs5 = append(diffs5, "the head line's increment annotation does not match the delivered flag")
						}
					}
				}
			}
			R.Use("C11.4")
			R.Check(len(diffs4) == 0, construct, c.FPos(pickFn(drawing, sty, drw)), "one head line per operation, one line per operand", strings.Join(diffs4, "; "))
			R.Use("C11.5")
			R.Check(len(diffs5) == 0, construct, c.FPos(pickFn(drawing, sty, drw)), "printed values are the delivered values", strings.Join(diffs5, "; "))
		}
	}
	R.Exhaustive = true
}
