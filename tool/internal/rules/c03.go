package rules

import (
	"fmt"
	"strings"
)

func init() { register("C03", ruleC03_1) }

// ruleC03_1: for every opcode byte in each mode (2 x 256 keys, exhaustive) the
// behaviour extracted from the decoder by keyed constant propagation equals the
// row the specification assigns to that byte.
func ruleC03_1(c *Ctx) {
	R := c.R
	R.Rule("C03.1", "per opcode key (2x256, exhaustive): operand kinds and order, repeat count, delivered method, argument wiring (constants, operand identity, arc flag bits), next mode, reserved => DecodeError with nothing read or delivered — equal to the specification table", 512)
	sty, drw := c.modeFuncs()
	if sty == nil || drw == nil {
		return
	}
	modeFns := map[string]string{"styling": sty.Name(), "drawing": drw.Name()}
	classes := map[string]int{}
	for mi, fn := range []interface{ Name() string }{sty, drw} {
		_ = fn
		for key := 0; key < 256; key++ {
			var spec opSpec
			mode := "styling"
			f := sty
			if mi == 1 {
				mode, f = "drawing", drw
				spec = drawingSpec(key)
			} else {
				spec = stylingSpec(key)
			}
			tr := c.runModeFunc(f, key)
			s := summarise(tr)
			diffs := s.compareWithSpec(spec, modeFns)
			construct := fmt.Sprintf("decode.%s#opcode=0x%02x", f.Name(), key)
			R.Count("C03.1.keys", 1)
			R.Count("C03.1.events", len(tr.Events))
			if len(diffs) == 0 {
				R.OK(construct, c.FPos(f))
			} else {
				R.Bad(construct, c.FPos(f), describeSpec(spec), strings.Join(diffs, "; "))
			}
			cls := fmt.Sprintf("%s:%s:%d", mode, spec.Method, len(spec.Operands))
			if classes[cls] == 0 && len(classes) < 8 {
				R.Sample(map[string]interface{}{"rule": "C03.1", "mode": mode, "opcode": fmt.Sprintf("0x%02x", key),
					"extracted": describeSummary(s), "specification": describeSpec(spec)})
			}
			classes[cls]++
		}
	}
	R.Count("C03.1.behaviour_classes", len(classes))
	R.Exhaustive = true
}

func describeSpec(s opSpec) string {
	if s.Reserved {
		return "reserved: error, nothing read or delivered"
	}
	return fmt.Sprintf("%d x {read [%s]; deliver %s(%s)}; next=%s", s.Reps, strings.Join(s.Operands, ","), s.Method, describeArgs(s.Args), s.Next)
}

func describeArgs(as []argSpec) string {
	var out []string
	for _, a := range as {
		switch a.Kind {
		case argConstInt:
			out = append(out, fmt.Sprint(a.Int))
		case argConstBool:
			out = append(out, fmt.Sprint(a.Bool))
		case argOperand:
			out = append(out, fmt.Sprintf("op%d", a.K))
		case argFlagBit:
			out = append(out, fmt.Sprintf("op%d&%d!=0", a.K, 1<<a.Bit))
		}
	}
	return strings.Join(out, ",")
}

func describeSummary(s *opSummary) string {
	if s.Reserved {
		return "always fails with " + s.ErrConst
	}
	var kinds []string
	for _, o := range s.Operands {
		kinds = append(kinds, o.Kind)
	}
	var args []string
	if s.Deliver != nil {
		for _, a := range s.Deliver.Args[1:] {
			k := a.Key()
			if len(k) > 60 {
				k = k[:60] + "…"
			}
			args = append(args, k)
		}
	}
	return fmt.Sprintf("%d x {read [%s]; deliver %s(%s)}; next=%s; error leaves=%d (%s)", s.Reps, strings.Join(kinds, ","), s.Method, strings.Join(args, ", "), s.Next, s.ErrLeaves, s.ErrConst)
}
