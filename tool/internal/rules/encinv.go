package rules

import (
	"fmt"
	"go/types"
	"sort"

	"golang.org/x/tools/go/ssa"

	"ivgsa/internal/sym"
)

// encoderMethods returns the exported methods of *Encoder, sorted by name.
func (c *Ctx) encoderMethods(m *encModel) []*ssa.Function {
	mset := c.P.SSA.MethodSets.MethodSet(types.NewPointer(m.T))
	var methods []*ssa.Function
	for i := 0; i < mset.Len(); i++ {
		sel := mset.At(i)
		if !sel.Obj().Exported() {
			continue
		}
		if fn := c.P.SSA.MethodValue(sel); fn != nil && fn.Blocks != nil {
			methods = append(methods, fn)
		}
	}
	sort.Slice(methods, func(i, j int) bool { return methods[i].Name() < methods[j].Name() })
	return methods
}

// checkPendingInvariant decides the Encoder state invariant
//
//	Inv:  mode != drawing  =>  drawOp == 0      (nothing is pending outside a path)
//
// inductively: it holds for the zero value, and every exported method, started in any mode from a state satisfying
// Inv, leaves a state satisfying Inv on every return path. Obligations are reported under the rule in use.
func (c *Ctx) checkPendingInvariant(m *encModel) {
	R := c.R
	modeT := c.Named("encode", "mode")
	noErr := sym.Nil(types.Universe.Lookup("error").Type())
	mDrw := m.modes["modeDrawing"]
	byteT := types.Typ[types.Uint8]
	for _, fn := range c.encoderMethods(m) {
		for _, md := range []string{"modeInitial", "modeStyling", "modeDrawing"} {
			pre := u8(0)
			if m.modes[md] == mDrw {
				pre = sym.Atom("pending.drawOp", byteT)
			}
			run := m.run(fn, map[string]*sym.Term{"mode": modeConst(m.modes[md], modeT), "err": noErr, "drawOp": pre}, nil, func(h *encHooks) {
				for _, o := range []string{"Encode1", "Encode2", "Encode3Direct", "Encode4", "Encode3Indirect", "Is1", "Is2", "Is3"} {
					h.opaque[o] = true
				}
			})
			construct := fmt.Sprintf("encode.(*Encoder).%s#%s:nothing-pending-outside-a-path", fn.Name(), md)
			ok, n, detail := true, 0, ""
			eobj := run.in.ParamObj("e", m.T)
			for _, ev := range run.in.Events {
				if ev.Kind != "return" || ev.Frame != run.fr || ev.Mem == nil {
					continue
				}
				md2 := run.in.LoadAt(ev.Mem, eobj, m.fieldPath("mode"))
				op2 := run.in.LoadAt(ev.Mem, eobj, m.fieldPath("drawOp"))
				for _, lf := range sym.CasesUnder(guardLits(ev.Guard), sym.Tuple(md2, op2), 256) {
					n++
					mv, isC := lf.Val.Args[0].Int64()
					if !isC {
						ok, detail = false, "mode after the call: "+shortKey(lf.Val.Args[0])
						continue
					}
					if mv == mDrw {
						continue
					}
					if v, isC := lf.Val.Args[1].Int64(); !isC || v != 0 {
						ok, detail = false, fmt.Sprintf("returns at %s outside drawing mode with pending operation %s", c.Pos(ev.Site), shortKey(lf.Val.Args[1]))
					}
				}
			}
			if n == 0 {
				// methods that never return normally in this state are reported by C10
				continue
			}
			R.Check(ok, construct, c.FPos(fn), "on every return: drawing mode, or no pending operation", detail)
		}
	}
}
