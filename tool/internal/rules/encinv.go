package rules

import (
	"fmt"
	"go/types"
	"sort"

	"golang.org/x/tools/go/ssa"

	"ivgsa/internal/sym"
)

// encoderMethods returns the exported methods of *Encoder, sorted by name.
func (c *Ctx) encoderMethods(m *encModel) []*ssa.Function {
	mset := c.P.SSA.MethodSets.MethodSet(types.NewPointer(m.T))
	var methods []*ssa.Function
	for i := 0; i < mset.Len(); i++ {
		sel := mset.At(i)
		if !sel.Obj().Exported() {
			continue
		}
		if fn := c.P.SSA.MethodValue(sel); fn != nil && fn.Blocks != nil {
			methods = append(methods, fn)
		}
	}
	sort.Slice(methods, func(i, j int) bool { return methods[i].Name() < methods[j].Name() })
	return methods
}

// checkPendingInvariant decides the Encoder state invariant
//
//	Inv:  mode != drawing  =>  drawOp == 0      (nothing is pending outside a path)
//
// inductively: it holds for the zero value, and every exported method, started in any mode from a state satisfying
// Inv, leaves a state satisfying Inv on every return path. Obligations are reported under the rule in use.
func (c *Ctx) checkPendingInvariant(m *encModel) {
	R := c.R
	modeT := c.Named("encode", "mode")
	noErr := sym.Nil(types.Universe.Lookup("error").Type())
	mDrw := m.modes["modeDrawing"]
	byteT := types.Typ[types.Uint8]
	for _, fn := range c.encoderMethods(m) {
		for _, md := range []string{"modeInitial", "modeStyling", "modeDrawing"} {
			pre := u8(0)
			if m.modes[md] == mDrw {
				pre = sym.Atom("pending.drawOp", byteT)
			}
			run := m.run(fn, map[string]*sym.Term{"mode": modeConst(m.modes[md], modeT), "err": noErr, "drawOp": pre}, nil, func(h *encHooks) {
				for _, o := range []string{"Encode1", "Encode2", "Encode3Direct", "Encode4", "Encode3Indirect", "Is1", "Is2", "Is3"} {
					h.opaque[o] = true
				}
			})
			construct := fmt.Sprintf("encode.(*Encoder).%s#%s:nothing-pending-outside-a-path", fn.Name(), md)
			ok, n, detail := true, 0, ""
			eobj := run.in.ParamObj("e", m.T)
			for _, ev := range run.in.Events {
				if ev.Kind != "return" || ev.Frame != run.fr || ev.Mem == nil {
					continue
				}
				md2 := run.in.LoadAt(ev.Mem, eobj, m.fieldPath("mode"))
				op2 := run.in.LoadAt(ev.Mem, eobj, m.fieldPath("drawOp"))
				for _, lf := range sym.CasesUnder(guardLits(ev.Guard), sym.Tuple(md2, op2), 256) {
					n++
					mv, isC := lf.Val.Args[0].Int64()
					if !isC {
						ok, detail = false, "mode after the call: "+shortKey(lf.Val.Args[0])
						continue
					}
					if mv == mDrw {
						continue
					}
					if v, isC := lf.Val.Args[1].Int64(); !isC || v != 0 {
						ok, detail = false, fmt.Sprintf("returns at %s outside drawing mode with pending operation %s", c.Pos(ev.Site), shortKey(lf.Val.Args[1]))
					}
				}
			}
			if n == 0 {
				// methods that never return normally in this state are reported by C10
				continue
			}
			R.Check(ok, construct, c.FPos(fn), "on every return: drawing mode, or no pending operation", detail)
		}
	}
}

// checkResolutionLatch decides that a path's resolution is the value of the public HighResolutionCoordinates field
// when StartPath is called: the bytes StartPath writes (its own start point included) and the flag the rest of the
// path is quantised with depend on the public field and not on the private copy left by an earlier path; and no
// drawing method writes the private copy. Reported under the rule in use.
func (c *Ctx) checkResolutionLatch(m *encModel) {
	R := c.R
	sp := c.Method("encode", "Encoder", "StartPath", true)
	if sp == nil {
		R.Unknown("encode.(*Encoder).StartPath:resolution", "-", "StartPath not found")
		return
	}
	modeT := c.Named("encode", "mode")
	noErr := sym.Nil(types.Universe.Lookup("error").Type())
	pub := sym.Atom("public.hires", types.Typ[types.Bool])
	stale := sym.Atom("stale.hires", types.Typ[types.Bool])
	run := m.run(sp, map[string]*sym.Term{
		"mode": modeConst(m.modes["modeStyling"], modeT), "err": noErr,
		"HighResolutionCoordinates": pub, "highResolutionCoordinates": stale,
	}, map[string]*sym.Term{"adj": u8(0)}, nil)
	if run.mem == nil {
		R.Unknown("encode.(*Encoder).StartPath:resolution", c.FPos(sp), "StartPath does not return in styling mode")
		return
	}
	buf := run.field("buf")
	deps := run.in.Deps(buf)
	R.Check(!deps["stale.hires"] && !sym.Mentions(buf, stale.Key()), "encode.(*Encoder).StartPath:start-point-resolution", c.FPos(sp),
		"the bytes written do not depend on the resolution copy left by an earlier path", "the start point is quantised with the stale private flag")
	R.Check(deps["public.hires"] || sym.Mentions(buf, pub.Key()), "encode.(*Encoder).StartPath:start-point-uses-public-flag", c.FPos(sp),
		"the start point is quantised according to HighResolutionCoordinates", shortKey(buf))
	R.Check(sym.Eq(run.field("highResolutionCoordinates"), pub), "encode.(*Encoder).StartPath:latch", c.FPos(sp),
		"the private copy used for the rest of the path is the public flag", shortKey(run.field("highResolutionCoordinates")))
	// the drawing methods and the flush leave the private copy alone
	for _, name := range append(c.drawingMethodNames(), "flushDrawOps") {
		fn := c.Method("encode", "Encoder", name, true)
		if fn == nil {
			continue
		}
		r := m.run(fn, map[string]*sym.Term{
			"mode": modeConst(m.modes["modeDrawing"], modeT), "err": noErr,
			"HighResolutionCoordinates": pub, "highResolutionCoordinates": stale,
		}, nil, nil)
		if r.mem == nil {
			continue
		}
		R.Check(sym.Eq(r.field("highResolutionCoordinates"), stale), "encode.(*Encoder)."+name+":resolution-unchanged", c.FPos(fn),
			"the path's resolution is not changed inside the path", shortKey(r.field("highResolutionCoordinates")))
	}
}

// quantizedArg: for a call of the coordinate quantiser kept opaque, the coordinate it is applied to - its one
// float-typed argument, whether the quantiser is a method (e, x) or a function taking the resolution flag.
func quantizedArg(v *sym.Term) *sym.Term {
	if v == nil || v.Op != "call" || v.Name != "quantize" {
		return nil
	}
	var out *sym.Term
	for _, a := range v.Args {
		if a == nil || a.T == nil {
			continue
		}
		if b, ok := a.T.Underlying().(*types.Basic); ok && b.Info()&types.IsFloat != 0 {
			if out != nil {
				return nil
			}
			out = a
		}
	}
	if out == nil && len(v.Args) == 2 {
		return v.Args[1]
	}
	return out
}
