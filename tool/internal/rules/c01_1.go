package rules

import (
	"fmt"
	"go/constant"
	"go/types"
	"strings"

	"golang.org/x/tools/go/ssa"

	"ivgsa/internal/poly"
	"ivgsa/internal/sym"
)

func init() { register("C01", ruleC01_1) }

// drawingMethodNames lists the Destination methods that are legal only inside a path.
func (c *Ctx) drawingMethodNames() []string {
	var out []string
	for _, m := range c.destinationMethods() {
		if cl, ok := classify(m.Name()); ok && (cl == pcDraw || cl == pcEndPath) {
			out = append(out, m.Name())
		}
	}
	return out
}

func phiOfAtom(fr *sym.Frame, t *sym.Term) *ssa.Phi {
	for _, b := range fr.Fn.Blocks {
		for _, ins := range b.Instrs {
			phi, ok := ins.(*ssa.Phi)
			if !ok {
				break
			}
			if v := fr.Val(phi); v != nil && v.Key() == t.Key() && strings.HasSuffix(t.Key(), "#"+phi.Name()) {
				return phi
			}
		}
	}
	return nil
}

// phiEdges returns the values flowing into phi from outside the loop (init)
// and along back edges.
func phiEdges(fr *sym.Frame, phi *ssa.Phi) (init, back []*sym.Term) {
	b := phi.Block()
	for i, p := range b.Preds {
		if !fr.Executable(p.Index, b.Index) {
			continue
		}
		v := fr.EdgeVal(phi, i)
		if b.Dominates(p) {
			back = append(back, v)
		} else {
			init = append(init, v)
		}
	}
	return
}

// ruleC01_1 decides the drawing-table mirror and the run-length discipline:
// which letter each Encoder drawing method buffers and with which argument
// slots; how many arguments draw() buffers per letter and when it flushes;
// and, per letter, that the opcode byte and operand stream flushDrawOps writes
// for a run of n operations decode (per the extracted decoder table) to the
// same method repeated min(n, max) times with operands of the paired kinds
// wired to the same parameter positions.
func ruleC01_1(c *Ctx) {
	R := c.R
	R.Rule("C01.1", "drawing mirror: per drawing method, the buffered letter, slot wiring, opcode byte for every run length 1..max(+clamp), operand kinds/order per repetition and argument positions agree with the extracted decoder table", 150)
	R.Rule("C01.2", "run-length discipline: draw() buffers exactly the letter's argument count, flushes the pending run before a different letter and after Z/Y/y (Z also leaves drawing mode); flushDrawOps consumes the buffered arguments sequentially in chunks of min(n, max), and leaves no pending letter and no pending arguments", 60)
	m := c.newEncModel()
	decD := c.decSummaries(true)
	if !m.ok || decD == nil {
		return
	}
	modeT := c.Named("encode", "mode")
	noErr := sym.Nil(types.Universe.Lookup("error").Type())
	u8t := types.Typ[types.Uint8]
	f32 := types.Typ[types.Float32]
	drawFn := c.Method("encode", "Encoder", "draw", true)
	flushFn := c.Method("encode", "Encoder", "flushDrawOps", true)
	if drawFn == nil || flushFn == nil {
		return
	}
	// the letter table: read from the package's initialised memory, or - when the table has been turned into a
	// function - obtained by evaluating that function on the constant letter
	tblG := c.P.Global("encode", "drawOps")
	in0 := c.Interp()
	var tblObj *sym.Object
	var rowFn *ssa.Function
	var rowT *types.Struct
	fieldsOK := func(st *types.Struct) bool {
		have := map[string]bool{}
		for i := 0; i < st.NumFields(); i++ {
			have[st.Field(i).Name()] = true
		}
		return have["opcodeBase"] && have["maxRepCount"] && have["nArgs"]
	}
	if tblG != nil {
		tblObj = in0.GlobalObj(tblG)
		if arr, ok := tblG.Type().(*types.Pointer).Elem().Underlying().(*types.Array); ok {
			rowT, _ = arr.Elem().Underlying().(*types.Struct)
		}
	} else {
		for _, g := range c.P.AllFuncs() {
			if g.Pkg == nil || c.P.Rel(g.Pkg.Pkg) != "encode" || g.Blocks == nil || g.Parent() != nil || g.Signature.Recv() != nil {
				continue
			}
			sig := g.Signature
			if sig.Params().Len() != 1 || sig.Results().Len() != 1 {
				continue
			}
			if b, ok := sig.Params().At(0).Type().Underlying().(*types.Basic); !ok || b.Kind() != types.Uint8 {
				continue
			}
			if st, ok := sig.Results().At(0).Type().Underlying().(*types.Struct); ok && fieldsOK(st) {
				rowFn, rowT = g, st
			}
		}
	}
	if rowT == nil || !fieldsOK(rowT) || (tblG == nil && rowFn == nil) {
		R.Anchor("encode.drawOps (the per-letter table of opcode base, repeat limit and argument count, as a table or a function)")
		return
	}
	row := func(letter int64) (base, maxRep, nArgs int64, ok bool) {
		st := rowT
		fi := func(name string) int {
			for i := 0; i < st.NumFields(); i++ {
				if st.Field(i).Name() == name {
					return i
				}
			}
			return -1
		}
		var get func(f int) (int64, bool)
		if tblObj != nil {
			get = func(f int) (int64, bool) {
				return in0.LoadAt(in0.Global, tblObj, sym.Path{sym.I(letter), sym.F(f)}).Int64()
			}
		} else {
			inR := c.Interp()
			res, _, _ := inR.Run(rowFn, []*sym.Term{sym.Const(sym.Int(letter).C, u8t)}, nil)
			get = func(f int) (int64, bool) {
				if res == nil || f < 0 {
					return 0, false
				}
				if res.Op == "agg" && f < len(res.Args) {
					return res.Args[f].Int64()
				}
				if res.Op == "zero" {
					return 0, true
				}
				return sym.Field(res, f, st.Field(f).Type()).Int64()
			}
		}
		var o1, o2, o3 bool
		base, o1 = get(fi("opcodeBase"))
		maxRep, o2 = get(fi("maxRepCount"))
		nArgs, o3 = get(fi("nArgs"))
		return base, maxRep, nArgs, o1 && o2 && o3
	}

	// ---- step A: method -> letter and slot wiring ----
	type methodInfo struct {
		letter int64
		slots  []*sym.Term // arg0..arg5 handed to draw
		fn     *ssa.Function
	}
	infos := map[string]*methodInfo{}
	letters := map[int64]string{}
	for _, name := range c.drawingMethodNames() {
		fn := c.Method("encode", "Encoder", name, true)
		if fn == nil {
			continue
		}
		pos := c.FPos(fn)
		key := "encode.(*Encoder)." + name
		run := m.run(fn, map[string]*sym.Term{"mode": modeConst(m.modes["modeDrawing"], modeT), "err": noErr}, nil, func(h *encHooks) { h.opaque["draw"] = true })
		var calls []*sym.Event
		for _, ev := range run.in.Events {
			if ev.Kind == "opaquecall" && ev.Callee == "draw" {
				calls = append(calls, ev)
			}
		}
		R.Use("C01.1")
		if len(calls) != 1 || len(guardLits(calls[0].Guard)) != 0 || len(calls[0].Args) != 8 {
			R.Bad(key+"#draw", pos, "exactly one unconditional call of draw(letter, 6 slots)", fmt.Sprintf("%d calls", len(calls)))
			continue
		}
		l, ok := calls[0].Args[1].Int64()
		if !ok {
			R.Bad(key+"#letter", pos, "a constant letter", shortKey(calls[0].Args[1]))
			continue
		}
		if other, dup := letters[l]; dup {
			R.Bad(key+"#letter", pos, "a letter of its own", fmt.Sprintf("shares %q with %s", rune(l), other))
			continue
		}
		letters[l] = name
		infos[name] = &methodInfo{letter: l, slots: calls[0].Args[2:], fn: fn}
		R.OK(key+"#letter", pos, fmt.Sprintf("buffers %q", rune(l)))
	}
	R.Count("C01.1.letters", len(letters))

	// ---- step B: draw() keyed by letter and by the pending letter ----
	for name, mi := range infos {
		base, maxRep, nArgs, ok := row(mi.letter)
		key := fmt.Sprintf("encode.(*Encoder).draw#letter=%q", rune(mi.letter))
		pos := c.FPos(drawFn)
		R.Use("C01.2")
		if !ok || maxRep < 1 {
			R.Bad(key+":row", pos, "a drawOps row with a positive repeat limit", fmt.Sprintf("base=%d max=%d nArgs=%d ok=%v", base, maxRep, nArgs, ok))
			continue
		}
		other := int64('L')
		if mi.letter == other {
			other = 'Q'
		}
		isEnd := classifyMust(name) == pcEndPath
		isMove := strings.HasPrefix(name, "ClosePath") && !isEnd
		for _, pending := range []struct {
			label string
			val   int64
		}{{"same", mi.letter}, {"none", 0}, {"other", other}} {
			params := map[string]*sym.Term{"drawOp": u8(mi.letter)}
			for i := 0; i < 6; i++ {
				params[fmt.Sprintf("arg%d", i)] = sym.Atom(fmt.Sprintf("arg%d", i), f32)
			}
			fields := map[string]*sym.Term{"mode": modeConst(m.modes["modeDrawing"], modeT), "err": noErr, "drawOp": u8(pending.val)}
			run := m.run(drawFn, fields, params, func(h *encHooks) {
				h.opaque["flushDrawOps"] = true
				h.snap["flushDrawOps"] = []string{"drawOp", "drawArgs"}
			})
			k2 := key + ",pending=" + pending.label
			if run.mem == nil {
				R.Unknown(k2, pos, "draw does not return")
				continue
			}
			// appended arguments
			_, items := flattenBuf(run.field("drawArgs"))
			okArgs := int64(len(items)) == nArgs
			for i, it := range items {
				if it.Kind != "byte" || it.Val.Key() != fmt.Sprintf("$arg%d", i) {
					okArgs = false
				}
			}
			R.Check(okArgs, k2+":buffered", pos, fmt.Sprintf("buffers its first %d slots in order", nArgs), describeItems(items))
			// flushes: positions relative to the append of the arguments
			var flushBefore, flushAfter []*sym.Event
			appendSeq := -1
			for _, ev := range run.in.Events {
				if ev.Kind == "append" && len(ev.Args) >= 1 && strings.Contains(ev.Args[0].Key(), fmt.Sprintf("e.%d", fieldIndex(m.T, "drawArgs"))) {
					appendSeq = ev.Seq
				}
			}
			for _, ev := range run.in.Events {
				if ev.Kind == "opaquecall" && ev.Callee == "flushDrawOps" {
					if appendSeq < 0 || ev.Seq < appendSeq {
						flushBefore = append(flushBefore, ev)
					} else {
						flushAfter = append(flushAfter, ev)
					}
				}
			}
			if nArgs == 0 {
				// nothing is appended: every flush counts by whether the letter has been stored yet
				flushBefore, flushAfter = nil, nil
				for _, ev := range run.in.Events {
					if ev.Kind == "opaquecall" && ev.Callee == "flushDrawOps" {
						if v, ok := ev.Args[len(ev.Args)-2].Int64(); ok && v == mi.letter && pending.val != mi.letter {
							flushAfter = append(flushAfter, ev)
						} else if pending.val == mi.letter && len(flushAfter) == 0 && len(flushBefore) == 0 && false {
							flushBefore = append(flushBefore, ev)
						} else if v, ok := ev.Args[len(ev.Args)-2].Int64(); ok && v == pending.val && pending.val != mi.letter {
							flushBefore = append(flushBefore, ev)
						} else {
							flushAfter = append(flushAfter, ev)
						}
					}
				}
			}
			wantBefore := 0
			if pending.val != mi.letter {
				wantBefore = 1
			}
			okBefore := len(flushBefore) == wantBefore
			if okBefore && wantBefore == 1 {
				// the pending run is flushed while it is still the pending letter, unconditionally
				ev := flushBefore[0]
				v, isC := ev.Args[len(ev.Args)-2].Int64()
				okBefore = isC && v == pending.val && len(guardLits(ev.Guard)) == 0
			}
			R.Check(okBefore, k2+":flush-before", pos, fmt.Sprintf("%d flush of the pending run before the new letter is stored", wantBefore), fmt.Sprintf("%d", len(flushBefore)))
			wantAfter := 0
			if isEnd || isMove {
				wantAfter = 1
			}
			okAfter := len(flushAfter) == wantAfter
			if okAfter && wantAfter == 1 {
				ev := flushAfter[0]
				v, isC := ev.Args[len(ev.Args)-2].Int64()
				okAfter = isC && v == mi.letter && len(guardLits(ev.Guard)) == 0
			}
			R.Check(okAfter, k2+":flush-after", pos, fmt.Sprintf("%d immediate flush of this operation", wantAfter), fmt.Sprintf("%d", len(flushAfter)))
			// stored letter and mode
			dl, isC := run.field("drawOp").Int64()
			R.Check(isC && dl == mi.letter, k2+":letter", pos, "pending letter becomes this letter", shortKey(run.field("drawOp")))
			pm, _ := run.field("mode").Int64()
			wantMode := m.modes["modeDrawing"]
			if isEnd {
				wantMode = m.modes["modeStyling"]
			}
			R.Check(pm == wantMode, k2+":mode", pos, map[bool]string{true: "leaves drawing mode", false: "stays in drawing mode"}[isEnd], shortKey(run.field("mode")))
		}
	}

	// ---- step C: flushDrawOps keyed by letter ----
	for name, mi := range infos {
		base, maxRep, nArgs, ok := row(mi.letter)
		if !ok || maxRep < 1 {
			continue
		}
		key := fmt.Sprintf("encode.(*Encoder).flushDrawOps#letter=%q", rune(mi.letter))
		pos := c.FPos(flushFn)
		fields := map[string]*sym.Term{"mode": modeConst(m.modes["modeDrawing"], modeT), "err": noErr, "drawOp": sym.Const(sym.Int(mi.letter).C, u8t)}
		run := m.run(flushFn, fields, nil, func(h *encHooks) { h.opaque["quantize"] = true })
		if run.mem == nil {
			R.Use("C01.1")
			R.Unknown(key, pos, "flushDrawOps does not return")
			continue
		}
		// post state
		R.Use("C01.2")
		dl, isC := run.field("drawOp").Int64()
		R.Check(isC && dl == 0, key+":post.letter", pos, "no pending letter", shortKey(run.field("drawOp")))
		da := run.field("drawArgs")
		okDA := da.Op == "slice" && sym.Len(da).Key() == "0"
		R.Check(okDA, key+":post.args", pos, "no pending arguments (drawArgs[:0])", shortKey(da))

		var appends, encodes []*sym.Event
		bufIdx := fmt.Sprintf("e|.%d", fieldIndex(m.T, "buf"))
		for _, ev := range run.in.Events {
			switch ev.Kind {
			case "append":
				appends = append(appends, ev)
			case "encode":
				encodes = append(encodes, ev)
			case "appendslice":
				R.Use("C01.1")
				R.Bad(key+":raw-bytes", pos, "operands written by the number writers", "a raw byte slice is appended")
			}
		}
		_ = bufIdx
		R.Use("C01.1")
		if nArgs == 0 {
			// a single opcode byte, no operands, unconditional
			okZ := len(appends) == 1 && len(encodes) == 0 && len(appends[0].Args) == 2 && len(appends[0].Loops) == 0 && len(guardLits(appends[0].Guard)) == 0
			var ob int64 = -1
			if okZ {
				ob, okZ = appends[0].Args[1].Int64()
			}
			if !okZ {
				R.Bad(key+":opcode", pos, "one unconditional opcode byte", fmt.Sprintf("%d appends, %d operand writes", len(appends), len(encodes)))
				continue
			}
			d := decD[ob&0xff]
			okD := !d.Reserved && len(d.Problems) == 0 && d.Method == name && len(d.Operands) == 0 && d.Reps == 1 && ob == base
			R.Check(okD, key+":opcode", pos, fmt.Sprintf("opcode 0x%02x decodes to %s without operands", ob, name), describeSummary(d))
			continue
		}
		if len(appends) != 1 || len(appends[0].Args) != 2 || len(appends[0].Loops) != 1 || len(encodes) == 0 {
			R.Bad(key+":shape", pos, "one opcode byte per chunk (in one loop) followed by operand writes", fmt.Sprintf("%d appends, %d operand writes", len(appends), len(encodes)))
			continue
		}
		ap := appends[0]
		outer := ap.Loops[0]
		cond, _, okc := outer.Frame.HeaderCond(outer.Header)
		if !okc || cond.Op != "bin" || cond.Name != "<" || cond.Args[0].Key() != "0" || cond.Args[1].Op != "atom" {
			R.Unknown(key+":loop", pos, "outer loop is not 'for n > 0'")
			continue
		}
		nAtom := cond.Args[1]
		opcode := ap.Args[1]
		// operand writes per inner iteration and the inner trip count
		perIter := len(encodes)
		var tripT *sym.Term
		sameLoop := true
		for _, ev := range encodes {
			if len(ev.Loops) != 2 || ev.Loops[0].Header != outer.Header || ev.Loops[1].Header != encodes[0].Loops[1].Header {
				sameLoop = false
			}
		}
		if !sameLoop {
			R.Unknown(key+":loop", pos, "operand writes are not in one inner loop")
			continue
		}
		li, okl := encodes[0].Loops[1].Frame.Loop(encodes[0].Loops[1].Header)
		okTrip := false
		if okl {
			tripT, okTrip = innerTrip(li)
		}
		if !okl || !okTrip {
			R.Unknown(key+":loop", pos, "inner loop is not a counted loop with unit step (for j := count; j > 0; j-- / for j := 0; j < count; j++ / range over a slice)")
			continue
		}
		// kinds per iteration
		var wkinds []string
		for _, ev := range encodes {
			wkinds = append(wkinds, writerPairs[ev.Callee])
		}
		// index discipline: operand t of an iteration reads drawArgs[i+t]
		iAtom, offsets, why := argIndexes(encodes)
		okIdx := why == ""
		if !okIdx && perIter == 1 {
			// the same discipline written as a range over the window drawArgs[i:end] followed by i = end
			if lo, okR := rangeWindow(encodes[0], li); okR {
				why = ""
				if op, of := phiIn(run, lo); op != nil {
					oi, ob := phiEdges(of, op)
					switch {
					case len(oi) != 1 || oi[0].Key() != "0":
						why = "the argument index does not start at 0"
					case len(ob) != 1 || !sameInt(ob[0], sym.Bin(tokADD, lo, li.Bound, types.Typ[types.Int])):
						why = "the next chunk does not start where this window ends: " + argKeys(ob)
					}
				} else {
					why = "the window does not start at a chunk counter"
				}
				R.Use("C01.2")
				R.Check(why == "", key+":sequential", pos, "operands are read from the buffered arguments sequentially, without gaps or overlaps", why)
				goto counted
			}
		}
		if okIdx {
			for t, off := range offsets {
				if off != int64(t) {
					okIdx, why = false, fmt.Sprintf("operand %d reads slot %d", t, off)
				}
			}
		}
		if okIdx {
			if phi, pf := phiIn(run, iAtom); phi != nil {
				init, back := phiEdges(pf, phi)
				if len(back) == 0 {
					why = fmt.Sprintf("phi %s in block %d preds=%d init=%s", phi.Name(), phi.Block().Index, len(phi.Block().Preds), argKeys(init))
				}
				wantBack := sym.Bin(tokADD, iAtom, sym.Int(int64(perIter)), types.Typ[types.Int])
				if len(back) != 1 || !sym.Eq(back[0], wantBack) {
					okIdx, why = false, "the argument index does not advance by "+fmt.Sprint(perIter)+" per iteration: "+argKeys(back)+" "+why
				}
				// it starts where the previous chunk stopped, and at 0 for the first chunk
				if okIdx && len(init) == 1 {
					if op, of := phiIn(run, init[0]); op != nil {
						oi, ob := phiEdges(of, op)
						if len(oi) != 1 || oi[0].Key() != "0" || len(ob) != 1 || !sym.Eq(ob[0], iAtom) {
							okIdx, why = false, "the argument index does not continue across chunks from 0"
						}
					} else if init[0].Key() != "0" {
						okIdx, why = false, "the argument index does not start at 0"
					}
				}
			} else {
				okIdx, why = false, "argument index is not a loop counter"
			}
		}
		R.Use("C01.2")
		R.Check(okIdx, key+":sequential", pos, "operands are read from the buffered arguments sequentially, without gaps or overlaps", why)
	counted:
		// n counts whole operations and decreases by the chunk size
		if phi, pf := phiIn(run, nAtom); phi != nil {
			init, back := phiEdges(pf, phi)
			// the whole length counts: conversions that cannot change it (widening) are looked through, a narrowing one
			// (a run of 256 arguments counted in a byte) is not
			okN := len(init) == 1
			if okN {
				q := stripIntConv(init[0])
				okN = q.Op == "bin" && q.Name == "/" && stripIntConv(q.Args[1]).Key() == fmt.Sprint(nArgs)
				if okN {
					num := stripIntConv(q.Args[0])
					okN = num.Op == "len" && strings.Contains(num.Key(), fmt.Sprintf("param:e.%d", fieldIndex(m.T, "drawArgs")))
				}
			}
			R.Check(okN, key+":count", pos, fmt.Sprintf("n = len(drawArgs)/%d", nArgs), shortKey(init[0]))
			// chunk size m: n' = n - m
			okStep := len(back) == 1 && back[0].Op == "bin" && back[0].Name == "-" && sym.Eq(back[0].Args[0], nAtom)
			var mT *sym.Term
			if okStep {
				mT = back[0].Args[1]
			}
			R.Check(okStep, key+":remaining", pos, "remaining = n - chunk", shortKey(back[0]))
			if mT != nil {
				// for every n the chunk is min(n, max), the opcode is base+chunk-1 and the operand count matches
				R.Use("C01.1")
				leaves := sym.DeepCases(sym.Tuple(opcode, tripT, mT), 16)
				if leaves == nil || len(leaves) == 0 {
					R.Unknown(key+":chunks", pos, "too many cases")
					continue
				}
				covered := map[int64]bool{}
				for _, lf := range leaves {
					var ks []int64
					if sym.Mentions(lf.Val, nAtom.Key()) {
						// n is bounded above by a condition not(C < n)
						ub := int64(-1)
						for _, cd := range lf.Conds {
							if cd.Op == "not" && cd.Args[0].Op == "bin" && cd.Args[0].Name == "<" && sym.Eq(cd.Args[0].Args[1], nAtom) {
								if v, ok := cd.Args[0].Args[0].Int64(); ok {
									ub = v
								}
							}
						}
						if ub < 1 || ub > 64 {
							R.Unknown(key+":chunks", pos, "run length is not bounded in the unclamped case: "+condKey(lf.Conds))
							continue
						}
						for k := int64(1); k <= ub; k++ {
							ks = append(ks, k)
						}
					} else {
						// clamped case: holds for every n above the limit; one representative
						lb := int64(-1)
						for _, cd := range lf.Conds {
							if cd.Op == "bin" && cd.Name == "<" && sym.Eq(cd.Args[1], nAtom) {
								if v, ok := cd.Args[0].Int64(); ok {
									lb = v
								}
							}
						}
						if lb < 0 {
							R.Unknown(key+":chunks", pos, "clamped case without a lower bound: "+condKey(lf.Conds))
							continue
						}
						ks = []int64{lb + 1}
					}
					for _, k := range ks {
						sub := func(t *sym.Term) (int64, bool) {
							return sym.Subst(t, nAtom, sym.Int(k)).Int64()
						}
						ob, ok1 := sub(lf.Val.Args[0])
						trip, ok2 := sub(lf.Val.Args[1])
						chunk, ok3 := sub(lf.Val.Args[2])
						ck := fmt.Sprintf("%s:n=%d", key, k)
						if !ok1 || !ok2 || !ok3 {
							R.Unknown(ck, pos, "opcode/operand count/chunk do not fold")
							continue
						}
						wantChunk := k
						if wantChunk > maxRep {
							wantChunk = maxRep
						}
						d := decD[ob&0xff]
						var diffs []string
						if chunk != wantChunk {
							diffs = append(diffs, fmt.Sprintf("chunk %d, want min(n,%d)=%d", chunk, maxRep, wantChunk))
						}
						if d.Reserved || len(d.Problems) > 0 {
							diffs = append(diffs, fmt.Sprintf("opcode 0x%02x is reserved or undecided in the decoder", ob))
						} else {
							if d.Method != name {
								diffs = append(diffs, fmt.Sprintf("opcode 0x%02x decodes to %s", ob, d.Method))
							}
							if d.Reps != chunk {
								diffs = append(diffs, fmt.Sprintf("opcode 0x%02x repeats %d times, %d operations were written", ob, d.Reps, chunk))
							}
							var dk []string
							for _, o := range d.Operands {
								dk = append(dk, o.Kind)
							}
							// operands written for the chunk: trip iterations of wkinds
							if int64(len(dk))*d.Reps != trip*int64(perIter) {
								diffs = append(diffs, fmt.Sprintf("%d operands written, decoder reads %d", trip*int64(perIter), int64(len(dk))*d.Reps))
							} else {
								for t := 0; t < len(dk); t++ {
									if dk[t] != wkinds[t%perIter] {
										diffs = append(diffs, fmt.Sprintf("operand %d: written as %s, read as %s", t, wkinds[t%perIter], dk[t]))
										break
									}
								}
							}
							// wiring: decoder argument q carries operand t; encoder slot t comes from parameter q
							if d.Deliver != nil && d.Method == name && len(diffs) == 0 {
								diffs = append(diffs, wiringDiffs(d, mi.slots, mi.fn)...)
							}
						}
						covered[k] = true
						if len(diffs) == 0 {
							R.OK(ck, pos, fmt.Sprintf("opcode 0x%02x", ob))
						} else {
							R.Bad(ck, pos, "decoder mirrors the encoder", strings.Join(diffs, "; "))
						}
					}
				}
				for k := int64(1); k <= maxRep+1; k++ {
					if !covered[k] {
						R.Bad(fmt.Sprintf("%s:n=%d", key, k), pos, "every run length is covered by a case", "uncovered")
					}
				}
			}
		} else {
			R.Unknown(key+":count", pos, "run counter is not a loop-carried value")
		}
	}
	R.Exhaustive = true
}

func classifyMust(name string) protoClass {
	cl, _ := classify(name)
	return cl
}

// argIndexes extracts, for the operand writes of one inner iteration, the
// common index atom and each write's constant offset from it.
func argIndexes(encodes []*sym.Event) (*sym.Term, []int64, string) {
	var atom *sym.Term
	var offs []int64
	for _, ev := range encodes {
		v := ev.Args[1]
		// unwrap quantize(e, x), uint32(x)
		for {
			if q := quantizedArg(v); q != nil {
				v = q
				continue
			}
			if v.Op == "conv" {
				v = v.Args[0]
				continue
			}
			break
		}
		if v.Op != "index" {
			return nil, nil, "an operand is not read from the argument buffer: " + shortKey(ev.Args[1])
		}
		idx := v.Args[1]
		off := int64(0)
		if idx.Op == "bin" && idx.Name == "+" {
			if o, ok := idx.Args[1].Int64(); ok {
				off, idx = o, idx.Args[0]
			}
		}
		if idx.Op != "atom" {
			return nil, nil, "argument index is not counter+offset: " + shortKey(v.Args[1])
		}
		if atom == nil {
			atom = idx
		} else if !sym.Eq(atom, idx) {
			return nil, nil, "operands of one iteration use different counters"
		}
		offs = append(offs, off)
	}
	return atom, offs, ""
}

// wiringDiffs checks that the decoder delivers operand t at the parameter
// position from which the Encoder method fills slot t (flags: the bit each
// boolean parameter sets).
func wiringDiffs(d *opSummary, slots []*sym.Term, fn *ssa.Function) []string {
	var diffs []string
	args := d.Deliver.Args[1:]
	for q, a := range args {
		if q+1 >= len(fn.Params) {
			diffs = append(diffs, "decoder delivers more arguments than the method has")
			break
		}
		pname := fn.Params[q+1].Name()
		atoms := valAtomsIn(a)
		if len(atoms) != 1 {
			diffs = append(diffs, fmt.Sprintf("argument %d is not one operand", q))
			continue
		}
		// which operand?
		t := -1
		if idx, why := d.argOperandIndex(a); idx >= 0 {
			t = idx
		} else {
			// a flag bit of an operand
			for oi, o := range d.Operands {
				if eventValAtom(o.Ev) == atoms[0] && o.Index == 0 {
					t = oi
				}
			}
			if t < 0 {
				diffs = append(diffs, fmt.Sprintf("argument %d: %s", q, why))
				continue
			}
			// the encoder slot must set, for this boolean parameter, exactly the bit the decoder tests
			if t >= len(slots) {
				diffs = append(diffs, "operand beyond the slots")
				continue
			}
			nAtomName := d.Operands[t].Ev.Result.Args[1].Name
			for _, pv := range []bool{false, true} {
				// the slot value with this parameter = pv and every other boolean parameter false
				sv := slots[t]
				for _, p := range fn.Params {
					if b, ok := p.Type().Underlying().(*types.Basic); ok && b.Info()&types.IsBoolean != 0 {
						val := sym.False
						if p.Name() == pname && pv {
							val = sym.True
						}
						sv = sym.Subst(sv, sym.Atom("param:"+p.Name(), nil), val)
					}
				}
				iv, ok := foldFloatInt(sv)
				if !ok {
					diffs = append(diffs, fmt.Sprintf("flags slot does not fold for %s=%v: %s", pname, pv, shortKey(sv)))
					break
				}
				got := sym.Subst(a, sym.Atom(atoms[0], nil), u32(iv))
				got = sym.Subst(got, sym.Atom(nAtomName, nil), sym.Int(1))
				gb, okb := got.BoolVal()
				if !okb || gb != pv {
					diffs = append(diffs, fmt.Sprintf("parameter %s=%v is written as flags=%d, which the decoder delivers as %s", pname, pv, iv, shortKey(got)))
				}
			}
			continue
		}
		if t >= len(slots) || !valueFromParam(slots[t], pname) {
			got := "<none>"
			if t < len(slots) {
				got = shortKey(slots[t])
			}
			diffs = append(diffs, fmt.Sprintf("operand %d is delivered as parameter %s but slot %d is filled from %s", t, pname, t, got))
		}
	}
	return diffs
}

// foldFloatInt folds a constant numeric term to an integer.
func foldFloatInt(t *sym.Term) (int64, bool) {
	for t.Op == "conv" {
		t = t.Args[0]
	}
	if v, ok := t.Int64(); ok {
		return v, true
	}
	if t.IsConst() && t.C != nil && t.C.Kind() == constant.Float {
		if i := constant.ToInt(t.C); i.Kind() == constant.Int {
			if v, ok := constant.Int64Val(i); ok {
				return v, true
			}
		}
	}
	return 0, false
}

// innerTrip returns the trip count of a unit-step counted loop as a term.
func innerTrip(li *sym.LoopInfo) (*sym.Term, bool) {
	switch {
	case li.Step == -1 && li.Op.String() == ">" && li.Bound.Key() == "0" && li.Offset == 0:
		return li.Init, true
	case li.Step == 1 && li.Op.String() == "<":
		if i0, ok := li.Init.Int64(); ok {
			if i0+li.Offset == 0 {
				return li.Bound, true
			}
			return sym.Bin(tokSUB, li.Bound, sym.Int(i0+li.Offset), types.Typ[types.Int]), true
		}
	}
	return nil, false
}

// rangeWindow recognises an operand read as element j of a window of the argument buffer that starts at the chunk
// counter lo, j being the index of the loop (one operand per iteration, starting at 0): base[lo+j], or
// base[lo:hi][j] before simplification. It returns lo; the window's length is the loop's bound.
func rangeWindow(ev *sym.Event, li *sym.LoopInfo) (lo *sym.Term, ok bool) {
	v := ev.Args[1]
	for {
		if q := quantizedArg(v); q != nil {
			v = q
			continue
		}
		if v.Op == "conv" {
			v = v.Args[0]
			continue
		}
		break
	}
	if i0, isC := li.Init.Int64(); !isC || i0+li.Offset != 0 || li.Step != 1 || li.Op.String() != "<" {
		return nil, false
	}
	if v.Op != "index" {
		return nil, false
	}
	idx := v.Args[1]
	if idx.Op == "bin" && idx.Name == "+" {
		a, b := idx.Args[0], idx.Args[1]
		if sym.Eq(b, li.IndexVal) && a.Op == "atom" {
			return a, true
		}
		if sym.Eq(a, li.IndexVal) && b.Op == "atom" {
			return b, true
		}
	}
	return nil, false
}

// sameInt decides a == b for integer terms by polynomial normal form (gated joins kept as atoms).
func sameInt(a, b *sym.Term) bool {
	env := poly.NewEnv()
	env.IteAsAtom = true
	x, ok1 := env.One(a)
	y, ok2 := env.One(b)
	return ok1 && ok2 && x.Equal(y)
}

// phiIn finds the phi an atom stands for, in the root frame of the run or in any frame inlined into it, and returns
// it together with that frame.
func phiIn(run *encRun, atom *sym.Term) (*ssa.Phi, *sym.Frame) {
	if atom == nil || atom.Op != "atom" {
		return nil, nil
	}
	for _, f := range append([]*sym.Frame{run.fr}, collectFrames(run.in.Events)...) {
		if !strings.HasPrefix(atom.Name, "phi#"+f.ID+"#") {
			continue
		}
		if phi := phiOfAtom(f, atom); phi != nil {
			return phi, f
		}
	}
	return nil, nil
}
