package rules

import (
	"fmt"
	"os"
	"regexp"
	"strings"

	"golang.org/x/tools/go/ssa"

	"ivgsa/internal/cfgx"
	"ivgsa/internal/sym"
)

func init() { register("C01", ruleC01_4); register("C13", ruleC01_4); register("C17", ruleC01_4) }

// ruleC01_4: framing of the metadata chunks on the writer's side, the mirror of
// C13.4 (the reader accepts a chunk only if the bytes consumed equal the
// declared length). Read off the events of Encoder.Reset: every chunk is built
// in the scratch buffer starting from length 0 with its identifier first, and
// is appended to the output whole, immediately after a natural number that is
// the length of exactly that scratch buffer value.
func ruleC01_4(c *Ctx) {
	R := c.R
	R.Rule("C01.4", "metadata framing, writer side: each chunk is built in the scratch buffer from length 0 (the identifier is written into an empty buffer), and is appended to the output whole right after encodeNatural(len(chunk)) of that same buffer value; the chunk count written equals the number of chunks appended (per combination of default / custom viewBox and palette)", 5)
	m := c.newEncModel()
	reset := c.Method("encode", "Encoder", "Reset", true)
	if !m.ok || reset == nil {
		R.Unknown("encode.(*Encoder).Reset#chunks", "-", "Encoder.Reset not found")
		return
	}
	pos := c.FPos(reset)
	run := m.run(reset, nil, nil, func(h *encHooks) {
		for _, o := range []string{"Is1", "Is2", "Is3", "Encode1", "Encode2"} {
			h.opaque[o] = true
		}
	})
	bufI, altI := fieldIndex(m.T, "buf"), fieldIndex(m.T, "altBuf")
	isField := func(ptr *sym.Term, idx int) bool {
		return ptr != nil && ptr.Op == "ptr" && ptr.Obj != nil && strings.HasSuffix(ptr.Obj.ID, "param:e") && ptr.Path.String() == fmt.Sprintf(".%d", idx)
	}
	// the scratch buffer: whatever buffer variable other than the output the chunk is assembled in (a field, a local)
	isScratch := func(ptr *sym.Term) bool { return ptr != nil && ptr.Op == "ptr" && !isField(ptr, bufI) }
	type chunk struct {
		start  *sym.Event // identifier written into the scratch buffer
		length *sym.Event // encodeNatural(len(scratch)) into the output
		app    *sym.Event // append of the scratch buffer to the output
	}
	var chunks []*chunk
	var count *sym.Event
	var starts, lengths, apps []*sym.Event
	for _, ev := range run.in.Events {
		if ev.Site == nil {
			continue
		}
		switch ev.Kind {
		case "encode":
			if ev.Callee == "encodeNatural" && isScratch(ev.Args[0]) && ev.Args[1] != nil && ev.Args[1].IsConst() && len(ev.Loops) == 0 {
				starts = append(starts, ev)
			}
			if ev.Callee == "encodeNatural" && isField(ev.Args[0], bufI) {
				lengths = append(lengths, ev)
			}
		case "appendslice":
			if len(ev.Args) == 2 {
				if _, isStr := ev.Args[1].StringVal(); !isStr {
					apps = append(apps, ev)
				}
			}
		}
	}
	// events are recorded in evaluation order, which is not program order across fixpoint passes: pair them by
	// dominance of their instructions instead
	nearestDominating := func(cands []*sym.Event, at *sym.Event) *sym.Event {
		var best *sym.Event
		for _, cd := range cands {
			if cd == at || !evDominates(cd, at) {
				continue
			}
			if best == nil || evDominates(best, cd) {
				best = cd
			}
		}
		return best
	}
	for _, st := range starts {
		chunks = append(chunks, &chunk{start: st})
	}
	for _, ap := range apps {
		st := nearestDominating(starts, ap)
		for _, ch := range chunks {
			if ch.start == st && ch.app == nil {
				ch.app = ap
				ch.length = nearestDominating(lengths, ap)
			}
		}
	}
	// the chunk count is the write of a natural to the output that dominates every chunk
	for _, ln := range lengths {
		all := len(chunks) > 0
		for _, ch := range chunks {
			if !evDominates(ln, ch.start) {
				all = false
			}
		}
		if all {
			count = ln
		}
	}
	if os.Getenv("IVGSA_DEBUG") != "" {
		for _, ch := range chunks {
			fmt.Fprintln(os.Stderr, "chunk", shortKey(ch.start.Args[1]), "app:", ch.app != nil, "len:", ch.length != nil, "old:", ch.start.Args[2].Key())
			if ch.app != nil {
				fmt.Fprintln(os.Stderr, "   app guard", shortKey(ch.app.Guard))
			}
		}
		fmt.Fprintln(os.Stderr, "apps", len(apps), "starts", len(starts), "lengths", len(lengths))
	}
	if len(chunks) < 2 {
		R.Unknown("encode.(*Encoder).Reset#chunks", pos, fmt.Sprintf("%d metadata chunks recognised, at least 2 expected (viewBox, suggested palette)", len(chunks)))
		return
	}
	for i, ch := range chunks {
		mid, _ := ch.start.Args[1].Int64()
		key := fmt.Sprintf("encode.(*Encoder).Reset#chunk:mid=%d", mid)
		_ = i
		old := ch.start.Args[2]
		empty := old != nil && sym.Len(old).Key() == "0"
		R.Check(empty, key+":from-empty", c.Pos(ch.start.Site), "the chunk's identifier is written into an empty scratch buffer", "scratch buffer before the identifier: "+shortKey(old))
		// ... whose storage is not the output's: writing the length into the output must not be able to overwrite the chunk
		R.Check(old != nil && !mentionsEncField(old, bufI), key+":scratch-disjoint", c.Pos(ch.start.Site), "the scratch buffer shares no storage with the output buffer", "the scratch buffer is carved out of the output buffer: "+shortKey(old))
		okApp := ch.app != nil && ch.length != nil
		detail := "no append of the scratch buffer / no length before it"
		if okApp {
			scratch := ch.app.Args[1]
			ln := stripIntConv(stripElem(ch.length.Args[1]))
			okApp = sym.Eq(ch.length.Guard, ch.app.Guard)
			// the length written is the length of what is appended, on every path through the chunk's construction
			leaves := sym.DeepCases(sym.Tuple(ln, scratch), 64)
			if leaves == nil {
				okApp = false
			}
			for _, lf := range leaves {
				if sym.CondsContradict(lf.Conds) {
					continue
				}
				if stripIntConv(stripElem(lf.Val.Args[0])).Key() != sym.Len(lf.Val.Args[1]).Key() {
					okApp = false
				}
			}
			detail = fmt.Sprintf("length %s, appended %s", shortKey(ch.length.Args[1]), shortKey(scratch))
			// nothing else is written to the output between the length and the chunk
			for _, ev := range run.in.Events {
				if ev.Site == nil || ev == ch.length || ev == ch.app {
					continue
				}
				if (ev.Kind == "append" || ev.Kind == "appendslice" || ev.Kind == "encode") && len(ev.Args) > 0 && (isField(ev.Args[0], bufI) || ev.Kind != "encode") {
					between := evDominates(ch.length, ev) && evDominates(ev, ch.app)
					writesOut := ev.Kind == "encode" && isField(ev.Args[0], bufI)
					if ev.Kind != "encode" {
						// an append whose result is stored into the output buffer: its base is the output
						writesOut = mentionsEncField(ev.Args[0], bufI) && !mentionsEncField(ev.Args[0], altI)
					}
					if between && writesOut {
						okApp = false
						detail = "something is written to the output between the length and the chunk"
					}
				}
			}
		}
		R.Check(okApp, key+":length-then-chunk", pos, "encodeNatural(len(chunk)) immediately followed by the chunk itself, under the same condition", detail)
	}
	// the chunk count: one per chunk whose append is executed
	if count != nil {
		want := sym.Int(0)
		var wantT *sym.Term = want
		for _, ch := range chunks {
			if ch.app == nil {
				continue
			}
			// the condition under which the chunk is appended, without the exit conditions of the loops that built it
			// (lifted to Reset's own frame when the chunk is written by a helper)
			appSite := liftTo(ch.app, run.fr)
			var g *sym.Term
			if appSite != nil {
				g = run.fr.EquivalentReach(appSite.Block().Index)
			}
			if g == nil {
				g = ch.app.Guard
			}
			wantT = sym.Bin(tokADD, wantT, sym.Ite(g, sym.Int(1), sym.Int(0)), nil)
		}
		got := stripIntConv(stripElem(count.Args[1]))
		ok := true
		for _, lf := range sym.DeepCases(sym.Tuple(got, wantT), 64) {
			if sym.CondsContradict(lf.Conds) {
				continue
			}
			a, ok1 := lf.Val.Args[0].Int64()
			b, ok2 := lf.Val.Args[1].Int64()
			if !ok1 || !ok2 || a != b {
				ok = false
				if os.Getenv("IVGSA_DEBUG") != "" {
					fmt.Fprintln(os.Stderr, "chunk-count leaf", shortKey(lf.Val), condKey(lf.Conds))
				}
			}
		}
		R.Check(ok, "encode.(*Encoder).Reset#chunk-count", c.Pos(count.Site), "the count written is the number of chunks that follow, in every combination", shortKey(got))
	} else {
		R.Unknown("encode.(*Encoder).Reset#chunk-count", pos, "no chunk count written")
	}
}

// liftTo returns the instruction of frame f through which the event happens: its own site when it belongs to f,
// else the call site in f of the (transitively) inlined callee it belongs to; nil if f is not an ancestor.
func liftTo(ev *sym.Event, f *sym.Frame) ssa.Instruction {
	site := ev.Site
	for fr := ev.Frame; fr != nil; fr = fr.Parent {
		if fr == f {
			return site
		}
		site = fr.Site
	}
	return nil
}

// evDominates: event a's instruction dominates event b's, compared in their deepest common frame.
func evDominates(a, b *sym.Event) bool {
	anc := map[*sym.Frame]bool{}
	for f := a.Frame; f != nil; f = f.Parent {
		anc[f] = true
	}
	for f := b.Frame; f != nil; f = f.Parent {
		if anc[f] {
			sa, sb := liftTo(a, f), liftTo(b, f)
			if sa == nil || sb == nil || sa == sb {
				return false
			}
			return cfgx.InstrDominates(sa, sb)
		}
	}
	return false
}


// mentionsEncField: the term is built from the value of field number idx of the Encoder (its initial value or its
// value at a loop head / join).
func mentionsEncField(t *sym.Term, idx int) bool {
	if idx < 0 {
		return false
	}
	re := regexp.MustCompile(fmt.Sprintf(`param:e\|?\.%d($|[^0-9])`, idx))
	found := false
	sym.Walk(t, func(x *sym.Term) bool {
		if x.Op == "atom" && re.MatchString(x.Name) {
			found = true
		}
		return !found
	})
	return found
}
