package rules

// Rules evaluated under more than one property. A property's statement often rests on a clause that another property
// owns (the round trip needs every number and colour form to be an inverse pair; the grammar includes the metadata
// chunks; "the spread given is the one rendered" needs the spread's clamp). The owning rule is evaluated again, by
// reference, under the property that relies on it, so that each check alone reports a change that breaks its
// property - the verdicts agree by construction, only the evidence is listed twice.

func only(c *Ctx, f RuleFunc, ids ...string) {
	c.R.Only(ids...)
	f(c)
	c.R.Only()
}

func init() {
	// C01 encode->decode round trip: the number forms (writer against reader), the 4-byte form, the colour forms
	register("C01", func(c *Ctx) {
		only(c, ruleC08_2, "C08.2")
		only(c, ruleC08_5, "C08.5")
		only(c, ruleC09_2, "C09.2")
	})
	// C03 the decoder implements the grammar: the metadata chunks are part of it
	register("C03", func(c *Ctx) { only(c, ruleC13, "C13.2", "C13.3", "C13.4") })
	// C04 the register machine: the gradient matrix lives in the six number registers below NBASE
	register("C04", func(c *Ctx) { only(c, ruleC19, "C19.2") })
	// C08 number encodings: SetNReg's three candidate encodings use disjoint scratch windows (styling mirror)
	register("C08", func(c *Ctx) {
		only(c, ruleC01_3, "C01.3")
		only(c, ruleC09_3, "C09.3") // C01.3 leans on it
	})
	register("C07", func(c *Ctx) { only(c, ruleC09_3, "C09.3") })
	// C09 colours: the suggested palette's entries, reader side
	register("C09", func(c *Ctx) {
		only(c, ruleC13, "C13.2")
		only(c, ruleC01_4, "C01.4")
	})
	// C10 protocol: a Reset starts from nothing (no buffered operations or scratch carried over)
	register("C10", func(c *Ctx) { only(c, ruleC17, "C17.1") })
	// C15 gradient paint: drawn over the target rectangle from source point (0,0)
	register("C15", func(c *Ctx) {
		only(c, ruleC16, "C16.1")
		only(c, ruleC06, "C06.0") // the pixel->viewBox map the gradient matrix is composed with
	})
	// C16 pixel invariances: the geometry follows the rectangle held at that point; a gradient kept in any registers
	// (wrapping past 63 included) is painted like the same gradient kept elsewhere
	register("C16", func(c *Ctx) {
		only(c, ruleC06, "C06.0")
		only(c, ruleC15_6, "C15.6")
	})
	// C01 round trip: the reader's side of every number form (value formulas per byte length)
	register("C01", func(c *Ctx) {
		only(c, ruleC03_2, "C03.2")
		only(c, ruleC09_3, "C09.3") // C01.3 leans on it: the path on which no colour form accepts is unreachable
	})
	// C09 colours: every colour-carrying opcode (all ADJ values, the incrementing form) is decoded, and the Encoder's
	// byte for it is the one the decoder reads back
	register("C09", func(c *Ctx) {
		only(c, ruleC03_1, "C03.1")
		only(c, ruleC01_3, "C01.3")
	})
	// C17 no state across Reset: the rasteriser is cleared at every path start
	register("C17", func(c *Ctx) { only(c, ruleC16, "C16.1") })
	// C19 "the spread given is the one rendered": the spread's clamp
	register("C19", func(c *Ctx) { only(c, ruleC15, "C15.2") })
}
