package rules

import (
	"fmt"
	"go/types"
	"sort"
	"strings"

	"golang.org/x/tools/go/ssa"

	"ivgsa/internal/poly"
	"ivgsa/internal/sym"
)

func init() { register("C07", ruleC07_1, ruleC07_2, ruleC07_3, ruleC07_shared) }

// ruleC07_shared: "rendering directly = rendering via the encoded bytes" needs the Encoder and the decoder to mirror
// each other call by call - the structural round trip of C01 (drawing mirror, run-length discipline, styling mirror,
// the converse per opcode, end-of-input agreement), evaluated here by reference - and the suggested palette to
// survive its writer (C09.4).
func ruleC07_shared(c *Ctx) {
	c.R.Only("C01.1", "C01.2")
	ruleC01_1(c)
	c.R.Only("C01.3")
	ruleC01_3(c)
	c.R.Only("C01.5")
	ruleC01_5(c)
	c.R.Only("C01.6")
	ruleC01_6(c)
	c.R.Only("C09.4")
	ruleC09_4(c)
	c.R.Only()
	// the number forms (a coordinate at the edge of a form must come back as itself) and the arc's dependence on
	// the rotation through cos/sin of 2*pi*turns only (the Encoder normalises the rotation, a direct caller does not)
	only(c, ruleC08_2, "C08.2")
	only(c, ruleC06_8, "C06.8")
}

// destinationMethods lists the methods of ivg.Destination in a stable order.
func (c *Ctx) destinationMethods() []*types.Func {
	n := c.Named("", "Destination")
	if n == nil {
		return nil
	}
	it, ok := n.Underlying().(*types.Interface)
	if !ok {
		c.R.Anchor("ivg.Destination is not an interface")
		return nil
	}
	var out []*types.Func
	for i := 0; i < it.NumMethods(); i++ {
		out = append(out, it.Method(i))
	}
	sort.Slice(out, func(i, j int) bool { return out[i].Name() < out[j].Name() })
	return out
}

// selNormal strips a final reduction modulo 64 and returns the rational normal form.
func selNormal(t *sym.Term, env *poly.Env) (poly.Rat, bool) {
	if x, ok := mod64(t); ok {
		t = x
	}
	return env.One(t)
}

// ruleC07_1: the selector registers an Encoder reports agree, modulo 64, with
// those of a Renderer fed the same calls: for every Destination method the
// effect on CSEL/NSEL (as a function of the old value and the arguments, on
// non-error paths) is the same in both implementations.
func ruleC07_1(c *Ctx) {
	R := c.R
	R.Rule("C07.1", "selector effects agree: for every ivg.Destination method (x incr for register writes) the value CSel()/NSel() report afterwards is, modulo 64, the same function of the old selector and the arguments in Encoder and Renderer", 60)
	r := c.newRend()
	m := c.newEncModel()
	if !r.ok || !m.ok {
		return
	}
	u8t := types.Typ[types.Uint8]
	modeT := c.Named("encode", "mode")
	// the fields CSel()/NSel() report, by role
	selField := func(rel, typ, getter string) string {
		fn := c.Method(rel, typ, getter, true)
		if fn == nil {
			return ""
		}
		for _, b := range fn.Blocks {
			for _, ins := range b.Instrs {
				if ret, ok := ins.(*ssa.Return); ok && len(ret.Results) == 1 {
					if ld, ok := ret.Results[0].(*ssa.UnOp); ok {
						if fa, ok := ld.X.(*ssa.FieldAddr); ok {
							st := fa.X.Type().(*types.Pointer).Elem().Underlying().(*types.Struct)
							return st.Field(fa.Field).Name()
						}
					}
				}
			}
		}
		c.R.Anchor(fmt.Sprintf("the field returned by %s.%s.%s()", rel, typ, getter))
		return ""
	}
	encC, encN := selField("encode", "Encoder", "CSel"), selField("encode", "Encoder", "NSel")
	renC, renN := selField("render", "Renderer", "CSel"), selField("render", "Renderer", "NSel")
	if encC == "" || encN == "" || renC == "" || renN == "" {
		return
	}
	mSty, mDrw := m.modes["modeStyling"], m.modes["modeDrawing"]
	for _, dm := range c.destinationMethods() {
		name := dm.Name()
		cl, ok := classify(name)
		if !ok {
			R.Unknown("ivg.Destination."+name, "-", "method not covered by the protocol model")
			continue
		}
		efn := c.Method("encode", "Encoder", name, true)
		rfn := c.Method("render", "Renderer", name, true)
		if efn == nil || rfn == nil {
			continue
		}
		hasIncr, hasAdj := false, false
		sig := dm.Type().(*types.Signature)
		for i := 0; i < sig.Params().Len(); i++ {
			switch sig.Params().At(i).Name() {
			case "incr":
				hasIncr = true
			case "adj":
				hasAdj = true
			}
		}
		incrs := []bool{false}
		if hasIncr {
			incrs = []bool{false, true}
		}
		for _, incr := range incrs {
			construct := "ivg.Destination." + name
			if hasIncr {
				construct += fmt.Sprintf("#incr=%v", incr)
			}
			// Renderer
			rpins := map[string]*sym.Term{renC: sym.Atom("cSel", u8t), renN: sym.Atom("nSel", u8t), "disabled": sym.False}
			rin := c.Interp()
			rh := c.newRendHooks(rin)
			rh.opaque["Resolve"] = true
			rh.opaque["initGradient"] = true
			rmem := r.resetM.Clone()
			zobj := rin.ParamObj("z", r.T)
			for f, v := range rpins {
				rmem.Store(zobj, r.fieldPath(f), v)
			}
			rargs := rin.RootArgs(rfn)
			for i, p := range rfn.Params {
				if p.Name() == "incr" {
					rargs[i] = sym.Bool(incr)
				}
				if p.Name() == "adj" {
					rargs[i] = u8(0)
				}
			}
			_, rout, _ := rin.Run(rfn, rargs, rmem)
			// Encoder: a state in which the call is legal
			mode := mSty
			if cl == pcDraw || cl == pcEndPath {
				mode = mDrw
			}
			params := map[string]*sym.Term{}
			if hasIncr {
				params["incr"] = sym.Bool(incr)
			}
			if hasAdj {
				params["adj"] = u8(0)
			}
			efields := map[string]*sym.Term{"mode": modeConst(mode, modeT), "err": sym.Nil(types.Universe.Lookup("error").Type()),
				encC: sym.Atom("cSel", u8t), encN: sym.Atom("nSel", u8t)}
			erun := m.run(efn, efields, params, func(h *encHooks) {
				for _, o := range []string{"Encode1", "Encode2", "Encode3Direct", "Encode4", "Encode3Indirect"} {
					h.opaque[o] = true
				}
			})
			if rout == nil || erun.mem == nil {
				R.Unknown(construct, c.FPos(efn), "a method does not return")
				continue
			}
			if cl != pcReset && !erun.field("err").IsNil() {
				R.Unknown(construct, c.FPos(efn), "the Encoder records an error for a legal call: "+shortKey(erun.field("err")))
				continue
			}
			for _, sel := range []struct{ label, ef, rf string }{{"CSEL", encC, renC}, {"NSEL", encN, renN}} {
				env := poly.NewEnv()
				env.Rename["$cSel"] = "cSel"
				env.Rename["$nSel"] = "nSel"
				ev := erun.field(sel.ef)
				rv := rin.LoadAt(rout, zobj, r.fieldPath(sel.rf))
				// a selector may be assigned on some encoder paths only (the colour form chosen): every path must agree
				okAll := true
				var found []string
				rn, okr := selNormal(rv, env)
				if !okr {
					R.Unknown(construct+":"+sel.label, c.FPos(rfn), "Renderer selector has no normal form: "+shortKey(rv))
					continue
				}
				leaves := sym.Cases(ev, 32)
				if leaves == nil {
					R.Unknown(construct+":"+sel.label, c.FPos(efn), "Encoder selector has too many cases")
					continue
				}
				for _, lf := range leaves {
					en, oke := selNormal(lf.Val, env)
					if !oke || !en.Equal(rn) {
						okAll = false
					}
					if oke {
						found = append(found, en.String())
					} else {
						found = append(found, shortKey(lf.Val))
					}
				}
				R.Check(okAll, "encode.(*Encoder)."+name+fmt.Sprintf("#%s", sel.label)+map[bool]string{true: fmt.Sprintf(",incr=%v", incr), false: ""}[hasIncr], c.FPos(efn),
					"same as the Renderer (mod 64): "+rn.String(), "Encoder: "+strings.Join(found, " | "))
			}
		}
	}
}

// ruleC07_2: the logging wrappers are identities: every method invokes the
// same-named method of the wrapped interface exactly once on the non-nil path,
// with its own parameters in order, and returns its results unchanged.
func ruleC07_2(c *Ctx) {
	R := c.R
	R.Rule("C07.2", "logging wrappers forward: each DestinationLogger / RasterizerLogger method invokes the same-named method of the wrapped interface exactly once (when present), with its own parameters in order, and returns the results unchanged", 30)
	for _, w := range []struct{ rel, typ, field string }{{"", "DestinationLogger", "Destination"}, {"raster", "RasterizerLogger", "Rasterizer"}} {
		named := c.Named(w.rel, w.typ)
		if named == nil {
			continue
		}
		mset := c.P.SSA.MethodSets.MethodSet(types.NewPointer(named))
		for i := 0; i < mset.Len(); i++ {
			sel := mset.At(i)
			fn := c.P.SSA.MethodValue(sel)
			if fn == nil || fn.Blocks == nil || !sel.Obj().Exported() {
				continue
			}
			if fn.Synthetic != "" {
				// promoted through the embedded interface: forwarding by construction
				R.OK(fmt.Sprintf("%s.(*%s).%s#promoted", w.typ, w.typ, fn.Name()), "-", "promoted method of the embedded interface")
				continue
			}
			construct := fmt.Sprintf("%s.(*%s).%s", map[bool]string{true: "ivg", false: w.rel}[w.rel == ""], w.typ, fn.Name())
			in := c.Interp()
			in.Hooks = sym.NoHooks{}
			res, _, _ := in.Run(fn, nil, nil)
			var inv []*sym.Event
			for _, ev := range in.Events {
				if ev.Kind == "invoke" {
					inv = append(inv, ev)
				}
			}
			if len(inv) != 1 {
				R.Bad(construct, c.FPos(fn), "exactly one forwarded call", fmt.Sprintf("%d interface calls", len(inv)))
				continue
			}
			ev := inv[0]
			okName := strings.HasSuffix(ev.Callee, "."+fn.Name())
			okArgs := len(ev.Args) == len(fn.Params)
			if okArgs {
				for k := 1; k < len(fn.Params); k++ {
					if ev.Args[k].Key() != "$param:"+fn.Params[k].Name() {
						okArgs = false
					}
				}
			}
			// the call may only depend on the wrapped value being non-nil (and on nothing else that matters)
			okGuard := true
			for _, lit := range guardLits(ev.Guard) {
				// "wrapped != nil" - a test of the very value the call is made on, with the right polarity: a
				// test "== nil" forwards exactly when there is nothing to forward to.
				if x, ok := nonNilTest(lit); !ok || len(ev.Args) == 0 || x.Key() != ev.Args[0].Key() {
					okGuard = false
				}
			}
			okRes := true
			if fn.Signature.Results().Len() > 0 {
				// the result must be the forwarded call's result
				okRes = res != nil && strings.Contains(res.Key(), "call#")
			}
			R.Check(okName && okArgs && okGuard && okRes, construct, c.FPos(fn),
				"forwards to "+w.field+"."+fn.Name()+" with its own parameters in order, unconditionally (apart from a nil test)",
				fmt.Sprintf("calls %s(%s) under %s", ev.Callee, argKeys(ev.Args[1:]), shortKey(ev.Guard)))
		}
	}
}

// nonNilTest recognises the literal "x != nil" (spelt not(x == nil) or x != nil, nil on either side) and returns x.
func nonNilTest(lit *sym.Term) (*sym.Term, bool) {
	isNil := func(t *sym.Term) bool { return t != nil && t.Op == "const" && t.C == nil }
	cmp := func(t *sym.Term, op string) (*sym.Term, bool) {
		if t == nil || t.Op != "bin" || t.Name != op || len(t.Args) != 2 {
			return nil, false
		}
		switch {
		case isNil(t.Args[1]) && !isNil(t.Args[0]):
			return t.Args[0], true
		case isNil(t.Args[0]) && !isNil(t.Args[1]):
			return t.Args[1], true
		}
		return nil, false
	}
	if lit != nil && lit.Op == "not" && len(lit.Args) == 1 {
		return cmp(lit.Args[0], "==")
	}
	return cmp(lit, "!=")
}

func argKeys(as []*sym.Term) string {
	var out []string
	for _, a := range as {
		out = append(out, shortKey(a))
	}
	return strings.Join(out, ", ")
}

// ruleC07_3: generators and front ends use destinations only through the
// interface: no type assertion or type switch on an ivg.Destination value.
func ruleC07_3(c *Ctx) {
	R := c.R
	R.Rule("C07.3", "destinations are used only through the interface: no type assertion or type switch on an ivg.Destination value anywhere in the module; selector read-back sites are enumerated", 1)
	dest := c.Named("", "Destination")
	if dest == nil {
		return
	}
	n, reads := 0, 0
	for _, fn := range c.P.AllFuncs() {
		for _, b := range fn.Blocks {
			for _, ins := range b.Instrs {
				switch x := ins.(type) {
				case *ssa.TypeAssert:
					if types.Identical(x.X.Type(), dest) {
						n++
						R.Bad(c.P.FuncName(fn)+"#typeassert", c.Pos(ins), "no type assertion on a Destination", "asserts "+x.AssertedType.String())
					}
				case *ssa.Call:
					if x.Common().IsInvoke() && types.Identical(x.Common().Value.Type(), dest) {
						if nm := x.Common().Method.Name(); nm == "CSel" || nm == "NSel" {
							reads++
						}
					}
				}
			}
		}
	}
	if n == 0 {
		R.OK("module#no-destination-type-assertions", "-")
	}
	R.Count("C07.3.selector_readback_sites", reads)
}
