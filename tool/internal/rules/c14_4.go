package rules

import (
	"go/types"

	"ivgsa/internal/sym"
)

func init() { register("C14", ruleC14_4) }

// ruleC14_4: what the decoder hands to Reset "seeds palette-indexed colours and
// the initial colour registers" - the Renderer's side of the clause (shared
// with C04.3 / C04.4).
func ruleC14_4(c *Ctx) {
	R := c.R
	R.Rule("C14.4", "the palette handed to Reset seeds both the colour registers and the custom palette; SetCReg resolves a colour against exactly these (c.Resolve(&z.palette, &z.cReg)), and Resolve reads palette-indexed colours from the palette and register colours from the registers at the masked index", 8)
	r := c.newRend()
	if !r.ok {
		R.Unknown("render.(*Renderer)#palette-seeding", "-", "Renderer model not available")
		return
	}
	{
		in := c.Interp()
		z := in.ParamObj("z", r.T)
		get := func(f string) *sym.Term { return in.LoadAt(r.resetM, z, r.fieldPath(f)) }
		pos := c.FPos(c.P.Method("render", "Renderer", "Reset", true))
		R.Check(get("cReg").Key() == "$param:palette", "render.(*Renderer).Reset#cReg", pos, "the palette argument", shortKey(get("cReg")))
		R.Check(get("palette").Key() == "$param:palette", "render.(*Renderer).Reset#palette", pos, "the palette argument", shortKey(get("palette")))
	}
	if fn := c.Method("render", "Renderer", "SetCReg", true); fn != nil {
		u8t := types.Typ[types.Uint8]
		in, mem, _ := r.run(fn, map[string]*sym.Term{"cSel": sym.Atom("cSel", u8t), "nSel": sym.Atom("nSel", u8t)}, "Resolve")
		regs := in.LoadAt(mem, r.zobj(in), r.fieldPath("cReg"))
		ok := false
		if regs.Op == "upd" {
			val := regs.Args[2]
			ok = val.Op == "call" && val.Name == "Resolve" && len(val.Args) == 3 &&
				val.Args[0].Key() == "$param:c" &&
				val.Args[1].Op == "ptr" && val.Args[1].Path.String() == r.fieldPath("palette").String() &&
				val.Args[2].Op == "ptr" && val.Args[2].Path.String() == r.fieldPath("cReg").String()
		}
		R.Check(ok, "render.(*Renderer).SetCReg#value", c.FPos(fn), "c.Resolve(&z.palette, &z.cReg)", shortKey(regs))
	}
	ruleResolve(c, "C14.4")
}
