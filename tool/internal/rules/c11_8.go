package rules

import (
	"fmt"
	"go/types"
	"regexp"
	"strings"

	"ivgsa/internal/sym"
)

func init() { register("C11", ruleC11_8) }

// ruleC11_8: how a colour operand is rendered as text. The listing prints a
// colour operand with %v, i.e. through Color.String; "the operand values
// printed are the values the decoder delivers" therefore needs String to spell
// each component under its own label. Evaluated per colour kind on symbolic
// channel bytes; the labelled arguments of the formatting call are compared,
// bit for bit, with the specification's layout of the colour kinds.
func ruleC11_8(c *Ctx) {
	R := c.R
	R.Rule("C11.8", "colour text: Color.String prints, per colour kind, the colour's own components under their labels - RGBA bytes in order; gradient NSTOPS = R&63, CBASE = G&63, NBASE = B&63, shape name indexed by bit 6 of B, spread name indexed by the top two bits of G; palette index and register number as stored; blend weights (255-t):t and the two operand colours decoded in order", 5)
	fn := c.Method("", "Color", "String", false)
	cc := c.newColourCtx()
	if fn == nil || cc == nil {
		R.Unknown("ivg.(Color).String", "-", "not found")
		return
	}
	pos := c.FPos(fn)
	u8t := types.Typ[types.Uint8]
	ch := []*sym.Term{sym.Atom("R", u8t), sym.Atom("G", u8t), sym.Atom("B", u8t), sym.Atom("A", u8t)}
	names := []string{"R", "G", "B", "A"}
	// bit-level description of an argument: map bit i -> "R.3" / "0" / "1"
	bitsOf := func(t *sym.Term) (string, bool) {
		t = stripElem(t)
		w, _, isInt := intWidth(t.T)
		if !isInt {
			return "", false
		}
		bv, err := toBits(t, w)
		if err != nil {
			return err.Error(), false
		}
		s := bv.String()
		for i, n := range names {
			s = strings.ReplaceAll(s, ch[i].Key(), n)
		}
		return s, true
	}
	field := func(name string, lo, n int) string { // expected bit string (msb first) of (name >> lo) & (2^n-1), zero-extended to 8 bits
		var parts []string
		for i := 7; i >= 0; i-- {
			if i < n {
				parts = append(parts, fmt.Sprintf("%s.%d", name, lo+i))
			} else {
				parts = append(parts, "0")
			}
		}
		return strings.Join(parts, " ")
	}
	type call struct {
		format string
		args   []*sym.Term
		guard  *sym.Term
	}
	calls := func(kind string) []call {
		in := c.Interp()
		in.Hooks = newSimpleHooks("ValidAlphaPremulColor", "ValidGradient", "DecodeColor1")
		recv := cc.colour(kind, ch[0], ch[1], ch[2], ch[3])
		in.Run(fn, []*sym.Term{recv}, nil)
		var out []call
		for _, ev := range in.Events {
			if ev.Kind != "extcall" || ev.Callee != "fmt.Sprintf" || len(ev.Args) < 1 {
				continue
			}
			f, ok := ev.Args[0].StringVal()
			if !ok {
				continue
			}
			var args []*sym.Term
			if len(ev.VarArgs) > 1 {
				args = ev.VarArgs[1]
			}
			out = append(out, call{f, args, ev.Guard})
		}
		return out
	}
	labelRe := regexp.MustCompile(`([A-Za-z]+)=%d`)
	// direct colours: plain RGBA and gradients
	var sawRGBA, sawGrad bool
	for _, cl := range calls("RGBAColor") {
		switch {
		case strings.HasPrefix(cl.format, "RGBA"):
			sawRGBA = true
			ok := len(cl.args) == 4
			for i := 0; ok && i < 4; i++ {
				ok = stripElem(cl.args[i]).Key() == ch[i].Key()
			}
			R.Check(ok && strings.Count(cl.format, "%02x") == 4, "ivg.(Color).String#rgba", pos, "the four channel bytes in order R,G,B,A as two hex digits each", argKeys(cl.args))
		case strings.HasPrefix(cl.format, "gradient"):
			sawGrad = true
			labels := labelRe.FindAllStringSubmatch(cl.format, -1)
			want := map[string]string{"NSTOPS": field("R", 0, 6), "CBASE": field("G", 0, 6), "NBASE": field("B", 0, 6)}
			ok := len(labels) == 3 && len(cl.args) == 5
			detail := ""
			for i, lb := range labels {
				if !ok {
					break
				}
				got, okb := bitsOf(cl.args[i])
				w, known := want[lb[1]]
				if !okb || !known || !sameBits(got, w) {
					ok = false
					detail = fmt.Sprintf("%s is printed as %s, the specification says %s", lb[1], got, w)
				}
			}
			// the two names: an index into a constant name table
			if ok {
				for i, wantBits := range []string{field("B", 6, 1), field("G", 6, 2)} {
					a := stripElem(cl.args[3+i])
					idx := nameTableIndex(a)
					got := ""
					okb := false
					if idx != nil {
						got, okb = bitsOf(idx)
					}
					if !okb || !sameBits(got, wantBits) {
						ok = false
						detail = fmt.Sprintf("name argument %d is selected by %s, the specification says %s (%s)", i, got, wantBits, shortKey(a))
					}
				}
			}
			R.Check(ok, "ivg.(Color).String#gradient", pos, "NSTOPS=R&63, CBASE=G&63, NBASE=B&63, shape by bit 6 of B, spread by bits 6-7 of G", detail+" format="+cl.format)
		}
	}
	R.Check(sawRGBA && sawGrad, "ivg.(Color).String#direct-kinds", pos, "a text for plain colours and one for gradient colours", fmt.Sprintf("rgba=%v gradient=%v", sawRGBA, sawGrad))
	// palette index / register
	for _, k := range []struct{ ctor, prefix string }{{"PaletteIndexColor", "customPalette["}, {"CRegColor", "CREG["}} {
		ok := false
		detail := "no formatting call"
		for _, cl := range calls(k.ctor) {
			if !strings.HasPrefix(cl.format, k.prefix) || len(cl.args) != 1 {
				continue
			}
			got, okb := bitsOf(cl.args[0])
			// the constructors store the (already masked) index in the first data byte
			ok = okb && (sameBits(got, field("R", 0, 8)) || sameBits(got, field("R", 0, 6)))
			detail = got
		}
		R.Check(ok, "ivg.(Color).String#"+k.ctor, pos, "the stored index (first data byte, masked by the constructor)", detail)
	}
	// blend
	{
		ok := false
		detail := "no formatting call"
		for _, cl := range calls("BlendColor") {
			if !strings.HasPrefix(cl.format, "blend") || len(cl.args) != 4 {
				continue
			}
			a0, ok0 := bitsOf(cl.args[1])
			// t is data.R; c0 = data.G; c1 = data.B
			okT := ok0 && sameBits(a0, field("R", 0, 8))
			inv := stripElem(cl.args[0])
			okInv := inv.Op == "bin" && inv.Name == "-" && inv.Args[0].Key() == "255" && stripElem(inv.Args[1]).Key() == ch[0].Key()
			c0, c1 := stripElem(cl.args[2]), stripElem(cl.args[3])
			okOps := c0.Op == "call" && c0.Name == "DecodeColor1" && stripElem(c0.Args[0]).Key() == ch[1].Key() &&
				c1.Op == "call" && c1.Name == "DecodeColor1" && stripElem(c1.Args[0]).Key() == ch[2].Key()
			ok = okT && okInv && okOps
			detail = argKeys(cl.args)
		}
		R.Check(ok, "ivg.(Color).String#BlendColor", pos, "(255-t):t and DecodeColor1(c0):DecodeColor1(c1)", detail)
	}
}

// sameBits compares two msb-first bit strings ignoring leading zero bits.
func sameBits(a, b string) bool {
	trim := func(s string) string {
		f := strings.Fields(s)
		for len(f) > 1 && f[0] == "0" {
			f = f[1:]
		}
		return strings.Join(f, " ")
	}
	return trim(a) == trim(b)
}

// nameTableIndex returns the index expression of a selection from a table of constant strings.
func nameTableIndex(t *sym.Term) *sym.Term {
	for t.Op == "conv" || t.Op == "makeiface" {
		t = t.Args[0]
	}
	if t.Op == "index" && len(t.Args) == 2 {
		return stripIntConv(t.Args[1])
	}
	return nil
}
