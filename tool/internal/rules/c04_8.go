package rules

import (
	"go/constant"
	"go/token"
	"go/types"

	"ivgsa/internal/sym"
)

func init() {
	register("C04", ruleC04_8)
	// the same two predicates decide what a user palette entry is (C14), what a suggested palette entry may be (C13)
	// and which stops a gradient accepts (C15, C19); decoding arbitrary bytes relies on them to refuse garbage (C02)
	for _, p := range []string{"C02", "C13", "C14", "C15", "C16", "C19"} {
		register(p, func(c *Ctx) { only(c, ruleC04_8, "C04.8") })
	}
}

// ruleC04_8: the two predicates every paint classification rests on are the specification's, for all 2^32 colours:
// a colour is a valid alpha-premultiplied colour iff no channel exceeds alpha; otherwise it names a gradient iff alpha
// is zero and bit 7 of blue is set. (The rules that use them keep them opaque; this one looks inside.) Decided as a
// propositional equivalence over the comparisons the function makes - the expected formula is built over the same
// channel values - so any spelling (reordered conjuncts, early returns, a switch) is accepted.
func ruleC04_8(c *Ctx) {
	R := c.R
	R.Rule("C04.8", "the classification predicates are the specification's for every colour: ValidAlphaPremulColor(c) <=> R <= A and G <= A and B <= A; ValidGradient(c) <=> A = 0 and bit 7 of B is set", 2)
	u8 := types.Typ[types.Uint8]
	k := func(n int64) *sym.Term { return sym.Const(constant.MakeInt64(n), u8) }
	for _, name := range []string{"ValidAlphaPremulColor", "ValidGradient"} {
		fn := c.Fn("", name)
		if fn == nil || len(fn.Params) != 1 {
			R.Anchor("ivg." + name)
			continue
		}
		in := c.Interp()
		in.Hooks = sym.NoHooks{}
		res, _, _ := in.Run(fn, nil, nil)
		if res == nil {
			R.Unknown("ivg."+name, c.FPos(fn), "does not return a value")
			continue
		}
		prm := in.ParamTerm(fn.Params[0].Name(), fn.Params[0].Type())
		ch := func(i int) *sym.Term { return sym.Field(prm, i, u8) }
		r, g, b, a := ch(0), ch(1), ch(2), ch(3)
		var want *sym.Term
		switch name {
		case "ValidAlphaPremulColor":
			want = sym.And(sym.Bin(token.LEQ, r, a, nil), sym.Bin(token.LEQ, g, a, nil), sym.Bin(token.LEQ, b, a, nil))
		case "ValidGradient":
			want = sym.And(sym.Bin(token.EQL, a, k(0), nil), sym.Bin(token.NEQ, sym.Bin(token.AND, b, k(0x80), u8), k(0), nil))
		}
		ok := equivalent(normCmp(res), normCmp(want))
		if !ok {
			// other spellings of the comparisons: a >= r for r <= a, b >= 0x80 / b&0x80 == 0x80 for the bit test
			alt := res
			for _, pr := range [][2]*sym.Term{
				{sym.Bin(token.GEQ, a, r, nil), sym.Bin(token.LEQ, r, a, nil)},
				{sym.Bin(token.GEQ, a, g, nil), sym.Bin(token.LEQ, g, a, nil)},
				{sym.Bin(token.GEQ, a, b, nil), sym.Bin(token.LEQ, b, a, nil)},
				{sym.Bin(token.GEQ, b, k(0x80), nil), sym.Bin(token.NEQ, sym.Bin(token.AND, b, k(0x80), u8), k(0), nil)},
				{sym.Bin(token.LSS, b, k(0x80), nil), sym.Bin(token.EQL, sym.Bin(token.AND, b, k(0x80), u8), k(0), nil)},
				{sym.Bin(token.GTR, b, k(0x7f), nil), sym.Bin(token.NEQ, sym.Bin(token.AND, b, k(0x80), u8), k(0), nil)},
				{sym.Bin(token.EQL, sym.Bin(token.AND, b, k(0x80), u8), k(0x80), nil), sym.Bin(token.NEQ, sym.Bin(token.AND, b, k(0x80), u8), k(0), nil)},
			} {
				alt = sym.Subst(alt, pr[0], pr[1])
			}
			ok = equivalent(normCmp(alt), normCmp(want))
		}
		R.Check(ok, "ivg."+name, c.FPos(fn), shortKey(want), shortKey(res))
	}
}

// normCmp spells every ordering comparison with <= : x < y as not(y <= x), x > y as not(x <= y), x >= y as y <= x
// (exact for integers), so that the propositional layer sees one atom per pair of operands whatever the source wrote.
func normCmp(t *sym.Term) *sym.Term {
	if t == nil || len(t.Args) == 0 {
		return t
	}
	args := make([]*sym.Term, len(t.Args))
	changed := false
	for i, a := range t.Args {
		args[i] = normCmp(a)
		if args[i] != a {
			changed = true
		}
	}
	if t.Op == "bin" && len(args) == 2 {
		switch t.Name {
		case "<":
			return sym.Not(sym.Bin(token.LEQ, args[1], args[0], t.T))
		case ">":
			return sym.Not(sym.Bin(token.LEQ, args[0], args[1], t.T))
		case ">=":
			return sym.Bin(token.LEQ, args[1], args[0], t.T)
		}
	}
	if !changed {
		return t
	}
	return sym.Rebuild(t, args)
}
