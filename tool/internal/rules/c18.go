package rules

import (
	"os"
	"fmt"
	"go/types"
	"sort"
	"strings"

	"golang.org/x/tools/go/ssa"

	"ivgsa/internal/effects"
)

func init() { register("C18", ruleC18) }

func (c *Ctx) effects() *effects.Analysis {
	if c.eff == nil {
		c.eff = effects.Analyze(c.P.SSA, c.P.FnInModule)
	}
	return c.eff
}

func isPkgInit(fn *ssa.Function) bool { return effects.IsPkgInit(fn) }

// libraryFunc reports whether fn belongs to the library packages C18 speaks
// about (everything but the command-line tools under cmd/ and the
// file-system front end of the icon converter).
func (c *Ctx) libraryFunc(fn *ssa.Function) (string, bool) {
	pkg := "?"
	for f := fn; f != nil; f = f.Parent() {
		if f.Pkg != nil {
			pkg = c.P.Rel(f.Pkg.Pkg)
			break
		}
	}
	if pkg == "?" && fn.Object() != nil && fn.Object().Pkg() != nil {
		pkg = c.P.Rel(fn.Object().Pkg())
	}
	if strings.HasPrefix(pkg, "cmd/") {
		return pkg, false
	}
	if pkg == "mdicons" {
		root := fn
		for root.Parent() != nil {
			root = root.Parent()
		}
		switch root.Name() {
		case "Parse", "ParseDir", "ParseFile":
			// file-system front end of a command-line tool: in scope for the module's own package-level state (two
			// conversions running side by side share its tables), not for the process-wide streams it reports to
			return pkg + "#frontend", true
		}
	}
	return pkg, pkg != "?"
}

func ruleC18(c *Ctx) {
	R := c.R
	R.Assume("the standard-library functions called are safe on disjoint objects; the effect of an external function is limited to memory reachable from its arguments (read-only and receiver-only functions are listed in tool/internal/effects)")
	a := c.effects()
	R.Count("C18.functions_summarised", len(a.Funcs()))
	if dbg := os.Getenv("IVGSA_DEBUG_EFFECTS"); dbg != "" {
		for _, fn := range a.Funcs() {
			if strings.Contains(fn.String(), dbg) {
				for _, w := range a.WritesOf(fn) {
					fmt.Fprintf(os.Stderr, "EFFECT %s writes %s via %s at %s\n", fn.String(), w.Root.String(), w.Via, c.Pos(w.Ins))
				}
			}
		}
	}
	for _, u := range a.Unresolved {
		R.Note("effects: %s", u)
	}

	// positive control for the zero-expected-count rules of this property
	R.Rule("C18.0", "positive control: a tiny package containing one instance of everything C18.1-C18.5 look for (stores to package-level arrays and through package-level slices, directly and via a helper; a package-level slice stored into an object and returned; a store through a parameter; a goroutine and a channel send) is analysed with the same detectors on every run, which must report each instance and stay silent on its clean functions", 1)
	c.checkEffectsControl()

	// ---- C18.1 no writes to package-level state ----
	R.Rule("C18.1", "no function other than the package initialisers stores to a package-level variable, or through a pointer, slice or map derived from one (provenance followed through copies, addressing, reslices, phis, loads, conversions, calls and returns, to fixpoint)", 150)
	globals := map[string]bool{}
	for _, pk := range c.P.Pkgs {
		if strings.HasPrefix(c.P.Rel(pk.Types), "cmd/") {
			continue
		}
		sp := c.P.SSA.Package(pk.Types)
		for _, m := range sp.Members {
			if g, ok := m.(*ssa.Global); ok && !strings.HasPrefix(g.Name(), "init$") {
				globals[g.String()] = true
			}
		}
	}
	R.Count("C18.globals", len(globals))
	written := map[string]bool{}
	skipped := 0
	for _, fn := range a.Funcs() {
		if isPkgInit(fn) {
			continue
		}
		if _, lib := c.libraryFunc(fn); !lib {
			skipped++
			continue
		}
		name := c.P.FuncName(fn)
		bad := 0
		scope, _ := c.libraryFunc(fn)
		for _, w := range a.WritesOf(fn) {
			if strings.HasSuffix(scope, "#frontend") && !(w.Root.Kind == "global" && globals[w.Root.Name]) {
				continue
			}
			switch w.Root.Kind {
			case "global":
				if strings.Contains(w.Root.Name, "init$guard") {
					continue
				}
				bad++
				written[w.Root.Name] = true
				R.Bad(fmt.Sprintf("%s#writes:%s", name, strings.ReplaceAll(w.Root.Name, "github.com/reactivego/", "")), c.Pos(w.Ins), "package-level state is never written after initialisation", "written via "+w.Via)
			case "unknown":
				bad++
				R.Unknown(fmt.Sprintf("%s#writes:unknown", name), c.Pos(w.Ins), "a store whose target has no provenance ("+w.Via+")")
			}
		}
		if bad == 0 {
			R.OK(name+"#no-global-writes", c.FPos(fn))
		}
	}
	R.Count("C18.1.functions_outside_scope(cmd,converter-front-end)", skipped)
	var gl []string
	for g := range globals {
		gl = append(gl, strings.ReplaceAll(g, "github.com/reactivego/", ""))
	}
	sort.Strings(gl)
	R.Sample(map[string]interface{}{"rule": "C18.1", "globals_never_written_after_init": gl})

	// ---- C18.5 references to package-level storage do not escape ----
	R.Rule("C18.5", "no alias of package-level storage is created: outside the package initialisers no pointer, slice or map derived from a package-level variable of the module is stored into an object or a caller's memory, or returned - so objects that are used independently never share a backing array through a package-level value", 1)
	nEsc := 0
	for _, fn := range a.Funcs() {
		if isPkgInit(fn) {
			continue
		}
		if _, lib := c.libraryFunc(fn); !lib {
			continue
		}
		for _, e := range a.EscapesOf(fn) {
			if !globals[e.Global] {
				continue // a variable of another module (colour models, io.EOF): not this module's state
			}
			nEsc++
			R.Bad(fmt.Sprintf("%s#alias:%s", c.P.FuncName(fn), strings.ReplaceAll(e.Global, "github.com/reactivego/", "")), c.Pos(e.Ins), "references into package-level storage stay inside the package initialiser", "a reference derived from it leaves through a "+e.Via)
		}
	}
	if nEsc == 0 {
		R.OK("module#no-alias-of-package-level-storage", "-", fmt.Sprintf("%d functions, %d package-level variables", len(a.Funcs()), len(globals)))
	}

	// ---- C18.6 arguments are not retained ----
	c.checkNoRetainedStorage("C18.6")

	// ---- C18.7 function values handed out are stateless ----
	R.Rule("C18.7", "function values handed to the caller carry no mutable state: a closure that a library function returns (a decode option) writes none of its captured variables, so one option value may be shared by any number of concurrent or successive Decode calls", 1)
	for _, fn := range a.Funcs() {
		if _, lib := c.libraryFunc(fn); !lib {
			continue
		}
		if !c.handedToCaller(fn, a.Funcs(), map[*ssa.Function]bool{}) {
			// an unexported helper whose result no exported function returns: the closure stays inside the library
			// (the disassembler's printer built by a helper and used during that one call)
			continue
		}
		for _, mc := range returnedClosures(fn) {
			cl, _ := mc.Fn.(*ssa.Function)
			if cl == nil {
				continue
			}
			ok := true
			for _, w := range a.WritesOf(cl) {
				if w.Root.Kind == "freevar" {
					ok = false
					name := w.Root.Name
					var i int
					if _, err := fmt.Sscan(w.Root.Name, &i); err == nil && i < len(cl.FreeVars) {
						name = cl.FreeVars[i].Name()
					}
					R.Bad(fmt.Sprintf("%s#returned-closure-writes:%s", c.P.FuncName(fn), name), c.Pos(w.Ins), "a returned function value writes only what it is handed", "writes its captured variable "+name+" via "+w.Via)
				}
			}
			if ok {
				R.OK(c.P.FuncName(fn)+"#returned-closure-stateless", c.Pos(mc))
			}
		}
	}

	// ---- C18.2 inputs are read-only ----
	R.Rule("C18.2", "inputs are read-only: no function of package decode writes through a byte-slice/buffer parameter; Color.Resolve, the palette/viewBox helpers and the colour predicates write through none of their parameters; no Destination method can receive a slice or pointer (signature check), so the encoded bytes cannot leak", 40)
	bufT := c.Named("decode", "buffer")
	isBytes := func(t types.Type) bool {
		if bufT != nil && types.Identical(t, bufT) {
			return true
		}
		if s, ok := t.Underlying().(*types.Slice); ok {
			if b, ok := s.Elem().Underlying().(*types.Basic); ok && b.Kind() == types.Uint8 {
				return true
			}
		}
		return false
	}
	for _, fn := range a.Funcs() {
		if fn.Pkg == nil && fn.Parent() == nil && fn.Object() == nil {
			continue
		}
		pkg := ""
		for f := fn; f != nil; f = f.Parent() {
			if f.Pkg != nil {
				pkg = c.P.Rel(f.Pkg.Pkg)
				break
			}
		}
		if pkg == "" && fn.Object() != nil && fn.Object().Pkg() != nil {
			pkg = c.P.Rel(fn.Object().Pkg())
		}
		name := c.P.FuncName(fn)
		switch {
		case pkg == "decode":
			for i, p := range fn.Params {
				if !isBytes(p.Type()) {
					continue
				}
				ok := true
				for _, w := range a.WritesOf(fn) {
					if w.Root.Kind == "param" && w.Root.Name == fmt.Sprint(i) {
						ok = false
						R.Bad(fmt.Sprintf("%s#param:%s", name, p.Name()), c.Pos(w.Ins), "the input bytes are never written", "written via "+w.Via)
					}
				}
				if ok {
					R.OK(fmt.Sprintf("%s#param:%s", name, p.Name()), c.FPos(fn))
				}
			}
		case pkg == "" && fn.Signature.Recv() != nil && (recvNamed(fn) == "Color" || recvNamed(fn) == "ViewBox"),
			pkg == "" && fn.Signature.Recv() == nil && fn.Parent() == nil && !isPkgInit(fn) && fn.Synthetic == "":
			// helpers of the root package: pure with respect to their parameters
			ok := true
			for _, w := range a.WritesOf(fn) {
				if w.Root.Kind == "param" {
					ok = false
					R.Bad(name+"#param-write", c.Pos(w.Ins), "writes through none of its parameters", "writes "+w.Root.String()+" via "+w.Via)
				}
			}
			if ok {
				R.OK(name+"#pure", c.FPos(fn))
			}
		}
	}
	if d := c.Named("", "Destination"); d != nil {
		it := d.Underlying().(*types.Interface)
		bad := ""
		for i := 0; i < it.NumMethods(); i++ {
			sig := it.Method(i).Type().(*types.Signature)
			for k := 0; k < sig.Params().Len(); k++ {
				switch sig.Params().At(k).Type().Underlying().(type) {
				case *types.Slice, *types.Pointer, *types.Map, *types.Interface, *types.Signature, *types.Chan:
					bad = it.Method(i).Name() + "(" + sig.Params().At(k).Name() + ")"
				}
			}
		}
		R.Check(bad == "", "ivg.Destination#scalar-parameters", "-", "only scalars, arrays and Color values cross the interface", bad)
	}

	// ---- C18.3 mutable state is owned by the receiver ----
	R.Rule("C18.3", "every write of a method of Encoder, Renderer, Gradient, Generator, vec.Rasterizer and the loggers goes to memory reachable from its receiver or allocated during the call", 100)
	owners := map[string]bool{"Encoder": true, "Renderer": true, "Gradient": true, "Generator": true, "Rasterizer": true, "DestinationLogger": true, "RasterizerLogger": true, "buffer": true, "Spread": true}
	for _, fn := range a.Funcs() {
		if fn.Signature.Recv() == nil || !owners[recvNamed(fn)] || fn.Synthetic != "" {
			continue
		}
		name := c.P.FuncName(fn)
		ok := true
		for _, w := range a.WritesOf(fn) {
			switch {
			case w.Root.Kind == "fresh", w.Root.Kind == "param" && w.Root.Name == "0":
			case w.Root.Kind == "global" || w.Root.Kind == "unknown":
				// reported under C18.1
			default:
				// a write through another pointer parameter: owned by the receiver all the same when every call site
				// in the module hands in memory of the caller's own receiver (or fresh memory), e.g. helper(&e.field)
				if w.Root.Kind == "param" && fn.Object() != nil && !fn.Object().Exported() {
					var idx int
					fmt.Sscan(w.Root.Name, &idx)
					sites, allOwned := 0, true
					for _, caller := range a.Funcs() {
						sum := a.Sums[caller]
						if sum == nil {
							continue
						}
						for ci, per := range sum.ArgRoots {
							if ci.Common().StaticCallee() != fn || idx >= len(per) {
								continue
							}
							sites++
							callerIsMethod := caller.Signature.Recv() != nil
							for _, r := range per[idx] {
								if r.Kind == "fresh" || (callerIsMethod && r.Kind == "param" && r.Name == "0") {
									continue
								}
								allOwned = false
							}
							if len(per[idx]) == 0 {
								allOwned = false
							}
						}
					}
					if sites > 0 && allOwned {
						continue
					}
				}
				ok = false
				R.Bad(name+"#writes:"+w.Root.String(), c.Pos(w.Ins), "writes only through the receiver or to fresh memory", "writes "+w.Root.String()+" via "+w.Via)
			}
		}
		if ok {
			R.OK(name+"#receiver-owned", c.FPos(fn))
		}
	}

	// ---- C18.4 no concurrency primitives, unsafe, reflect ----
	R.Rule("C18.4", "no goroutine, channel operation, select, sync, sync/atomic, unsafe, reflect or cgo in the module's non-test code (instruction and import scan): there is no hidden sharing to model", 11)
	for _, pk := range c.P.Pkgs {
		rel := c.P.Rel(pk.Types)
		bad := ""
		for _, imp := range pk.Types.Imports() {
			switch imp.Path() {
			case "sync", "sync/atomic", "unsafe", "reflect", "C", "runtime":
				bad = imp.Path()
			}
		}
		R.Check(bad == "", "package:"+map[bool]string{true: "ivg", false: rel}[rel == ""]+"#imports", "-", "no sync/unsafe/reflect/cgo import", bad)
	}
	for _, fn := range a.Funcs() {
		for _, b := range fn.Blocks {
			for _, ins := range b.Instrs {
				switch ins.(type) {
				case *ssa.Go, *ssa.Send, *ssa.Select, *ssa.MakeChan:
					R.Bad(c.P.FuncName(fn)+"#concurrency", c.Pos(ins), "no goroutines or channel operations", fmt.Sprintf("%T", ins))
				}
			}
		}
	}
}

func recvNamed(fn *ssa.Function) string {
	recv := fn.Signature.Recv()
	if recv == nil {
		return ""
	}
	t := recv.Type()
	if p, ok := t.(*types.Pointer); ok {
		t = p.Elem()
	}
	if n, ok := t.(*types.Named); ok {
		return n.Obj().Name()
	}
	return ""
}


// dataStorage reports whether a value of type t is a window onto storage the caller may go on writing (a slice, a
// map, a pointer to an array or to a basic value) as opposed to a handle on an object that is meant to be shared
// (an interface value, a pointer to a struct, a function).
func dataStorage(t types.Type) bool {
	switch u := t.Underlying().(type) {
	case *types.Slice, *types.Map:
		return true
	case *types.Pointer:
		switch u.Elem().Underlying().(type) {
		case *types.Array, *types.Basic, *types.Slice, *types.Map:
			return true
		}
	}
	return false
}

// checkNoRetainedStorage: no library function keeps a slice, map or array pointer it was handed in memory that
// outlives the call (its receiver, another argument, a package-level variable). What a pipeline was configured with
// is then a snapshot: the caller's later writes to its own slice cannot change what the pipeline emits, and two
// pipelines configured from one slice share nothing.
func (c *Ctx) checkNoRetainedStorage(rule string) {
	R := c.R
	a := c.effects()
	R.Rule(rule, "arguments are consumed, not kept: no library function stores a slice, map or array pointer derived from one of its parameters into its receiver, another argument or a package-level variable (directly or through a callee) - the configured transform, gradient stops, palette and input bytes are snapshots, so a caller reusing its slice afterwards cannot change what is emitted", 20)
	n, bad := 0, 0
	for _, fn := range a.Funcs() {
		if isPkgInit(fn) {
			continue
		}
		if _, lib := c.libraryFunc(fn); !lib {
			continue
		}
		hasData := false
		for _, p := range fn.Params {
			if dataStorage(p.Type()) {
				hasData = true
			}
		}
		kept := 0
		for _, rt := range a.RetainsOf(fn) {
			if !dataStorage(rt.Type) {
				continue
			}
			kept++
			bad++
			pn := fmt.Sprint(rt.Param)
			if rt.Param < len(fn.Params) {
				pn = fn.Params[rt.Param].Name()
			}
			R.Bad(fmt.Sprintf("%s#retains:%s", c.P.FuncName(fn), pn), c.Pos(rt.Ins), "slice/map arguments are copied, not kept", fmt.Sprintf("a %s derived from parameter %s is stored into %s via %s", rt.Type.String(), pn, rt.Into.String(), rt.Via))
		}
		if hasData {
			n++
			if kept == 0 {
				R.OK(c.P.FuncName(fn)+"#retains-no-argument-storage", c.FPos(fn))
			}
		}
	}
	_ = n
}


// returnedClosures lists the closures created in fn that fn returns (directly, through a conversion to a named
// function type, or through a phi).
// handedToCaller: what fn returns can reach a caller of the library: fn is exported (a method counts by its own
// name), or some function of the module returns the result of a call of fn and is itself handed to a caller.
func (c *Ctx) handedToCaller(fn *ssa.Function, all []*ssa.Function, seen map[*ssa.Function]bool) bool {
	if seen[fn] {
		return false
	}
	seen[fn] = true
	if fn.Parent() != nil {
		return true // a function literal: decided where it is built
	}
	if fn.Object() == nil || fn.Object().Exported() {
		return true
	}
	for _, g := range all {
		for _, b := range g.Blocks {
			ret, ok := b.Instrs[len(b.Instrs)-1].(*ssa.Return)
			if !ok {
				continue
			}
			for _, res := range ret.Results {
				for _, lf := range ssaPhiLeaves(ssaLoadedValue(res, g)) {
					if call, ok := ssaStripConv(lf).(*ssa.Call); ok && call.Common().StaticCallee() == fn {
						if c.handedToCaller(g, all, seen) {
							return true
						}
					}
				}
			}
		}
	}
	return false
}

func returnedClosures(fn *ssa.Function) []*ssa.MakeClosure {
	var out []*ssa.MakeClosure
	for _, b := range fn.Blocks {
		for _, ins := range b.Instrs {
			mc, ok := ins.(*ssa.MakeClosure)
			if !ok {
				continue
			}
			seen := map[ssa.Value]bool{}
			var returned func(v ssa.Value) bool
			returned = func(v ssa.Value) bool {
				if seen[v] || v.Referrers() == nil {
					return false
				}
				seen[v] = true
				for _, r := range *v.Referrers() {
					switch x := r.(type) {
					case *ssa.Return:
						return true
					case *ssa.ChangeType:
						if returned(x) {
							return true
						}
					case *ssa.MakeInterface:
						if returned(x) {
							return true
						}
					case *ssa.Phi:
						if returned(x) {
							return true
						}
					}
				}
				return false
			}
			if returned(mc) {
				out = append(out, mc)
			}
		}
	}
	return out
}
