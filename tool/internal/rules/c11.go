package rules

import (
	"fmt"
	"go/token"
	"go/types"
	"sort"
	"strings"

	"golang.org/x/tools/go/ssa"

	"ivgsa/internal/cfgx"
	"ivgsa/internal/sym"
)

func init() {
	register("C11", ruleC11_1, ruleC11_2, ruleC11_3, ruleC11_45)
	// C04.8: the machine leaves drawing mode whatever the paint - the decoder's mode transitions and byte consumption
	// cannot depend on the destination
	register("C04", ruleC11_1)
}

// observerParams returns the parameters (and free variables) of fn that are
// observers: values of the func type decode.printer or of ivg.Destination.
func (c *Ctx) observerValues(fn *ssa.Function) map[ssa.Value]string {
	out := map[ssa.Value]string{}
	printerT := c.P.Named("decode", "printer")
	destT := c.P.Named("", "Destination")
	is := func(t types.Type) string {
		if printerT != nil && types.Identical(t, printerT) {
			return "printer"
		}
		if destT != nil && types.Identical(t, destT) {
			return "destination"
		}
		return ""
	}
	for _, p := range fn.Params {
		if k := is(p.Type()); k != "" {
			out[p] = k
		}
	}
	for _, p := range fn.FreeVars {
		if k := is(p.Type()); k != "" {
			out[p] = k
		}
	}
	return out
}

// decodeFuncs lists the functions of package decode (with closures), sorted.
func (c *Ctx) decodeFuncs() []*ssa.Function {
	var out []*ssa.Function
	for _, fn := range c.P.AllFuncs() {
		root := fn
		for root.Parent() != nil {
			root = root.Parent()
		}
		if root.Pkg != nil && c.P.Rel(root.Pkg.Pkg) == "decode" && !isPkgInit(fn) {
			out = append(out, fn)
		}
	}
	sort.Slice(out, func(i, j int) bool { return out[i].String() < out[j].String() })
	return out
}

// ruleC11_1: non-interference. Whether a printer or a destination is present
// can influence neither the bytes consumed nor the error returned: in every
// function of package decode, the regions control dependent on a test of an
// observer contain only calls of the observers themselves (and the building
// of their arguments), and no value that differs between the two outcomes of
// such a test flows out of the region.
func ruleC11_1(c *Ctx) {
	R := c.R
	R.Rule("C11.1", "non-interference: code that runs only when a printer / destination is present (or absent) makes no return, no store outside argument arrays built in place, no call other than of the observer itself and pure formatting helpers, and no value joined after such a region depends on which side was taken - so Disassemble and Decode accept and reject the same inputs with the same error", 12)
	nFuncs := 0
	for _, fn := range c.decodeFuncs() {
		obs := c.observerValues(fn)
		if len(obs) == 0 {
			continue
		}
		nFuncs++
		name := c.P.FuncName(fn)
		cf := cfgx.New(fn, nil)
		// tainted conditions: comparisons of an observer with nil, combined with && / ||  (phi of bool with a tainted operand)
		tainted := map[ssa.Value]bool{}
		for v := range obs {
			tainted[v] = true
		}
		for changed := true; changed; {
			changed = false
			for _, b := range fn.Blocks {
				for _, ins := range b.Instrs {
					v, ok := ins.(ssa.Value)
					if !ok || tainted[v] {
						continue
					}
					switch x := ins.(type) {
					case *ssa.BinOp:
						if (x.Op == token.EQL || x.Op == token.NEQ) && (tainted[x.X] || tainted[x.Y]) {
							tainted[v] = true
							changed = true
						}
					case *ssa.UnOp:
						if x.Op == token.NOT && tainted[x.X] {
							tainted[v] = true
							changed = true
						}
					}
				}
			}
		}
		// regions
		bad := 0
		report := func(ins ssa.Instruction, what string) {
			bad++
			R.Bad(fmt.Sprintf("%s#observer-region:%s", name, what), c.Pos(ins), "only observer calls inside a region that depends on the presence of an observer", what)
		}
		inRegion := map[int]bool{}
		perIf := map[int]map[int]bool{} // tainted branch block -> blocks it controls (transitively)
		for _, b := range fn.Blocks {
			if len(b.Instrs) == 0 {
				continue
			}
			iff, ok := b.Instrs[len(b.Instrs)-1].(*ssa.If)
			if !ok {
				continue
			}
			// a condition is observer-dependent if it is tainted, or a short-circuit phi one of whose operands is tainted:
			// "p != nil && i != 0" becomes a phi [false, i != 0] in a block control dependent on p != nil - handled by region propagation
			if !tainted[iff.Cond] {
				continue
			}
			reg := map[int]bool{}
			for x := 0; x < cf.N; x++ {
				for _, d := range cf.TransControlDeps(x) {
					if d[0] == b.Index {
						inRegion[x] = true
						reg[x] = true
					}
				}
			}
			perIf[b.Index] = reg
		}
		// propagate: a branch inside a region extends the region to what it controls (nested ifs, the dispatch switch after "if dst == nil continue")
		for changed := true; changed; {
			changed = false
			for x := 0; x < cf.N; x++ {
				if inRegion[x] {
					continue
				}
				for _, d := range cf.ControlDeps(x) {
					if inRegion[d[0]] {
						inRegion[x] = true
						changed = true
					}
				}
			}
		}
		// loops must not be controlled by an observer test in a way that changes iteration: a region block that is a loop header of a consuming loop is caught by the store/call rules below
		for x := range inRegion {
			for _, ins := range fn.Blocks[x].Instrs {
				switch i := ins.(type) {
				case *ssa.Return:
					report(ins, "return")
				case *ssa.Panic:
					report(ins, "panic")
				case *ssa.Store:
					// allowed: stores into an array allocated in the region (argument arrays of variadic calls)
					if !storeIntoRegionAlloc(i, inRegion) {
						report(ins, "store")
					}
				case *ssa.MapUpdate, *ssa.Send, *ssa.Go, *ssa.Defer:
					report(ins, fmt.Sprintf("%T", ins))
				case *ssa.Call:
					cc := i.Common()
					switch {
					case cc.IsInvoke() && obs[cc.Value] == "destination":
					case !cc.IsInvoke() && obs[cc.Value] == "printer":
					case isPureFormatting(i):
					case c.observerOnly(cc.StaticCallee(), map[*ssa.Function]bool{}):
						// a helper that does nothing but talk to the observer it is handed (e.g. the switch over the
						// verb that calls the destination, moved into its own function)
					default:
						report(ins, "call "+calleeName(i))
					}
				}
			}
		}
		// values leaving the region: phis in blocks outside the region (or at region joins) whose incoming values from region
		// predecessors differ from the others
		for _, b := range fn.Blocks {
			for _, ins := range b.Instrs {
				phi, ok := ins.(*ssa.Phi)
				if !ok {
					break
				}
				// per observer test: the values arriving from its region and along its own direct edge must agree
				same := true
				involved := false
				for ifb, reg := range perIf {
					var vals []ssa.Value
					for i, p := range b.Preds {
						if reg[p.Index] || p.Index == ifb {
							vals = append(vals, phi.Edges[i])
						}
					}
					if len(vals) == 0 {
						continue
					}
					regionEdge := false
					for _, p := range b.Preds {
						if reg[p.Index] {
							regionEdge = true
						}
					}
					if !regionEdge {
						continue
					}
					involved = true
					for _, e := range vals {
						if !sameSSAValue(e, vals[0]) {
							same = false
						}
					}
				}
				if !involved || same {
					continue
				}
				if onlyFeedsRegionBranch(phi, inRegion, tainted) {
					// a short-circuit condition such as "p != nil && i != 0": it only decides whether the observer is called
					tainted[phi] = true
					continue
				}
				report(ins, "value "+phi.Name()+" ("+phi.Comment+", "+phi.String()+") differs depending on an observer")
			}
		}
		if bad == 0 {
			R.OK(name+"#non-interference", c.FPos(fn), fmt.Sprintf("%d region blocks", len(inRegion)))
		}
	}
	R.Count("C11.1.functions_with_observers", nFuncs)
	// the initial Metadata cannot influence the parse: decodeMetadataChunk reads the viewBox fields only after storing them (C13.3)
}

func storeIntoRegionAlloc(st *ssa.Store, inRegion map[int]bool) bool {
	addr := st.Addr
	for {
		switch a := addr.(type) {
		case *ssa.IndexAddr:
			addr = a.X
			continue
		case *ssa.FieldAddr:
			addr = a.X
			continue
		case *ssa.Alloc:
			return inRegion[a.Block().Index]
		}
		return false
	}
}

func isPureFormatting(call *ssa.Call) bool {
	// conversions for printing are SSA instructions, not calls; the only calls tolerated are none
	return false
}

func calleeName(call *ssa.Call) string {
	if f := call.Common().StaticCallee(); f != nil {
		return f.Name()
	}
	if call.Common().IsInvoke() {
		return call.Common().Method.Name()
	}
	return call.Common().Value.Name()
}

func sameSSAValue(a, b ssa.Value) bool {
	if a == b {
		return true
	}
	ca, ok1 := a.(*ssa.Const)
	cb, ok2 := b.(*ssa.Const)
	if ok1 && ok2 {
		if ca.Value == nil || cb.Value == nil {
			return ca.Value == nil && cb.Value == nil
		}
		return ca.Value.ExactString() == cb.Value.ExactString()
	}
	return false
}

// onlyFeedsRegionBranch: the phi is used only as the condition of an If (i.e. it is a short-circuit boolean).
func onlyFeedsRegionBranch(phi *ssa.Phi, inRegion map[int]bool, tainted map[ssa.Value]bool) bool {
	if b, ok := phi.Type().Underlying().(*types.Basic); !ok || b.Kind() != types.Bool {
		return false
	}
	for _, ref := range *phi.Referrers() {
		if _, ok := ref.(*ssa.If); !ok {
			return false
		}
	}
	return true
}

// ruleC11_2: print/consume typestate. On the path where a printer is present,
// every byte range that is consumed (v[k:]) has been printed exactly once
// (p(v[:k], ...)) immediately before, and nothing is printed twice; a success
// return leaves nothing printed-but-not-consumed.
func ruleC11_2(c *Ctx) {
	R := c.R
	R.Rule("C11.2", "byte-complete listing: with a printer present, in every function of package decode each advance v[k:] of a buffer is preceded on every path by exactly one print of v[:k], no range is printed twice, states agree at joins and nothing stays printed-but-unconsumed at a successful return", 10)
	printerT := c.P.Named("decode", "printer")
	bufT := c.P.Named("decode", "buffer")
	if printerT == nil || bufT == nil {
		R.Anchor("decode.printer / decode.buffer")
		return
	}
	for _, fn := range c.decodeFuncs() {
		var p ssa.Value
		for _, prm := range fn.Params {
			if types.Identical(prm.Type(), printerT) {
				p = prm
			}
		}
		if p == nil {
			continue
		}
		name := c.P.FuncName(fn)
		type key struct {
			v ssa.Value
			k string
		}
		// the printer, or a load of a local variable that only ever holds the printer (a parameter shared with a closure)
		isPrinter := func(v ssa.Value) bool {
			if v == p {
				return true
			}
			if ld, ok := v.(*ssa.UnOp); ok && ld.Op == token.MUL {
				if vals, ok := cellStores(ld.X); ok && len(vals) > 0 {
					for _, sv := range vals {
						if sv != p {
							return false
						}
					}
					return true
				}
			}
			return false
		}
		// the buffer a print or an advance speaks about: the value itself, or - when the buffer lives in a local
		// variable that a closure shares (every use is then a fresh load) - the variable. An advance of a variable
		// only counts as such when its result goes back into the same variable ("src = src[k:]").
		baseOf := func(v ssa.Value) ssa.Value {
			if ld, ok := v.(*ssa.UnOp); ok && ld.Op == token.MUL {
				if al, ok := ld.X.(*ssa.Alloc); ok {
					return al
				}
			}
			return v
		}
		storedBack := func(sl *ssa.Slice) bool {
			al, isCell := baseOf(sl.X).(*ssa.Alloc)
			if !isCell || baseOf(sl.X) == sl.X {
				return true // not a variable: nothing to ask
			}
			if sl.Referrers() == nil {
				return false
			}
			for _, r := range *sl.Referrers() {
				if st, ok := r.(*ssa.Store); ok && st.Addr == ssa.Value(al) && st.Val == ssa.Value(sl) {
					return true
				}
			}
			return false
		}
		keyOf := func(v ssa.Value) string {
			if cst, ok := v.(*ssa.Const); ok && cst.Value != nil {
				return "const:" + cst.Value.ExactString()
			}
			// len of a constant string (len(ivg.Magic)) is folded by the builder into a constant; other counts are SSA values
			return "val:" + v.Name()
		}
		// edges pruned: at "if p != nil" take only the non-nil successor
		allow := func(from, to *ssa.BasicBlock) bool {
			if len(from.Instrs) == 0 {
				return true
			}
			iff, ok := from.Instrs[len(from.Instrs)-1].(*ssa.If)
			if !ok {
				return true
			}
			cmp, ok := iff.Cond.(*ssa.BinOp)
			if !ok {
				return true
			}
			isP := func(a, b ssa.Value) bool {
				cst, ok := b.(*ssa.Const)
				return isPrinter(a) && ok && cst.IsNil()
			}
			if !(isP(cmp.X, cmp.Y) || isP(cmp.Y, cmp.X)) {
				return true
			}
			nonNilSucc := from.Succs[0]
			if cmp.Op == token.EQL {
				nonNilSucc = from.Succs[1]
			}
			return to == nonNilSucc
		}
		cf := cfgx.New(fn, allow)
		state := make([]map[key]bool, cf.N)
		var bads []string
		report := func(ins ssa.Instruction, what string) {
			bads = append(bads, what+" at "+c.Pos(ins))
		}
		equal := func(a, b map[key]bool) bool {
			if len(a) != len(b) {
				return false
			}
			for k := range a {
				if !b[k] {
					return false
				}
			}
			return true
		}
		nPrints, nAdv := 0, 0
		visited := make([]bool, cf.N)
		for _, b := range cf.RPO {
			var in map[key]bool
			first := true
			for _, pr := range cf.Preds[b] {
				if !visited[pr] {
					continue // back edge: checked below against the header's state
				}
				if first {
					in = state[pr]
					first = false
				} else if !equal(in, state[pr]) {
					report(fn.Blocks[b].Instrs[0], "paths disagree on what has been printed")
				}
			}
			cur := map[key]bool{}
			for k := range in {
				cur[k] = true
			}
			for _, ins := range fn.Blocks[b].Instrs {
				switch x := ins.(type) {
				case *ssa.Call:
					cc := x.Common()
					if !cc.IsInvoke() && isPrinter(cc.Value) && len(cc.Args) >= 1 {
						// p(bytes, ...)
						if cst, ok := cc.Args[0].(*ssa.Const); ok && cst.IsNil() {
							continue // a line without bytes
						}
						a0 := cc.Args[0]
						for {
							if ct, ok := a0.(*ssa.ChangeType); ok {
								a0 = ct.X
								continue
							}
							if cv, ok := a0.(*ssa.Convert); ok {
								a0 = cv.X
								continue
							}
							break
						}
						sl, ok := a0.(*ssa.Slice)
						if !ok || sl.Low != nil || sl.High == nil {
							report(ins, "printed bytes are not a prefix v[:k]")
							continue
						}
						nPrints++
						kk := key{baseOf(sl.X), keyOf(sl.High)}
						if cur[kk] {
							report(ins, "bytes printed twice")
						}
						cur[kk] = true
					}
				case *ssa.Slice:
					if !types.Identical(x.Type(), bufT) && !types.Identical(x.X.Type(), bufT) {
						continue
					}
					if x.Low != nil && x.High == nil {
						// advance v[k:]
						nAdv++
						kk := key{baseOf(x.X), keyOf(x.Low)}
						if !cur[kk] {
							report(ins, "bytes consumed without being printed")
						} else if !storedBack(x) {
							report(ins, "the advanced buffer does not replace the variable whose prefix was printed")
						}
						delete(cur, kk)
					}
				case *ssa.Return:
					if !cfgx.IsErrorReturn(x) && len(cur) > 0 {
						report(ins, "bytes printed but not consumed at a successful return")
					}
				}
			}
			state[b] = cur
			visited[b] = true
		}
		// back edges: the state at the end of a loop body must equal the state at the loop head's entry
		for e := range cf.Back {
			tail, head := e[0], e[1]
			var entry map[key]bool
			for _, pr := range cf.Preds[head] {
				if pr != tail && !cf.Back[[2]int{pr, head}] {
					entry = state[pr]
				}
			}
			if !equal(entry, state[tail]) {
				report(fn.Blocks[tail].Instrs[len(fn.Blocks[tail].Instrs)-1], "loop iteration leaves printed-but-unconsumed bytes")
			}
		}
		construct := name + "#print-consume"
		if len(bads) == 0 {
			R.OK(construct, c.FPos(fn), fmt.Sprintf("%d prints, %d advances", nPrints, nAdv))
		} else {
			R.Bad(construct, c.FPos(fn), "every consumed range printed exactly once", strings.Join(bads, "; "))
		}
		R.Count("C11.2.prints", nPrints)
		R.Count("C11.2.advances", nAdv)
	}
	// the main loop ends only when the buffer is empty, so every byte is covered: checked under C02.2 / C11.5
}

// ruleC11_3: the printer prints what it is given.
func ruleC11_3(c *Ctx) {
	R := c.R
	R.Rule("C11.3", "the hexadecimal column: the printer closure writes, for byte i of its argument, the two hex digits of that byte at columns 3i and 3i+1 of a 14-column field initialised to spaces, and writes the whole field", 4)
	clo := c.printerFunc()
	if clo == nil {
		R.Anchor("the printer closure of decode.Disassemble")
		return
	}
	in := c.Interp()
	type st struct {
		idx, val *sym.Term
		loops    int
		guard    *sym.Term
		ev       *sym.Event
	}
	var stores []st
	in.OnStore = func(fr *sym.Frame, site ssa.Instruction, ptr, val *sym.Term) {
		if ptr.Obj != nil && ptr.Obj.Kind == "alloc" && len(ptr.Path) == 1 && ptr.Path[0].Field < 0 {
			if arr, ok := ptr.Obj.T.Underlying().(*types.Array); ok && arr.Len() == 14 {
				idx := ptr.Path[0].Sym
				if idx == nil {
					idx = sym.Int(ptr.Path[0].Index)
				}
				ev := in.Emit(fr, "store:buf", site, "", []*sym.Term{ptr, val}, nil)
				if ev != nil {
					stores = append(stores, st{idx, val, len(ev.Loops), ev.Guard, ev})
				}
			}
		}
	}
	var binds []*sym.Term
	for _, fv := range clo.FreeVars {
		binds = append(binds, in.ParamTerm("free:"+fv.Name(), fv.Type()))
	}
	_, _, fr := in.CallFunction(clo, in.RootArgs(clo), binds, sym.NewMem(), nil, nil, true)
	pos := c.FPos(clo)
	key := "decode.Disassemble$1"
	// classify the stores: fill (value ' '), high digit, low digit
	var fill, hi, lo *st
	for i := range stores {
		s := &stores[i]
		switch {
		case s.val.Key() == "32":
			fill = s
		case strings.Contains(s.val.Key(), "bin:>>("):
			hi = s
		case strings.Contains(s.val.Key(), "bin:&("):
			lo = s
		}
	}
	hexOK := func(s *st, shift bool) (bool, string) {
		if s == nil {
			return false, "store not found"
		}
		// value: index("0123456789abcdef", x>>4) or index(.., x&15)
		v := s.val
		if v.Op != "index" {
			return false, shortKey(v)
		}
		if str, ok := v.Args[0].StringVal(); !ok || str != "0123456789abcdef" {
			return false, "digit table " + shortKey(v.Args[0])
		}
		d := stripConv(v.Args[1])
		if d.Op != "bin" {
			return false, shortKey(d)
		}
		if shift && !(d.Name == ">>" && d.Args[1].Key() == "4") {
			return false, shortKey(d)
		}
		if !shift && !(d.Name == "&" && d.Args[1].Key() == "15") {
			return false, shortKey(d)
		}
		return true, ""
	}
	okHi, dHi := hexOK(hi, true)
	okLo, dLo := hexOK(lo, false)
	// both digits come from the same byte b[i], and go to columns 3i and 3i+1 with i the range index over b
	okPos := false
	dPos := ""
	_ = fr
	// the two loops (fill, digits) may live in the closure itself or in a helper it calls: look at the frame of the store
	if okHi && okLo && len(hi.ev.Loops) == 1 && len(hi.ev.Loops[0].Frame.Headers()) == 2 {
		xb1 := stripConv(hi.val.Args[1]).Args[0]
		xb2 := stripConv(lo.val.Args[1]).Args[0]
		// the loop over b
		var li *sym.LoopInfo
		if len(hi.ev.Loops) == 1 {
			li, _ = hi.ev.Loops[0].Frame.Loop(hi.ev.Loops[0].Header)
		}
		if li != nil && sym.Eq(xb1, xb2) && xb1.Op == "index" && sym.Eq(xb1.Args[1], li.IndexVal) {
			i := li.IndexVal
			want0 := sym.Bin(tokADD, sym.Bin(tokMUL, sym.Int(3), i, types.Typ[types.Int]), sym.Int(0), types.Typ[types.Int])
			want1 := sym.Bin(tokADD, sym.Bin(tokMUL, sym.Int(3), i, types.Typ[types.Int]), sym.Int(1), types.Typ[types.Int])
			okPos = sym.Eq(hi.idx, want0) && sym.Eq(lo.idx, want1) && strings.Contains(li.Bound.Key(), "len($param:b)")
			dPos = shortKey(hi.idx) + " / " + shortKey(lo.idx)
		}
	}
	R.Check(okHi, key+"#high-digit", pos, "hex[b[i]>>4]", dHi)
	R.Check(okLo, key+"#low-digit", pos, "hex[b[i]&15]", dLo)
	R.Check(okPos, key+"#columns", pos, "columns 3i and 3i+1 for i over the bytes given", dPos)
	okFill := fill != nil && fill.loops == 1
	wrote := false
	for _, ev := range in.Events {
		if ev.Kind == "extcall" && strings.Contains(ev.Callee, "Write") && len(ev.Args) >= 2 {
			if a := ev.Args[1]; a.Op == "slice" && sym.Len(a).Key() == "14" {
				wrote = true
			}
		}
	}
	R.Check(okFill && wrote, key+"#field", pos, "the field is filled with spaces first and written whole (14 columns)", fmt.Sprintf("fill=%v write=%v", okFill, wrote))
}

// observerOnly: the function has no results, and all it does is call methods of / through observer values it
// received as parameters (recursively through helpers of the same kind); it stores nothing outside its own locals.
func (c *Ctx) observerOnly(fn *ssa.Function, seen map[*ssa.Function]bool) bool {
	if fn == nil || fn.Blocks == nil || !c.P.FnInModule(fn) || fn.Signature.Results().Len() != 0 {
		return false
	}
	if seen[fn] {
		return true
	}
	seen[fn] = true
	obs := c.observerValues(fn)
	if len(obs) == 0 {
		return false
	}
	for _, b := range fn.Blocks {
		for _, ins := range b.Instrs {
			switch x := ins.(type) {
			case *ssa.Store:
				// only into locals
				root := x.Addr
				for {
					switch a := root.(type) {
					case *ssa.IndexAddr:
						root = a.X
						continue
					case *ssa.FieldAddr:
						root = a.X
						continue
					}
					break
				}
				if _, isAlloc := root.(*ssa.Alloc); !isAlloc {
					return false
				}
			case *ssa.MapUpdate, *ssa.Send, *ssa.Go, *ssa.Defer, *ssa.Panic:
				return false
			case *ssa.Call:
				cc := x.Common()
				switch {
				case cc.IsInvoke() && obs[cc.Value] != "":
				case !cc.IsInvoke() && obs[cc.Value] != "":
				default:
					if _, isB := cc.Value.(*ssa.Builtin); isB {
						continue
					}
					if !c.observerOnly(cc.StaticCallee(), seen) {
						return false
					}
				}
			}
		}
	}
	return true
}
