package rules

import (
	"go/constant"
	"go/token"
	"go/types"
	"strings"

	"golang.org/x/tools/go/ssa"

	"ivgsa/internal/sym"
)

// rootLeaves evaluates fn as a root and returns the leaves (conditions, value)
// of its result, one group per Return instruction under that return's guard.
func rootLeaves(in *sym.Interp, fn *ssa.Function, args []*sym.Term, mem *sym.Mem) ([]sym.TermCase, *sym.Frame, bool) {
	start := len(in.Events)
	_, _, fr := in.Run(fn, args, mem)
	var out []sym.TermCase
	ok := true
	for _, ev := range in.Events[start:] {
		if ev.Kind != "return" || ev.Frame != fr {
			continue
		}
		if len(ev.Args) == 0 || ev.Args[0] == nil {
			out = append(out, sym.TermCase{Conds: guardLits(ev.Guard), Val: nil})
			continue
		}
		ls := sym.CasesUnder(guardLits(ev.Guard), ev.Args[0], 512)
		if ls == nil {
			ok = false
		}
		out = append(out, ls...)
	}
	return out, fr, ok
}

func u8(v int64) *sym.Term  { return sym.Const(constant.MakeInt64(v), types.Typ[types.Uint8]) }
func u32(v int64) *sym.Term { return sym.Const(constant.MakeInt64(v), types.Typ[types.Uint32]) }

// foldConds substitutes and reports whether all conditions fold to true; ok is
// false if some condition does not fold to a constant.
func foldConds(conds []*sym.Term, subst map[string]*sym.Term) (all bool, ok bool) {
	all, ok = true, true
	for _, c := range conds {
		x := c
		for k, v := range subst {
			x = sym.Subst(x, keyTerm(k), v)
		}
		b, isC := x.BoolVal()
		if !isC {
			ok = false
			continue
		}
		if !b {
			all = false
		}
	}
	return
}

// keyTerm makes a term that has exactly the given key (for Subst matching).
type keyOnly struct{}

func keyTerm(key string) *sym.Term { return sym.WithKey(key) }

// atomsOf lists the distinct atom names and "len(...)" terms mentioned.
func atomsOf(ts ...*sym.Term) []string {
	m := map[string]bool{}
	for _, t := range ts {
		sym.Walk(t, func(x *sym.Term) bool {
			if x.Op == "atom" {
				m[x.Key()] = true
			}
			return true
		})
	}
	return sortedKeys(m)
}

func shortKey(t *sym.Term) string {
	if t == nil {
		return "<none>"
	}
	k := t.Key()
	k = strings.ReplaceAll(k, "github.com/reactivego/ivg/", "")
	k = strings.ReplaceAll(k, "$init:deref:$param:", "")
	k = strings.ReplaceAll(k, "$param:", "")
	if len(k) > 300 {
		k = k[:300] + "…"
	}
	return k
}

// rootBlock returns the block of the root function in which the event (or the
// outermost inlined call leading to it) sits.
func rootBlock(ev *sym.Event) *ssa.BasicBlock {
	site := ev.Site
	for f := ev.Frame; f != nil && f.Parent != nil; f = f.Parent {
		site = f.Site
	}
	if site == nil {
		return nil
	}
	return site.Block()
}

// reaches reports CFG reachability between two blocks of fr's function.
func reaches(from, to int, fr *sym.Frame) bool {
	blocks := fr.Fn.Blocks
	seen := make([]bool, len(blocks))
	stack := []int{from}
	for len(stack) > 0 {
		b := stack[len(stack)-1]
		stack = stack[:len(stack)-1]
		if b == to {
			return true
		}
		if seen[b] {
			continue
		}
		seen[b] = true
		for _, s := range blocks[b].Succs {
			stack = append(stack, s.Index)
		}
	}
	return false
}

type ssaPhi = ssa.Phi

const (
	tokEQL = token.EQL
	tokLEQ = token.LEQ
	tokLSS = token.LSS
	tokADD = token.ADD
	tokSUB = token.SUB
	tokAND = token.AND
	tokREM = token.REM
	tokMUL = token.MUL
)

// simpleHooks keeps selected module functions as opaque calls (pure: no
// effect on memory, result = call term) and pins root parameters and initial
// memory contents.
type simpleHooks struct {
	sym.NoHooks
	opaque    map[string]bool
	paramPins map[string]*sym.Term
	pins      map[string]*sym.Term // object id + "|" + path -> term
}

func newSimpleHooks(opaque ...string) *simpleHooks {
	h := &simpleHooks{opaque: map[string]bool{}, paramPins: map[string]*sym.Term{}, pins: map[string]*sym.Term{}}
	for _, o := range opaque {
		h.opaque[o] = true
	}
	return h
}

func (h *simpleHooks) Init(o *sym.Object, p sym.Path, t types.Type) *sym.Term {
	if v, ok := h.pins[o.ID+"|"+p.String()]; ok {
		return v
	}
	return nil
}

func (h *simpleHooks) Pin(fr *sym.Frame, v ssa.Value) *sym.Term {
	if fr.Parent == nil {
		if p, ok := v.(*ssa.Parameter); ok {
			if t, ok := h.paramPins[p.Name()]; ok {
				return t
			}
		}
	}
	return nil
}

func (h *simpleHooks) Call(in *sym.Interp, fr *sym.Frame, site ssa.CallInstruction, callee *ssa.Function, args []*sym.Term) (bool, *sym.Term) {
	if site == nil || callee == nil || !h.opaque[callee.Name()] {
		return false, nil
	}
	var rt types.Type
	if rs := callee.Signature.Results(); rs.Len() == 1 {
		rt = rs.At(0).Type()
	} else if rs.Len() > 1 {
		rt = rs
	}
	in.Emit(fr, "opaquecall", site, callee.Name(), canonArgs(callee, args), fr.Mem())
	if rt == nil {
		return true, nil
	}
	return true, sym.Call(callee.Name(), rt, args...)
}

func constantInt64(k *types.Const) (int64, bool) {
	return constant.Int64Val(constant.ToInt(k.Val()))
}
