package rules

import (
	"fmt"
	"go/constant"
	"go/types"
	"sort"
	"strings"

	"golang.org/x/tools/go/ssa"

	"ivgsa/internal/poly"
	"ivgsa/internal/sym"
)

// pinHooks: opaque functions, Destination deliveries, and pins chosen by a
// predicate over SSA values (phi comments carry the source variable names).
type pinHooks struct {
	sym.NoHooks
	opaque map[string]bool
	pin    func(fr *sym.Frame, v ssa.Value) *sym.Term
	destT  types.Type
	// extResults pins results of external calls by callee name
	extResults map[string]*sym.Term
}

func (h *pinHooks) Pin(fr *sym.Frame, v ssa.Value) *sym.Term {
	if h.pin != nil {
		return h.pin(fr, v)
	}
	return nil
}

func (h *pinHooks) Call(in *sym.Interp, fr *sym.Frame, site ssa.CallInstruction, callee *ssa.Function, args []*sym.Term) (bool, *sym.Term) {
	if site == nil {
		return false, nil
	}
	cc := site.Common()
	if callee == nil && cc.IsInvoke() && h.destT != nil && types.Identical(cc.Value.Type(), h.destT) {
		in.Emit(fr, "deliver", site, cc.Method.Name(), args[1:], fr.Mem())
		return true, nil
	}
	if callee != nil {
		if r, ok := h.extResults[callee.String()]; ok {
			in.Emit(fr, "extpinned", site, callee.String(), args, nil)
			return true, r
		}
		if h.opaque[callee.Name()] {
			var rt types.Type
			if rs := callee.Signature.Results(); rs.Len() == 1 {
				rt = rs.At(0).Type()
			} else if rs.Len() > 1 {
				rt = rs
			}
			ev := in.Emit(fr, "opaquecall", site, callee.Name(), canonArgs(callee, args), fr.Mem())
			in.Havoc(fr, site, fr.Mem(), args)
			if rt == nil {
				return true, nil
			}
			r := sym.Atom(fmt.Sprintf("res@%s#%d:%s", fr.ID, ordinal(site), callee.Name()), rt)
			if ev != nil {
				ev.Result = r
			}
			return true, r
		}
	}
	return false, nil
}

// phiNamed: the loop-head phi of the named source variable.
func phiNamed(v ssa.Value, name string) bool {
	p, ok := v.(*ssa.Phi)
	return ok && p.Comment == name && isLoopHeadPhi(p)
}

// argIndexOf recognises a read of element k of the (havocked) operand array.
func argIndexOf(t *sym.Term) (state string, k int64, ok bool) {
	t = stripConv(t)
	if t.Op != "index" {
		return "", 0, false
	}
	k, ok = t.Args[1].Int64()
	return t.Args[0].Key(), k, ok
}

func sortedVerbs() []byte {
	var vs []int
	for vb := range svgTable {
		vs = append(vs, int(vb))
	}
	sort.Ints(vs)
	out := make([]byte, len(vs))
	for i, x := range vs {
		out[i] = byte(x)
	}
	return out
}

// ruleC20_1: verb tables of the two SVG path-data front ends.
func ruleC20_1(c *Ctx) {
	R := c.R
	R.Rule("C20.1", "verb tables: keyed by verb byte (x first-verb flag, x previous verb for operand groups without a verb) each front end scans the verb's operand count, normalises with the right verb, and delivers the method the path spells with the operands wired in order (arc rotation /360, flags as != 0); the first move starts the path with the given ADJ, later moves close-and-move, M/m demote to L/l for repeated groups, Z/z deliver nothing, the path is ended exactly once", 70)
	destT := c.Named("", "Destination")
	u8t := types.Typ[types.Uint8]

	// ---------- generator ----------
	if fn := c.Method("generate", "Generator", "SetPathData", true); fn != nil && destT != nil {
		pos := c.FPos(fn)
		type key struct {
			verb     byte // byte read at the head of the loop
			start    bool
			prevVerb byte
			label    string
		}
		var keys []key
		for _, vb := range sortedVerbs() {
			for _, st := range []bool{true, false} {
				keys = append(keys, key{vb, st, 0, fmt.Sprintf("verb=%q,start=%v", rune(vb), st)})
			}
		}
		// operand groups without a verb: the byte is a digit, sign or dot
		for _, pv := range []byte{'L', 'l', 'Q', 'c', 'H', 'a', 'T'} {
			keys = append(keys, key{'1', false, pv, fmt.Sprintf("implicit after %q", rune(pv))})
		}
		keys = append(keys, key{'1', true, 0, "implicit with no previous verb"})
		for _, k := range keys {
			in := c.Interp()
			h := &pinHooks{opaque: map[string]bool{"scan": true, "normalize": true, "UnrecognizedPathDataVerb": true}, destT: destT}
			kk := k
			h.pin = func(fr *sym.Frame, v ssa.Value) *sym.Term {
				if fr.Parent != nil {
					return nil
				}
				if isStringByte0(v) {
					return sym.Const(constant.MakeInt64(int64(kk.verb)), u8t)
				}
				switch {
				case phiNamed(v, "start"):
					return sym.Bool(kk.start)
				case phiNamed(v, "prevVerb"):
					return sym.Const(constant.MakeInt64(int64(kk.prevVerb)), u8t)
				case phiNamed(v, "prevN"):
					if kk.prevVerb != 0 {
						return sym.Int(int64(svgTable[kk.prevVerb].n))
					}
					return sym.Int(0)
				}
				return nil
			}
			in.Hooks = h
			_, _, fr := in.Run(fn, nil, nil)
			construct := "generate.(*Generator).SetPathData#" + k.label
			var scans, norms, dels, errs []*sym.Event
			var endPath []*sym.Event
			for _, ev := range in.Events {
				switch {
				case ev.Kind == "opaquecall" && ev.Callee == "scan":
					scans = append(scans, ev)
				case ev.Kind == "opaquecall" && ev.Callee == "normalize":
					norms = append(norms, ev)
				case ev.Kind == "opaquecall" && ev.Callee == "UnrecognizedPathDataVerb":
					errs = append(errs, ev)
				case ev.Kind == "deliver" && len(ev.Loops) == 0:
					endPath = append(endPath, ev)
				case ev.Kind == "deliver":
					dels = append(dels, ev)
				}
			}
			// effective verb and expectations
			verb := k.verb
			implicit := false
			if _, known := svgTable[k.verb]; !known {
				implicit = true
				verb = k.prevVerb
				if verb == 'M' {
					verb = 'L'
				} else if verb == 'm' {
					verb = 'l'
				}
			}
			if implicit && k.prevVerb == 0 {
				// no previous verb: an error, nothing delivered
				R.Check(len(dels) == 0 && len(errs) >= 1, construct, pos, "rejected (unrecognised verb), nothing delivered", fmt.Sprintf("%d deliveries", len(dels)))
				continue
			}
			spec := svgTable[verb]
			var diffs []string
			if len(scans) != 1 || len(norms) != 1 {
				diffs = append(diffs, fmt.Sprintf("%d scans, %d normalisations", len(scans), len(norms)))
			} else {
				if n, ok := scans[0].Args[2].Int64(); !ok || n != int64(spec.n) {
					diffs = append(diffs, fmt.Sprintf("scans %s operands, want %d", shortKey(scans[0].Args[2]), spec.n))
				}
				// the verb letter itself is skipped exactly when it was present
				dArg := scans[0].Args[1]
				skipped := dArg.Op == "strslice" && dArg.Args[1].Key() == "1"
				if skipped == implicit {
					diffs = append(diffs, "verb byte skipped="+fmt.Sprint(skipped))
				}
				wantNormVerb := int64(verb)
				if k.start {
					wantNormVerb = '@'
				}
				if nv, ok := norms[0].Args[2].Int64(); !ok || nv != wantNormVerb {
					diffs = append(diffs, fmt.Sprintf("normalises as %s, want %q", shortKey(norms[0].Args[2]), rune(wantNormVerb)))
				}
				if nn, ok := norms[0].Args[1].Int64(); !ok || nn != int64(spec.n) {
					diffs = append(diffs, "normalises a different operand count")
				}
			}
			wantMethod := spec.method
			if k.start {
				wantMethod = "StartPath"
			}
			if wantMethod == "" {
				if len(dels) != 0 {
					diffs = append(diffs, "Z/z must deliver nothing")
				}
			} else if len(dels) != 1 || dels[0].Callee != wantMethod {
				var ms []string
				for _, d := range dels {
					ms = append(ms, d.Callee)
				}
				diffs = append(diffs, fmt.Sprintf("delivers %v, want %s", ms, wantMethod))
			} else {
				args := dels[0].Args
				wiring := spec.wiring
				if k.start {
					// StartPath(adj, args[0], args[1])
					if len(args) != 3 || args[0].Key() != "$param:adj" {
						diffs = append(diffs, "StartPath must receive the adj argument")
					}
					args = args[1:]
					wiring = []int{0, 1}
				}
				// every operation the path spells is delivered: whether the call is made must not depend on the values
				// of its operands (only on the verb and on the operands having been scanned)
				for _, l := range guardLits(dels[0].Guard) {
					dep := false
					sym.Walk(l, func(x *sym.Term) bool {
						if x.Op == "index" && strings.Contains(x.Args[0].Key(), "havoc") {
							if _, isC := x.Args[1].Int64(); isC {
								dep = true
							}
						}
						return !dep
					})
					if dep {
						diffs = append(diffs, "the call is made only for some operand values: "+shortKey(l))
					}
				}
				if len(args) != len(wiring) {
					diffs = append(diffs, fmt.Sprintf("%d arguments, want %d", len(args), len(wiring)))
				} else {
					state := ""
					for i, a := range args {
						want := int64(wiring[i])
						t := a
						// arcs: rotation/360, flags != 0
						if verb == 'A' || verb == 'a' {
							switch i {
							case 2:
								if t.Op == "bin" && t.Name == "/" && t.Args[1].Key() == "360" {
									t = t.Args[0]
								} else {
									diffs = append(diffs, "rotation is not divided by 360")
								}
							case 3, 4:
								if t.Op == "not" && t.Args[0].Op == "bin" && t.Args[0].Name == "==" && isZeroConst(t.Args[0].Args[1]) {
									t = t.Args[0].Args[0]
								} else {
									diffs = append(diffs, "flag is not 'operand != 0'")
								}
							}
						}
						st, kidx, ok := argIndexOf(t)
						if !ok || kidx != want {
							diffs = append(diffs, fmt.Sprintf("argument %d is %s, want operand %d", i, shortKey(a), want))
							continue
						}
						if state == "" {
							state = st
						} else if state != st {
							diffs = append(diffs, "arguments read different states of the operand array")
						}
						// the operands are read after normalisation
						if !strings.Contains(st, "havoc") || len(norms) == 1 && !strings.Contains(st, fmt.Sprintf("#%d:", ordinal(norms[0].Site))) {
							diffs = append(diffs, "operands are not the normalised ones")
						}
					}
				}
			}
			// demotion of M/m for repeated groups
			if !implicit {
				for _, b := range fr.Fn.Blocks {
					for _, ins := range b.Instrs {
						if phi, ok := ins.(*ssa.Phi); ok && phiNamed(phi, "prevVerb") {
							_, back := phiEdges(fr, phi)
							want := int64(verb)
							if verb == 'M' {
								want = 'L'
							} else if verb == 'm' {
								want = 'l'
							}
							if len(back) != 1 {
								diffs = append(diffs, "previous verb not carried")
							} else if bv, ok := back[0].Int64(); !ok || bv != want {
								diffs = append(diffs, fmt.Sprintf("previous verb becomes %s, want %q", shortKey(back[0]), rune(want)))
							}
						}
					}
				}
			}
			if len(endPath) != 1 || endPath[0].Callee != "ClosePathEndPath" {
				diffs = append(diffs, "the path is not ended exactly once after the loop")
			}
			R.Check(len(diffs) == 0, construct, pos, fmt.Sprintf("scan %d operands, deliver %s", spec.n, wantMethod), strings.Join(diffs, "; "))
		}
	}

	// ---------- converter ----------
	if fn := c.Fn("mdicons", "ParsePathData"); fn != nil && destT != nil {
		pos := c.FPos(fn)
		type key struct {
			b       byte
			started bool
			op      byte // pending op for operand groups without a verb
			label   string
		}
		var keys []key
		for _, vb := range sortedVerbs() {
			if vb == 'A' || vb == 'a' {
				continue // not in the converter's dialect
			}
			for _, st := range []bool{false, true} {
				if !st && vb != 'M' {
					continue // the dialect starts with M
				}
				keys = append(keys, key{vb, st, 0, fmt.Sprintf("op=%q,started=%v", rune(vb), st)})
			}
		}
		for _, pv := range []byte{'L', 'l', 'q', 'C', 'h'} {
			keys = append(keys, key{'1', true, pv, fmt.Sprintf("implicit after %q", rune(pv))})
		}
		for _, k := range keys {
			in := c.Interp()
			kk := k
			h := &pinHooks{opaque: map[string]bool{"scan": true, "normalize": true}, destT: destT, extResults: map[string]*sym.Term{}}
			h.extResults["(*strings.Reader).ReadByte"] = sym.Tuple(sym.Const(constant.MakeInt64(int64(kk.b)), u8t), sym.Nil(types.Universe.Lookup("error").Type()))
			h.pin = func(fr *sym.Frame, v ssa.Value) *sym.Term {
				if fr.Parent != nil {
					return nil
				}
				switch {
				case phiNamed(v, "started"):
					return sym.Bool(kk.started)
				case phiNamed(v, "op"):
					// the phi at the loop head carries the pending op
					return sym.Const(constant.MakeInt64(int64(kk.op)), u8t)
				case phiNamed(v, "relative"):
					return sym.Bool(kk.op >= 'a' && kk.op <= 'z')
				}
				return nil
			}
			in.Hooks = h
			in.Run(fn, nil, nil)
			construct := "mdicons.ParsePathData#" + k.label
			var scans, norms, dels []*sym.Event
			for _, ev := range in.Events {
				switch {
				case ev.Kind == "opaquecall" && ev.Callee == "scan":
					scans = append(scans, ev)
				case ev.Kind == "opaquecall" && ev.Callee == "normalize":
					norms = append(norms, ev)
				case ev.Kind == "deliver":
					dels = append(dels, ev)
				}
			}
			verb := k.b
			implicit := false
			if _, known := svgTable[k.b]; !known {
				implicit = true
				verb = k.op
			}
			spec := svgTable[verb]
			var diffs []string
			if len(scans) != 1 || len(norms) != 1 {
				diffs = append(diffs, fmt.Sprintf("%d scans, %d normalisations", len(scans), len(norms)))
			} else {
				if n, ok := scans[0].Args[2].Int64(); !ok || n != int64(spec.n) {
					diffs = append(diffs, fmt.Sprintf("scans %s operands, want %d", shortKey(scans[0].Args[2]), spec.n))
				}
				if nv, ok := norms[0].Args[2].Int64(); !ok || nv != int64(verb) {
					diffs = append(diffs, fmt.Sprintf("normalises as %s, want %q", shortKey(norms[0].Args[2]), rune(verb)))
				}
				rel := verb >= 'a' && verb <= 'z'
				if rv, ok := norms[0].Args[len(norms[0].Args)-1].BoolVal(); !ok || rv != rel {
					diffs = append(diffs, "relative flag does not match the verb's case")
				}
			}
			wantMethod := spec.method
			if verb == 'M' && !k.started {
				wantMethod = "StartPath"
			}
			_ = implicit
			if wantMethod == "" {
				if len(dels) != 0 {
					diffs = append(diffs, "Z/z must deliver nothing")
				}
			} else if len(dels) != 1 || dels[0].Callee != wantMethod {
				var ms []string
				for _, d := range dels {
					ms = append(ms, d.Callee)
				}
				diffs = append(diffs, fmt.Sprintf("delivers %v, want %s", ms, wantMethod))
			} else {
				args := dels[0].Args
				if wantMethod == "StartPath" {
					if len(args) != 3 || args[0].Key() != "$param:adj" {
						diffs = append(diffs, "StartPath must receive the adj argument")
					}
					args = args[1:]
				}
				if len(args) != spec.n {
					diffs = append(diffs, fmt.Sprintf("%d arguments, want %d", len(args), spec.n))
				} else {
					for i, a := range args {
						st, kidx, ok := argIndexOf(a)
						if !ok || kidx != int64(i) || !strings.Contains(st, "havoc") {
							diffs = append(diffs, fmt.Sprintf("argument %d is %s", i, shortKey(a)))
						}
					}
				}
			}
			R.Check(len(diffs) == 0, construct, pos, fmt.Sprintf("scan %d operands, deliver %s", spec.n, wantMethod), strings.Join(diffs, "; "))
		}
	}
}

func isLoopHeadPhi(p *ssa.Phi) bool {
	b := p.Block()
	for _, pr := range b.Preds {
		if b.Dominates(pr) {
			return true
		}
	}
	return false
}

func isZeroConst(t *sym.Term) bool {
	if v, ok := t.Int64(); ok {
		return v == 0
	}
	if t.IsConst() && t.C != nil && t.C.Kind() == constant.Float {
		return constant.Sign(t.C) == 0
	}
	return false
}

// ruleC20_3: opacity registers and circles in the converter.
func ruleC20_3(c *Ctx) {
	R := c.R
	R.Rule("C20.3", "converter: a path opacity other than 1 becomes a blend of transparent (0x7f) with the first palette colour (0x80) weighted by uint8(opacity*255), written once per distinct opacity at ADJ = number of opacities seen + 1 (a known opacity writes nothing); each circle is a move to (cx-r, cy) (starting the path if nothing started it) followed by two relative half-turn arcs (+2r, then -2r) with radii r, no rotation, flags (false,true); centre and radius are normalised like absolute/relative operands; the path is ended exactly once; the register of a known opacity is reused for the path data and the circles; only the first circle of a data-less path starts the path", 6)
	destT := c.Named("", "Destination")
	fn := c.Fn("mdicons", "ParsePath")
	if fn == nil || destT == nil {
		return
	}
	pos := c.FPos(fn)
	in := c.Interp()
	h := &pinHooks{opaque: map[string]bool{"ParsePathData": true}, destT: destT}
	in.Hooks = h
	_, _, fr := in.Run(fn, nil, nil)
	key := "mdicons.ParsePath"
	var setc, starts, moves, arcs, ends, ppd, mapups []*sym.Event
	for _, ev := range in.Events {
		switch {
		case ev.Kind == "deliver" && ev.Callee == "SetCReg":
			setc = append(setc, ev)
		case ev.Kind == "deliver" && ev.Callee == "StartPath":
			starts = append(starts, ev)
		case ev.Kind == "deliver" && ev.Callee == "ClosePathAbsMoveTo":
			moves = append(moves, ev)
		case ev.Kind == "deliver" && ev.Callee == "RelArcTo":
			arcs = append(arcs, ev)
		case ev.Kind == "deliver" && ev.Callee == "ClosePathEndPath":
			ends = append(ends, ev)
		case ev.Kind == "opaquecall" && ev.Callee == "ParsePathData":
			ppd = append(ppd, ev)
		case ev.Kind == "mapupdate":
			mapups = append(mapups, ev)
		case ev.Kind == "deliver":
			R.Bad(key+"#unexpected:"+ev.Callee, c.Pos(ev.Site), "only SetCReg, StartPath, ClosePathAbsMoveTo, RelArcTo, ClosePathEndPath", ev.Callee)
		}
	}
	_ = fr
	// opacity
	if len(setc) != 1 || len(mapups) != 1 {
		R.Bad(key+"#opacity", pos, "one SetCReg site and one map update", fmt.Sprintf("%d, %d", len(setc), len(mapups)))
	} else {
		ev := setc[0]
		g := ev.Guard.Key()
		// reached only on a map miss with opacity != 1
		okGuard := strings.Contains(g, "lookupok") && strings.Contains(g, "not(")
		col := ev.Args[2]
		okCol := false
		detail := shortKey(col)
		if bc := c.Fn("", "BlendColor"); bc != nil && col.Op == "agg" && len(col.Args) == 2 && col.Args[1].Op == "agg" && len(col.Args[1].Args) == 4 {
			in2 := c.Interp()
			tmpl, _, _ := in2.Run(bc, []*sym.Term{sym.Atom("t", u8T()), u8(0x7f), u8(0x80)}, nil)
			okCol = tmpl != nil && tmpl.Op == "agg" && sym.Eq(tmpl.Args[0], col.Args[0]) &&
				normAgg(tmpl.Args[1].Args[1]) == normAgg(col.Args[1].Args[1]) && normAgg(tmpl.Args[1].Args[2]) == normAgg(col.Args[1].Args[2])
			// the weight: uint8(opacity*255) on every case (the opacity comes from one of two attributes)
			nW := 0
			for _, lf := range sym.DeepCases(col.Args[1].Args[0], 16) {
				w := lf.Val
				if w.IsConst() {
					continue // the opacity-is-1 default, excluded by the guard
				}
				if w.Op != "conv" || !isUint8(w.T) {
					okCol = false
					continue
				}
				e := poly.NewEnv()
				p, okp := e.One(w.Args[0])
				vs := p.Num.Vars()
				if !okp || len(vs) != 1 || !p.Equal(poly.RatVar(vs[0]).Mul(poly.RatInt(255))) {
					okCol = false
				}
				nW++
			}
			if nW == 0 {
				okCol = false
			}
		}
		// adj = len(adjs)+1, same value stored in the map
		adj := ev.Args[0]
		okAdj := strings.Contains(adj.Key(), "len($param:adjs)") && sym.Eq(mapups[0].Args[2], adj)
		if okAdj {
			e := poly.NewEnv()
			e.Rename["len($param:adjs)"] = "n"
			p, okp := e.One(adj)
			okAdj = okp && p.Equal(v("n").Add(poly.RatInt(1)))
		}
		inc, _ := ev.Args[1].BoolVal()
		R.Check(okGuard && okCol && okAdj && !inc, key+"#opacity", c.Pos(ev.Site), "on a new opacity: SetCReg(len(adjs)+1, false, BlendColor(uint8(opacity*255), 0x7f, 0x80)) and remember it", fmt.Sprintf("guard ok=%v colour ok=%v adj ok=%v; %s", okGuard, okCol, okAdj, detail))
	}
	// the register adjustment reaches the path data and the circles
	// the register adjustment that reaches the path data and the circles: 0 for an opaque path, the remembered
	// register for a known opacity, the newly assigned one for a new opacity
	adjOK := func(adj *sym.Term) (bool, string) {
		leaves := sym.DeepCases(adj, 32)
		if leaves == nil {
			return false, "too many cases: " + shortKey(adj)
		}
		var hit, miss, opaque int
		for _, lf := range leaves {
			if sym.CondsContradict(lf.Conds) {
				continue
			}
			ck := sym.And(lf.Conds...).Key()
			vk := lf.Val.Key()
			isHit := strings.Contains(ck, "lookupok") && !strings.Contains(ck, "not(extract:1($lookup") && !strings.Contains(ck, "not($lookupok")
			for _, cd := range lf.Conds {
				if cd.Op == "not" && strings.Contains(cd.Key(), "lookupok") {
					isHit = false
				}
			}
			mentionsOK := strings.Contains(ck, "lookupok")
			switch {
			case lf.Val.IsConst():
				if k, _ := lf.Val.Int64(); k != 0 || mentionsOK {
					return false, "constant adjustment " + vk + " on a path that looked the opacity up"
				}
				opaque++
			case strings.Contains(vk, "len($param:adjs)"):
				if isHit || !mentionsOK {
					return false, "a new register is used although the opacity is known"
				}
				miss++
			case strings.Contains(vk, "lookup"):
				if !isHit {
					return false, "the remembered register is used on a miss"
				}
				hit++
			default:
				return false, "unrecognised adjustment " + vk
			}
		}
		if hit == 0 || miss == 0 || opaque == 0 {
			return false, fmt.Sprintf("cases seen: opaque=%d known opacity=%d new opacity=%d (each must occur): %s", opaque, hit, miss, shortKey(adj))
		}
		return true, ""
	}
	if len(ppd) == 1 && len(ppd[0].Args) >= 3 {
		ok, why := adjOK(ppd[0].Args[2])
		R.Check(ok, key+"#pathdata", c.Pos(ppd[0].Site), "the path data is parsed with the opacity's register (0, remembered, or new)", why)
	} else {
		R.Unknown(key+"#pathdata", pos, "the call of ParsePathData was not found")
	}
	if len(starts) == 1 {
		ok, why := adjOK(starts[0].Args[0])
		R.Check(ok, key+"#circle-start", c.Pos(starts[0].Site), "a path made of circles only starts with the opacity's register (0, remembered, or new)", why)
	}
	// exactly one circle starts the path: the choice between StartPath and ClosePathAbsMoveTo is a loop-carried flag
	// that is "no path data" before the first circle and false after any circle
	if len(starts) == 1 && len(moves) == 1 && len(starts[0].Loops) == 1 {
		okFlag, why := false, "the choice between starting the path and close-and-move is not a loop-carried flag"
		for _, l := range guardLits(starts[0].Guard) {
			if l.Op != "atom" || !strings.HasPrefix(l.Name, "phi#") {
				continue
			}
			if !impliesLit([]*sym.Term{moves[0].Guard}, sym.Not(l)) {
				continue
			}
			phi := phiOfAtom(fr, l)
			if phi == nil {
				continue
			}
			init, back := phiEdges(fr, phi)
			okFlag = len(init) == 1 && len(back) > 0
			why = ""
			for _, b := range back {
				if bv, isC := b.BoolVal(); !isC || bv {
					okFlag, why = false, "after a circle the flag is "+shortKey(b)+", so a later circle can start the path again"
				}
			}
			if okFlag && !(strings.Contains(init[0].Key(), "p.") || strings.Contains(init[0].Key(), "param:p")) {
				okFlag, why = false, "the flag's initial value does not depend on the path data: "+shortKey(init[0])
			}
		}
		R.Check(okFlag, key+"#circle-start-once", c.Pos(starts[0].Site), "only the first circle of a path without path data starts the path; every other circle closes and moves", why)
	}
	// circles
	okCirc := len(starts) == 1 && len(moves) == 1 && len(arcs) == 2
	detail := fmt.Sprintf("%d StartPath, %d ClosePathAbsMoveTo, %d RelArcTo in the circle loop", len(starts), len(moves), len(arcs))
	if okCirc {
		env := poly.NewEnv()
		env.Rename["$param:outSize"] = "out"
		env.Rename["$param:size"] = "size"
		for k := 0; k < 2; k++ {
			env.Rename[fmt.Sprintf("index($param:offset,%d)", k)] = fmt.Sprintf("off%d", k)
		}
		// circle fields: field:k(index(circles, i))
		sym.Walk(sym.Tuple(append(append([]*sym.Term{}, starts[0].Args...), arcs[0].Args...)...), func(t *sym.Term) bool {
			if t.Op == "field" && t.Args[0].Op == "index" && strings.Contains(t.Args[0].Key(), "param:circles") {
				env.Rename[t.Key()] = map[string]string{"0": "Cx", "1": "Cy", "2": "Rr"}[t.Name]
			}
			return true
		})
		cx := v("Cx").Mul(v("out")).Div(v("size")).Sub(v("out").Div(poly.RatInt(2)).Add(v("off0")))
		cy := v("Cy").Mul(v("out")).Div(v("size")).Sub(v("out").Div(poly.RatInt(2)).Add(v("off1")))
		rr := v("Rr").Mul(v("out")).Div(v("size"))
		chk := func(ev *sym.Event, off int) bool {
			x, ok1 := env.One(ev.Args[off])
			y, ok2 := env.One(ev.Args[off+1])
			return ok1 && ok2 && x.Equal(cx.Sub(rr)) && y.Equal(cy)
		}
		if !chk(starts[0], 1) || !chk(moves[0], 0) {
			okCirc = false
			detail = "the move does not go to (cx - r, cy)"
		}
		// the two arcs
		wantDx := []poly.Rat{rr.Mul(poly.RatInt(2)), rr.Mul(poly.RatInt(-2))}
		// order by dominance
		a0, a1 := arcs[0], arcs[1]
		if !evBefore(a0, a1) {
			a0, a1 = a1, a0
		}
		for i, a := range []*sym.Event{a0, a1} {
			rx, ok1 := env.One(a.Args[0])
			ry, ok2 := env.One(a.Args[1])
			rot, ok3 := env.One(a.Args[2])
			la, _ := a.Args[3].BoolVal()
			sw, _ := a.Args[4].BoolVal()
			dx, ok4 := env.One(a.Args[5])
			dy, ok5 := env.One(a.Args[6])
			if !(ok1 && ok2 && ok3 && ok4 && ok5 && rx.Equal(rr) && ry.Equal(rr) && rot.IsZero() && !la && sw && a.Args[3].IsConst() && a.Args[4].IsConst() && dx.Equal(wantDx[i]) && dy.IsZero()) {
				okCirc = false
				detail = fmt.Sprintf("arc %d is not RelArcTo(r, r, 0, false, true, %s, 0)", i, wantDx[i].String())
			}
		}
		hdr := -1
		if len(a0.Loops) == 1 {
			hdr = a0.Loops[0].Header
		}
		follows := func(m *sym.Event) bool {
			bm, ba := rootBlock(m), rootBlock(a0)
			return bm != nil && ba != nil && reachesAvoidingHeader(fr, bm.Index, ba.Index, hdr) && !reachesAvoidingHeader(fr, ba.Index, bm.Index, hdr)
		}
		if !follows(starts[0]) || !follows(moves[0]) {
			okCirc = false
			detail = "the arcs do not follow the move"
		}
	}
	R.Check(okCirc, key+"#circles", pos, "move to (cx-r, cy); RelArcTo(r,r,0,false,true,+2r,0); RelArcTo(r,r,0,false,true,-2r,0)", detail)
	R.Check(len(ends) == 1 && len(ends[0].Loops) == 0, key+"#end", pos, "ClosePathEndPath exactly once, after the circles", fmt.Sprint(len(ends)))
}

func isUint8(t types.Type) bool {
	b, ok := t.Underlying().(*types.Basic)
	return ok && b.Kind() == types.Uint8
}

// isStringByte0 recognises s[0] on a string (ssa.Index or ssa.Lookup, depending on the builder).
func isStringByte0(v ssa.Value) bool {
	var x, idx ssa.Value
	switch i := v.(type) {
	case *ssa.Lookup:
		x, idx = i.X, i.Index
	case *ssa.Index:
		x, idx = i.X, i.Index
	default:
		return false
	}
	cst, ok := idx.(*ssa.Const)
	if !ok || cst.Value == nil || cst.Value.ExactString() != "0" {
		return false
	}
	b, isBasic := x.Type().Underlying().(*types.Basic)
	return isBasic && b.Info()&types.IsString != 0
}

func u8T() types.Type { return types.Typ[types.Uint8] }

// reachesAvoidingHeader: block to is reachable from block from without passing through the loop header.
func reachesAvoidingHeader(fr *sym.Frame, from, to, header int) bool {
	blocks := fr.Fn.Blocks
	seen := make([]bool, len(blocks))
	stack := []int{from}
	for len(stack) > 0 {
		b := stack[len(stack)-1]
		stack = stack[:len(stack)-1]
		if b == to {
			return true
		}
		if seen[b] {
			continue
		}
		seen[b] = true
		for _, s := range blocks[b].Succs {
			if s.Index != header {
				stack = append(stack, s.Index)
			}
		}
	}
	return false
}
