package rules

import (
	"fmt"
	"go/constant"
	"go/token"
	"go/types"

	"golang.org/x/tools/go/ssa"
)

func init() {
	register("C11", ruleC11_9)
	// the same input gets the same verdict from every entry point: part of "decoding is total" (C02), of "exactly the
	// grammar" (C03) and of the metadata-only path (C13)
	register("C02", func(c *Ctx) { only(c, ruleC11_9, "C11.9") })
	register("C03", func(c *Ctx) { only(c, ruleC11_9, "C11.9") })
	register("C13", func(c *Ctx) { only(c, ruleC11_9, "C11.9") })
}

// ruleC11_9: Decode, Disassemble and DecodeViewBox accept and refuse the same inputs with the same error because each
// is a thin wrapper round one shared core: the core is called exactly once, on every path and before any return, on
// the caller's bytes as given (and, for Decode, the caller's destination and options as given); the error returned is
// the core's error on every path (nil only where the core's error was tested to be nil); nothing else in the wrapper
// can fail or deliver. What differs between the entry points is only the printer / destination / metadata-only flag.
func ruleC11_9(c *Ctx) {
	R := c.R
	R.Rule("C11.9", "one verdict for all entry points: Decode, Disassemble and DecodeViewBox each call the shared core exactly once, on every path and before any return, with the caller's bytes (destination, options) unchanged, and return the core's error unchanged (nil only where that error was tested to be nil); Decode and DecodeViewBox pass no printer, only DecodeViewBox asks for the metadata only", 9)
	var core *ssa.Function
	entries := []string{"Decode", "Disassemble", "DecodeViewBox"}
	calls := map[string][]*ssa.Call{}
	for _, e := range entries {
		fn := c.P.Func("decode", e)
		if fn == nil {
			R.Anchor("decode." + e)
			continue
		}
		for _, b := range fn.Blocks {
			for _, ins := range b.Instrs {
				if call, ok := ins.(*ssa.Call); ok {
					if cal := call.Common().StaticCallee(); cal != nil && c.P.FnInModule(cal) && cal.Pkg == fn.Pkg && cal.Parent() == nil && fnHasByteInput(cal) {
						calls[e] = append(calls[e], call)
					}
				}
			}
		}
	}
	// the core: the one function of package decode that all three call
	count := map[*ssa.Function]int{}
	for _, e := range entries {
		seen := map[*ssa.Function]bool{}
		for _, cl := range calls[e] {
			f := cl.Common().StaticCallee()
			if !seen[f] {
				seen[f] = true
				count[f]++
			}
		}
	}
	for f, n := range count {
		if n == len(entries) && (core == nil || f.Name() == "decode") {
			core = f
		}
	}
	if core == nil {
		R.Unknown("decode#core", "-", "no single function of package decode is called by Decode, Disassemble and DecodeViewBox: the three entry points do not visibly share one parser")
		return
	}
	for _, e := range entries {
		fn := c.P.Func("decode", e)
		if fn == nil {
			continue
		}
		pos := c.FPos(fn)
		key := "decode." + e
		var cs []*ssa.Call
		for _, cl := range calls[e] {
			if cl.Common().StaticCallee() == core {
				cs = append(cs, cl)
			}
		}
		if len(cs) != 1 {
			R.Bad(key+"#core-call", pos, "exactly one call of "+core.Name(), fmt.Sprintf("%d calls", len(cs)))
			continue
		}
		call := cs[0]
		// (1) on every path, before any return; nothing can panic or return before it
		okDom := true
		detail := ""
		for _, b := range fn.Blocks {
			for _, ins := range b.Instrs {
				switch x := ins.(type) {
				case *ssa.Return:
					if !(call.Block() == b || call.Block().Dominates(b)) {
						okDom = false
						detail = "a return at " + c.Pos(x) + " is reachable without calling " + core.Name()
					}
				case *ssa.Panic:
					okDom = false
					detail = "panic at " + c.Pos(x)
				}
			}
		}
		R.Check(okDom, key+"#core-call:on-every-path", c.Pos(call), core.Name()+" is called on every path to a return", detail)
		// (2) arguments as given
		sig := core.Signature
		for i := 0; i < sig.Params().Len(); i++ {
			prm := sig.Params().At(i)
			arg := call.Call.Args[i]
			role := ""
			switch {
			case tyIsByteSeq(prm.Type()):
				role = "src"
			case c.Named("", "Destination") != nil && types.Identical(prm.Type(), c.Named("", "Destination")):
				role = "dst"
			case sig.Variadic() && i == sig.Params().Len()-1:
				role = "opts"
			case tyIsBool(prm.Type()):
				role = "metadataOnly"
			case tyIsFunc(prm.Type()):
				role = "printer"
			default:
				continue
			}
			ck := fmt.Sprintf("%s#core-call:%s", key, role)
			switch role {
			case "src":
				p := ssaParamOf(ssaStripConv(arg))
				R.Check(p != nil && tyIsByteSeq(p.Type()), ck, c.Pos(call), "the caller's byte slice, unchanged", ssaDescribe(arg))
			case "dst":
				if e == "Decode" {
					p := ssaParamOf(ssaStripConv(arg))
					R.Check(p != nil, ck, c.Pos(call), "the caller's destination", ssaDescribe(arg))
				} else {
					R.Check(ssaIsNilConst(arg), ck, c.Pos(call), "no destination", ssaDescribe(arg))
				}
			case "opts":
				if e == "Decode" {
					p := ssaParamOf(ssaStripConv(arg))
					R.Check(p != nil, ck, c.Pos(call), "the caller's options", ssaDescribe(arg))
				} else {
					R.Check(ssaIsNilConst(arg), ck, c.Pos(call), "no options", ssaDescribe(arg))
				}
			case "metadataOnly":
				k, ok := arg.(*ssa.Const)
				want := e == "DecodeViewBox"
				R.Check(ok && k.Value != nil && k.Value.Kind() == constant.Bool && constant.BoolVal(k.Value) == want, ck, c.Pos(call), fmt.Sprint(want), ssaDescribe(arg))
			case "printer":
				if e == "Disassemble" {
					R.Check(!ssaIsNilConst(arg), ck, c.Pos(call), "a printer", ssaDescribe(arg))
				} else {
					R.Check(ssaIsNilConst(arg), ck, c.Pos(call), "no printer", ssaDescribe(arg))
				}
			}
		}
		// (3) the error returned is the core's, on every path
		errIdx := fn.Signature.Results().Len() - 1
		okErr := errIdx >= 0 && tyIsError(fn.Signature.Results().At(errIdx).Type())
		detail = ""
		if okErr {
			for _, b := range fn.Blocks {
				ret, ok := b.Instrs[len(b.Instrs)-1].(*ssa.Return)
				if !ok {
					continue
				}
				for _, leaf := range ssaPhiLeaves(ssaLoadedValue(ret.Results[errIdx], fn)) {
					lf := ssaLoadedValue(leaf, fn)
					switch {
					case lf == ssa.Value(call):
					case ssaIsNilConst(lf):
						if !ssaNilTested(b, call) {
							okErr = false
							detail = "nil is returned at " + c.Pos(ret) + " where the core's error has not been tested to be nil"
						}
					default:
						ok2 := false
						for _, l2 := range ssaPhiLeaves(lf) {
							if l2 == ssa.Value(call) {
								ok2 = true
							} else if !ssaIsNilConst(l2) {
								ok2 = false
								break
							}
						}
						if !ok2 {
							okErr = false
							detail = "the error returned at " + c.Pos(ret) + " is " + ssaDescribe(lf)
						}
					}
				}
			}
		}
		R.Check(okErr, key+"#error", pos, "the error of "+core.Name()+", unchanged", detail)
	}
}

func fnHasByteInput(f *ssa.Function) bool {
	ps := f.Signature.Params()
	for i := 0; i < ps.Len(); i++ {
		if tyIsByteSeq(ps.At(i).Type()) {
			return true
		}
	}
	return false
}

func tyIsByteSeq(t types.Type) bool {
	s, ok := t.Underlying().(*types.Slice)
	if !ok {
		return false
	}
	b, ok := s.Elem().Underlying().(*types.Basic)
	return ok && b.Kind() == types.Uint8
}

func tyIsBool(t types.Type) bool {
	b, ok := t.Underlying().(*types.Basic)
	return ok && b.Kind() == types.Bool
}

func tyIsFunc(t types.Type) bool { _, ok := t.Underlying().(*types.Signature); return ok }

func tyIsError(t types.Type) bool { return types.Identical(t, types.Universe.Lookup("error").Type()) }

func ssaStripConv(v ssa.Value) ssa.Value {
	for {
		switch x := v.(type) {
		case *ssa.ChangeType:
			v = x.X
		case *ssa.Convert:
			v = x.X
		case *ssa.MakeInterface:
			v = x.X
		default:
			return v
		}
	}
}

func ssaParamOf(v ssa.Value) *ssa.Parameter { p, _ := v.(*ssa.Parameter); return p }

func ssaIsNilConst(v ssa.Value) bool {
	k, ok := ssaStripConv(v).(*ssa.Const)
	return ok && k.Value == nil
}

func ssaDescribe(v ssa.Value) string {
	if v == nil {
		return "<nil>"
	}
	return v.Name() + " = " + v.String()
}

// ssaPhiLeaves returns the non-phi values a value can be.
func ssaPhiLeaves(v ssa.Value) []ssa.Value {
	seen := map[ssa.Value]bool{}
	var out []ssa.Value
	var walk func(ssa.Value)
	walk = func(x ssa.Value) {
		if seen[x] {
			return
		}
		seen[x] = true
		if p, ok := x.(*ssa.Phi); ok {
			for _, e := range p.Edges {
				walk(e)
			}
			return
		}
		out = append(out, x)
	}
	walk(v)
	return out
}

// ssaLoadedValue looks through a load of a named result or local that is stored exactly once per path: when v is a
// load of an Alloc of fn whose only uses are loads and stores, and all stores store the same SSA value, that value.
func ssaLoadedValue(v ssa.Value, fn *ssa.Function) ssa.Value {
	u, ok := v.(*ssa.UnOp)
	if !ok || u.Op != token.MUL {
		return v
	}
	al, ok := u.X.(*ssa.Alloc)
	if !ok || al.Referrers() == nil {
		return v
	}
	var stored ssa.Value
	for _, r := range *al.Referrers() {
		switch x := r.(type) {
		case *ssa.Store:
			if x.Addr != ssa.Value(al) {
				return v
			}
			if stored != nil && stored != x.Val {
				return v
			}
			stored = x.Val
		case *ssa.UnOp:
		case *ssa.DebugRef:
		default:
			return v
		}
	}
	if stored == nil {
		return v
	}
	return stored
}

// ssaNilTested reports whether block b is reached only through the "is nil" edge of a test of the call's result.
func ssaNilTested(b *ssa.BasicBlock, call *ssa.Call) bool {
	for _, blk := range call.Parent().Blocks {
		iff, ok := blk.Instrs[len(blk.Instrs)-1].(*ssa.If)
		if !ok {
			continue
		}
		bin, ok := iff.Cond.(*ssa.BinOp)
		if !ok || (bin.Op != token.NEQ && bin.Op != token.EQL) {
			continue
		}
		var other ssa.Value
		switch {
		case ssaLoadedValue(bin.X, call.Parent()) == ssa.Value(call):
			other = bin.Y
		case ssaLoadedValue(bin.Y, call.Parent()) == ssa.Value(call):
			other = bin.X
		default:
			continue
		}
		if !ssaIsNilConst(other) {
			continue
		}
		nilEdge := blk.Succs[1] // cond false
		if bin.Op == token.EQL {
			nilEdge = blk.Succs[0]
		}
		if len(nilEdge.Preds) == 1 && (nilEdge == b || nilEdge.Dominates(b)) {
			return true
		}
	}
	return false
}
