package rules

import (
	"fmt"
	"go/types"
	"strings"

	"golang.org/x/tools/go/ssa"

	"ivgsa/internal/sym"
)

func init() {
	register("C09", ruleC09_2, ruleC09_3, ruleC09_1, ruleC09_5)
	register("C01", ruleC09_1)
}

// ruleC09_5: the blend arithmetic of Color.Resolve (shared with C04.4).
func ruleC09_5(c *Ctx) {
	c.R.Rule("C09.5", "resolving a blend computes ((255-t)*c0 + t*c1 + 128)/255 per channel on the resolved one-byte operands, each channel from the same channel of the operands; direct, palette and register colours resolve to themselves / the table entry at the masked index", 7)
	ruleResolve(c, "C09.5")
}

// colourCtx evaluates colour codecs on constant or symbolic colours.
type colourCtx struct {
	c     *Ctx
	typs  map[string]*sym.Term // constructor name -> colour type constant
	rgbaT types.Type
}

func (c *Ctx) newColourCtx() *colourCtx {
	cc := &colourCtx{c: c, typs: map[string]*sym.Term{}}
	for _, ctor := range []string{"RGBAColor", "PaletteIndexColor", "CRegColor", "BlendColor"} {
		fn := c.Fn("", ctor)
		if fn == nil {
			return nil
		}
		in := c.Interp()
		res, _, _ := in.Run(fn, nil, nil)
		if res == nil || res.Op != "agg" || len(res.Args) != 2 || !res.Args[0].IsConst() {
			c.R.Anchor("constructor ivg." + ctor + " does not build Color{typ, data}")
			return nil
		}
		cc.typs[ctor] = res.Args[0]
	}
	return cc
}

func (cc *colourCtx) colour(ctor string, r, g, b, a *sym.Term) *sym.Term {
	return &sym.Term{Op: "agg", Args: []*sym.Term{cc.typs[ctor], {Op: "agg", Args: []*sym.Term{r, g, b, a}}}}
}

// call evaluates a function or method with explicit arguments.
func (cc *colourCtx) call(fn *ssa.Function, args ...*sym.Term) *sym.Term {
	in := cc.c.Interp()
	res, _, _ := in.Run(fn, args, nil)
	return res
}

// decodeBytes evaluates an operand decoder of decode.buffer on concrete or
// symbolic bytes, with enough length.
func (cc *colourCtx) decodeBytes(method string, bytes []*sym.Term) *sym.Term {
	fn := cc.c.Method("decode", "buffer", method, false)
	if fn == nil {
		return nil
	}
	h := cc.c.newDecHooks()
	h.enter[method] = true
	for i, b := range bytes {
		h.pins[fmt.Sprintf("deref:$param:b|[%d]", i)] = b
	}
	in := cc.c.Interp()
	in.Hooks = h
	leaves, _, _ := rootLeaves(in, fn, nil, nil)
	for _, lf := range leaves {
		all, ok := foldConds(lf.Conds, map[string]*sym.Term{lenB: sym.Int(int64(len(bytes)))})
		if ok && all && lf.Val != nil && lf.Val.Op == "tuple" {
			return lf.Val.Args[0]
		}
	}
	return nil
}

var encodeForms = []struct {
	enc, dec string
	size     int
}{{"Encode1", "decodeColor1", 1}, {"Encode2", "decodeColor2", 2}, {"Encode3Direct", "decodeColor3Direct", 3}, {"Encode4", "decodeColor4", 4}, {"Encode3Indirect", "decodeColor3Indirect", 3}}

// ruleC09_2: every colour form is a pair of inverses on the colours the
// encoder may write with it: decode(encode(c)) = c whenever encode reports ok,
// and encode(decode(bytes)) reproduces the bytes for the one-byte form (all
// 256 values).
func ruleC09_2(c *Ctx) {
	R := c.R
	R.Rule("C09.2", "colour forms are inverse pairs: for every colour a form accepts (class-exhaustive over the accepted channel values) decoding the written bytes gives the same colour; all 256 one-byte colours re-encode to themselves", 270)
	cc := c.newColourCtx()
	if cc == nil {
		return
	}
	u8t := types.Typ[types.Uint8]
	enc := map[string]*ssa.Function{}
	for _, f := range encodeForms {
		enc[f.enc] = c.Method("", "Color", f.enc, false)
		if enc[f.enc] == nil {
			return
		}
	}
	bytesOf := func(x *sym.Term, n int) []*sym.Term {
		if n == 1 {
			return []*sym.Term{x}
		}
		var out []*sym.Term
		for i := 0; i < n; i++ {
			out = append(out, sym.Index(x, sym.Int(int64(i)), u8t))
		}
		return out
	}
	okConst := func(res *sym.Term) (x *sym.Term, ok bool, isConst bool) {
		if res == nil || res.Op != "tuple" || len(res.Args) != 2 {
			return nil, false, false
		}
		b, isC := res.Args[1].BoolVal()
		return res.Args[0], b, isC
	}
	// --- one-byte form: all 256 byte values, decode then encode ---
	if dc1 := c.Fn("", "DecodeColor1"); dc1 != nil {
		for v := int64(0); v < 256; v++ {
			col := cc.call(dc1, u8(v))
			construct := fmt.Sprintf("ivg.(Color).Encode1#byte=0x%02x", v)
			if col == nil {
				R.Unknown(construct, c.FPos(dc1), "DecodeColor1 does not fold")
				continue
			}
			x, ok, isC := okConst(cc.call(enc["Encode1"], col))
			xv, isInt := int64(-1), false
			if x != nil {
				xv, isInt = x.Int64()
			}
			R.Check(isC && ok && isInt && xv == v, construct, c.FPos(enc["Encode1"]), fmt.Sprintf("Encode1(DecodeColor1(0x%02x)) = (0x%02x, true)", v, v), fmt.Sprintf("(%s, ok=%v const=%v)", shortKey(x), ok, isC))
		}
	}
	// --- the set of direct colours Encode1 accepts is exactly the set DecodeColor1 produces ---
	{
		// channel values accepted when alpha is 0xff: fold the ok bit for every value of one channel with the others at 0xff
		fn := enc["Encode1"]
		accepted := map[int64]bool{}
		for v := int64(0); v < 256; v++ {
			_, ok, isC := okConst(cc.call(fn, cc.colour("RGBAColor", u8(v), u8(0xff), u8(0xff), u8(0xff))))
			if !isC {
				R.Unknown("ivg.(Color).Encode1#accepts", c.FPos(fn), "ok does not fold")
				break
			}
			if ok {
				accepted[v] = true
			}
		}
		want := map[int64]bool{0x00: true, 0x40: true, 0x80: true, 0xc0: true, 0xff: true}
		same := len(accepted) == len(want)
		for k := range want {
			if !accepted[k] {
				same = false
			}
		}
		R.Check(same, "ivg.(Color).Encode1#accepted-channel-values", c.FPos(fn), "{00,40,80,c0,ff} for opaque colours", fmt.Sprint(sortedInts(accepted)))
		// non-opaque colours: representative values of every channel-class product; only the three specials may be accepted
		reps := []int64{0x00, 0x01, 0x40, 0x7f, 0x80, 0xc0, 0xfe, 0xff}
		bad := ""
		n := 0
		for _, a := range reps {
			if a == 0xff {
				continue
			}
			for _, r := range reps {
				for _, g := range reps {
					for _, b := range reps {
						n++
						x, ok, isC := okConst(cc.call(fn, cc.colour("RGBAColor", u8(r), u8(g), u8(b), u8(a))))
						if !isC {
							bad = "ok does not fold"
							continue
						}
						special := (r == a && g == a && b == a) && (a == 0 || a == 0x80 || a == 0xc0)
						if ok != special {
							bad = fmt.Sprintf("%02x:%02x:%02x:%02x accepted=%v", r, g, b, a, ok)
						}
						if ok {
							if back := cc.decodeBytes("decodeColor1", []*sym.Term{x}); back == nil || normAgg(back) != normAgg(cc.colour("RGBAColor", u8(r), u8(g), u8(b), u8(a))) {
								bad = fmt.Sprintf("%02x:%02x:%02x:%02x decodes to %s", r, g, b, a, shortKey(back))
							}
						}
					}
				}
			}
		}
		R.Count("C09.2.nonopaque_class_products", n)
		R.Check(bad == "", "ivg.(Color).Encode1#non-opaque", c.FPos(fn), "only c0c0c0c0, 80808080 and 00000000 are accepted among non-opaque colours, and they decode to themselves", bad)
	}
	// --- two-byte form: each byte packs two channels that are multiples of 0x11 ---
	{
		fn := enc["Encode2"]
		bad := ""
		n := 0
		for hi := int64(0); hi < 16; hi++ {
			for lo := int64(0); lo < 16; lo++ {
				n++
				col := cc.colour("RGBAColor", u8(hi*0x11), u8(lo*0x11), u8(lo*0x11), u8(hi*0x11))
				x, ok, isC := okConst(cc.call(fn, col))
				if !isC || !ok {
					bad = fmt.Sprintf("channels %02x,%02x not accepted", hi*0x11, lo*0x11)
					continue
				}
				back := cc.decodeBytes("decodeColor2", bytesOf(x, 2))
				if back == nil || normAgg(back) != normAgg(col) {
					bad = fmt.Sprintf("%02x%02x%02x%02x decodes to %s", hi*0x11, lo*0x11, lo*0x11, hi*0x11, shortKey(back))
				}
			}
		}
		// a channel that is not a multiple of 0x11 is refused, whichever channel it is
		for ch := 0; ch < 4; ch++ {
			for _, v := range []int64{0x01, 0x10, 0x12, 0x80, 0xfe} {
				vals := []*sym.Term{u8(0x11), u8(0x22), u8(0x33), u8(0x44)}
				vals[ch] = u8(v)
				_, ok, isC := okConst(cc.call(fn, cc.colour("RGBAColor", vals[0], vals[1], vals[2], vals[3])))
				if !isC || ok {
					bad = fmt.Sprintf("channel %d = %02x accepted", ch, v)
				}
			}
		}
		R.Count("C09.2.twobyte_channel_pairs", n)
		R.Check(bad == "", "ivg.(Color).Encode2#roundtrip", c.FPos(fn), "every colour with channels in 0x11*{0..15} is accepted and decodes to itself; others are refused", bad)
	}
	// --- three/four byte forms: symbolic channels ---
	R8 := func(n string) *sym.Term { return sym.Atom(n, u8t) }
	sr, sg, sb, sa := R8("R"), R8("G"), R8("B"), R8("A")
	{
		fn := enc["Encode4"]
		col := cc.colour("RGBAColor", sr, sg, sb, sa)
		x, ok, isC := okConst(cc.call(fn, col))
		back := cc.decodeBytes("decodeColor4", bytesOf(x, 4))
		R.Check(isC && ok && back != nil && normAgg(back) == normAgg(col), "ivg.(Color).Encode4#roundtrip", c.FPos(fn), "every direct colour is accepted and decodes to itself", shortKey(back))
	}
	{
		fn := enc["Encode3Direct"]
		col := cc.colour("RGBAColor", sr, sg, sb, u8(0xff))
		x, ok, isC := okConst(cc.call(fn, col))
		back := cc.decodeBytes("decodeColor3Direct", bytesOf(x, 3))
		R.Check(isC && ok && back != nil && normAgg(back) == normAgg(col), "ivg.(Color).Encode3Direct#roundtrip", c.FPos(fn), "every opaque direct colour is accepted and decodes to itself", shortKey(back))
		// a non-opaque colour is refused: the ok bit must be equivalent to A == 0xff
		res := cc.call(fn, cc.colour("RGBAColor", sr, sg, sb, sa))
		okT := sym.Extract(res, 1, types.Typ[types.Bool])
		want := sym.Bin(tokEQL, sa, u8(0xff), types.Typ[types.Bool])
		R.Check(equivalent(okT, want), "ivg.(Color).Encode3Direct#accepts", c.FPos(fn), "accepted iff alpha is 0xff", shortKey(okT))
	}
	{
		fn := enc["Encode3Indirect"]
		col := cc.colour("BlendColor", sr, sg, sb, u8(0))
		x, ok, isC := okConst(cc.call(fn, col))
		back := cc.decodeBytes("decodeColor3Indirect", bytesOf(x, 3))
		R.Check(isC && ok && back != nil && normAgg(back) == normAgg(col), "ivg.(Color).Encode3Indirect#roundtrip", c.FPos(fn), "every blend is accepted and decodes to itself", shortKey(back))
	}
	// --- a form never accepts a colour of a kind it cannot represent ---
	for _, f := range encodeForms {
		for ctor := range cc.typs {
			fits := map[string]map[string]bool{
				"Encode1":         {"RGBAColor": true, "PaletteIndexColor": true, "CRegColor": true},
				"Encode2":         {"RGBAColor": true},
				"Encode3Direct":   {"RGBAColor": true},
				"Encode4":         {"RGBAColor": true},
				"Encode3Indirect": {"BlendColor": true},
			}[f.enc][ctor]
			if fits {
				continue
			}
			res := cc.call(enc[f.enc], cc.colour(ctor, sr, sg, sb, sa))
			_, ok, isC := okConst(res)
			R.Check(isC && !ok, fmt.Sprintf("ivg.(Color).%s#kind=%s", f.enc, ctor), c.FPos(enc[f.enc]), "refused", shortKey(res))
		}
	}
	// palette and register references: all 64 indexes, encode then decode
	for _, ctor := range []string{"PaletteIndexColor", "CRegColor"} {
		bad := ""
		for i := int64(0); i < 64; i++ {
			col := cc.call(c.Fn("", ctor), u8(i))
			x, ok, isC := okConst(cc.call(enc["Encode1"], col))
			if !isC || !ok {
				bad = fmt.Sprintf("index %d refused", i)
				continue
			}
			back := cc.decodeBytes("decodeColor1", []*sym.Term{x})
			if back == nil || normAgg(back) != normAgg(col) {
				bad = fmt.Sprintf("index %d decodes to %s", i, shortKey(back))
			}
		}
		R.Check(bad == "", "ivg.(Color).Encode1#"+ctor, c.FPos(enc["Encode1"]), "all 64 references are accepted and decode to themselves", bad)
	}
	R.Exhaustive = true
}

func sortedInts(m map[int64]bool) []string {
	var out []string
	for k := range m {
		out = append(out, fmt.Sprintf("%02x", k))
	}
	return sortedKeys(toSet(out))
}

func toSet(xs []string) map[string]bool {
	m := map[string]bool{}
	for _, x := range xs {
		m[x] = true
	}
	return m
}

// ruleC09_3: SetCReg tries the colour forms shortest first and some form
// always applies, so its trailing panic is unreachable.
func ruleC09_3(c *Ctx) {
	R := c.R
	R.Rule("C09.3", "SetCReg picks the shortest form that accepts the colour (1, 2, 3 direct, 4, 3 indirect bytes) and every constructible colour kind is accepted by some form, so the trailing panic is unreachable; Color values are built only by the four constructors", 10)
	m := c.newEncModel()
	cc := c.newColourCtx()
	if !m.ok || cc == nil {
		return
	}
	fn := c.Method("encode", "Encoder", "SetCReg", true)
	if fn == nil {
		return
	}
	pos := c.FPos(fn)
	modeT := c.Named("encode", "mode")
	noErr := sym.Nil(types.Universe.Lookup("error").Type())
	run := m.run(fn, map[string]*sym.Term{"mode": modeConst(m.modes["modeStyling"], modeT), "err": noErr},
		map[string]*sym.Term{"adj": u8(0), "incr": sym.False}, func(h *encHooks) {
			for _, f := range encodeForms {
				h.opaque[f.enc] = true
			}
		})
	key := "encode.(*Encoder).SetCReg"
	if run.mem == nil {
		R.Unknown(key, pos, "does not return")
		return
	}
	leaves := sym.DeepCases(run.field("buf"), 64)
	for fi, f := range encodeForms {
		// the leaf that uses form f must hold under: not ok of every shorter form, ok of f
		found := false
		for _, lf := range leaves {
			_, items := flattenBuf(lf.Val)
			if len(items) < 2 {
				continue
			}
			form, _, _ := colourByte(items[1].Val)
			if form != f.enc {
				continue
			}
			found = true
			var want []*sym.Term
			for j := 0; j < fi; j++ {
				want = append(want, sym.Not(sym.Extract(sym.Call(encodeForms[j].enc, nil, sym.Atom("param:c", nil)), 1, types.Typ[types.Bool])))
			}
			want = append(want, sym.Extract(sym.Call(f.enc, nil, sym.Atom("param:c", nil)), 1, types.Typ[types.Bool]))
			// the function returns only when some form accepts (otherwise it panics: shown unreachable below)
			var anyOK []*sym.Term
			for _, g := range encodeForms {
				anyOK = append(anyOK, sym.Extract(sym.Call(g.enc, nil, sym.Atom("param:c", nil)), 1, types.Typ[types.Bool]))
			}
			returns := sym.Or(anyOK...)
			R.Check(equivalent(sym.And(append([]*sym.Term{returns}, lf.Conds...)...), sym.And(append([]*sym.Term{returns}, want...)...)), key+"#order:"+f.enc, pos, "used iff every shorter form refused and this one accepts", condKey(lf.Conds))
		}
		if !found {
			R.Bad(key+"#order:"+f.enc, pos, "the form is tried", "never used")
		}
	}
	// exhaustiveness: per colour kind some form's ok is constant true
	u8t := types.Typ[types.Uint8]
	for ctor := range cc.typs {
		col := cc.colour(ctor, sym.Atom("R", u8t), sym.Atom("G", u8t), sym.Atom("B", u8t), sym.Atom("A", u8t))
		accepted := ""
		for _, f := range encodeForms {
			res := cc.call(c.Method("", "Color", f.enc, false), col)
			if res != nil && res.Op == "tuple" {
				if b, isC := res.Args[1].BoolVal(); isC && b {
					accepted = f.enc
					break
				}
			}
		}
		R.Check(accepted != "", key+"#exhaustive:"+ctor, pos, "some form always accepts a "+ctor+" colour", "none does")
	}
	// constructibility: the typ field of ivg.Color is stored only in the four constructors
	colT := c.Named("", "Color")
	if colT != nil {
		ti := fieldIndex(colT, "typ")
		var sites []string
		for _, f := range c.P.AllFuncs() {
			for _, b := range f.Blocks {
				for _, ins := range b.Instrs {
					fa, ok := ins.(*ssa.FieldAddr)
					if !ok || fa.Field != ti {
						continue
					}
					pt, ok := fa.X.Type().Underlying().(*types.Pointer)
					if !ok || !types.Identical(pt.Elem(), colT) {
						continue
					}
					for _, ref := range *fa.Referrers() {
						if st, ok := ref.(*ssa.Store); ok && st.Addr == ssa.Value(fa) {
							sites = append(sites, f.Name())
						}
					}
				}
			}
		}
		okSites := true
		for _, s := range sites {
			if _, isCtor := cc.typs[s]; !isCtor {
				okSites = false
			}
		}
		R.Check(okSites && len(sites) >= 4, "ivg.Color#constructors", "-", "the colour type is set only by RGBAColor, PaletteIndexColor, CRegColor, BlendColor", strings.Join(sites, ","))
	}
}
