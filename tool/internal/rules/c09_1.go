package rules

import (
	"fmt"
	"go/token"
	"go/types"
	"strings"

	"golang.org/x/tools/go/ssa"

	"ivgsa/internal/cfgx"
	"ivgsa/internal/sym"
)

// ruleC09_1 (= C01.7): ok-discipline of the colour encoders. Every call of
// Color.Encode1/2/3Direct/4/3Indirect either branches on its ok result, or is
// guarded by a predicate that is propositionally equivalent to the callee's
// own ok on the colours it is applied to (the "all elements pass" flag idiom
// of the palette writer).
func ruleC09_1(c *Ctx) {
	R := c.R
	R.Rule("C09.1", "ok-discipline: every call of a colour encoder branches on its ok result, or is guarded by a predicate equivalent to that ok (truth table over the channel tests), applied to elements of the same sequence", 7)
	colT := c.Named("", "Color")
	cc := c.newColourCtx()
	if colT == nil || cc == nil {
		return
	}
	forms := map[string]bool{}
	for _, f := range encodeForms {
		forms[f.enc] = true
	}
	seen := map[string]int{}
	for _, fn := range c.P.AllFuncs() {
		var cf *cfgx.Info
		for _, b := range fn.Blocks {
			for _, ins := range b.Instrs {
				call, ok := ins.(*ssa.Call)
				if !ok {
					continue
				}
				callee := call.Common().StaticCallee()
				if callee == nil || !forms[callee.Name()] || callee.Signature.Recv() == nil || !types.Identical(callee.Signature.Recv().Type(), colT) {
					continue
				}
				base := fmt.Sprintf("%s#%s", c.P.FuncName(fn), callee.Name())
				seen[base]++
				construct := base
				if seen[base] > 1 {
					construct = fmt.Sprintf("%s#%d", base, seen[base])
				}
				if okIsTested(call) {
					R.OK(construct, c.Pos(call), "branches on ok")
					continue
				}
				// ok is discarded: look for the guard
				if cf == nil {
					cf = cfgx.New(fn, nil)
				}
				guards, why := findGuards(cf, call)
				fromTerms := false
				if why != "" || len(guards) == 0 {
					// the flag may be spelled differently (flag = flag && pred(x)): ask the term-level model of the
					// palette writer which "holds for every entry" flags are true where the call is made
					if names, ok := c.paletteFlags().guardingPredicates(call); ok && c.P.FuncName(fn) == "(*encode.Encoder).Reset" {
						guards = nil
						for _, n := range names {
							if pf := c.Fn("", n); pf != nil {
								guards = append(guards, guardCall{nil, pf})
							}
						}
						why = ""
						fromTerms = true
					}
				}
				if why != "" {
					R.Unknown(construct, c.Pos(call), "ok is discarded and no recognisable guard: "+why)
					continue
				}
				if len(guards) != 1 {
					var gs []string
					for _, g := range guards {
						gs = append(gs, g.callee.Name())
					}
					R.Bad(construct, c.Pos(call), "ok is discarded: exactly one guarding predicate", fmt.Sprintf("%d: %s", len(guards), strings.Join(gs, ",")))
					continue
				}
				g := guards[0]
				// same sequence?
				// (for a guard found at term level the element and range agreement is decided by C09.4)
				if !fromTerms && !sameElementSource(colourArgOf(call.Common().Args[0]), g.call.Common().Args[0]) {
					// not the same SSA element: two loops over the same range (decided at term level by C09.4) are as good
					if names, ok := c.paletteFlags().guardingPredicates(call); ok && c.P.FuncName(fn) == "(*encode.Encoder).Reset" {
						for _, n := range names {
							if n == g.callee.Name() {
								fromTerms = true
							}
						}
					}
				}
				if !fromTerms && !sameElementSource(colourArgOf(call.Common().Args[0]), g.call.Common().Args[0]) {
					R.Bad(construct, c.Pos(call), "the guard is evaluated on the elements the encoder is applied to", "different sources")
					continue
				}
				// semantic equivalence of the guard with the callee's ok
				u8t := types.Typ[types.Uint8]
				ch := []*sym.Term{sym.Atom("R", u8t), sym.Atom("G", u8t), sym.Atom("B", u8t), sym.Atom("A", u8t)}
				data := &sym.Term{Op: "agg", Args: ch}
				var recvT *sym.Term
				if ctor := ctorOf(call.Common().Args[0]); ctor != "" {
					recvT = cc.colour(ctor, ch[0], ch[1], ch[2], ch[3])
				} else {
					R.Unknown(construct, c.Pos(call), "the encoded colour is not built by a constructor from the guarded value")
					continue
				}
				okT := sym.Extract(cc.call(callee, recvT), 1, types.Typ[types.Bool])
				gT := cc.call(g.callee, data)
				if gT == nil || okT == nil {
					R.Unknown(construct, c.Pos(call), "guard or ok predicate has no term")
					continue
				}
				if equivalent(okT, gT) {
					R.OK(construct, c.Pos(call), "guarded by "+g.callee.Name()+", equivalent to the callee's ok")
				} else {
					R.Bad(construct, c.Pos(call), "the guard "+g.callee.Name()+" is equivalent to "+callee.Name()+"'s ok on direct colours",
						"not equivalent: some colour passes "+g.callee.Name()+" but is refused by "+callee.Name()+" (its result byte is then used unchecked)",
						"ok = "+shortKey(okT), "guard = "+shortKey(gT))
				}
			}
		}
	}
}

// okIsTested reports whether the ok result (component 1) of the call reaches a branch condition.
func okIsTested(call *ssa.Call) bool {
	for _, ref := range *call.Referrers() {
		ex, ok := ref.(*ssa.Extract)
		if !ok || ex.Index != 1 {
			continue
		}
		if reachesIf(ex, map[ssa.Value]bool{}) {
			return true
		}
	}
	return false
}

func reachesIf(v ssa.Value, seen map[ssa.Value]bool) bool {
	if seen[v] {
		return false
	}
	seen[v] = true
	for _, ref := range *v.Referrers() {
		switch x := ref.(type) {
		case *ssa.If:
			return true
		case *ssa.UnOp:
			if x.Op == token.NOT && reachesIf(x, seen) {
				return true
			}
		case *ssa.Phi:
			if reachesIf(x, seen) {
				return true
			}
		case *ssa.Return:
			return true // handed to the caller, who must test it (the wrappers in encode/buffer.go do)
		}
	}
	return false
}

type guardCall struct {
	call   *ssa.Call
	callee *ssa.Function
}

// findGuards: the call's block must be control dependent on the true edge of
// a boolean flag (a phi family initialised true and cleared only under the
// negation of predicate calls). Returns those predicate calls.
func findGuards(cf *cfgx.Info, call *ssa.Call) ([]guardCall, string) {
	fn := cf.Fn
	var out []guardCall
	found := false
	for _, dep := range cf.TransControlDeps(call.Block().Index) {
		blk := fn.Blocks[dep[0]]
		iff, ok := blk.Instrs[len(blk.Instrs)-1].(*ssa.If)
		if !ok {
			continue
		}
		onTrue := cf.Succs[dep[0]][dep[1]] == blk.Succs[0].Index
		phi, isPhi := iff.Cond.(*ssa.Phi)
		if !isPhi || !onTrue {
			continue
		}
		// the flag family
		fam := map[*ssa.Phi]bool{}
		var work = []*ssa.Phi{phi}
		for len(work) > 0 {
			p := work[len(work)-1]
			work = work[:len(work)-1]
			if fam[p] {
				continue
			}
			fam[p] = true
			for _, e := range p.Edges {
				if q, ok := e.(*ssa.Phi); ok {
					work = append(work, q)
				}
			}
		}
		for p := range fam {
			for i, e := range p.Edges {
				k, isConst := e.(*ssa.Const)
				if !isConst {
					if _, isPhi := e.(*ssa.Phi); isPhi {
						continue
					}
					return nil, "the flag is assigned a non-constant"
				}
				if k.Value == nil {
					return nil, "flag constant"
				}
				if constantBool(k) {
					continue // initialisation
				}
				// cleared along the edge from pred i: why is that edge taken?
				pred := p.Block().Preds[i]
				gs := clearingPredicates(cf, pred, p.Block(), fam)
				if gs == nil {
					return nil, "the flag is cleared for an unrecognised reason"
				}
				out = append(out, gs...)
			}
		}
		found = true
	}
	if !found {
		return nil, "the call is not under the true edge of a flag"
	}
	// dedupe by callee + call
	uniq := map[*ssa.Call]bool{}
	var res []guardCall
	for _, g := range out {
		if !uniq[g.call] {
			uniq[g.call] = true
			res = append(res, g)
		}
	}
	return res, ""
}

func constantBool(k *ssa.Const) bool {
	return k.Value != nil && k.Value.String() == "true"
}

// clearingPredicates finds the predicate calls G such that the edge pred->to
// (which clears the flag) is taken only when G is false.
func clearingPredicates(cf *cfgx.Info, pred, to *ssa.BasicBlock, fam map[*ssa.Phi]bool) []guardCall {
	fn := cf.Fn
	var out []guardCall
	// conditions controlling pred (and the edge itself if pred ends in If)
	type edge struct{ b, si int }
	var edges []edge
	for _, d := range cf.TransControlDeps(pred.Index) {
		edges = append(edges, edge{d[0], d[1]})
	}
	if len(pred.Succs) == 2 {
		for si, s := range cf.Succs[pred.Index] {
			if s == to.Index {
				edges = append(edges, edge{pred.Index, si})
			}
		}
	}
	for _, e := range edges {
		blk := fn.Blocks[e.b]
		iff, ok := blk.Instrs[len(blk.Instrs)-1].(*ssa.If)
		if !ok {
			continue
		}
		onTrue := cf.Succs[e.b][e.si] == blk.Succs[0].Index
		cond := iff.Cond
		neg := false
		for {
			if u, ok := cond.(*ssa.UnOp); ok && u.Op == token.NOT {
				cond, neg = u.X, !neg
				continue
			}
			break
		}
		if p, ok := cond.(*ssa.Phi); ok && fam[p] {
			continue // the flag itself (short-circuit "flag && ...")
		}
		call, ok := cond.(*ssa.Call)
		if !ok {
			continue // loop conditions etc.
		}
		callee := call.Common().StaticCallee()
		if callee == nil {
			return nil
		}
		// cleared when G is false: (cond = G, false edge) or (cond = !G, true edge)
		gFalse := (onTrue && neg) || (!onTrue && !neg)
		if !gFalse {
			return nil
		}
		out = append(out, guardCall{call, callee})
	}
	return out
}

// colourArgOf returns the value a constructor call wraps (RGBAColor(c) -> c), or v itself.
func colourArgOf(v ssa.Value) ssa.Value {
	if call, ok := v.(*ssa.Call); ok {
		if callee := call.Common().StaticCallee(); callee != nil && len(call.Common().Args) == 1 {
			return call.Common().Args[0]
		}
	}
	return v
}

func ctorOf(v ssa.Value) string {
	if call, ok := v.(*ssa.Call); ok {
		if callee := call.Common().StaticCallee(); callee != nil {
			return callee.Name()
		}
	}
	return ""
}

// sameElementSource: both values are loads of elements of slices with the same base and bounds.
func sameElementSource(a, b ssa.Value) bool {
	sa, sb := elementSlice(a), elementSlice(b)
	if sa == nil || sb == nil {
		return false
	}
	return sameValue(sa.X, sb.X) && sameValue(sa.Low, sb.Low) && sameValue(sa.High, sb.High)
}

func elementSlice(v ssa.Value) *ssa.Slice {
	ld, ok := v.(*ssa.UnOp)
	if !ok || ld.Op != token.MUL {
		return nil
	}
	ia, ok := ld.X.(*ssa.IndexAddr)
	if !ok {
		return nil
	}
	sl, _ := ia.X.(*ssa.Slice)
	return sl
}

func sameValue(a, b ssa.Value) bool {
	if a == b {
		return true
	}
	if a == nil || b == nil {
		return false
	}
	switch x := a.(type) {
	case *ssa.Const:
		y, ok := b.(*ssa.Const)
		return ok && x.Value != nil && y.Value != nil && x.Value.ExactString() == y.Value.ExactString()
	case *ssa.FieldAddr:
		y, ok := b.(*ssa.FieldAddr)
		return ok && x.Field == y.Field && sameValue(x.X, y.X)
	case *ssa.BinOp:
		y, ok := b.(*ssa.BinOp)
		return ok && x.Op == y.Op && sameValue(x.X, y.X) && sameValue(x.Y, y.Y)
	case *ssa.Convert:
		y, ok := b.(*ssa.Convert)
		return ok && sameValue(x.X, y.X)
	}
	return false
}
