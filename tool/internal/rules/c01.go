package rules

import (
	"fmt"
	"go/types"
	"strings"

	"golang.org/x/tools/go/ssa"

	"ivgsa/internal/sym"
)

func init() { register("C01", ruleC01_3, ruleC01_5) }

// writerPairs is the codec pairing table: which operand decoder reads what
// which writer wrote. That each pair is a pair of inverses is decided under
// C08 (numbers) and C09 (colours).
var writerPairs = map[string]string{
	"encodeNatural":    "natural",
	"encodeReal":       "real",
	"encodeCoordinate": "coordinate",
	"encodeZeroToOne":  "zeroToOne",
	"encodeAngle":      "zeroToOne",
	"Encode1":          "color1",
	"Encode2":          "color2",
	"Encode3Direct":    "color3Direct",
	"Encode4":          "color4",
	"Encode3Indirect":  "color3Indirect",
}

var colourFormSize = map[string]int{"Encode1": 1, "Encode2": 2, "Encode3Direct": 3, "Encode4": 4, "Encode3Indirect": 3}

// decSummaries extracts (and caches) the decoder's behaviour for all 256
// opcode bytes of a mode.
func (c *Ctx) decSummaries(drawing bool) []*opSummary {
	if c.decCache == nil {
		c.decCache = map[bool][]*opSummary{}
	}
	if s, ok := c.decCache[drawing]; ok {
		return s
	}
	sty, drw := c.modeFuncs()
	if sty == nil || drw == nil {
		return nil
	}
	fn := sty
	if drawing {
		fn = drw
	}
	out := make([]*opSummary, 256)
	for k := 0; k < 256; k++ {
		out[k] = summarise(c.runModeFunc(fn, k))
	}
	c.decCache[drawing] = out
	return out
}

// operandItem is one operand as the Encoder writes it.
type operandItem struct {
	Kind  string    // decoder kind it pairs with
	Value *sym.Term // the value written (for numbers) or the colour encoded (for colours)
	Desc  string
}

// groupOperands folds the items after the opcode byte into operands: number
// writers are one operand each; a colour is the K bytes x[0..K-1] of one
// EncodeK(c) result, in order.
func groupOperands(items []bufItem) ([]operandItem, string) {
	var out []operandItem
	for i := 0; i < len(items); {
		it := items[i]
		switch {
		case strings.HasPrefix(it.Kind, "enc:"):
			w := strings.TrimPrefix(it.Kind, "enc:")
			k, ok := writerPairs[w]
			if !ok {
				return nil, "unknown writer " + w
			}
			out = append(out, operandItem{k, it.Val, w})
			i++
		case it.Kind == "byte":
			// x or x[j] of call:EncodeK(c)
			form, col, idx := colourByte(it.Val)
			if form == "" {
				return nil, "a literal byte that is not part of a colour: " + shortKey(it.Val)
			}
			n := colourFormSize[form]
			for j := 0; j < n; j++ {
				if i+j >= len(items) {
					return nil, "colour form " + form + " is cut short"
				}
				f2, c2, idx2 := colourByte(items[i+j].Val)
				want := j
				if n == 1 {
					want = -1
				}
				if f2 != form || !sym.Eq(c2, col) || idx2 != want {
					return nil, fmt.Sprintf("byte %d of the %s colour is %s", j, form, shortKey(items[i+j].Val))
				}
			}
			_ = idx
			out = append(out, operandItem{writerPairs[form], col, form})
			i += n
		default:
			return nil, "unsupported item " + it.Kind
		}
	}
	return out, ""
}

// colourByte recognises extract:0(call:EncodeK(c)) (one-byte form) or
// index(extract:0(call:EncodeK(c)), j).
func colourByte(t *sym.Term) (form string, col *sym.Term, idx int) {
	idx = -1
	if t.Op == "index" {
		j, ok := t.Args[1].Int64()
		if !ok {
			return "", nil, -1
		}
		idx = int(j)
		t = t.Args[0]
	}
	if t.Op == "extract" && t.Name == "0" && t.Args[0].Op == "call" {
		call := t.Args[0]
		if _, ok := colourFormSize[call.Name]; ok && len(call.Args) == 1 {
			return call.Name, call.Args[0], idx
		}
	}
	return "", nil, -1
}

// ruleC01_3: styling mirror. For every styling method and every key (ADJ 0..6,
// incr, colour/number form, selector value) the bytes the Encoder appends
// start with an opcode byte under which the decoder (as extracted, not as
// specified) delivers the same method with the same constant arguments, reads
// operands of the paired kinds in the same order, wires them to the same
// parameter positions, and switches mode exactly when the Encoder does.
func ruleC01_3(c *Ctx) {
	R := c.R
	R.Rule("C01.3", "styling mirror: per styling method and key, the opcode byte the Encoder writes decodes (per the extracted decoder table) to the same method, constants, operand kinds/order/wiring and mode switch", 150)
	m := c.newEncModel()
	dec := c.decSummaries(false)
	if !m.ok || dec == nil {
		return
	}
	modeT := c.Named("encode", "mode")
	sty, drw := c.modeFuncs()
	noErr := sym.Nil(types.Universe.Lookup("error").Type())
	baseFields := func() map[string]*sym.Term {
		return map[string]*sym.Term{"mode": modeConst(m.modes["modeStyling"], modeT), "err": noErr}
	}
	colourOpaque := func(h *encHooks) {
		for _, o := range []string{"Encode1", "Encode2", "Encode3Direct", "Encode4", "Encode3Indirect", "quantize"} {
			h.opaque[o] = true
		}
	}
	type key struct {
		name   string
		params map[string]*sym.Term
		label  string
	}
	var keys []key
	for v := int64(0); v < 256; v++ {
		if v < 64 || v == 64 || v == 127 || v == 128 || v == 255 {
			keys = append(keys, key{"SetCSel", map[string]*sym.Term{"cSel": u8(v)}, fmt.Sprintf("cSel=%d", v)})
			keys = append(keys, key{"SetNSel", map[string]*sym.Term{"nSel": u8(v)}, fmt.Sprintf("nSel=%d", v)})
		}
	}
	for adj := int64(0); adj <= 6; adj++ {
		for _, incr := range []bool{false, true} {
			if incr && adj != 0 {
				continue // a protocol violation (C10)
			}
			for _, meth := range []string{"SetCReg", "SetNReg"} {
				keys = append(keys, key{meth, map[string]*sym.Term{"adj": u8(adj), "incr": sym.Bool(incr)}, fmt.Sprintf("adj=%d,incr=%v", adj, incr)})
			}
		}
		keys = append(keys, key{"StartPath", map[string]*sym.Term{"adj": u8(adj)}, fmt.Sprintf("adj=%d", adj)})
	}
	keys = append(keys, key{"SetLOD", nil, ""})

	for _, k := range keys {
		fn := c.Method("encode", "Encoder", k.name, true)
		if fn == nil {
			continue
		}
		pos := c.FPos(fn)
		run := m.run(fn, baseFields(), k.params, colourOpaque)
		construct := "encode.(*Encoder)." + k.name
		if k.label != "" {
			construct += "#" + k.label
		}
		if run.mem == nil {
			R.Unknown(construct, pos, "method does not return")
			continue
		}
		// leaves of (buffer, mode, err)
		leaves := sym.DeepCases(sym.Tuple(run.field("buf"), run.field("mode"), run.field("err")), 64)
		if leaves == nil {
			R.Unknown(construct, pos, "too many cases")
			continue
		}
		nLeaves := 0
		distinct := map[int64]bool{}
		for _, lf := range leaves {
			buf, mode, errv := lf.Val.Args[0], lf.Val.Args[1], lf.Val.Args[2]
			if !errv.IsNil() {
				R.Bad(construct, pos, "a legal call records no error", shortKey(errv))
				continue
			}
			base, items := flattenBuf(buf)
			lc := construct
			if len(lf.Conds) > 0 {
				lc += ":" + leafLabel(lf.Conds)
			}
			if k.name == "SetCReg" && allFormsRefused(lf.Conds) {
				// the path on which none of the five colour forms accepts the colour: C09.3 (evaluated under this
				// property too) shows that every constructible colour is accepted by some form, so whatever stands
				// there - a panic today - is never executed
				R.OK(lc, pos, "no colour form accepts: unreachable by C09.3")
				continue
			}
			if base.Key() != "$init:param:e."+fmt.Sprint(fieldIndex(m.T, "buf")) || len(items) == 0 || items[0].Kind != "byte" {
				R.Bad(lc, pos, "appends an opcode byte to the existing buffer", describeItems(items)+" [base "+shortKey(base)+"]")
				continue
			}
			// SetNReg copies its operand out of a scratch window: translate it back to the writer that filled the window
			items = resolveScratch(run, items)
			ob, ok := items[0].Val.Int64()
			if !ok {
				R.Unknown(lc, pos, "opcode byte is not constant under the key: "+shortKey(items[0].Val))
				continue
			}
			ops, why := groupOperands(items[1:])
			if why != "" {
				R.Bad(lc, pos, "operands written by the number/colour writers", why)
				continue
			}
			nLeaves++
			lc = fmt.Sprintf("%s:opcode=0x%02x", construct, ob)
			if distinct[ob] {
				lc += "#alt"
			}
			distinct[ob] = true
			d := dec[ob&0xff]
			var diffs []string
			if len(d.Problems) > 0 || d.Reserved {
				diffs = append(diffs, fmt.Sprintf("decoder: opcode 0x%02x reserved or undecided %v", ob, d.Problems))
			} else {
				if d.Method != k.name {
					diffs = append(diffs, fmt.Sprintf("opcode 0x%02x decodes to %s", ob, d.Method))
				}
				if d.Reps != 1 {
					diffs = append(diffs, "decoder repeats a styling instruction")
				}
				var kinds []string
				for _, o := range d.Operands {
					kinds = append(kinds, o.Kind)
				}
				var wk []string
				for _, o := range ops {
					wk = append(wk, o.Kind)
				}
				if strings.Join(kinds, ",") != strings.Join(wk, ",") {
					diffs = append(diffs, fmt.Sprintf("encoder writes [%s], decoder reads [%s]", strings.Join(wk, ","), strings.Join(kinds, ",")))
				} else if d.Deliver != nil && d.Method == k.name {
					args := d.Deliver.Args[1:]
					for i, a := range args {
						if i+1 >= len(fn.Params) {
							diffs = append(diffs, "decoder delivers more arguments than the method has")
							break
						}
						pname := fn.Params[i+1].Name()
						if a.IsConst() {
							// must equal what the Encoder was called with (selectors modulo 64)
							want, pinned := k.params[pname]
							if !pinned {
								diffs = append(diffs, fmt.Sprintf("decoder delivers the constant %s for parameter %s, which the encoder did not fix", a.Key(), pname))
								continue
							}
							wv, _ := want.Int64()
							av, isInt := a.Int64()
							wb, wIsBool := want.BoolVal()
							ab, aIsBool := a.BoolVal()
							switch {
							case wIsBool && aIsBool:
								if wb != ab {
									diffs = append(diffs, fmt.Sprintf("parameter %s: encoder %v, decoder %v", pname, wb, ab))
								}
							case isInt:
								if k.name == "SetCSel" || k.name == "SetNSel" {
									wv &= 63
								}
								if wv != av {
									diffs = append(diffs, fmt.Sprintf("parameter %s: encoder %d, decoder %d", pname, wv, av))
								}
							default:
								diffs = append(diffs, "unexpected constant "+a.Key())
							}
							continue
						}
						oi, why := d.argOperandIndex(a)
						if oi < 0 || oi >= len(ops) {
							diffs = append(diffs, "decoder argument "+fmt.Sprint(i)+": "+why)
							continue
						}
						// the operand the encoder wrote at that position must come from the same parameter
						if !valueFromParam(ops[oi].Value, pname) {
							diffs = append(diffs, fmt.Sprintf("operand %d is written from %s but delivered as parameter %s", oi, shortKey(ops[oi].Value), pname))
						}
					}
				}
				// mode switch
				wantDrawing := d.Next == drw.Name()
				pm, okm := mode.Int64()
				if !okm || (pm == m.modes["modeDrawing"]) != wantDrawing || (!wantDrawing && d.Next != sty.Name()) {
					diffs = append(diffs, fmt.Sprintf("encoder mode afterwards %s, decoder continues with %s", shortKey(mode), d.Next))
				}
			}
			if len(diffs) == 0 {
				R.OK(lc, pos, fmt.Sprintf("opcode 0x%02x", ob))
			} else {
				R.Bad(lc, pos, "decoder mirrors the encoder", strings.Join(diffs, "; "))
			}
		}
		if nLeaves == 0 {
			R.Bad(construct+":forms", pos, "at least one way to encode the call", "none")
		}
		if k.name == "SetCReg" && len(distinct) != 5 {
			R.Bad(construct+":forms", pos, "five colour forms", fmt.Sprint(len(distinct)))
		}
		if k.name == "SetNReg" && len(distinct) != 3 {
			R.Bad(construct+":forms", pos, "three number forms", fmt.Sprint(len(distinct)))
		}
	}
	R.Exhaustive = true
}

// allFormsRefused: the path condition negates the ok result of every one of the five colour encoders.
func allFormsRefused(conds []*sym.Term) bool {
	refused := map[string]bool{}
	for _, cd := range conds {
		if cd.Op != "not" || len(cd.Args) != 1 {
			continue
		}
		x := cd.Args[0]
		if strings.HasPrefix(x.Key(), "extract:1(call:Encode") {
			sym.Walk(x, func(t *sym.Term) bool {
				if t.Op == "call" && strings.HasPrefix(t.Name, "Encode") {
					refused[t.Name] = true
				}
				return true
			})
		}
	}
	for _, f := range []string{"Encode1", "Encode2", "Encode3Direct", "Encode4", "Encode3Indirect"} {
		if !refused[f] {
			return false
		}
	}
	return true
}

func leafLabel(conds []*sym.Term) string {
	var parts []string
	for _, cd := range conds {
		k := cd.Key()
		k = strings.ReplaceAll(k, "extract:1(call:", "ok(")
		k = strings.ReplaceAll(k, "($param:c))", ")")
		if len(k) > 80 {
			k = fmt.Sprintf("%s…#%x", k[:60], hashString(k))
		}
		parts = append(parts, k)
	}
	return strings.Join(parts, "&")
}

func hashString(s string) uint32 {
	h := uint32(2166136261)
	for i := 0; i < len(s); i++ {
		h = (h ^ uint32(s[i])) * 16777619
	}
	return h
}

// valueFromParam reports whether a written value is the named parameter,
// possibly passed through the coordinate quantiser.
func valueFromParam(vt *sym.Term, pname string) bool {
	if vt == nil {
		return false
	}
	if vt.Key() == "$param:"+pname {
		return true
	}
	if q := quantizedArg(vt); q != nil {
		return q.Key() == "$param:"+pname
	}
	return false
}

// resolveScratch rewrites "bytes(slice(&e.scratch, lo, lo+n))" into the writer
// event that filled that window of the scratch array: the window must start
// where the writer's buffer started and be as long as the writer reported.
func resolveScratch(run *encRun, items []bufItem) []bufItem {
	out := make([]bufItem, 0, len(items))
	for _, it := range items {
		if it.Kind != "bytes" || it.Val.Op != "slice" || it.Val.Args[0].Op != "ptr" {
			out = append(out, it)
			continue
		}
		lo, ok := it.Val.Args[1].Int64()
		if !ok {
			out = append(out, it)
			continue
		}
		length := sym.Len(it.Val)
		replaced := false
		for _, ev := range run.in.Events {
			if ev.Kind != "encode" || len(ev.Args) < 3 || ev.Args[2] == nil || ev.Result == nil {
				continue
			}
			old := ev.Args[2]
			for old.Op == "conv" {
				old = old.Args[0]
			}
			if old.Op != "slice" || old.Args[0].Key() != it.Val.Args[0].Key() {
				continue
			}
			l0, ok0 := old.Args[1].Int64()
			h0, ok1 := old.Args[2].Int64()
			if ok0 && ok1 && l0 == lo && h0 == lo && sym.Eq(length, ev.Result) {
				// the window holds this writer's bytes only if no other writer of the run touches it: a number takes up
				// to four bytes from where its window starts
				overlap := false
				for _, ev2 := range run.in.Events {
					if ev2 == ev || ev2.Kind != "encode" || len(ev2.Args) < 3 || ev2.Args[2] == nil {
						continue
					}
					o2 := ev2.Args[2]
					for o2.Op == "conv" {
						o2 = o2.Args[0]
					}
					if o2.Op != "slice" || o2.Args[0].Key() != it.Val.Args[0].Key() {
						continue
					}
					l2, okl := o2.Args[1].Int64()
					if !okl || (l2 < lo+4 && lo < l2+4) {
						overlap = true
					}
				}
				if overlap {
					break
				}
				out = append(out, bufItem{"enc:" + ev.Callee, ev.Args[1]})
				replaced = true
				break
			}
		}
		if !replaced {
			out = append(out, it)
		}
	}
	return out
}

// ruleC01_5: converse, structural part: every call the decoder can deliver is
// legal for an Encoder in the corresponding protocol state, so no
// decoder-accepted stream can drive an Encoder into its error state.
func ruleC01_5(c *Ctx) {
	R := c.R
	R.Rule("C01.5", "converse: for every opcode key the call the decoder delivers (method, ADJ, incr) is accepted by the protocol automaton in the state matching the decoder's mode, and the decoder's next mode matches the automaton's next state", 400)
	_, drw := c.modeFuncs()
	for _, drawing := range []bool{false, true} {
		sums := c.decSummaries(drawing)
		if sums == nil {
			return
		}
		for k, s := range sums {
			construct := fmt.Sprintf("decode.%s#opcode=0x%02x", map[bool]string{false: "decodeStyling", true: "decodeDrawing"}[drawing], k)
			if s.Reserved {
				continue
			}
			if len(s.Problems) > 0 || s.Deliver == nil {
				R.Unknown(construct, "-", "decoder behaviour undecided: "+strings.Join(s.Problems, "; "))
				continue
			}
			cl, ok := classify(s.Method)
			if !ok {
				R.Unknown(construct, "-", "method outside the protocol model: "+s.Method)
				continue
			}
			adj, incr := int64(0), false
			sig := s.Deliver.Site.(*ssa.Call).Common().Method.Type().(*types.Signature)
			okArgs := true
			for i := 0; i < sig.Params().Len(); i++ {
				a := s.Deliver.Args[i+1]
				switch sig.Params().At(i).Name() {
				case "adj":
					v, isC := a.Int64()
					if !isC {
						okArgs = false
					}
					adj = v
				case "incr":
					v, isC := a.BoolVal()
					if !isC {
						okArgs = false
					}
					incr = v
				}
			}
			if !okArgs {
				R.Bad(construct, "-", "constant ADJ/incr under the opcode key", "not constant")
				continue
			}
			viol, openAfter := proto(cl, drawing, adj, incr)
			nextDrawing := s.Next == drw.Name()
			R.Check(!viol && openAfter == nextDrawing, construct, "-",
				"legal for an Encoder and mode afterwards agrees",
				fmt.Sprintf("%s(adj=%d,incr=%v): violation=%v, automaton open-after=%v, decoder next=%s", s.Method, adj, incr, viol, openAfter, s.Next))
		}
	}
	R.Exhaustive = true
}
