package rules

import (
	"fmt"
	"go/constant"
	"go/token"
	"go/types"
	"strings"

	"golang.org/x/tools/go/ssa"

	"ivgsa/internal/poly"
	"ivgsa/internal/sym"
)

// rendHooks steers the interpreter over package render: invokes on
// raster.Rasterizer become RASTER events; Pen() returns a pair of atoms
// versioned by the number of state-changing rasteriser calls before it (kept
// in abstract memory so that it is flow-sensitive).
type rendHooks struct {
	sym.NoHooks
	c       *Ctx
	rasterT types.Type
	pins    map[string]*sym.Term
	opaque  map[string]bool // functions (by Name()) kept as opaque pure calls
	in      *sym.Interp
	opaqueAs map[string]string // callee name -> "atom": its result is a fresh atom per call site instead of a call term
}

func (c *Ctx) newRendHooks(in *sym.Interp) *rendHooks {
	h := &rendHooks{c: c, pins: map[string]*sym.Term{}, opaque: map[string]bool{}, opaqueAs: map[string]string{}, in: in}
	if n := c.Named("raster", "Rasterizer"); n != nil {
		h.rasterT = n
	}
	in.Hooks = h
	return h
}

func (h *rendHooks) Init(o *sym.Object, p sym.Path, t types.Type) *sym.Term {
	if v, ok := h.pins[o.ID+"|"+p.String()]; ok {
		return v
	}
	return nil
}

func (h *rendHooks) verObj() *sym.Object {
	return h.in.Obj("alloc:rasterversion", "alloc", types.Typ[types.Int])
}

var rasterQueries = map[string]bool{"Pen": true, "Size": true, "Bounds": true}

func (h *rendHooks) Call(in *sym.Interp, fr *sym.Frame, site ssa.CallInstruction, callee *ssa.Function, args []*sym.Term) (bool, *sym.Term) {
	if site == nil {
		return false, nil
	}
	cc := site.Common()
	if callee == nil && cc.IsInvoke() && h.rasterT != nil && types.Identical(cc.Value.Type(), h.rasterT) {
		m := cc.Method.Name()
		ver := in.LoadAt(fr.Mem(), h.verObj(), nil)
		ev := in.Emit(fr, "raster", site, m, args[1:], fr.Mem())
		if ev != nil {
			ev.Note = ver.Key()
		}
		if rasterQueries[m] {
			if m == "Pen" {
				f32 := types.Typ[types.Float32]
				return true, sym.Tuple(sym.Atom("penX@"+ver.Key(), f32), sym.Atom("penY@"+ver.Key(), f32))
			}
			return false, nil
		}
		fr.Mem().Store(h.verObj(), nil, sym.Bin(token.ADD, ver, sym.Int(1), types.Typ[types.Int]))
		return true, nil
	}
	if callee != nil && h.opaque[callee.Name()] {
		var rt types.Type
		if rs := callee.Signature.Results(); rs.Len() == 1 {
			rt = rs.At(0).Type()
		} else if rs.Len() > 1 {
			rt = rs
		}
		in.Emit(fr, "opaquecall", site, callee.Name(), canonArgs(callee, args), fr.Mem())
		if rt == nil {
			return true, nil
		}
		if strings.HasPrefix(h.opaqueAs[callee.Name()], "atom") {
			// a compact stand-in for the result: one atom per call site, named after the callee
			return true, sym.Atom(fmt.Sprintf("res@%s#%s#%d", callee.Name(), fr.ID, ordinal(site)), rt)
		}
		return true, sym.Call(callee.Name(), rt, args...)
	}
	return false, nil
}

// structFieldNames maps "$init:<obj>.<i>.<j>" keys to dotted field names.
func structFieldNames(t types.Type, keyPrefix, namePrefix string, out map[string]string) {
	st, ok := t.Underlying().(*types.Struct)
	if !ok {
		return
	}
	for i := 0; i < st.NumFields(); i++ {
		f := st.Field(i)
		k := fmt.Sprintf("%s.%d", keyPrefix, i)
		n := namePrefix + f.Name()
		out[k] = n
		structFieldNames(f.Type(), k, n+".", out)
	}
}

// valueFieldNames maps "field:i(...)" projection keys of a struct-valued atom.
func valueFieldNames(t types.Type, base string, namePrefix string, out map[string]string) {
	st, ok := t.Underlying().(*types.Struct)
	if !ok {
		return
	}
	for i := 0; i < st.NumFields(); i++ {
		f := st.Field(i)
		k := fmt.Sprintf("field:%d(%s)", i, base)
		n := namePrefix + f.Name()
		out[k] = n
		valueFieldNames(f.Type(), k, n+".", out)
	}
}

// fieldIndex returns the index of the named field of struct type t, or -1.
func fieldIndex(t types.Type, name string) int {
	st, ok := t.Underlying().(*types.Struct)
	if !ok {
		return -1
	}
	for i := 0; i < st.NumFields(); i++ {
		if st.Field(i).Name() == name {
			return i
		}
	}
	return -1
}

// nestedFieldPath finds the unique field called name in the struct-typed fields of t (named struct types declared in
// the same package as t, up to depth levels down), as a path from t.
func nestedFieldPath(t types.Type, name string, depth int) sym.Path {
	st, ok := t.Underlying().(*types.Struct)
	if !ok || depth == 0 {
		return nil
	}
	var home *types.Package
	if n, ok := t.(*types.Named); ok {
		home = n.Obj().Pkg()
	}
	var found sym.Path
	n := 0
	for i := 0; i < st.NumFields(); i++ {
		ft, ok := st.Field(i).Type().(*types.Named)
		if !ok || ft.Obj().Pkg() != home {
			continue
		}
		if _, isStruct := ft.Underlying().(*types.Struct); !isStruct {
			continue
		}
		if j := fieldIndex(ft, name); j >= 0 {
			found = sym.Path{sym.F(i), sym.F(j)}
			n++
		} else if sub := nestedFieldPath(ft, name, depth-1); sub != nil {
			found = append(sym.Path{sym.F(i)}, sub...)
			n++
		}
	}
	if n == 1 {
		return found
	}
	return nil
}

// rend bundles what the renderer rules share.
type rend struct {
	c      *Ctx
	T      *types.Named // render.Renderer
	names  map[string]string
	none   int64
	quad   int64
	cube   int64
	resetM *sym.Mem // memory after Reset(viewbox, palette) on a symbolic Renderer
	ok     bool
}

func constVal(c *Ctx, rel, name string) (int64, bool) {
	sp := c.P.Pkg(rel)
	if sp == nil {
		return 0, false
	}
	k := sp.Const(name)
	if k == nil || k.Value == nil || k.Value.Value == nil {
		c.R.Anchor("const " + rel + "." + name)
		return 0, false
	}
	v, ok := constant.Int64Val(constant.ToInt(k.Value.Value))
	return v, ok
}

func (c *Ctx) newRend() *rend {
	r := &rend{c: c, names: map[string]string{}}
	r.T = c.Named("render", "Renderer")
	if r.T == nil {
		return r
	}
	structFieldNames(r.T, "$init:param:z", "", r.names)
	if vb := c.Named("", "ViewBox"); vb != nil {
		valueFieldNames(vb, "$param:viewbox", "vb.", r.names)
	}
	var ok1, ok2, ok3 bool
	r.none, ok1 = constVal(c, "render", "smoothTypeNone")
	r.quad, ok2 = constVal(c, "render", "smoothTypeQuad")
	r.cube, ok3 = constVal(c, "render", "smoothTypeCube")
	reset := c.Method("render", "Renderer", "Reset", true)
	if reset == nil || !ok1 || !ok2 || !ok3 {
		return r
	}
	in := c.Interp()
	c.newRendHooks(in)
	_, mem, _ := in.Run(reset, nil, nil)
	if mem == nil {
		c.R.Anchor("render.(*Renderer).Reset does not return")
		return r
	}
	r.resetM = mem
	r.ok = true
	return r
}

// env returns a normal-form environment with readable names.
func (r *rend) env() *poly.Env {
	e := poly.NewEnv()
	for k, v := range r.names {
		e.Rename[k] = v
	}
	for _, p := range []string{"x", "y", "x1", "y1", "x2", "y2", "rx", "ry", "xAxisRotation", "adj", "f"} {
		e.Rename["$param:"+p] = p
	}
	return e
}

// fieldPath returns the path of a (possibly nested, dotted) field of Renderer.
func (r *rend) fieldPath(dotted string) sym.Path {
	var p sym.Path
	var t types.Type = r.T
	for _, part := range strings.Split(dotted, ".") {
		i := fieldIndex(t, part)
		if i < 0 {
			// fields that travel together may have been grouped into a struct of their own: the one field of that name
			// in a struct-typed field (of a type of the same package) is the same piece of state
			if sub := nestedFieldPath(t, part, 2); sub != nil {
				p = append(p, sub...)
				for _, e := range sub {
					t = t.Underlying().(*types.Struct).Field(e.Field).Type()
				}
				continue
			}
			r.c.R.Anchor("field render.Renderer." + dotted)
			return nil
		}
		p = append(p, sym.F(i))
		t = t.Underlying().(*types.Struct).Field(i).Type()
	}
	return p
}

// run evaluates a Renderer method on the state left by Reset, with optional
// pinned fields (dotted name -> term).
func (r *rend) run(fn *ssa.Function, pins map[string]*sym.Term, opaque ...string) (*sym.Interp, *sym.Mem, *sym.Frame) {
	in := r.c.Interp()
	h := r.c.newRendHooks(in)
	for _, o := range opaque {
		h.opaque[o] = true
	}
	mem := r.resetM.Clone()
	zobj := in.ParamObj("z", r.T)
	for name, v := range pins {
		if p := r.fieldPath(name); p != nil {
			mem.Store(zobj, p, v)
		}
	}
	_, out, fr := in.Run(fn, nil, mem)
	return in, out, fr
}

func (r *rend) zobj(in *sym.Interp) *sym.Object { return in.ParamObj("z", r.T) }

// rasterEvents filters the RASTER events of a run.
func rasterEvents(in *sym.Interp) []*sym.Event {
	var out []*sym.Event
	for _, ev := range in.Events {
		if ev.Kind == "raster" {
			out = append(out, ev)
		}
	}
	return out
}

// Geometry of the property statement, over named quantities.
type geom struct {
	W, H, Dx, Dy poly.Rat
}

func newGeom() geom {
	v := poly.RatVar
	return geom{
		W:  v("vb.MaxX").Sub(v("vb.MinX")),
		H:  v("vb.MaxY").Sub(v("vb.MinY")),
		Dx: v("r.Max.X").Sub(v("r.Min.X")),
		Dy: v("r.Max.Y").Sub(v("r.Min.Y")),
	}
}

// AX is the x component of the affine map taking the viewBox onto (0,0)-(Dx,Dy).
func (g geom) AX(x poly.Rat) poly.Rat { return x.Sub(poly.RatVar("vb.MinX")).Mul(g.Dx).Div(g.W) }
func (g geom) AY(y poly.Rat) poly.Rat { return y.Sub(poly.RatVar("vb.MinY")).Mul(g.Dy).Div(g.H) }
func (g geom) RX(x poly.Rat) poly.Rat { return x.Mul(g.Dx).Div(g.W) }
func (g geom) RY(y poly.Rat) poly.Rat { return y.Mul(g.Dy).Div(g.H) }

// DebugRend evaluates a Renderer method on the post-Reset state (for ivgsa dump).
func DebugRend(c *Ctx, method string, opaque []string, pinAtoms []string) (*sym.Interp, *sym.Mem) {
	r := c.newRend()
	fn := c.Method("render", "Renderer", method, true)
	if !r.ok || fn == nil {
		return nil, nil
	}
	pins := map[string]*sym.Term{}
	for _, p := range pinAtoms {
		pins[p] = sym.Atom(p, nil)
	}
	in, mem, _ := r.run(fn, pins, opaque...)
	return in, mem
}
