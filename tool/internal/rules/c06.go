package rules

import (
	"fmt"
	"go/constant"
	"go/token"
	"go/types"
	"math"
	"os"
	"sort"
	"strings"

	"golang.org/x/tools/go/ssa"

	"ivgsa/internal/poly"
	"ivgsa/internal/sym"
)

func init() { register("C06", ruleC06) }

func ruleC06(c *Ctx) {
	R := c.R
	R.Assume("real arithmetic; the numerical content of the endpoint-to-centre conversion (ellipse membership, sweep direction and extent, radius scale-up) is not decided by this family of technique")
	r := c.newRend()
	if !r.ok {
		return
	}
	g := newGeom()
	pins := map[string]*sym.Term{"disabled": sym.False, "prevSmoothType": sym.Atom("prevType", types.Typ[types.Uint8])}
	abs := c.Method("render", "Renderer", "AbsArcTo", true)
	rel := c.Method("render", "Renderer", "RelArcTo", true)
	if abs == nil || rel == nil {
		return
	}
	pos := c.FPos(abs)
	key := "render.(*Renderer).AbsArcTo"

	// the six helper maps
	R.Rule("C06.0", "the coordinate helpers are the viewBox->rectangle map, its linear part and its inverse (rational normal forms on the state Reset leaves)", 6)
	helpers := []struct {
		name string
		want func(x poly.Rat) poly.Rat
	}{
		{"absX", g.AX}, {"absY", g.AY}, {"relX", g.RX}, {"relY", g.RY},
		{"unabsX", func(x poly.Rat) poly.Rat { return x.Mul(g.W).Div(g.Dx).Add(v("vb.MinX")) }},
		{"unabsY", func(y poly.Rat) poly.Rat { return y.Mul(g.H).Div(g.Dy).Add(v("vb.MinY")) }},
	}
	for _, hp := range helpers {
		fn := c.Method("render", "Renderer", hp.name, true)
		if fn == nil {
			continue
		}
		in := r.c.Interp()
		r.c.newRendHooks(in)
		res, _, _ := in.Run(fn, nil, r.resetM.Clone())
		env := r.env()
		got, ok := env.One(res)
		arg := "x"
		if strings.HasSuffix(hp.name, "Y") {
			arg = "y"
		}
		want := hp.want(v(arg))
		R.Check(ok && got.Equal(want), "render.(*Renderer)."+hp.name, c.FPos(fn), want.String(), map[bool]string{true: got.String(), false: shortKey(res)}[ok])
	}

	// The same on the state SetRasterizer leaves when it is called after Reset (a documented order: re-target a
	// Renderer that holds a graphic's metadata): the helpers must be the maps of the rectangle and viewBox that are
	// stored THEN - anything the Renderer caches beside scale and bias has to be refreshed there too. The reference
	// is built from the values found in the state (z.r, z.viewBox), case by case, not from field names of the cache.
	if sr := c.Method("render", "Renderer", "SetRasterizer", true); sr != nil {
		in0 := r.c.Interp()
		r.c.newRendHooks(in0)
		_, mem2, _ := in0.Run(sr, nil, r.resetM.Clone())
		z0 := in0.ParamObj("z", r.T)
		if mem2 == nil {
			R.Unknown("render.(*Renderer).SetRasterizer#helpers", c.FPos(sr), "SetRasterizer does not return on the state Reset leaves")
		} else {
			env := r.env()
			under := func(dotted string, conds []*sym.Term) (poly.Rat, bool) {
				pth := r.fieldPath(dotted)
				if pth == nil {
					return poly.Rat{}, false
				}
				var hit []poly.Rat
				for _, cs := range env.Cases(in0.LoadAt(mem2, z0, pth)) {
					if !sym.CondsContradict(append(append([]*sym.Term{}, cs.Conds...), conds...)) {
						hit = append(hit, cs.Val)
					}
				}
				if len(hit) != 1 {
					return poly.Rat{}, false
				}
				return hit[0], true
			}
			for _, hp := range helpers {
				fn := c.Method("render", "Renderer", hp.name, true)
				if fn == nil {
					continue
				}
				in := r.c.Interp()
				r.c.newRendHooks(in)
				res, _, _ := in.Run(fn, nil, mem2.Clone())
				arg := "x"
				if strings.HasSuffix(hp.name, "Y") {
					arg = "y"
				}
				construct := "render.(*Renderer)." + hp.name + "#after-SetRasterizer"
				cases := env.Cases(res)
				okAll := len(cases) > 0
				detail := ""
				// split further by the cases of the stored rectangle (as given / normalised when empty)
				var split []poly.Case
				for _, cs := range cases {
					for _, rc := range env.Cases(in0.LoadAt(mem2, z0, r.fieldPath("r.Max.X"))) {
						m := append(append([]*sym.Term{}, cs.Conds...), rc.Conds...)
						if !sym.CondsContradict(m) {
							split = append(split, poly.Case{Conds: m, Val: cs.Val})
						}
					}
				}
				for _, cs := range split {
					x0, ok0 := under("r.Min.X", cs.Conds)
					x1, ok1 := under("r.Max.X", cs.Conds)
					y0, ok2 := under("r.Min.Y", cs.Conds)
					y1, ok3 := under("r.Max.Y", cs.Conds)
					mx, ok4 := under("viewBox.MinX", cs.Conds)
					Mx, ok5 := under("viewBox.MaxX", cs.Conds)
					my, ok6 := under("viewBox.MinY", cs.Conds)
					My, ok7 := under("viewBox.MaxY", cs.Conds)
					if !(ok0 && ok1 && ok2 && ok3 && ok4 && ok5 && ok6 && ok7) {
						okAll = false
						detail = "the rectangle or viewBox stored by SetRasterizer has no single value under " + condKey(cs.Conds)
						break
					}
					dx, dy, w, h := x1.Sub(x0), y1.Sub(y0), Mx.Sub(mx), My.Sub(my)
					a := v(arg)
					var want poly.Rat
					switch hp.name {
					case "absX":
						want = a.Sub(mx).Mul(dx).Div(w)
					case "absY":
						want = a.Sub(my).Mul(dy).Div(h)
					case "relX":
						want = a.Mul(dx).Div(w)
					case "relY":
						want = a.Mul(dy).Div(h)
					case "unabsX":
						if dx.IsZero() {
							continue // an empty rectangle: nothing can be drawn, the inverse does not exist
						}
						want = a.Mul(w).Div(dx).Add(mx)
					case "unabsY":
						if dy.IsZero() {
							continue
						}
						want = a.Mul(h).Div(dy).Add(my)
					}
					if !cs.Val.Equal(want) {
						okAll = false
						detail = cs.Val.String() + " under " + condKey(cs.Conds) + " (wanted " + want.String() + ")"
					}
				}
				R.Check(okAll, construct, c.FPos(fn), "the map of the rectangle and viewBox stored at that point", detail)
			}
		}
	}

	// C06.1: with the helpers kept opaque, every cubic gets absX results in x positions and absY results in y positions
	R.Rule("C06.1", "every CubeTo issued for an arc receives results of the x map in x positions and of the y map in y positions (coordinate-space discipline)", 6)
	{
		in, _, _ := r.run(abs, pins, "absX", "absY", "relX", "relY", "unabsX", "unabsY")
		n := 0
		for _, ev := range rasterEvents(in) {
			if ev.Callee != "CubeTo" {
				continue
			}
			n++
			for i, a := range ev.Args {
				want := "absX"
				if i%2 == 1 {
					want = "absY"
				}
				ok := a.Op == "call" && a.Name == want
				R.Check(ok, fmt.Sprintf("%s:CubeTo.arg%d", key, i), c.Pos(ev.Site), "a result of "+want, shortKey(a))
			}
		}
		R.Check(n == 1, key+":CubeTo.sites", pos, "one CubeTo site (in the segment helper)", fmt.Sprint(n))
	}

	// C06.4 degenerate radii and C06.5 smooth state: full run
	R.Rule("C06.4", "an arc with a zero radius issues exactly one LineTo, to the mapped endpoint, and no cubic", 5)
	in, mem, fr := r.run(abs, pins)
	_ = fr
	var lines, cubes []*sym.Event
	for _, ev := range rasterEvents(in) {
		switch ev.Callee {
		case "LineTo":
			lines = append(lines, ev)
		case "CubeTo":
			cubes = append(cubes, ev)
		case "Pen":
		default:
			R.Bad(key+":call:"+ev.Callee, c.Pos(ev.Site), "only LineTo, CubeTo and Pen", ev.Callee)
		}
	}
	if R.Check(len(lines) == 1, key+":degenerate.LineTo", pos, "one LineTo site", fmt.Sprint(len(lines))) {
		ln := lines[0]
		env := r.env()
		x, ok1 := env.One(ln.Args[0])
		y, ok2 := env.One(ln.Args[1])
		R.Check(ok1 && x.Equal(g.AX(v("x"))), key+":degenerate.LineTo.arg0", c.Pos(ln.Site), "the endpoint mapped into pixel space: "+g.AX(v("x")).String(), shortKey(ln.Args[0]))
		R.Check(ok2 && y.Equal(g.AY(v("y"))), key+":degenerate.LineTo.arg1", c.Pos(ln.Site), "the endpoint mapped into pixel space: "+g.AY(v("y")).String(), shortKey(ln.Args[1]))
		// the branch is taken whenever a radius is zero, and then no cubic is issued
		zero32 := sym.Zero(types.Typ[types.Float32])
		for _, p := range []string{"rx", "ry"} {
			gd := sym.Subst(ln.Guard, sym.Atom("param:"+p, nil), zero32)
			b, isC := gd.BoolVal()
			R.Check(isC && b, key+":degenerate.when."+p+"=0", c.Pos(ln.Site), "LineTo is reached when "+p+" is zero", shortKey(gd))
		}
		if len(cubes) > 0 {
			ok := true
			why := ""
			for _, p := range []string{"rx", "ry"} {
				gd := sym.Subst(cubes[0].Guard, sym.Atom("param:"+p, nil), zero32)
				if b, isC := gd.BoolVal(); !isC || b {
					// reach atoms hide the structure: fall back to mutual exclusion with the LineTo guard
					if !sym.CondsContradict([]*sym.Term{cubes[0].Guard, ln.Guard}) && !reachExcludes(fr, cubes[0], ln) {
						ok, why = false, "cubic reachable with "+p+"=0: "+shortKey(gd)
					}
				}
			}
			R.Check(ok, key+":degenerate.nocubic", pos, "no CubeTo when a radius is zero", why)
		}
	}

	R.Rule("C06.5", "an arc resets the smooth-curve state to None on every enabled path", 1)
	st := in.LoadAt(mem, r.zobj(in), r.fieldPath("prevSmoothType"))
	if k, ok := st.Int64(); ok && k == r.none {
		R.OK(key+":smoothType", pos)
	} else {
		R.Bad(key+":smoothType", pos, "prevSmoothType = none", shortKey(st))
	}

	// C06.7 domain of the square roots and arc cosines
	R.Rule("C06.7", "no NaN from the centre parameterisation: every math.Sqrt in the arc code is taken of a sum of squares or under a guard that bounds its argument below by a non-negative constant (the radii scale-up under radiiCheck > 1, the centre offset under its radicand > 0), and math.Acos only strictly between the clamps -1 < cos < 1; floating-point rounding of mathematically non-negative quantities cannot reach them", 4)
	{
		nDom := 0
		// the arc code: AbsArcTo, its closures and the module functions it calls (an angle helper may be either)
		var fns []*ssa.Function
		seenFn := map[*ssa.Function]bool{}
		work := []*ssa.Function{abs}
		for len(work) > 0 {
			fn := work[len(work)-1]
			work = work[:len(work)-1]
			if fn == nil || seenFn[fn] || fn.Blocks == nil || !c.P.FnInModule(fn) {
				continue
			}
			seenFn[fn] = true
			fns = append(fns, fn)
			work = append(work, fn.AnonFuncs...)
			for _, b := range fn.Blocks {
				for _, ins := range b.Instrs {
					if ci, ok := ins.(ssa.CallInstruction); ok {
						if sc := ci.Common().StaticCallee(); sc != nil {
							work = append(work, sc)
						}
					}
				}
			}
		}
		sort.Slice(fns, func(i, j int) bool { return fns[i].Pos() < fns[j].Pos() })
		for _, fn := range fns {
			for _, b := range fn.Blocks {
				for _, ins := range b.Instrs {
					call, ok := ins.(*ssa.Call)
					if !ok {
						continue
					}
					callee := call.Common().StaticCallee()
					if callee == nil || callee.Pkg == nil || callee.Pkg.Pkg.Path() != "math" || (callee.Name() != "Sqrt" && callee.Name() != "Acos") || len(call.Common().Args) != 1 {
						continue
					}
					nDom++
					arg := call.Common().Args[0]
					construct := fmt.Sprintf("%s:domain:%s#%d", key, callee.Name(), nDom)
					lo, hi := domBounds(b, arg)
					if callee.Name() == "Sqrt" {
						ok := ssaSumOfSquares(arg) || (lo != nil && *lo >= 0)
						if k, isC := arg.(*ssa.Const); isC && k.Value != nil {
							if f, _ := constant.Float64Val(constant.ToFloat(k.Value)); f >= 0 {
								ok = true
							}
						}
						R.Check(ok, construct, c.Pos(ins), "argument is a sum of squares, or bounded below by a constant >= 0 by a test that dominates the call", "sqrt of "+arg.String()+" ("+arg.Name()+") without such a test")
					} else {
						ok := lo != nil && *lo >= -1 && hi != nil && *hi <= 1
						R.Check(ok, construct, c.Pos(ins), "-1 <= argument <= 1 by tests that dominate the call", "acos of "+arg.Name()+" outside the clamps")
					}
				}
			}
		}
		if nDom == 0 {
			R.Unknown(key+":domain", pos, "no square root or arc cosine seen in the arc code")
		}
	}

	R.Rule("C06.6", "an arc is emitted as at most four cubics: the loop bound n, evaluated in an interval domain over the function's own formula (documented range of the arc cosine, the clamps, the sign-directed full-turn adjustment, ceil of the quotient by pi/2+0.001), lies in [0, 4]", 1)
	// C06.2 contiguity of the segments
	R.Rule("C06.2", "the arc is cut into n consecutive angle intervals: segment i spans [theta1+dTheta*i/n, theta1+dTheta*(i+1)/n] (contiguous, first starts at theta1, last ends at theta1+dTheta), one cubic per segment, loop counted from 0 to n", 6)
	{
		// find the closure that issues the cubic: the callee of the frame of the CubeTo event
		segName := ""
		if len(cubes) == 1 {
			segName = cubes[0].Frame.Fn.Name()
			if cubes[0].Frame.Parent == nil {
				segName = ""
			}
			lp := cubes[0].Loops
			R.Check(len(lp) == 1, key+":segments.loop", pos, "cubics are issued from one loop", fmt.Sprint(len(lp)))
			if len(lp) == 1 {
				li, ok := lp[0].Frame.Loop(lp[0].Header)
				okc := ok && li.Step == 1 && li.Offset == 0 && li.Op.String() == "<"
				if okc {
					if i0, isC := li.Init.Int64(); !isC || i0 != 0 {
						okc = false
					}
				}
				R.Check(okc, key+":segments.counted", pos, "for i := 0; i < n; i++", "not a counted loop from 0")
				// at most four cubics: interval evaluation of the loop bound. The angle helper returns a value in
				// [-pi, pi] (arc cosine in [0, pi], clamped), the sweep adjustment adds a full turn only to an angle of
				// the opposite sign, so |dTheta| <= 2pi and n = ceil(|dTheta| / (pi/2 + 0.001)) <= 4.
				if ok {
					R.Use("C06.6")
					c.checkAtMostFour(r, abs, pins, key, pos)
					R.Use("C06.2")
				}
			}
			// inside the helper the cubic is unconditional
			extra := 0
			for _, lit := range guardLits(cubes[0].Guard) {
				k := lit.Key()
				if strings.Contains(k, "$reach#") || strings.Contains(k, "$phi#AbsArcTo#") || strings.Contains(k, "math.Abs") {
					continue
				}
				extra++
			}
			R.Check(extra == 0, key+":segments.unconditional", pos, "one cubic per iteration", shortKey(cubes[0].Guard))
		}
		if segName != "" {
			in2, _, _ := r.run(abs, pins, segName)
			var seg *sym.Event
			for _, ev := range in2.Events {
				if ev.Kind == "opaquecall" && ev.Callee == segName {
					seg = ev
				}
			}
			if seg == nil || len(seg.Loops) != 1 || len(seg.Args) < 2 {
				R.Unknown(key+":segments.call", pos, "segment helper call not found in the loop")
			} else {
				li, _ := seg.Loops[0].Frame.Loop(seg.Loops[0].Header)
				env := poly.NewEnv()
				env.IteAsAtom = true
				if li != nil {
					env.Rename[fr.Val(li.Phi).Key()] = "i"
					// the loop phi atom of this second run
					env.Rename[seg.Loops[0].Frame.Val(li.Phi).Key()] = "i"
				}
				// locate the two angle arguments: the ones that depend on i
				var dep []int
				nf := make([]poly.Rat, len(seg.Args))
				for k, a := range seg.Args {
					rr, ok := env.One(a)
					if !ok {
						continue
					}
					nf[k] = rr
					if hasVar(rr, "i") {
						dep = append(dep, k)
					}
				}
				// the start angle may be carried round the loop instead of being computed again: a variable that starts as
				// the end-angle formula at i = -1 and becomes, on the way round, the end angle just used - by induction it
				// is that formula at i - 1
				if len(dep) == 1 && li != nil {
					lf := seg.Loops[0].Frame
					for k, a := range seg.Args {
						if a == nil || a.Op != "atom" || k == dep[0] {
							continue
						}
						phi := phiOfAtom(lf, a)
						if phi == nil || phi.Block().Index != seg.Loops[0].Header {
							continue
						}
						pinit, pback := phiEdges(lf, phi)
						if len(pinit) != 1 || len(pback) != 1 || !sym.Eq(pback[0], seg.Args[dep[0]]) {
							continue
						}
						in0, ok0 := env.One(pinit[0])
						bk := nf[dep[0]]
						if ok0 && in0.Equal(bk.SubstVar("i", poly.RatInt(-1))) {
							nf[k] = bk.SubstVar("i", v("i").Sub(poly.RatInt(1)))
							dep = append([]int{k}, dep...)
						}
					}
				}
				if len(dep) != 2 {
					R.Bad(key+":segments.angles", pos, "two arguments (start and end angle) depend on the loop counter", fmt.Sprint(dep))
				} else {
					a, b := nf[dep[0]], nf[dep[1]]
					next := a.SubstVar("i", v("i").Add(poly.RatInt(1)))
					R.Check(b.Equal(next), key+":segments.contiguous", pos, "end angle of segment i == start angle of segment i+1", "start="+a.String()+" end="+b.String())
					// first segment starts at theta1: a(0); last ends at a(0) + dTheta: b(n-1) - a(0) is independent of n
					a0 := a.SubstVar("i", poly.RatInt(0))
					R.Check(!hasVar(a0, "i") && a0.Den.Vars() == nil || len(a0.Den.Vars()) == 0, key+":segments.first", pos, "the first segment starts at the start angle", a0.String())
					// total span: b(i) - a(i) = dTheta/n  =>  n * (b-a) does not depend on i and b(n-1)-a(0) = n*(b-a)
					step := b.Sub(a)
					R.Check(!hasVar(step, "i"), key+":segments.equal", pos, "all segments span the same angle", step.String())
				}
			}
		}
	}

	// C06.3 relative form
	R.Rule("C06.3", "the relative form measures its endpoint from the pen (in viewBox space) and passes radii, rotation and flags through unchanged", 7)
	{
		in3, _, _ := r.run(rel, pins, "AbsArcTo")
		var call *sym.Event
		for _, ev := range in3.Events {
			if ev.Kind == "opaquecall" && ev.Callee == "AbsArcTo" {
				call = ev
			}
		}
		rkey := "render.(*Renderer).RelArcTo"
		rpos := c.FPos(rel)
		if call == nil || len(call.Args) != 8 {
			R.Bad(rkey+":delegates", rpos, "one call of AbsArcTo", "none")
		} else {
			for i, p := range []string{"rx", "ry", "xAxisRotation", "largeArc", "sweep"} {
				R.Check(call.Args[i+1].Key() == "$param:"+p, rkey+":pass:"+p, rpos, "passed through unchanged", shortKey(call.Args[i+1]))
			}
			env := r.env()
			x, ok1 := env.One(call.Args[6])
			y, ok2 := env.One(call.Args[7])
			wantX := v("$penX@0").Mul(g.W).Div(g.Dx).Add(v("vb.MinX")).Add(v("x"))
			wantY := v("$penY@0").Mul(g.H).Div(g.Dy).Add(v("vb.MinY")).Add(v("y"))
			R.Check(ok1 && x.Equal(wantX), rkey+":endpoint.x", rpos, wantX.String(), shortKey(call.Args[6]))
			R.Check(ok2 && y.Equal(wantY), rkey+":endpoint.y", rpos, wantY.String(), shortKey(call.Args[7]))
		}
	}
}

// reachExcludes reports whether the two events lie on different successors of
// one branch of the root frame (so that they can never both execute).
func reachExcludes(fr *sym.Frame, a, b *sym.Event) bool {
	ba, bb := rootBlock(a), rootBlock(b)
	if ba == nil || bb == nil {
		return false
	}
	return !ba.Dominates(bb) && !bb.Dominates(ba) && !reaches(ba.Index, bb.Index, fr) && !reaches(bb.Index, ba.Index, fr)
}

// checkAtMostFour bounds the number of cubic segments of an arc by interval evaluation. The angle helper (the
// closure of AbsArcTo taking four floats and returning one) is first evaluated on its own; AbsArcTo is then
// evaluated with that helper kept as an opaque call whose range is the interval just computed.
func (c *Ctx) checkAtMostFour(r *rend, abs *ssa.Function, pins map[string]*sym.Term, key, pos string) {
	R := c.R
	// the angle helper: a closure or named function of the module, reachable from AbsArcTo, taking four float64 and
	// returning one (wherever a refactoring has put it)
	var angle *ssa.Function
	{
		seen := map[*ssa.Function]bool{}
		work := []*ssa.Function{abs}
		for len(work) > 0 {
			f := work[len(work)-1]
			work = work[:len(work)-1]
			if f == nil || seen[f] || f.Blocks == nil || !c.P.FnInModule(f) {
				continue
			}
			seen[f] = true
			if f != abs {
				sig := f.Signature
				ok4 := sig.Params().Len() == 4 && sig.Results().Len() == 1 && sig.Results().At(0).Type().String() == "float64"
				for i := 0; ok4 && i < 4; i++ {
					ok4 = sig.Params().At(i).Type().String() == "float64"
				}
				if ok4 {
					angle = f
				}
			}
			work = append(work, f.AnonFuncs...)
			for _, b := range f.Blocks {
				for _, ins := range b.Instrs {
					if ci, ok := ins.(ssa.CallInstruction); ok {
						if sc := ci.Common().StaticCallee(); sc != nil {
							work = append(work, sc)
						}
					}
				}
			}
		}
	}
	ev := &fEval{ranges: map[string]fiv{}}
	opaque := []string{}
	if os.Getenv("IVGSA_DEBUG") != "" {
		for _, af := range abs.AnonFuncs {
			fmt.Fprintln(os.Stderr, "anon", af.Name(), af.Signature.String())
		}
	}
	if angle != nil {
		in := c.Interp()
		var binds []*sym.Term
		for _, fv := range angle.FreeVars {
			binds = append(binds, in.ParamTerm("free:"+fv.Name(), fv.Type()))
		}
		res, _, _ := in.CallFunction(angle, in.RootArgs(angle), binds, sym.NewMem(), nil, nil, true)
		if os.Getenv("IVGSA_DEBUG") != "" {
			fmt.Fprintln(os.Stderr, "angle result", shortKey(res), in.Warn)
		}
		if res != nil {
			iv := ev.evalCases(res)
			ev.ranges[angle.Name()] = iv
			R.Check(iv.lo >= -math.Pi*(1+1e-6) && iv.hi <= math.Pi*(1+1e-6), key+":angle-helper.range", c.FPos(angle), "the angle between two vectors lies in [-pi, pi]", fmt.Sprintf("[%g, %g]", iv.lo, iv.hi))
			opaque = append(opaque, angle.Name())
		}
	}
	in2 := c.Interp()
	{
		h := c.newRendHooks(in2)
		for _, o := range opaque {
			h.opaque[o] = true
			h.opaqueAs[o] = "atom"
		}
		mem := r.resetM.Clone()
		zobj := in2.ParamObj("z", r.T)
		for name, v := range pins {
			if p := r.fieldPath(name); p != nil {
				mem.Store(zobj, p, v)
			}
		}
		in2.Run(abs, nil, mem)
	}
	var bound *sym.Term
	for _, e2 := range in2.Events {
		if e2.Kind == "raster" && e2.Callee == "CubeTo" && len(e2.Loops) == 1 {
			if li, ok := e2.Loops[0].Frame.Loop(e2.Loops[0].Header); ok {
				bound = li.Bound
			}
		}
	}
	if bound == nil {
		R.Unknown(key+":segments.at-most-four", pos, "the segment loop was not found")
		return
	}
	iv := ev.evalCases(bound)
	R.Check(iv.hi <= 4 && iv.lo >= 0, key+":segments.at-most-four", pos, "the number of segments lies in [0, 4] for every finite input", fmt.Sprintf("interval [%g, %g] for %s", iv.lo, iv.hi, shortKey(bound)))
}

// sumOfSquares: t is x*x, or a sum of such terms (never negative, NaN only from a NaN operand).
func sumOfSquares(t *sym.Term) bool {
	if t.Op == "conv" && len(t.Args) == 1 {
		return sumOfSquares(t.Args[0])
	}
	if t.Op != "bin" || len(t.Args) != 2 {
		return false
	}
	switch t.Name {
	case "*":
		return sym.Eq(t.Args[0], t.Args[1])
	case "+":
		return sumOfSquares(t.Args[0]) && sumOfSquares(t.Args[1])
	}
	return false
}

// ssaSumOfSquares: v is x*x or a sum of such products.
func ssaSumOfSquares(v ssa.Value) bool {
	switch x := v.(type) {
	case *ssa.Convert:
		return ssaSumOfSquares(x.X)
	case *ssa.BinOp:
		switch x.Op {
		case token.MUL:
			return x.X == x.Y
		case token.ADD:
			return ssaSumOfSquares(x.X) && ssaSumOfSquares(x.Y)
		}
	}
	return false
}

// domBounds returns the constant bounds of v that hold in block b because of comparisons of v with constants on
// branches that dominate b (v > k taken, v <= k not taken, ...). NaN fails every comparison: a bound obtained from a
// branch *not* taken does not exclude NaN, which is propagated, not produced, by the guarded call.
func domBounds(b *ssa.BasicBlock, v ssa.Value) (lo, hi *float64) {
	setLo := func(f float64) {
		if lo == nil || f > *lo {
			lo = &f
		}
	}
	setHi := func(f float64) {
		if hi == nil || f < *hi {
			hi = &f
		}
	}
	for d := b; d != nil && d.Idom() != nil; d = d.Idom() {
		id := d.Idom()
		if len(id.Instrs) == 0 {
			continue
		}
		iff, ok := id.Instrs[len(id.Instrs)-1].(*ssa.If)
		if !ok {
			continue
		}
		var taken bool
		switch {
		case id.Succs[0] == d && len(d.Preds) == 1:
			taken = true
		case id.Succs[1] == d && len(d.Preds) == 1:
			taken = false
		default:
			continue
		}
		cmp, ok := iff.Cond.(*ssa.BinOp)
		if !ok {
			continue
		}
		op := cmp.Op
		var k *ssa.Const
		switch {
		case cmp.X == v:
			k, _ = cmp.Y.(*ssa.Const)
		case cmp.Y == v:
			k, _ = cmp.X.(*ssa.Const)
			switch op { // k op v  ==  v op' k
			case token.LSS:
				op = token.GTR
			case token.LEQ:
				op = token.GEQ
			case token.GTR:
				op = token.LSS
			case token.GEQ:
				op = token.LEQ
			}
		}
		if k == nil || k.Value == nil {
			continue
		}
		f, _ := constant.Float64Val(constant.ToFloat(k.Value))
		if !taken {
			switch op { // not(v op k)
			case token.LSS:
				op = token.GEQ
			case token.LEQ:
				op = token.GTR
			case token.GTR:
				op = token.LEQ
			case token.GEQ:
				op = token.LSS
			default:
				continue
			}
		}
		switch op {
		case token.GTR, token.GEQ:
			setLo(f)
		case token.LSS, token.LEQ:
			setHi(f)
		}
	}
	return
}
