package rules

import (
	"fmt"
	"go/constant"
	"go/token"
	"go/types"
	"strings"

	"ivgsa/internal/sym"
)

// A bit-level normal form for integer expressions built from bytes with
// shifts, masks, ors and zero-extending conversions: every result bit is the
// constant 0/1 or one named bit of an atom. Two expressions are equal for all
// inputs iff their normal forms are equal. Anything else (additions with
// carries, products that overlap) is "unsupported" and the rule is undecided.

type bitSrc struct {
	Const int    // 0 or 1 when Atom == ""
	Atom  string // term key of the source value
	Bit   int
}

func (b bitSrc) String() string {
	if b.Atom == "" {
		return fmt.Sprint(b.Const)
	}
	return fmt.Sprintf("%s.%d", b.Atom, b.Bit)
}

type bitVec []bitSrc // index 0 = least significant

func (v bitVec) String() string {
	var parts []string
	for i := len(v) - 1; i >= 0; i-- {
		parts = append(parts, v[i].String())
	}
	return strings.Join(parts, " ")
}

func (v bitVec) equal(w bitVec) bool {
	n := len(v)
	if len(w) > n {
		n = len(w)
	}
	at := func(x bitVec, i int) bitSrc {
		if i < len(x) {
			return x[i]
		}
		return bitSrc{}
	}
	for i := 0; i < n; i++ {
		if at(v, i) != at(w, i) {
			return false
		}
	}
	return true
}

func intWidth(t types.Type) (int, bool, bool) {
	if t == nil {
		return 0, false, false
	}
	b, ok := t.Underlying().(*types.Basic)
	if !ok {
		return 0, false, false
	}
	switch b.Kind() {
	case types.Uint8:
		return 8, true, true
	case types.Uint16:
		return 16, true, true
	case types.Uint32:
		return 32, true, true
	case types.Uint64:
		return 64, true, true
	case types.Uint, types.Uintptr:
		return int(sym.IntSize), true, true
	case types.Int8:
		return 8, false, true
	case types.Int16:
		return 16, false, true
	case types.Int32:
		return 32, false, true
	case types.Int64:
		return 64, false, true
	case types.Int:
		return int(sym.IntSize), false, true
	}
	return 0, false, false
}

func constBits(v int64, w int) bitVec {
	out := make(bitVec, w)
	for i := 0; i < w; i++ {
		out[i] = bitSrc{Const: int((uint64(v) >> uint(i)) & 1)}
	}
	return out
}

func atomBits(key string, w int) bitVec {
	out := make(bitVec, w)
	for i := range out {
		out[i] = bitSrc{Atom: key, Bit: i}
	}
	return out
}

// toBits converts t to its bit-level normal form of width w.
func toBits(t *sym.Term, w int) (bitVec, error) {
	if v, ok := t.Int64(); ok {
		return constBits(v, w), nil
	}
	fit := func(v bitVec) bitVec { // truncate or zero-extend to w
		out := make(bitVec, w)
		for i := 0; i < w; i++ {
			if i < len(v) {
				out[i] = v[i]
			}
		}
		return out
	}
	switch t.Op {
	case "conv":
		sw, unsigned, ok := intWidth(t.Args[0].T)
		tw, _, ok2 := intWidth(t.T)
		if !ok || !ok2 {
			return nil, fmt.Errorf("non-integer conversion %s", t.Key())
		}
		inner, err := toBits(t.Args[0], sw)
		if err != nil {
			return nil, err
		}
		if !unsigned && tw > sw {
			// sign extension: only supported when the sign bit is known zero
			if inner[sw-1] != (bitSrc{}) {
				return nil, fmt.Errorf("sign extension of a possibly negative value %s", t.Key())
			}
		}
		v := make(bitVec, tw)
		for i := 0; i < tw; i++ {
			if i < sw {
				v[i] = inner[i]
			}
		}
		return fit(v), nil
	case "bin":
		tw, _, ok := intWidth(t.T)
		if !ok {
			return nil, fmt.Errorf("non-integer operation %s", t.Key())
		}
		op := sym.TokenOf(t)
		switch op {
		case token.SHL, token.SHR:
			k, ok := t.Args[1].Int64()
			if !ok || k < 0 {
				return nil, fmt.Errorf("shift by a non-constant in %s", t.Key())
			}
			x, err := toBits(t.Args[0], tw)
			if err != nil {
				return nil, err
			}
			_, unsigned, _ := intWidth(t.T)
			if op == token.SHR && !unsigned && x[tw-1] != (bitSrc{}) {
				return nil, fmt.Errorf("arithmetic shift of a possibly negative value")
			}
			out := make(bitVec, tw)
			for i := 0; i < tw; i++ {
				var j int
				if op == token.SHL {
					j = i - int(k)
				} else {
					j = i + int(k)
				}
				if j >= 0 && j < tw {
					out[i] = x[j]
				}
			}
			return fit(out), nil
		case token.OR, token.AND, token.XOR, token.AND_NOT:
			x, err := toBits(t.Args[0], tw)
			if err != nil {
				return nil, err
			}
			y, err := toBits(t.Args[1], tw)
			if err != nil {
				return nil, err
			}
			out := make(bitVec, tw)
			for i := 0; i < tw; i++ {
				a, b := x[i], y[i]
				ac, bc := a.Atom == "", b.Atom == ""
				switch op {
				case token.OR:
					switch {
					case ac && a.Const == 0:
						out[i] = b
					case bc && b.Const == 0:
						out[i] = a
					case (ac && a.Const == 1) || (bc && b.Const == 1):
						out[i] = bitSrc{Const: 1}
					case a == b:
						out[i] = a
					default:
						return nil, fmt.Errorf("or of two unknown bits in %s", t.Key())
					}
				case token.AND:
					switch {
					case (ac && a.Const == 0) || (bc && b.Const == 0):
						out[i] = bitSrc{}
					case ac && a.Const == 1:
						out[i] = b
					case bc && b.Const == 1:
						out[i] = a
					case a == b:
						out[i] = a
					default:
						return nil, fmt.Errorf("and of two unknown bits in %s", t.Key())
					}
				case token.AND_NOT:
					switch {
					case bc && b.Const == 0:
						out[i] = a
					case bc && b.Const == 1, ac && a.Const == 0:
						out[i] = bitSrc{}
					default:
						return nil, fmt.Errorf("and-not of unknown bits in %s", t.Key())
					}
				case token.XOR:
					switch {
					case ac && a.Const == 0:
						out[i] = b
					case bc && b.Const == 0:
						out[i] = a
					case ac && bc:
						out[i] = bitSrc{Const: a.Const ^ b.Const}
					default:
						return nil, fmt.Errorf("xor of unknown bits in %s", t.Key())
					}
				}
			}
			return fit(out), nil
		case token.MUL:
			// constant * x where the shifted copies of x do not overlap
			c, x := t.Args[0], t.Args[1]
			cv, ok := c.Int64()
			if !ok {
				c, x = x, c
				cv, ok = c.Int64()
			}
			if !ok || cv < 0 {
				return nil, fmt.Errorf("product of two unknowns in %s", t.Key())
			}
			xb, err := toBits(x, tw)
			if err != nil {
				return nil, err
			}
			out := make(bitVec, tw)
			for k := 0; k < tw; k++ {
				if (cv>>uint(k))&1 == 0 {
					continue
				}
				for i := 0; i < tw; i++ {
					j := i - k
					if j < 0 || xb[j] == (bitSrc{}) {
						continue
					}
					if out[i] != (bitSrc{}) {
						return nil, fmt.Errorf("overlapping partial products in %s", t.Key())
					}
					out[i] = xb[j]
				}
			}
			return fit(out), nil
		case token.QUO, token.REM:
			// division/remainder by a power of two of an unsigned value
			cv, ok := t.Args[1].Int64()
			_, unsigned, _ := intWidth(t.T)
			if ok && unsigned && cv > 0 && cv&(cv-1) == 0 {
				k := 0
				for (cv >> uint(k)) != 1 {
					k++
				}
				x, err := toBits(t.Args[0], tw)
				if err != nil {
					return nil, err
				}
				out := make(bitVec, tw)
				for i := 0; i < tw; i++ {
					if op == token.QUO {
						if i+k < tw {
							out[i] = x[i+k]
						}
					} else if i < k {
						out[i] = x[i]
					}
				}
				return fit(out), nil
			}
		}
		return nil, fmt.Errorf("operation %s is not bit-wiring: %s", t.Name, t.Key())
	}
	// an opaque integer value
	sw, _, ok := intWidth(t.T)
	if !ok {
		return nil, fmt.Errorf("not an integer value: %s", t.Key())
	}
	return fit(atomBits(t.Key(), sw)), nil
}

// simplifyBits folds integer sub-terms whose bit-level normal form is fully
// constant (e.g. (x<<6 | 0x80) & 0x80) and re-simplifies the term.
func simplifyBits(t *sym.Term) *sym.Term {
	if t == nil || len(t.Args) == 0 {
		return t
	}
	args := make([]*sym.Term, len(t.Args))
	changed := false
	for i, a := range t.Args {
		args[i] = simplifyBits(a)
		if args[i] != a {
			changed = true
		}
	}
	nt := t
	if changed {
		nt = sym.Rebuild(t, args)
	}
	if nt.Op == "bin" {
		switch nt.Name {
		case "&", "|", "^", "<<", ">>", "&^":
			if w, _, ok := intWidth(nt.T); ok {
				if bv, err := toBits(nt, w); err == nil {
					allConst := true
					var val int64
					for i, b := range bv {
						if b.Atom != "" {
							allConst = false
							break
						}
						val |= int64(b.Const) << uint(i)
					}
					if allConst {
						return sym.Const(constant.MakeInt64(val), nt.T)
					}
				}
			}
		}
	}
	return nt
}
