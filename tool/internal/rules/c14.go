package rules

import (
	"fmt"
	"go/types"
	"strings"

	"golang.org/x/tools/go/ssa"

	"ivgsa/internal/sym"
)

func init() {
	register("C14", ruleC14)
	register("C11", ruleC14_6shared)
	register("C13", ruleC14_6shared, ruleC11_6, func(c *Ctx) { only(c, ruleC14, "C14.1") })
}

func ruleC14(c *Ctx) {
	R := c.R
	fn := c.Fn("decode", "decode")
	metaT := c.Named("", "Metadata")
	if fn == nil || metaT == nil {
		return
	}
	pos := c.FPos(fn)
	palIdx := fieldIndex(metaT, "Palette")

	h := c.newDecHooks()
	h.opaque["decodeMetadataChunk"] = true
	h.opaque["ValidAlphaPremulColor"] = true
	h.pureOpaque = map[string]bool{"ValidAlphaPremulColor": true}
	in := c.Interp()
	in.Hooks = h
	in.OnStore = func(fr *sym.Frame, site ssa.Instruction, ptr, val *sym.Term) {
		if ptr.Obj != nil && ptr.Obj.ID == "param:m" {
			in.Emit(fr, "store:m", site, ptr.Path.String(), []*sym.Term{ptr, val}, nil)
		}
	}
	args := in.RootArgs(fn)
	for i, p := range fn.Params {
		if p.Name() == "metadataOnly" {
			args[i] = sym.False
		}
	}
	_, _, fr := in.Run(fn, args, nil)
	var chunk, option, reset *sym.Event
	var stores []*sym.Event
	for _, ev := range in.Events {
		switch {
		case ev.Kind == "opaquecall" && ev.Callee == "decodeMetadataChunk":
			chunk = ev
		case ev.Kind == "indirect" && strings.Contains(ev.Callee, "param:opts"):
			option = ev
		case ev.Kind == "invoke" && strings.HasSuffix(ev.Callee, ".Reset"):
			reset = ev
		case ev.Kind == "store:m":
			stores = append(stores, ev)
		}
	}

	// ---- C14.1 order ----
	R.Rule("C14.1", "order: metadata chunks are decoded, then the options are applied in index order to the same metadata, then the destination is Reset with the viewBox and palette as they are after the last option", 5)
	key := "decode.decode"
	if chunk == nil || option == nil || reset == nil {
		R.Bad(key+"#shape", pos, "chunk loop, option loop, Reset", fmt.Sprintf("chunk=%v option=%v reset=%v", chunk != nil, option != nil, reset != nil))
		return
	}
	R.Check(len(chunk.Loops) == 1 && len(option.Loops) == 1 && chunk.Loops[0].Header != option.Loops[0].Header && loopBefore(chunk, option),
		key+"#chunks-before-options", pos, "the chunk loop completes before the first option is applied", "")
	// options in index order over opts, each called with m
	li, okl := option.Loops[0].Frame.Loop(option.Loops[0].Header)
	okOrd := okl && li.Step == 1 && strings.Contains(li.Bound.Key(), "len($param:opts)")
	if okl {
		i0, _ := li.Init.Int64()
		okOrd = okOrd && i0+li.Offset == 0 && strings.Contains(option.Callee, li.IndexVal.Key())
	}
	R.Check(okOrd, key+"#options.order", c.Pos(option.Site), "options applied in index order 0..len-1", option.Callee)
	R.Check(len(option.Args) == 1 && option.Args[0].Key() == "&param:m", key+"#options.target", c.Pos(option.Site), "each option receives the metadata being built", argKeys(option.Args))
	R.Check(loopBefore(option, reset), key+"#options-before-reset", c.Pos(reset.Site), "Reset after the last option", "")
	// Reset's arguments are loads made after the option loop: they are projections of the state at the option loop's exit
	hdr := option.Loops[0].Header
	okArgs := len(reset.Args) == 3
	if okArgs {
		for k, a := range reset.Args[1:] {
			// either a projection of the memory state joined at the option loop header (nothing written since), or a value
			// produced after it; it must not be a state from before the loop
			ks := a.Key()
			if !(strings.Contains(ks, fmt.Sprintf("mem#%s#%d#param:m", fr.ID, hdr)) || strings.Contains(ks, "sanitised")) && !laterState(ks, fr.ID, hdr) {
				okArgs = false
			}
			_ = k
		}
	}
	R.Check(okArgs, key+"#reset.args", c.Pos(reset.Site), "Reset(m.ViewBox, m.Palette) read after the options", argKeys(reset.Args[1:]))

	// ---- C14.2 what an option may touch ----
	R.Rule("C14.2", "option effects: the closures built by WithPalette / WithColorAt store only into the palette (whole, resp. one index); WithPalette stores its whole argument unconditionally; WithColorAt stores, at the given index, the colour converted through color.RGBAModel (or the equivalent 16-to-8-bit narrowing of c.RGBA())", 4)
	for _, mk := range []string{"WithPalette", "WithColorAt"} {
		maker := c.Fn("decode", mk)
		if maker == nil {
			continue
		}
		// the option returned: on every path the same closure (an option maker that hands back another function for
		// some arguments - a no-op for a palette it takes for "the default" - does not have the stated effect there)
		var clo *ssa.Function
		returned := map[*ssa.Function]bool{}
		okRet := true
		retDetail := ""
		for _, b := range maker.Blocks {
			ret, isRet := b.Instrs[len(b.Instrs)-1].(*ssa.Return)
			if !isRet || len(ret.Results) != 1 {
				continue
			}
			for _, lf := range ssaPhiLeaves(ssaLoadedValue(ret.Results[0], maker)) {
				mc, isClo := ssaStripConv(lf).(*ssa.MakeClosure)
				if f, isFn := ssaStripConv(lf).(*ssa.Function); isFn {
					returned[f] = true
					continue
				}
				if !isClo {
					okRet = false
					retDetail = "returns " + ssaDescribe(lf) + " at " + c.Pos(ret)
					continue
				}
				returned[mc.Fn.(*ssa.Function)] = true
			}
		}
		for f := range returned {
			if clo == nil || c.FPos(f) > c.FPos(clo) {
				clo = f
			}
		}
		if len(returned) > 1 {
			okRet = false
			retDetail = fmt.Sprintf("%d different functions are returned depending on the arguments", len(returned))
		}
		if clo != nil {
			R.Check(okRet, "decode."+mk+"#returns", c.FPos(maker), "the same closure on every path", retDetail)
		}
		if clo == nil {
			R.Bad("decode."+mk+"#closure", c.FPos(maker), "returns a closure", "none")
			continue
		}
		in2 := c.Interp()
		var targets []string
		type optStore struct {
			ptr, val, guard *sym.Term
			loops           int
		}
		var optStores []optStore
		in2.OnStore = func(fr *sym.Frame, site ssa.Instruction, ptr, val *sym.Term) {
			if ptr.Obj != nil && ptr.Obj.Kind != "alloc" {
				targets = append(targets, ptr.Obj.ID+ptr.Path.String())
				if ev := in2.Emit(fr, "store:option", site, "", []*sym.Term{ptr, val}, nil); ev != nil {
					for _, o := range optStores {
						if o.ptr.Key() == ptr.Key() && o.val.Key() == val.Key() {
							return
						}
					}
					optStores = append(optStores, optStore{ptr, val, ev.Guard, len(ev.Loops)})
				}
			}
		}
		var binds []*sym.Term
		for _, fv := range clo.FreeVars {
			binds = append(binds, in2.ParamTerm("free:"+fv.Name(), fv.Type()))
		}
		in2.CallFunction(clo, in2.RootArgs(clo), binds, sym.NewMem(), nil, nil, true)
		ok := len(targets) > 0
		for _, t := range targets {
			if !strings.HasPrefix(t, fmt.Sprintf("param:m.%d", palIdx)) {
				ok = false
			}
		}
		R.Check(ok, "decode."+mk+"$1#stores", c.FPos(clo), "stores only into m.Palette", strings.Join(targets, ","))
		// what is stored: the whole replacement, unconditionally / the converted colour at the given index
		one := len(optStores) == 1 && optStores[0].loops == 0 && len(guardLits(optStores[0].guard)) == 0
		detail := fmt.Sprintf("%d distinct stores", len(optStores))
		if one {
			st := optStores[0]
			detail = shortKey(st.ptr) + " := " + shortKey(st.val)
			switch mk {
			case "WithPalette":
				one = st.ptr.Path.String() == fmt.Sprintf(".%d", palIdx) && (st.val.Key() == "$param:free:p" || st.val.Key() == "$init:param:free:p")
			case "WithColorAt":
				okPtr := len(st.ptr.Path) == 2 && st.ptr.Path[1].Sym != nil && strings.HasSuffix(stripIntConv(st.ptr.Path[1].Sym).Key(), "param:free:index")
				one = okPtr && isRGBAModelConversion(in2, st.val, "param:free:c")
			}
		}
		want := map[string]string{"WithPalette": "one unconditional store: m.Palette = p (every entry, also transparent ones)", "WithColorAt": "one unconditional store: m.Palette[index] = color.RGBAModel.Convert(c).(color.RGBA), or the four results of c.RGBA() each narrowed as uint8(x >> 8)"}[mk]
		R.Check(one, "decode."+mk+"$1#value", c.FPos(clo), want, detail)
	}

	// ---- C14.3 no aliasing by type ----
	R.Rule("C14.3", "palettes cross every API as [64]color.RGBA values (Destination.Reset, WithPalette, Metadata.Palette): no slice or pointer that could alias the caller's array or the encoded bytes", 3)
	isPalArray := func(t types.Type) bool {
		a, ok := t.Underlying().(*types.Array)
		return ok && a.Len() == 64
	}
	if d := c.Named("", "Destination"); d != nil {
		it := d.Underlying().(*types.Interface)
		for i := 0; i < it.NumMethods(); i++ {
			if it.Method(i).Name() == "Reset" {
				sig := it.Method(i).Type().(*types.Signature)
				R.Check(sig.Params().Len() == 2 && isPalArray(sig.Params().At(1).Type()), "ivg.Destination.Reset#palette", "-", "[64]color.RGBA by value", sig.String())
			}
		}
	}
	if wp := c.Fn("decode", "WithPalette"); wp != nil {
		R.Check(len(wp.Params) == 1 && isPalArray(wp.Params[0].Type()), "decode.WithPalette#palette", c.FPos(wp), "[64]color.RGBA by value", wp.Signature.String())
	}
	R.Check(isPalArray(metaT.Underlying().(*types.Struct).Field(palIdx).Type()), "ivg.Metadata.Palette", "-", "[64]color.RGBA", "")

	// ---- C14.5 user colours sanitised ----
	R.Rule("C14.5", "user-supplied palette entries that are not valid premultiplied colours act as opaque black: between the last option and Reset every one of the 64 entries failing ValidAlphaPremulColor is replaced by constant opaque black (a counted loop over all entries whose only store is that replacement, guarded exactly by the negated predicate on the same entry), or no option can store an unsanitised colour", 1)
	{
		// look for the sanitising pass: stores into m.Palette[i] in a loop after the option loop and before Reset
		var pass *sym.Event
		for _, st := range stores {
			p := st.Args[0].Path
			if len(p) == 2 && p[0].Field == palIdx && p[1].Sym != nil && len(st.Loops) == 1 && st.Loops[0].Header != option.Loops[0].Header && loopBefore(option, st) && loopBefore(st, reset) {
				pass = st
			}
		}
		ok := false
		detail := "no sanitising pass between the options and Reset; WithPalette and WithColorAt store the caller's colours as they are (e.g. 02:4a:8a:00 at index 0 is then treated as a gradient)"
		if pass != nil {
			li, okl := pass.Loops[0].Frame.Loop(pass.Loops[0].Header)
			trip, okt := loopTrip(pass.Loops[0])
			idx := pass.Args[0].Path[1].Sym
			black := normAgg(pass.Args[1]) == "{0,0,0,255}"
			// guard: not ValidAlphaPremulColor(current entry idx)
			okGuard := false
			common := map[string]bool{}
			for _, l := range guardLits(reset.Guard) {
				common[l.Key()] = true
			}
			extra := ""
			for _, l := range guardLits(pass.Guard) {
				switch {
				case l.Op == "not" && l.Args[0].Op == "atom" && strings.Contains(l.Args[0].Name, "ValidAlphaPremulColor"):
					okGuard = true
				case common[l.Key()]:
				case isHeaderCond(pass.Loops[0], l):
					// the loop's own condition
				default:
					extra = shortKey(l)
				}
			}
			if extra != "" {
				okGuard = false
			}
			// the predicate is applied to the entry being replaced
			okArg := false
			for _, ev := range in.Events {
				if ev.Kind == "opaquecall" && ev.Callee == "ValidAlphaPremulColor" && len(ev.Loops) == 1 && ev.Loops[0].Header == pass.Loops[0].Header {
					if a := ev.Args[0]; a.Op == "index" && okl && (sym.Eq(stripConv(a.Args[1]), stripConv(idx)) || sym.Eq(a.Args[1], li.IndexVal)) {
						okArg = true
					}
				}
			}
			ok = okl && okt && trip == 64 && black && okGuard && okArg
			detail = fmt.Sprintf("loop trip=%d black=%v guard=%v same-entry=%v", trip, black, okGuard, okArg)
		}
		R.Check(ok, key+"#palette.sanitised", c.Pos(reset.Site), "the palette handed to Reset is sanitised", detail)

		// the destination is Reset whenever the metadata was accepted: nothing but the presence of a destination (and the
		// sanitising loop having run to its end) stands between the sanitising pass and Reset - in particular not
		// whether any instruction bytes follow the metadata
		if pass != nil {
			inPass := map[string]bool{}
			for _, l := range guardLits(pass.Guard) {
				inPass[l.Key()] = true
			}
			extra := ""
			for _, l := range guardLits(reset.Guard) {
				switch {
				case inPass[l.Key()]:
				case isHeaderCond(pass.Loops[0], l):
				case strings.Contains(l.Key(), "$param:dst") && strings.Contains(l.Key(), "nil") && !strings.Contains(l.Key(), "len("):
				case strings.Contains(l.Key(), "ValidAlphaPremulColor"):
					// the join after the replacement inside the loop body
				default:
					extra = shortKey(l)
				}
			}
			R.Use("C14.1")
			R.Check(extra == "", key+"#reset.unconditional", c.Pos(reset.Site), "Reset is delivered whenever the metadata was accepted and a destination is given", "Reset additionally depends on "+extra)
		}

		// ---- C14.6 nothing else touches the metadata ----
		R.Rule("C14.6", "what the chunks stored and the options changed is what is handed on: decode itself (outside the chunk decoder and the option calls) writes the metadata only in the sanitising pass - no other store into the viewBox or the palette between the chunks and Reset / the metadata-only return, so the listing, DecodeViewBox and Reset see the same values", 1)
		nOther := 0
		for _, st := range stores {
			if pass != nil && st.Site == pass.Site {
				continue
			}
			nOther++
			R.Bad(fmt.Sprintf("%s#metadata-store:%s", key, st.Callee), c.Pos(st.Site), "no store into the metadata outside the sanitising pass", "stores "+shortKey(st.Args[1])+" under "+shortKey(st.Guard))
		}
		if nOther == 0 {
			R.OK(key+"#metadata-stores", pos, fmt.Sprintf("%d stores seen, all in the sanitising pass", len(stores)))
		}
	}
}

// ruleC14_6shared: C14.6 by reference, for the properties that rely on it (C11: printed = delivered for the viewBox;
// C13: the metadata decoded is the metadata delivered).
func ruleC14_6shared(c *Ctx) {
	c.R.Only("C14.6")
	ruleC14(c)
	c.R.Only()
}

// laterState reports whether a memory-state atom key belongs to a join point
// other than (and hence, for a value read before Reset, after) the option loop header.
func laterState(key, frameID string, hdr int) bool {
	return strings.Contains(key, "mem#"+frameID+"#") && !strings.Contains(key, fmt.Sprintf("mem#%s#%d#", frameID, hdr))
}

// isHeaderCond reports whether literal l is the continuation condition of the loop.
func isHeaderCond(l sym.LoopRef, lit *sym.Term) bool {
	cond, _, ok := l.Frame.HeaderCond(l.Header)
	return ok && (sym.Eq(cond, lit) || sym.Eq(sym.Not(cond), lit))
}

// isRGBAModelConversion: v is color.RGBAModel.Convert(c).(color.RGBA), or color.RGBA{uint8(r>>8), uint8(g>>8),
// uint8(b>>8), uint8(a>>8)} with r,g,b,a the results of c.RGBA() in order - the documented meaning of the model.
func isRGBAModelConversion(in *sym.Interp, v *sym.Term, cKey string) bool {
	// form 1: a type assertion on the result of an interface call Convert on the package-level RGBAModel with argument c
	resultOf := func(ev *sym.Event) string {
		if val, ok := ev.Site.(ssa.Value); ok {
			return "#" + val.Name()
		}
		return "#?"
	}
	for _, ev := range in.Events {
		if ev.Kind != "invoke" || !strings.HasSuffix(ev.Callee, ".Convert") || len(ev.Args) < 2 {
			continue
		}
		recvOK := strings.Contains(ev.Args[0].Key(), "image/color.RGBAModel")
		argOK := strings.HasSuffix(stripElem(ev.Args[1]).Key(), cKey)
		inner := v
		for inner.Op == "typeassert" || inner.Op == "conv" {
			inner = inner.Args[0]
		}
		if recvOK && argOK && inner.Op == "atom" && strings.HasPrefix(inner.Name, "call#") && strings.HasSuffix(inner.Name, resultOf(ev)) {
			return true
		}
	}
	// form 2: the four results of c.RGBA(), each shifted right by 8 and narrowed
	if v.Op == "agg" && len(v.Args) == 4 {
		var call *sym.Event
		for _, ev := range in.Events {
			if ev.Kind == "invoke" && strings.HasSuffix(ev.Callee, ".RGBA") && len(ev.Args) >= 1 && strings.HasSuffix(stripElem(ev.Args[0]).Key(), cKey) {
				call = ev
			}
		}
		if call == nil {
			return false
		}
		for i, a := range v.Args {
			if a.Op != "conv" || !isUint8(a.T) {
				return false
			}
			sh := a.Args[0]
			if sh.Op != "bin" || sh.Name != ">>" {
				return false
			}
			if k, ok := sh.Args[1].Int64(); !ok || k != 8 {
				return false
			}
			src := sh.Args[0]
			if src.Op != "extract" || src.Name != fmt.Sprint(i) || src.Args[0].Op != "atom" || !strings.HasSuffix(src.Args[0].Name, resultOf(call)) {
				return false
			}
		}
		return true
	}
	return false
}
