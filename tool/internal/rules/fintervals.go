package rules

import (
	"go/constant"
	"math"
	"strings"

	"ivgsa/internal/sym"
)

// A small interval domain over float terms, used for the one place where a
// property bounds a floating-point quantity by construction (the number of
// cubic segments of an arc). Intervals are widened outwards by a relative
// epsilon at every operation so that float rounding cannot invalidate them;
// NaN inputs are outside the quantifier of the properties concerned.
type fiv struct {
	lo, hi float64
}

var fTop = fiv{math.Inf(-1), math.Inf(1)}

func (a fiv) widen() fiv {
	const eps = 1e-9
	w := func(x float64, up bool) float64 {
		if math.IsInf(x, 0) || x == 0 {
			return x
		}
		d := math.Abs(x) * eps
		if up {
			return x + d
		}
		return x - d
	}
	return fiv{w(a.lo, false), w(a.hi, true)}
}

func (a fiv) empty() bool { return a.lo > a.hi }

func fhull(a, b fiv) fiv {
	if a.empty() {
		return b
	}
	if b.empty() {
		return a
	}
	return fiv{math.Min(a.lo, b.lo), math.Max(a.hi, b.hi)}
}

func fmeet(a, b fiv) fiv { return fiv{math.Max(a.lo, b.lo), math.Min(a.hi, b.hi)} }

type fEval struct {
	// ranges gives the interval of the result of a function kept opaque (computed separately by the caller)
	ranges map[string]fiv
	steps  int
}

func floatConst(t *sym.Term) (float64, bool) {
	if !t.IsConst() || t.C == nil {
		return 0, false
	}
	switch t.C.Kind() {
	case constant.Int, constant.Float:
		f, _ := constant.Float64Val(constant.ToFloat(t.C))
		return f, true
	}
	return 0, false
}

// refine intersects iv with what the facts say about exactly the term t.
func refine(t *sym.Term, iv fiv, facts []*sym.Term) fiv {
	for _, l := range facts {
		neg := false
		x := l
		if x.Op == "not" {
			neg, x = true, x.Args[0]
		}
		if x.Op != "bin" || (x.Name != "<" && x.Name != "<=") {
			continue
		}
		a, b := x.Args[0], x.Args[1]
		// strict and non-strict bounds are treated alike (closed intervals): sound, slightly less precise
		if a.Key() == t.Key() {
			if k, ok := floatConst(b); ok {
				if !neg {
					iv = fmeet(iv, fiv{math.Inf(-1), k})
				} else {
					iv = fmeet(iv, fiv{k, math.Inf(1)})
				}
			}
		}
		if b.Key() == t.Key() {
			if k, ok := floatConst(a); ok {
				if !neg {
					iv = fmeet(iv, fiv{k, math.Inf(1)})
				} else {
					iv = fmeet(iv, fiv{math.Inf(-1), k})
				}
			}
		}
	}
	return iv
}

func (e *fEval) eval(t *sym.Term, facts []*sym.Term) fiv {
	e.steps++
	if e.steps > 200000 {
		return fTop
	}
	r := e.raw(t, facts)
	return refine(t, r, facts)
}

func (e *fEval) raw(t *sym.Term, facts []*sym.Term) fiv {
	if k, ok := floatConst(t); ok {
		return fiv{k, k}
	}
	switch t.Op {
	case "atom":
		// the result of a function kept opaque: "res@<callee>#..."
		if strings.HasPrefix(t.Name, "res@") {
			name := strings.TrimPrefix(t.Name, "res@")
			if i := strings.Index(name, "#"); i >= 0 {
				name = name[:i]
			}
			if iv, ok := e.ranges[name]; ok {
				return iv
			}
		}
	case "conv":
		in := e.eval(t.Args[0], facts)
		if _, _, isInt := intWidth(t.T); isInt {
			return fiv{math.Trunc(in.lo), math.Trunc(in.hi)}
		}
		return in.widen() // float32 <-> float64 rounding
	case "un":
		in := e.eval(t.Args[0], facts)
		if t.Name == "-" {
			return fiv{-in.hi, -in.lo}
		}
	case "ite":
		c := t.Args[0]
		a := e.eval(t.Args[1], append(append([]*sym.Term{}, facts...), guardLits(c)...))
		b := e.eval(t.Args[2], append(append([]*sym.Term{}, facts...), guardLits(sym.Not(c))...))
		return fhull(a, b)
	case "bin":
		a, b := e.eval(t.Args[0], facts), e.eval(t.Args[1], facts)
		switch t.Name {
		case "+":
			return fiv{a.lo + b.lo, a.hi + b.hi}.widen()
		case "-":
			return fiv{a.lo - b.hi, a.hi - b.lo}.widen()
		case "*":
			ps := []float64{a.lo * b.lo, a.lo * b.hi, a.hi * b.lo, a.hi * b.hi}
			r := fiv{math.Inf(1), math.Inf(-1)}
			for _, p := range ps {
				if math.IsNaN(p) {
					return fTop
				}
				r.lo, r.hi = math.Min(r.lo, p), math.Max(r.hi, p)
			}
			return r.widen()
		case "/":
			if b.lo > 0 || b.hi < 0 {
				ps := []float64{a.lo / b.lo, a.lo / b.hi, a.hi / b.lo, a.hi / b.hi}
				r := fiv{math.Inf(1), math.Inf(-1)}
				for _, p := range ps {
					if math.IsNaN(p) {
						return fTop
					}
					r.lo, r.hi = math.Min(r.lo, p), math.Max(r.hi, p)
				}
				return r.widen()
			}
		}
	case "call":
		if iv, ok := e.ranges[t.Name]; ok {
			return iv
		}
		if len(t.Args) == 1 {
			in := e.eval(t.Args[0], facts)
			switch t.Name {
			case "math.Abs":
				if in.lo >= 0 {
					return in
				}
				if in.hi <= 0 {
					return fiv{-in.hi, -in.lo}
				}
				return fiv{0, math.Max(-in.lo, in.hi)}
			case "math.Ceil":
				return fiv{math.Ceil(in.lo), math.Ceil(in.hi)}
			case "math.Floor":
				return fiv{math.Floor(in.lo), math.Floor(in.hi)}
			case "math.Acos":
				return fiv{0, math.Pi}.widen() // documented range of the arc cosine
			case "math.Cos", "math.Sin":
				return fiv{-1, 1}
			case "math.Sqrt":
				if in.lo >= 0 {
					return fiv{math.Sqrt(in.lo), math.Sqrt(in.hi)}.widen()
				}
				return fiv{0, math.Inf(1)}
			}
		}
	}
	return fTop
}

// evalCases evaluates t by splitting on every gated join inside it and evaluating each ite-free leaf under the
// literals its path condition implies (truth-table implication over the atomic comparisons), then joining.
func (e *fEval) evalCases(t *sym.Term) fiv {
	leaves := sym.DeepCases(t, 256)
	if leaves == nil {
		return e.eval(t, nil)
	}
	out := fiv{math.Inf(1), math.Inf(-1)}
	for _, lf := range leaves {
		if sym.CondsContradict(lf.Conds) {
			continue
		}
		// atomic propositions of the path condition
		seen := map[string]bool{}
		var atoms []*sym.Term
		for _, cd := range lf.Conds {
			sym.Walk(cd, func(x *sym.Term) bool {
				switch x.Op {
				case "and", "or", "not":
					return true
				}
				if !seen[x.Key()] {
					seen[x.Key()] = true
					atoms = append(atoms, x)
				}
				return false
			})
		}
		var facts []*sym.Term
		for _, a := range atoms {
			if impliesLit(lf.Conds, a) {
				facts = append(facts, a)
			} else if impliesLit(lf.Conds, sym.Not(a)) {
				facts = append(facts, sym.Not(a))
			}
		}
		iv := e.eval(lf.Val, facts)
		if iv.empty() {
			continue // the facts exclude this leaf
		}
		out = fhull(out, iv)
	}
	return out
}
