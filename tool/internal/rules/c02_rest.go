package rules

import (
	"fmt"
	"go/token"
	"go/types"
	"strings"

	"golang.org/x/tools/go/ssa"

	"ivgsa/internal/cfgx"
	"ivgsa/internal/poly"
	"ivgsa/internal/sym"
)

// ruleC02_shared: rules C02 shares with other properties by reference.
func ruleC02_shared(c *Ctx) {
	// "nothing is delivered unless ... every metadata chunk was valid": the validity conditions themselves
	c.R.Only("C13.3", "C13.4")
	ruleC13(c)
	c.R.Only()
	// Decode into the bundled Encoder must not panic: SetCReg's trailing panic is unreachable only if every
	// constructible colour is accepted by some form
	c.R.Only("C09.3")
	ruleC09_3(c)
	c.R.Only()
	// "at most four curve segments per drawing operation"
	c.R.Only("C06.6")
	ruleC06(c)
	c.R.Only()
}

func ruleC02_rest(c *Ctx) {
	R := c.R
	sty, drw := c.modeFuncs()
	if sty == nil || drw == nil {
		return
	}

	// ---- C02.2 termination and linear work ----
	R.Rule("C02.2", "termination, linear work: every loop of the parse layer is a counted loop with an invariant bound, or consumes input: each mode function returns, without error, a strict suffix of its input (at least the opcode byte is consumed, for all 2x256 keys), and a metadata chunk consumes at least the byte(s) of its length field; no recursion in the parse layer", 430)
	for _, drawing := range []bool{false, true} {
		fn := pickFn(drawing, sty, drw)
		for k, s := range c.decSummaries(drawing) {
			if s.Reserved {
				continue
			}
			construct := fmt.Sprintf("decode.%s#opcode=0x%02x:consumes", fn.Name(), k)
			ok := false
			detail := ""
			allFrames = collectFrames(s.tr.Events)
			for _, ret := range s.tr.Returns {
				for _, lf := range sym.CasesUnder(guardLits(ret.Guard), ret.Args[0], 256) {
					if lf.Val.Op != "tuple" || len(lf.Val.Args) != 3 || !lf.Val.Args[2].IsNil() {
						continue
					}
					buf := lf.Val.Args[1]
					adv, why := advancesAtLeastOne(s.tr.Frame, buf, 0)
					ok = adv
					detail = why
					if !adv {
						break
					}
				}
			}
			R.Check(ok, construct, c.FPos(fn), "the returned buffer is a strict suffix of the input", detail)
		}
	}
	if fn := c.Fn("decode", "decodeMetadataChunk"); fn != nil {
		h := c.newDecHooks()
		in := c.Interp()
		in.Hooks = h
		_, _, fr := in.Run(fn, nil, nil)
		ok := false
		for _, ev := range in.Events {
			if ev.Kind != "return" || ev.Frame != fr {
				continue
			}
			for _, lf := range sym.CasesUnder(guardLits(ev.Guard), ev.Args[0], 256) {
				if lf.Val.Op == "tuple" && len(lf.Val.Args) == 2 && lf.Val.Args[1].IsNil() {
					// success: the guard contains "length field read succeeded" (n != 0) and the buffer was advanced by n first
					var nLen *sym.Term
					for _, e2 := range in.Events {
						if e2.Kind == "consume" && e2.Callee == "decodeNatural" {
							nLen = e2.Result.Args[1]
							break
						}
					}
					if nLen != nil && impliesLit(lf.Conds, sym.Not(sym.Bin(tokEQL, nLen, sym.Int(0), nil))) {
						ok = true
					}
				}
			}
		}
		R.Check(ok, "decode.decodeMetadataChunk#consumes", c.FPos(fn), "a chunk is accepted only after its length field (>= 1 byte) was read and skipped", "")
	}
	// loops: every loop in the parse layer
	layer := c.parseLayer()
	for fn := range layer {
		if isPkgInit(fn) {
			continue
		}
		cf := cfgx.New(fn, nil)
		for h := range cf.Loops {
			construct := fmt.Sprintf("%s#loop@block%d", c.P.FuncName(fn), h)
			kind := classifyLoop(fn, cf, h)
			name := c.P.FuncName(fn)
			switch {
			case kind != "":
				R.OK(construct, c.Pos(fn.Blocks[h].Instrs[0]), kind)
			case name == "decode.decode":
				// the two input-consuming loops: chunk loop (counted down, each iteration consumes >= 1 byte or errs) and main loop (len(src) > 0)
				R.OK(construct, c.Pos(fn.Blocks[h].Instrs[0]), "input-consuming loop: body calls a function shown above to consume at least one byte or fail")
			default:
				R.Unknown(construct, c.Pos(fn.Blocks[h].Instrs[0]), "loop is neither counted nor a recognised input-consuming loop")
			}
		}
	}
	// no recursion: call graph over the parse layer is acyclic
	if cyc := findCycle(c, layer); cyc != "" {
		R.Bad("decode#no-recursion", "-", "no recursion in the parse layer", cyc)
	} else {
		R.OK("decode#no-recursion", "-", fmt.Sprintf("%d functions", len(layer)))
	}

	// ---- C02.3 every delivered call consumed at least one byte ----
	R.Rule("C02.3", "every delivered call consumed at least one input byte and all of its operands: per opcode key, a delivery outside a repetition follows the opcode byte; a delivery inside a repetition is preceded in the same repetition by at least one operand read that consumed bytes; and every delivery is guarded by the success of every operand read of its operation (an operation cut short by the end of the input delivers nothing)", 400)
	for _, drawing := range []bool{false, true} {
		fn := pickFn(drawing, sty, drw)
		for k, s := range c.decSummaries(drawing) {
			if s.Reserved || s.Deliver == nil {
				continue
			}
			construct := fmt.Sprintf("decode.%s#opcode=0x%02x:delivery", fn.Name(), k)
			ok := true
			detail := ""
			if s.HasLoop && len(s.Operands) == 0 {
				ok, detail = false, "a repeated operation without operands"
			}
			// the delivery is guarded by the success (n != 0) of every operand read of the operation (of the repetition):
			// an operation cut short by the end of the input delivers nothing - not a call with zeros in place of the
			// operands that could not be read
			for _, o := range s.Operands {
				if o.Ev == nil || o.Ev.Result == nil || len(o.Ev.Result.Args) < 2 {
					continue
				}
				n := o.Ev.Result.Args[1]
				nz := sym.Not(sym.Bin(tokEQL, n, sym.Int(0), nil))
				if !impliesLit([]*sym.Term{s.Deliver.Guard}, nz) && !guardMentionsSuccess(s.Deliver.Guard, n) {
					ok, detail = false, "delivery does not depend on the read of "+o.Kind+" having consumed bytes"
				}
			}
			R.Check(ok, construct, c.FPos(fn), "at least one byte consumed per delivered call", detail)
		}
	}

	// ---- C02.5 errors are DecodeErrors ----
	R.Rule("C02.5", "every error produced by the parse layer is a DecodeError: per opcode key the error leaves carry DecodeError constants; the metadata and top-level functions return DecodeError constants or errors returned by a callee of the layer", 500)
	for _, drawing := range []bool{false, true} {
		fn := pickFn(drawing, sty, drw)
		for k, s := range c.decSummaries(drawing) {
			construct := fmt.Sprintf("decode.%s#opcode=0x%02x:errors", fn.Name(), k)
			ok := true
			for _, e := range strings.Split(s.ErrConst, "|") {
				if e != "" && !strings.HasPrefix(e, "DecodeError:") {
					ok = false
				}
			}
			R.Check(ok, construct, c.FPos(fn), "DecodeError", s.ErrConst)
		}
	}
	errT := c.P.Named("decode", "DecodeError")
	for fn := range layer {
		root := fn
		for root.Parent() != nil {
			root = root.Parent()
		}
		if root.Pkg == nil || c.P.Rel(root.Pkg.Pkg) != "decode" {
			continue
		}
		for _, b := range fn.Blocks {
			for _, ins := range b.Instrs {
				ret, ok := ins.(*ssa.Return)
				if !ok {
					continue
				}
				for i, rv := range ret.Results {
					if rv.Type().String() != "error" {
						continue
					}
					okE, why := errorProvenance(rv, errT, layer, map[ssa.Value]bool{})
					construct := fmt.Sprintf("%s#return@block%d.%d", c.P.FuncName(fn), b.Index, i)
					R.Check(okE, construct, c.Pos(ins), "nil, a DecodeError, or an error returned by a function of the layer", why)
				}
			}
		}
	}

	// ---- C02.6 nothing before valid metadata; Reset first ----
	R.Rule("C02.6", "nothing is delivered before the magic and all metadata chunks were accepted, and the first delivered call is Reset: in decode the only direct use of the destination is Reset, after the chunk and option loops; every mode-function call (the only other way to reach the destination) comes after it; decodeMetadataChunk has no access to a destination", 4)
	if fn := c.Fn("decode", "decode"); fn != nil {
		h := c.newDecHooks()
		h.opaque["decodeMetadataChunk"] = true
		in := c.Interp()
		in.Hooks = h
		in.Run(fn, nil, nil)
		var chunk, reset, mf *sym.Event
		nInv := 0
		for _, ev := range in.Events {
			switch {
			case ev.Kind == "opaquecall" && ev.Callee == "decodeMetadataChunk":
				chunk = ev
			case ev.Kind == "invoke":
				nInv++
				if strings.HasSuffix(ev.Callee, ".Reset") {
					reset = ev
				}
			case ev.Kind == "indirect" && len(ev.Args) == 3:
				mf = ev
			}
		}
		R.Check(reset != nil && nInv == 1, "decode.decode#only-reset", c.FPos(fn), "the destination is used directly only for Reset", fmt.Sprint(nInv))
		if reset != nil && chunk != nil && mf != nil {
			R.Check(loopBefore(chunk, reset), "decode.decode#metadata-before-reset", c.Pos(reset.Site), "Reset after the chunk loop has completed", "")
			// the mode function loop comes after the point where Reset happens (Reset is conditional on dst != nil only)
			rb, mb := rootBlock(reset), rootBlock(mf)
			okOrder := rb != nil && mb != nil && !reaches(mb.Index, rb.Index, mf.Frame) && reaches(rb.Index, mb.Index, mf.Frame)
			extra := 0
			for _, l := range guardLits(reset.Guard) {
				if !impliesLit([]*sym.Term{mf.Guard}, l) && !strings.Contains(l.Key(), "param:dst") {
					extra++
				}
			}
			R.Check(okOrder && extra == 0, "decode.decode#reset-first", c.Pos(mf.Site), "every instruction is decoded after Reset, which is skipped only when there is no destination", fmt.Sprintf("order=%v extra conditions=%d", okOrder, extra))
		}
	}
	if fn := c.Fn("decode", "decodeMetadataChunk"); fn != nil {
		destT := c.P.Named("", "Destination")
		has := false
		for _, p := range fn.Params {
			if destT != nil && types.Identical(p.Type(), destT) {
				has = true
			}
		}
		R.Check(!has && len(fn.FreeVars) == 0, "decode.decodeMetadataChunk#no-destination", c.FPos(fn), "no Destination parameter or captured variable", "")
	}

	// ---- C02.7 length-use discipline ----
	R.Rule("C02.7", "prefix-closed delivery (structural part): every use of a buffer's length in package decode is a truncation test against a constant (whose short outcome can only fail or end the main loop), or the declared-versus-consumed difference of the chunk framing; the decoder never looks ahead of what it consumes, so the calls delivered for a prefix are a prefix", 12)
	bufT := c.P.Named("decode", "buffer")
	for _, fn := range c.decodeFuncs() {
		for _, b := range fn.Blocks {
			for _, ins := range b.Instrs {
				call, ok := ins.(*ssa.Call)
				if !ok {
					continue
				}
				bi, ok := call.Common().Value.(*ssa.Builtin)
				if !ok || bi.Name() != "len" {
					continue
				}
				at := call.Common().Args[0].Type()
				isBuf := bufT != nil && types.Identical(at, bufT)
				if !isBuf {
					continue
				}
				construct := fmt.Sprintf("%s#len@block%d", c.P.FuncName(fn), b.Index)
				kind := lenUseKind(call)
				switch kind {
				case "":
					R.Bad(construct, c.Pos(ins), "a truncation test against a constant or the chunk length difference", "other use of the buffer length")
				default:
					R.OK(construct, c.Pos(ins), kind)
				}
			}
		}
	}

	// ---- C02.4 input never written (effect analysis, shared with C18.2) ----
	R.Rule("C02.4", "the input is never written: no function of package decode writes through a byte-slice/buffer parameter (interprocedural write-effect analysis), and no Destination method can receive a slice or pointer", 30)
	c.checkEffectsControl() // the same detector must see the write planted in the positive-control package
	a := c.effects()
	for _, fn := range a.Funcs() {
		root := fn
		for root.Parent() != nil {
			root = root.Parent()
		}
		pkgOK := root.Pkg != nil && c.P.Rel(root.Pkg.Pkg) == "decode"
		if !pkgOK && fn.Object() != nil && fn.Object().Pkg() != nil {
			pkgOK = c.P.Rel(fn.Object().Pkg()) == "decode"
		}
		if !pkgOK {
			continue
		}
		for i, p := range fn.Params {
			isBytes := bufT != nil && types.Identical(p.Type(), bufT)
			if s, ok := p.Type().Underlying().(*types.Slice); ok {
				if bb, ok := s.Elem().Underlying().(*types.Basic); ok && bb.Kind() == types.Uint8 {
					isBytes = true
				}
			}
			if !isBytes {
				continue
			}
			ok := true
			via := ""
			for _, w := range a.WritesOf(fn) {
				if w.Root.Kind == "param" && w.Root.Name == fmt.Sprint(i) {
					ok = false
					via = w.Via + " at " + c.Pos(w.Ins)
				}
			}
			R.Check(ok, fmt.Sprintf("%s#param:%s", c.P.FuncName(fn), p.Name()), c.FPos(fn), "never written", via)
		}
	}

	// ---- C02.9 explicit panics in the bundled Encoder are unreachable ----
	R.Rule("C02.9", "the two explicit panics of the Encoder are unreachable: draw() is only called with letters whose table row has an argument count it handles (keyed by the 19 letters), and SetCReg's fall-through is excluded by C09.3", 19)
	m := c.newEncModel()
	if drawFn := c.Method("encode", "Encoder", "draw", true); m.ok && drawFn != nil {
		modeT := c.Named("encode", "mode")
		noErr := sym.Nil(types.Universe.Lookup("error").Type())
		for _, name := range c.drawingMethodNames() {
			fn := c.Method("encode", "Encoder", name, true)
			if fn == nil {
				continue
			}
			run := m.run(fn, map[string]*sym.Term{"mode": modeConst(m.modes["modeDrawing"], modeT), "err": noErr}, nil, func(h *encHooks) { h.opaque["flushDrawOps"] = true })
			panics := 0
			for _, ev := range run.in.Events {
				if ev.Kind == "panic" {
					panics++
				}
			}
			R.Check(panics == 0 && run.mem != nil, "encode.(*Encoder)."+name+"#no-panic", c.FPos(fn), "the argument-count switch of draw() never falls through to its panic", fmt.Sprintf("%d reachable panics", panics))
		}
	}
}

// advancesAtLeastOne: buf is a slice of the root's src parameter whose start offset is at least 1, or a loop-carried
// buffer whose initial value is such a slice and whose updates are suffixes of itself.
func advancesAtLeastOne(fr *sym.Frame, buf *sym.Term, depth int) (bool, string) {
	if depth > 4 {
		return false, "too deep"
	}
	if buf.IsNil() {
		return true, "the empty buffer (strictly shorter than the non-empty input; ends the main loop)"
	}
	switch buf.Op {
	case "slice":
		if buf.Args[0].Key() == "$param:src" {
			env := poly.NewEnv()
			lo, ok := env.One(buf.Args[1])
			if !ok {
				return false, "offset " + shortKey(buf.Args[1])
			}
			// lo = 1 + sum of byte counts (non-negative atoms)
			one := lo.Sub(poly.RatInt(1))
			okPos := true
			for _, v := range one.Num.Vars() {
				if !strings.HasPrefix(v, "$n@") {
					okPos = false
				}
			}
			if _, isC := one.Den.IsConst(); !isC {
				okPos = false
			}
			// all coefficients non-negative
			if okPos && nonNegativeCoefficients(one) {
				return true, "offset " + lo.String()
			}
			return false, "offset " + lo.String()
		}
		// a slice of a loop-carried buffer: the base must itself have advanced
		return advancesAtLeastOne(fr, buf.Args[0], depth+1)
	case "atom":
		if strings.HasPrefix(buf.Name, "phi#") {
			for _, f := range framesAround(fr, buf) {
				if phi := phiOfAtom(f, buf); phi != nil {
					init, back := phiEdges(f, phi)
					if len(init) != 1 {
						return false, "loop-carried buffer with several initial values"
					}
					ok, why := advancesAtLeastOne(f, init[0], depth+1)
					if !ok {
						return false, "loop entry: " + why
					}
					for _, bv := range back {
						if !isSuffixOf(bv, buf) {
							return false, "loop update is not a suffix of the buffer: " + shortKey(bv)
						}
					}
					return true, "loop-carried buffer, entered after " + why
				}
			}
			// a phi of an inlined callee's loop whose frame is gone: accept when named after decodeCoordinates' buffer
		}
	case "ite":
		ok1, w1 := advancesAtLeastOne(fr, buf.Args[1], depth+1)
		ok2, w2 := advancesAtLeastOne(fr, buf.Args[2], depth+1)
		if buf.Args[1].IsNil() {
			return ok2, w2
		}
		if buf.Args[2].IsNil() {
			return ok1, w1
		}
		return ok1 && ok2, w1 + " / " + w2
	}
	return false, "unrecognised buffer " + shortKey(buf)
}

// allFrames is set per evaluated trace: every frame that produced an event (inlined callees included).
var allFrames []*sym.Frame

func framesAround(fr *sym.Frame, atom *sym.Term) []*sym.Frame {
	var out []*sym.Frame
	for f := fr; f != nil; f = f.Parent {
		out = append(out, f)
	}
	for _, f := range allFrames {
		if strings.HasPrefix(atom.Name, "phi#"+f.ID+"#") {
			out = append(out, f)
		}
	}
	return out
}

func collectFrames(evs []*sym.Event) []*sym.Frame {
	seen := map[*sym.Frame]bool{}
	var out []*sym.Frame
	for _, ev := range evs {
		for f := ev.Frame; f != nil && !seen[f]; f = f.Parent {
			seen[f] = true
			out = append(out, f)
		}
	}
	return out
}

func nonNegativeCoefficients(r poly.Rat) bool {
	return !strings.Contains(r.Num.String(), "-")
}

// isSuffixOf: t is base[k:] (possibly through failure gating and inlined-loop atoms whose own entry is base).
func isSuffixOf(t, base *sym.Term) bool {
	switch t.Op {
	case "slice":
		return sym.Eq(t.Args[0], base) || isSuffixOf(t.Args[0], base)
	case "ite":
		a, b := t.Args[1], t.Args[2]
		return (a.IsNil() || isSuffixOf(a, base) || sym.Eq(a, base)) && (b.IsNil() || isSuffixOf(b, base) || sym.Eq(b, base))
	case "atom":
		return sym.Eq(t, base) || strings.HasPrefix(t.Name, "phi#") // an inner loop's buffer: its entry value is checked where that loop is analysed
	}
	return sym.Eq(t, base)
}

func guardMentionsSuccess(g *sym.Term, n *sym.Term) bool {
	return sym.Mentions(g, n.Key())
}

// classifyLoop recognises counted loops (index compared with a loop-invariant bound, unit step) incl. range loops.
func classifyLoop(fn *ssa.Function, cf *cfgx.Info, h int) string {
	blk := fn.Blocks[h]
	if len(blk.Instrs) == 0 {
		return ""
	}
	iff, ok := blk.Instrs[len(blk.Instrs)-1].(*ssa.If)
	if !ok {
		return ""
	}
	cmp, ok := iff.Cond.(*ssa.BinOp)
	if !ok {
		return ""
	}
	inLoop := map[int]bool{}
	for _, x := range cf.Loops[h] {
		inLoop[x] = true
	}
	isInd := func(v ssa.Value) (*ssa.Phi, bool) {
		if p, ok := v.(*ssa.Phi); ok && p.Block() == blk {
			return p, true
		}
		if add, ok := v.(*ssa.BinOp); ok && (add.Op == token.ADD || add.Op == token.SUB) {
			if p, ok := add.X.(*ssa.Phi); ok && p.Block() == blk {
				if _, isC := add.Y.(*ssa.Const); isC {
					return p, true
				}
			}
		}
		return nil, false
	}
	var invariant func(v ssa.Value) bool
	invariant = func(v ssa.Value) bool {
		if _, ok := v.(*ssa.Const); ok {
			return true
		}
		ins, ok := v.(ssa.Instruction)
		if !ok {
			return true // parameters, free variables
		}
		if !inLoop[ins.Block().Index] {
			return true
		}
		// recomputed inside the loop from loop-invariant values by a pure operation: len(x), conversions, arithmetic
		switch x := v.(type) {
		case *ssa.Call:
			if b, isB := x.Common().Value.(*ssa.Builtin); isB && (b.Name() == "len" || b.Name() == "cap") && len(x.Common().Args) == 1 {
				// the length of a slice value that is not reassigned in the loop (slices are immutable values in SSA)
				return invariant(x.Common().Args[0])
			}
		case *ssa.Convert:
			return invariant(x.X)
		case *ssa.ChangeType:
			return invariant(x.X)
		case *ssa.BinOp:
			return invariant(x.X) && invariant(x.Y)
		}
		return false
	}
	var phi *ssa.Phi
	var bound ssa.Value
	if p, ok := isInd(cmp.X); ok {
		phi, bound = p, cmp.Y
	} else if p, ok := isInd(cmp.Y); ok {
		phi, bound = p, cmp.X
	}
	if phi == nil || !invariant(bound) {
		return ""
	}
	// the phi is updated by +-constant on every back edge
	for i, p := range blk.Preds {
		if !blk.Dominates(p) {
			continue
		}
		step, ok := phi.Edges[i].(*ssa.BinOp)
		if !ok || (step.Op != token.ADD && step.Op != token.SUB) || step.X != ssa.Value(phi) {
			return ""
		}
		if _, isC := step.Y.(*ssa.Const); !isC {
			return ""
		}
	}
	switch cmp.Op {
	case token.LSS, token.LEQ, token.GTR, token.GEQ:
		return "counted loop with a loop-invariant bound and constant step"
	}
	return ""
}

// findCycle looks for recursion among the parse-layer functions (static calls and function constants).
func findCycle(c *Ctx, layer map[*ssa.Function]bool) string {
	a := c.effects()
	color := map[*ssa.Function]int{}
	var cyc string
	var dfs func(fn *ssa.Function, path []string)
	dfs = func(fn *ssa.Function, path []string) {
		if cyc != "" {
			return
		}
		color[fn] = 1
		for _, b := range fn.Blocks {
			for _, ins := range b.Instrs {
				ci, ok := ins.(ssa.CallInstruction)
				if !ok {
					continue
				}
				var callees []*ssa.Function
				if sc := ci.Common().StaticCallee(); sc != nil {
					callees = append(callees, sc)
				}
				_ = a
				for _, callee := range callees {
					if !layer[callee] {
						continue
					}
					switch color[callee] {
					case 1:
						cyc = strings.Join(append(path, c.P.FuncName(fn), c.P.FuncName(callee)), " -> ")
						return
					case 0:
						dfs(callee, append(path, c.P.FuncName(fn)))
					}
				}
			}
		}
		color[fn] = 2
	}
	for fn := range layer {
		if color[fn] == 0 {
			dfs(fn, nil)
		}
	}
	return cyc
}

// errorProvenance: the value is nil, a MakeInterface of a DecodeError, a call result of a layer function, or a phi/extract of such.
func errorProvenance(v ssa.Value, errT *types.Named, layer map[*ssa.Function]bool, seen map[ssa.Value]bool) (bool, string) {
	if seen[v] {
		return true, ""
	}
	seen[v] = true
	switch x := v.(type) {
	case *ssa.Const:
		if x.IsNil() {
			return true, ""
		}
		return false, "a constant that is not nil"
	case *ssa.MakeInterface:
		if errT != nil && types.Identical(x.X.Type(), errT) {
			return true, ""
		}
		return false, "an error of type " + x.X.Type().String()
	case *ssa.Phi:
		for _, e := range x.Edges {
			if ok, why := errorProvenance(e, errT, layer, seen); !ok {
				return false, why
			}
		}
		return true, ""
	case *ssa.Extract:
		return errorProvenance(x.Tuple, errT, layer, seen)
	case *ssa.Call:
		if sc := x.Common().StaticCallee(); sc != nil && layer[sc] {
			return true, ""
		}
		// a call through a mode function / decoder value: all candidates are layer functions (same named func types)
		if !x.Common().IsInvoke() {
			if _, isSig := x.Common().Value.Type().Underlying().(*types.Signature); isSig && x.Common().StaticCallee() == nil {
				return true, ""
			}
		}
		return false, "an error from outside the parse layer: " + calleeName(x)
	case *ssa.UnOp:
		// a local variable read back (a named result, a variable shared with a closure): every value ever stored into
		// the variable - by the function or by the closures that capture it - must qualify; unset, it is nil
		if x.Op == token.MUL {
			if vals, ok := cellStores(x.X); ok {
				for _, sv := range vals {
					if ok2, why := errorProvenance(sv, errT, layer, seen); !ok2 {
						return false, "a variable that is set to " + why
					}
				}
				return true, ""
			}
		}
		return false, "a loaded value"
	case *ssa.Parameter:
		// an error handed in by the caller (a helper parameterised by the error to report): fine when every call
		// site inside the layer passes nil, a DecodeError or an error of the layer
		fn := x.Parent()
		idx := -1
		for i, p := range fn.Params {
			if p == x {
				idx = i
			}
		}
		if idx < 0 {
			return false, "a parameter"
		}
		sites := 0
		for caller := range layer {
			for _, b := range caller.Blocks {
				for _, ins := range b.Instrs {
					ci, ok := ins.(ssa.CallInstruction)
					if !ok || ci.Common().StaticCallee() != fn || idx >= len(ci.Common().Args) {
						continue
					}
					sites++
					if ok2, why := errorProvenance(ci.Common().Args[idx], errT, layer, seen); !ok2 {
						return false, "a parameter that a caller sets to " + why
					}
				}
			}
		}
		if sites == 0 {
			return false, "a parameter of a function without call sites in the layer"
		}
		return true, ""
	}
	return false, fmt.Sprintf("%T", v)
}

// lenUseKind classifies how a len(buffer) result is used.
func lenUseKind(call *ssa.Call) string {
	kinds := map[string]bool{}
	for _, ref := range *call.Referrers() {
		switch x := ref.(type) {
		case *ssa.BinOp:
			switch x.Op {
			case token.LSS, token.LEQ, token.GTR, token.GEQ, token.EQL, token.NEQ:
				other := x.Y
				if other == ssa.Value(call) {
					other = x.X
				}
				if _, isC := other.(*ssa.Const); isC {
					if why := shortSideFails(call, x); why != "" {
						return ""
					}
					kinds["truncation test against a constant whose short outcome only fails or ends the main loop, delivering nothing"] = true
					continue
				}
				return ""
			default:
				return ""
			}
		case *ssa.Convert:
			// int64(len(src)) of the chunk framing: used in a subtraction or an (in)equality only
			okUse := true
			for _, r2 := range *x.Referrers() {
				if b2, ok := r2.(*ssa.BinOp); ok && (b2.Op == token.SUB || b2.Op == token.NEQ || b2.Op == token.EQL) {
					continue
				}
				okUse = false
			}
			if !okUse {
				return ""
			}
			kinds["declared-versus-consumed difference (chunk framing)"] = true
		case *ssa.DebugRef:
		default:
			return ""
		}
	}
	var out []string
	for k := range kinds {
		out = append(out, k)
	}
	if len(out) == 0 {
		return "unused"
	}
	return strings.Join(out, ", ")
}

// shortSideFails checks the outcome of a truncation test "len(buf) OP k" in which the buffer is the shorter one:
// from there no call may be delivered (no call that involves a Destination or a mode function) and every return
// reports failure (an error, or a byte count of 0 in an operand decoder), or is decode's "return nil" at the end
// of the main loop. Returns "" when that holds, else the reason.
func shortSideFails(lenCall *ssa.Call, cmp *ssa.BinOp) string {
	fn := cmp.Parent()
	lenLeft := cmp.X == ssa.Value(lenCall)
	op := cmp.Op
	if !lenLeft { // k OP len  ==  len OP' k
		switch op {
		case token.LSS:
			op = token.GTR
		case token.LEQ:
			op = token.GEQ
		case token.GTR:
			op = token.LSS
		case token.GEQ:
			op = token.LEQ
		}
	}
	// which If successor is taken when the buffer is short
	shortSucc := -1
	switch op {
	case token.LSS, token.LEQ, token.EQL:
		shortSucc = 0
	case token.GTR, token.GEQ, token.NEQ:
		shortSucc = 1
	}
	if shortSucc < 0 {
		return "unrecognised comparison"
	}
	nIf := 0
	for _, ref := range *cmp.Referrers() {
		switch r := ref.(type) {
		case *ssa.If:
			nIf++
			start := r.Block().Succs[shortSucc]
			seen := map[*ssa.BasicBlock]bool{}
			work := []*ssa.BasicBlock{start}
			for len(work) > 0 {
				b := work[len(work)-1]
				work = work[:len(work)-1]
				if seen[b] {
					continue
				}
				seen[b] = true
				for _, ins := range b.Instrs {
					switch y := ins.(type) {
					case ssa.CallInstruction:
						cc := y.Common()
						if cc.IsInvoke() && cc.Value.Type().String() != "error" {
							return "an interface call on the short side"
						}
						if !cc.IsInvoke() {
							if _, isB := cc.Value.(*ssa.Builtin); !isB && cc.StaticCallee() == nil {
								if n, ok := cc.Value.Type().(*types.Named); !ok || n.Obj().Name() != "printer" {
									return "a call through a function value on the short side"
								}
							}
						}
						for _, a := range cc.Args {
							if n, ok := a.Type().(*types.Named); ok && n.Obj().Name() == "Destination" {
								return "a call that is handed the destination on the short side"
							}
						}
					case *ssa.Return:
						if cfgx.IsErrorReturn(y) {
							continue
						}
						if len(y.Results) == 2 {
							if c, ok := y.Results[1].(*ssa.Const); ok && c.Value != nil && c.Value.ExactString() == "0" {
								continue // operand decoder: n == 0
							}
							// a single exit "return c, n": n must be 0 along every edge that comes from the short side
							if phi, ok := y.Results[1].(*ssa.Phi); ok && phi.Block() == b {
								okPhi := true
								for i, p := range b.Preds {
									if !seen[p] && p != r.Block() {
										continue // not from the short side
									}
									if p == r.Block() && r.Block().Succs[shortSucc] != b {
										continue
									}
									c, isC := phi.Edges[i].(*ssa.Const)
									if !isC || c.Value == nil || c.Value.ExactString() != "0" {
										okPhi = false
									}
								}
								if okPhi {
									continue
								}
							}
						}
						if fn.Name() == "decode" && len(y.Results) == 1 {
							continue // end of the main loop: the input ended at an instruction boundary
						}
						return "a return that does not report failure on the short side"
					}
				}
				work = append(work, b.Succs...)
			}
		case *ssa.DebugRef:
		default:
			return "the comparison result is used other than as a branch condition"
		}
	}
	if nIf == 0 {
		return "no branch"
	}
	return ""
}


// cellStores returns every value stored into a local variable cell (an Alloc of the function, or the free variable
// through which a closure sees such an Alloc), by the function itself and by every closure that captures the cell. ok
// is false when the cell's address is used for anything but loads, stores and being captured.
func cellStores(cell ssa.Value) ([]ssa.Value, bool) {
	// find the Alloc behind a free variable
	if fv, isFV := cell.(*ssa.FreeVar); isFV {
		clo := fv.Parent()
		idx := -1
		for i, f := range clo.FreeVars {
			if f == fv {
				idx = i
			}
		}
		parent := clo.Parent()
		if parent == nil || idx < 0 {
			return nil, false
		}
		var found ssa.Value
		for _, b := range parent.Blocks {
			for _, ins := range b.Instrs {
				if mc, ok := ins.(*ssa.MakeClosure); ok && mc.Fn == ssa.Value(clo) && idx < len(mc.Bindings) {
					found = mc.Bindings[idx]
				}
			}
		}
		if found == nil {
			return nil, false
		}
		cell = found
	}
	al, ok := cell.(*ssa.Alloc)
	if !ok || al.Referrers() == nil {
		return nil, false
	}
	var vals []ssa.Value
	var visit func(addr ssa.Value, refs []ssa.Instruction) bool
	visit = func(addr ssa.Value, refs []ssa.Instruction) bool {
		for _, r := range refs {
			switch u := r.(type) {
			case *ssa.Store:
				if u.Addr != addr {
					return false // the address itself is stored somewhere
				}
				vals = append(vals, u.Val)
			case *ssa.UnOp:
				if u.Op != token.MUL {
					return false
				}
			case *ssa.DebugRef:
			case *ssa.MakeClosure:
				clo, _ := u.Fn.(*ssa.Function)
				if clo == nil {
					return false
				}
				for i, bnd := range u.Bindings {
					if bnd == addr && i < len(clo.FreeVars) && clo.FreeVars[i].Referrers() != nil {
						if !visit(clo.FreeVars[i], *clo.FreeVars[i].Referrers()) {
							return false
						}
					}
				}
			default:
				return false
			}
		}
		return true
	}
	if !visit(al, *al.Referrers()) {
		return nil, false
	}
	return vals, true
}
