package rules

import (
	"fmt"
	"go/types"
	"strings"

	"golang.org/x/tools/go/ssa"

	"ivgsa/internal/sym"
)

func init() { register("C11", ruleC11_6, ruleC11_7) }

// ruleC11_6: the metadata part of "printed = delivered". What a chunk
// contributes to the decoder's result is what it stores into the Metadata;
// every value stored there must be what the listing shows for it: the value
// itself, or all of its components, among the arguments of a listing line.
func ruleC11_6(c *Ctx) {
	R := c.R
	R.Rule("C11.6", "metadata, printed = stored: every non-constant value a metadata chunk stores into the Metadata (viewBox bounds, palette entries) is an argument of a listing line, either itself or as all of its components; per palette format", 8)
	fn := c.Fn("decode", "decodeMetadataChunk")
	if fn == nil {
		R.Unknown("decode.decodeMetadataChunk#printed=stored", "-", "not found")
		return
	}
	type cfg struct {
		name string
		conf func(h *decHooks)
	}
	cfgs := []cfg{{"mid=viewBox", func(h *decHooks) { h.natVals = []*sym.Term{nil, u32(0)} }}}
	for f := 0; f < 4; f++ {
		ff := f
		cfgs = append(cfgs, cfg{fmt.Sprintf("mid=palette,format=%d", f), func(h *decHooks) {
			h.natVals = []*sym.Term{nil, u32(1)}
			h.pinAny0 = u8(int64(5 | ff<<6))
		}})
	}
	for _, cf := range cfgs {
		h := c.newDecHooks()
		cf.conf(h)
		in := c.Interp()
		in.Hooks = h
		type st struct {
			site  ssa.Instruction
			path  string
			val   *sym.Term
			guard *sym.Term
		}
		var stores []st
		in.OnStore = func(fr *sym.Frame, site ssa.Instruction, ptr, val *sym.Term) {
			if ptr.Obj == nil || !strings.Contains(ptr.Obj.ID, "param:m") || val == nil {
				return
			}
			for _, s := range stores {
				if s.site == site {
					return
				}
			}
			stores = append(stores, st{site, ptr.Path.String(), val, fr.CurrentGuard()})
		}
		_, _, rootFr := in.Run(fn, nil, nil)
		// the conditions under which the chunk is accepted
		var accept []*sym.Term
		for _, ev := range in.Events {
			if ev.Kind == "return" && ev.Frame == rootFr && len(ev.Args) == 1 && ev.Args[0] != nil && ev.Args[0].Op == "tuple" && ev.Args[0].Args[len(ev.Args[0].Args)-1].IsNil() {
				accept = guardLits(ev.Guard)
			}
		}
		accept = normaliseLits(accept)
		underAccept := func(t *sym.Term) *sym.Term {
			for _, l := range accept {
				if l.Op == "not" {
					t = sym.Assume(t, l.Args[0], false)
				} else {
					t = sym.Assume(t, l, true)
				}
			}
			return simplifyUnder(t, accept)
		}
		printed := map[string]bool{}
		printedUnder := map[string][]*sym.Term{} // value key -> guards of the lines that show it
		nPrints := 0
		for _, ev := range in.Events {
			if ev.Kind != "print" {
				continue
			}
			nPrints++
			for i, a := range ev.Args {
				if a != nil {
					printed[stripElem(underAccept(a)).Key()] = true
				}
				if i < len(ev.VarArgs) {
					for _, v := range ev.VarArgs[i] {
						if v != nil {
							k := stripElem(underAccept(v)).Key()
							printed[k] = true
							printedUnder[k] = append(printedUnder[k], ev.Guard)
						}
					}
				}
			}
		}
		n := 0
		for _, s := range stores {
			v := stripElem(underAccept(s.val))
			if len(atomsOf(v)) == 0 {
				continue // a constant (defaults)
			}
			n++
			construct := fmt.Sprintf("decode.decodeMetadataChunk#%s:store%s", cf.name, s.path)
			ok := printed[v.Key()]
			detail := ""
			if !ok {
				if stt, isS := v.T.Underlying().(*types.Struct); v.T != nil && isS {
					ok = stt.NumFields() > 0
					for i := 0; i < stt.NumFields(); i++ {
						f := stripElem(underAccept(sym.Field(v, i, stt.Field(i).Type())))
						if !printed[f.Key()] {
							ok = false
							detail = "component " + stt.Field(i).Name() + " of the stored value is not printed"
						}
					}
				} else {
					detail = "the stored value is not an argument of any listing line"
				}
			}
			R.Check(ok, construct, c.Pos(s.site), "the stored value (or each of its components) is printed", detail+" value="+shortKey(v))
			// listed => stored: whenever the line showing the value is printed, the value is stored - the store depends on
			// nothing the line does not depend on (apart from the printer being there)
			if ok && s.guard != nil {
				var lines []*sym.Term
				lines = append(lines, printedUnder[v.Key()]...)
				if stt, isS := v.T.Underlying().(*types.Struct); v.T != nil && isS && len(lines) == 0 && stt.NumFields() > 0 {
					lines = append(lines, printedUnder[stripElem(underAccept(sym.Field(v, 0, stt.Field(0).Type()))).Key()]...)
				}
				extra := ""
				for _, lit := range guardLits(s.guard) {
					implied := len(lines) > 0
					for _, pg := range lines {
						if !impliesLit([]*sym.Term{pg}, lit) {
							implied = false
						}
					}
					if !implied {
						extra = shortKey(lit)
					}
				}
				R.Check(extra == "", construct+":unconditional", c.Pos(s.site), "stored whenever it is listed", "the store additionally depends on "+extra)
			}
		}
		if n == 0 || nPrints == 0 {
			R.Unknown("decode.decodeMetadataChunk#"+cf.name+":stores", c.FPos(fn), fmt.Sprintf("%d stores into the metadata and %d listing lines seen", n, nPrints))
		}
	}
}
