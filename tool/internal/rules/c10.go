package rules

import (
	"fmt"
	"go/types"
	"sort"
	"strings"

	"golang.org/x/tools/go/ssa"

	"ivgsa/internal/sym"
)

func init() { register("C10", ruleC10) }

// T-PROTO: the specification automaton of the Encoder, written from the
// property statement. States: S (no open path; the zero value's "initial"
// state is S with the default metadata still to be written), D (open path),
// and the error flag, which is absorbing until Reset.
type protoClass int

const (
	pcReset protoClass = iota
	pcGetter
	pcBytes
	pcStyling   // SetCSel, SetNSel, SetLOD
	pcRegister  // SetCReg, SetNReg (adj, incr)
	pcStartPath // StartPath (adj)
	pcDraw      // every path verb and close-and-move
	pcEndPath   // ClosePathEndPath
)

func classify(name string) (protoClass, bool) {
	switch name {
	case "Reset":
		return pcReset, true
	case "CSel", "NSel", "LOD":
		return pcGetter, true
	case "Bytes":
		return pcBytes, true
	case "SetCSel", "SetNSel", "SetLOD":
		return pcStyling, true
	case "SetCReg", "SetNReg":
		return pcRegister, true
	case "StartPath":
		return pcStartPath, true
	case "ClosePathEndPath":
		return pcEndPath, true
	}
	if strings.HasPrefix(name, "Abs") || strings.HasPrefix(name, "Rel") || strings.HasPrefix(name, "ClosePath") {
		return pcDraw, true
	}
	return 0, false
}

// proto returns the specification's verdict for a violation-free pre-state:
// whether the call is a protocol violation and, if not, whether a path is
// open afterwards.
func proto(cl protoClass, open bool, adj int64, incr bool) (violation bool, openAfter bool) {
	switch cl {
	case pcReset:
		return false, false
	case pcGetter, pcBytes:
		return false, open
	case pcStyling:
		return open, false
	case pcRegister:
		return open || adj > 6 || (incr && adj != 0), false
	case pcStartPath:
		return open || adj > 6, true
	case pcDraw:
		return !open, true
	case pcEndPath:
		return !open, false
	}
	return true, false
}

func ruleC10(c *Ctx) {
	R := c.R
	m := c.newEncModel()
	if !m.ok {
		return
	}
	R.Rule("C10.1", "protocol automaton: for every Encoder method, every (mode, error) pre-state and every argument class (ADJ in {0,3,6,7,200}, incr), the extracted post-state equals the specification automaton: error iff protocol violation, path open/closed as prescribed", 150)
	R.Rule("C10.2", "sticky error: from any state with an error recorded, every method but Reset leaves the recorded error unchanged", 200)
	R.Rule("C10.3", "Bytes reports the recorded error (and no bytes) iff one is recorded, else the buffer and nil", 6)
	R.Rule("C10.4", "zero value: in the initial mode every method first writes the default metadata, which equals what Reset writes for the default viewBox and palette; Reset leaves styling mode, no error", 8)

	R.Rule("C10.5", "state invariant used by the other rules: outside drawing mode no drawing operation is pending (drawOp == 0); inductive over all exported methods from every mode", 60)
	c.checkPendingInvariant(m)

	modeT := c.Named("encode", "mode")
	mInit, mSty, mDrw := m.modes["modeInitial"], m.modes["modeStyling"], m.modes["modeDrawing"]
	modeName := map[int64]string{mInit: "initial", mSty: "styling", mDrw: "drawing"}

	// the methods: the method set of *Encoder, exported
	mset := c.P.SSA.MethodSets.MethodSet(types.NewPointer(m.T))
	var methods []*ssa.Function
	for i := 0; i < mset.Len(); i++ {
		sel := mset.At(i)
		if !sel.Obj().Exported() {
			continue
		}
		if fn := c.P.SSA.MethodValue(sel); fn != nil && fn.Blocks != nil {
			methods = append(methods, fn)
		}
	}
	sort.Slice(methods, func(i, j int) bool { return methods[i].Name() < methods[j].Name() })
	R.Count("C10.methods", len(methods))
	if len(methods) < 30 {
		R.Anchor(fmt.Sprintf("the Encoder API: %d exported methods found, at least 30 expected", len(methods)))
	}

	errPre := []string{""}
	errPre = append(errPre, m.errNames()...)
	states := 0
	type trans struct {
		fn        *ssa.Function
		cl        protoClass
		mode      int64
		en        string
		adj       int64
		incr      bool
		hasAdj    bool
		hasIncr   bool
		run       *encRun
		preErr    *sym.Term
		construct string
	}
	var table []*trans
	errNameOf := func(t *sym.Term) (string, bool) {
		if t == nil {
			return "", false
		}
		if t.IsNil() {
			return "", true
		}
		for n, e := range m.errs {
			if sym.Eq(e, t) {
				return n, true
			}
		}
		return "", false
	}
	for _, fn := range methods {
		cl, ok := classify(fn.Name())
		pos := c.FPos(fn)
		if !ok {
			// a method the protocol does not name: an observer if it writes nothing at all (effect summary: no write
			// through the receiver or anything else)
			writes := false
			for _, w := range c.effects().WritesOf(fn) {
				if w.Root.Kind != "fresh" {
					writes = true
				}
			}
			if !writes {
				R.Use("C10.1")
				R.OK("encode.(*Encoder)."+fn.Name()+"#observer", pos, "not part of the protocol and writes nothing (effect summary): cannot change the automaton's state")
				continue
			}
		}
		if !ok {
			R.Use("C10.1")
			R.Unknown("encode.(*Encoder)."+fn.Name()+"#class", pos, "exported method not covered by the protocol model")
			continue
		}
		hasAdj, hasIncr := false, false
		for _, p := range fn.Params {
			if p.Name() == "adj" {
				hasAdj = true
			}
			if p.Name() == "incr" {
				hasIncr = true
			}
		}
		if (cl == pcRegister || cl == pcStartPath) && !hasAdj {
			R.Use("C10.1")
			R.Unknown("encode.(*Encoder)."+fn.Name()+"#adj", pos, "no parameter named adj")
			continue
		}
		adjs := []int64{0}
		if hasAdj {
			adjs = []int64{0, 3, 6, 7, 200}
		}
		incrs := []bool{false}
		if hasIncr {
			incrs = []bool{false, true}
		}
		for _, mode := range []int64{mInit, mSty, mDrw} {
			for _, en := range errPre {
				for _, adj := range adjs {
					for _, incr := range incrs {
						states++
						var preErr *sym.Term = sym.Nil(types.Universe.Lookup("error").Type())
						if en != "" {
							preErr = m.errs[en]
						}
						fields := map[string]*sym.Term{"mode": modeConst(mode, modeT), "err": preErr}
						if mode != mDrw {
							fields["drawOp"] = u8(0) // state invariant C10.5: nothing is pending outside a path
						}
						params := map[string]*sym.Term{}
						if hasAdj {
							params["adj"] = u8(adj)
						}
						if hasIncr {
							params["incr"] = sym.Bool(incr)
						}
						run := m.run(fn, fields, params, func(h *encHooks) {
							for _, o := range []string{"Encode1", "Encode2", "Encode3Direct", "Encode4", "Encode3Indirect", "Is1", "Is2", "Is3"} {
								h.opaque[o] = true
							}
						})
						construct := fmt.Sprintf("encode.(*Encoder).%s#mode=%s,err=%s", fn.Name(), modeName[mode], map[bool]string{true: "none", false: en}[en == ""])
						if hasAdj {
							construct += fmt.Sprintf(",adj=%d", adj)
						}
						if hasIncr {
							construct += fmt.Sprintf(",incr=%v", incr)
						}
						table = append(table, &trans{fn, cl, mode, en, adj, incr, hasAdj, hasIncr, run, preErr, construct})
					}
				}
			}
		}
	}
	// reachable (mode, error) states: from the zero value and through every extracted transition
	type st struct {
		mode int64
		en   string
	}
	reach := map[st]bool{{mInit, ""}: true}
	for changed := true; changed; {
		changed = false
		for _, t := range table {
			if !reach[st{t.mode, t.en}] || t.run.mem == nil {
				continue
			}
			pm, ok1 := t.run.field("mode").Int64()
			pe, ok2 := errNameOf(t.run.field("err"))
			if !ok1 || !ok2 {
				continue // reported below as undecided
			}
			if !reach[st{pm, pe}] {
				reach[st{pm, pe}] = true
				changed = true
			}
		}
	}
	R.Count("C10.reachable_states", len(reach))
	var reachList []string
	for s := range reach {
		reachList = append(reachList, fmt.Sprintf("(%s,%s)", modeName[s.mode], map[bool]string{true: "no error", false: s.en}[s.en == ""]))
	}
	sort.Strings(reachList)
	R.Note("C10 reachable (mode, error) states: %s", strings.Join(reachList, " "))
	skipped := 0
	for _, t := range table {
		fn, cl, mode, en, adj, incr, run, preErr, construct := t.fn, t.cl, t.mode, t.en, t.adj, t.incr, t.run, t.preErr, t.construct
		pos := c.FPos(fn)
		if !reach[st{mode, en}] {
			skipped++
			continue
		}
		{
			{
				{
					{
						if run.mem == nil {
							// the method does not return: only acceptable for an explicit panic that another rule proves unreachable
							R.Use("C10.1")
							R.Unknown(construct, pos, "method does not return normally in this state")
							continue
						}
						postErr := run.field("err")
						postMode := run.field("mode")
						if en != "" && cl != pcReset {
							R.Use("C10.2")
							R.Check(sym.Eq(postErr, preErr), construct+":sticky", pos, "recorded error unchanged", shortKey(postErr))
							if cl == pcBytes {
								R.Use("C10.3")
								okB := run.res != nil && run.res.Op == "tuple" && len(run.res.Args) == 2 && run.res.Args[0].IsNil() && sym.Eq(run.res.Args[1], preErr)
								R.Check(okB, construct+":result", pos, "(nil, the recorded error)", shortKey(run.res))
							}
							continue
						}
						// violation-free pre-state (or Reset)
						R.Use("C10.1")
						open := mode == mDrw
						viol, openAfter := proto(cl, open, adj, incr)
						isErr := !postErr.IsNil()
						if _, known := errNameOf(postErr); !known {
							R.Unknown(construct, pos, "post-state error is not nil or one of the package's error values: "+shortKey(postErr))
							continue
						}
						if viol != isErr {
							R.Bad(construct, pos, map[bool]string{true: "a protocol violation: error recorded", false: "no violation: no error"}[viol], "err' = "+shortKey(postErr))
							continue
						}
						if viol {
							R.OK(construct, pos)
							continue
						}
						pm, okm := postMode.Int64()
						wantOpen := openAfter
						if !okm || (pm == mDrw) != wantOpen || pm == mInit && cl != pcBytes && cl != pcGetter && false {
							R.Bad(construct, pos, map[bool]string{true: "a path is open afterwards", false: "no path is open afterwards"}[wantOpen], "mode' = "+shortKey(postMode))
							continue
						}
						if pm == mInit {
							R.Bad(construct, pos, "the initial mode is left by every call", "mode' = initial")
							continue
						}
						R.OK(construct, pos)
						if cl == pcBytes {
							R.Use("C10.3")
							okB := run.res != nil && run.res.Op == "tuple" && len(run.res.Args) == 2 && run.res.Args[1].IsNil() && !run.res.Args[0].IsNil()
							// the bytes returned are the buffer
							if okB {
								buf := run.field("buf")
								got := run.res.Args[0]
								for got.Op == "conv" {
									got = got.Args[0]
								}
								okB = sym.Eq(got, buf)
							}
							R.Check(okB, construct+":result", pos, "(the buffer, nil)", shortKey(run.res))
						}
						// C10.4: from the initial mode the buffer starts with the default metadata
						if mode == mInit && cl != pcReset {
							R.Use("C10.4")
							buf := run.field("buf")
							okM := true
							desc := ""
							leaves := sym.Cases(buf, 64)
							if leaves == nil {
								okM, desc = false, "too many cases"
							}
							for _, lf := range leaves {
								base, items := flattenBuf(lf.Val)
								if !defaultMetadataPrefix(base, items) {
									okM, desc = false, describeItems(items)+" [base "+shortKey(base)+"]"
								}
							}
							R.Check(okM, construct+":defaultmetadata", pos, "buffer = [:0] + magic + 0x00 + what the method writes", desc)
						}
					}
				}
			}
		}
	}
	R.Count("C10.states_examined", states)
	R.Count("C10.unreachable_states_skipped", skipped)

	// C10.4: Reset with the default metadata writes exactly magic + natural(0), styling mode, no error
	R.Use("C10.4")
	if reset := c.Method("encode", "Encoder", "Reset", true); reset != nil {
		in0 := c.Interp()
		dvb := c.P.Global("", "DefaultViewBox")
		dpal := c.P.Global("", "DefaultPalette")
		if dvb == nil || dpal == nil {
			R.Anchor("ivg.DefaultViewBox / ivg.DefaultPalette")
		} else {
			vb := in0.LoadAt(in0.Global, in0.GlobalObj(dvb), nil)
			pal := in0.LoadAt(in0.Global, in0.GlobalObj(dpal), nil)
			run := m.run(reset, nil, map[string]*sym.Term{"viewbox": vb, "palette": pal}, func(h *encHooks) { h.enter["encodeNatural"] = true })
			pos := c.FPos(reset)
			key := "encode.(*Encoder).Reset#default"
			if run.mem == nil {
				R.Bad(key, pos, "returns", "does not return")
			} else {
				base, items := flattenBuf(run.field("buf"))
				R.Check(defaultMetadataPrefix(base, items) && len(items) == 5, key+":bytes", pos, "[:0] + magic + 0x00 and nothing else", describeItems(items))
				pm, _ := run.field("mode").Int64()
				R.Check(pm == mSty, key+":mode", pos, "styling", shortKey(run.field("mode")))
				R.Check(run.field("err").IsNil(), key+":err", pos, "nil", shortKey(run.field("err")))
			}
		}
	}
	if mInit != 0 {
		R.Bad("encode.modeInitial", "-", "the zero value of Encoder is in the initial mode (constant 0)", fmt.Sprint(mInit))
	} else {
		R.OK("encode.modeInitial", "-")
	}
	R.Exhaustive = true
	R.Sample(map[string]interface{}{"rule": "C10.1", "pre": "mode=styling, err=none", "call": "SetCReg(adj=3, incr=true, c)", "specification": "violation (incrementing form with non-zero ADJ)"})
}

// defaultMetadataPrefix reports whether the buffer is rebuilt from length 0
// and starts with the magic identifier followed by a zero chunk count.
func defaultMetadataPrefix(base *sym.Term, items []bufItem) bool {
	if base.Op != "slice" {
		return false
	}
	if lo, ok := base.Args[1].Int64(); !ok || lo != 0 {
		return false
	}
	if hi, ok := base.Args[2].Int64(); !ok || hi != 0 {
		return false
	}
	want := []int64{0x89, 'I', 'V', 'G', 0x00}
	if len(items) < len(want) {
		return false
	}
	for i, w := range want {
		if items[i].Kind != "byte" {
			return false
		}
		if v, ok := items[i].Val.Int64(); !ok || v != w {
			return false
		}
	}
	return true
}
