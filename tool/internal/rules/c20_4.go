package rules

import (
	"fmt"
	"go/constant"
	"go/token"
	"go/types"
	"os"
	"strings"

	"golang.org/x/tools/go/ssa"

	"ivgsa/internal/sym"
)

func init() { register("C20", ruleC20_4) }

// ruleC20_4: the generator's number scanner is the token automaton of its dialect. The two inner loops of scan are
// read as automata over the byte at the cursor - whether the loop goes round again, and what the dot counter
// becomes, as functions of (byte, dots seen) - by substituting each of the 256 byte values and each counter value
// into the loops' own continuation conditions: exhaustive over a finite domain, nothing sampled. Around them: where
// the cursor starts, what is handed to strconv.ParseFloat, where the value is stored, what remains of the string.
func ruleC20_4(c *Ctx) {
	R := c.R
	R.Rule("C20.4", "the generator's number scanner: a number starts at the cursor with any first byte (sign, digit or dot; a leading dot counts as the number's dot), continues over digits and over at most one dot, and ends before anything else - in particular before a second dot, a sign, a separator or a letter (all 256 byte values x dots seen 0..2); the text from the cursor up to there is handed to strconv.ParseFloat and its value, narrowed to float32, is stored in operand slot i; then any run of spaces and commas is skipped (all 256 byte values) and the rest of the string is what the next operand, or the caller, continues with; a ParseFloat error is returned with the string as it was at the start of that operand", 8)
	fn := c.Fn("generate", "scan")
	if fn == nil {
		return
	}
	pos := c.FPos(fn)
	key := "generate.scan"
	in := c.Interp()
	_, _, fr := in.Run(fn, nil, nil)
	if fr == nil {
		R.Unknown(key, pos, "scan could not be evaluated")
		return
	}
	var parse *sym.Event
	var rets []*sym.Event
	for _, ev := range in.Events {
		switch {
		case ev.Kind == "extcall" && ev.Callee == "strconv.ParseFloat":
			parse = ev
		case ev.Kind == "return" && ev.Frame == fr:
			rets = append(rets, ev)
		}
	}
	if parse == nil || len(parse.Loops) != 1 {
		R.Bad(key+"#parse", pos, "one call of strconv.ParseFloat per operand, in the operand loop", fmt.Sprintf("found=%v", parse != nil))
		return
	}
	outer := parse.Loops[0].Header
	// the inner loops, in program order: the scanning loop (before ParseFloat) and the separator loop (after it)
	type loop struct {
		h       int
		jPhi    *ssa.Phi
		counter *ssa.Phi
		byteV   ssa.Value
	}
	var loops []*loop
	for _, h := range fr.Headers() {
		if h == outer || !fr.InLoop(outer, h) {
			continue
		}
		l := &loop{h: h}
		blk := fn.Blocks[h]
		for _, ins := range blk.Instrs {
			phi, ok := ins.(*ssa.Phi)
			if !ok {
				break
			}
			bt, isB := phi.Type().Underlying().(*types.Basic)
			if !isB || bt.Info()&types.IsInteger == 0 {
				continue
			}
			isCursor := false
			for i, p := range blk.Preds {
				if blk.Dominates(p) {
					if add, ok := phi.Edges[i].(*ssa.BinOp); ok && add.Op == token.ADD && add.X == ssa.Value(phi) {
						if k, isC := add.Y.(*ssa.Const); isC && k.Value != nil && constant.Compare(k.Value, token.EQL, constant.MakeInt64(1)) {
							isCursor = true
						}
					}
				}
			}
			if isCursor && l.jPhi == nil {
				l.jPhi = phi
			} else if l.counter == nil {
				l.counter = phi
			}
		}
		if l.jPhi == nil {
			continue
		}
		// the byte at the cursor
		for _, b := range fn.Blocks {
			if !fr.InLoop(h, b.Index) {
				continue
			}
			for _, ins := range b.Instrs {
				switch x := ins.(type) {
				case *ssa.Lookup:
					if x.Index == ssa.Value(l.jPhi) && l.byteV == nil {
						l.byteV = x
					}
				case *ssa.Index:
					if x.Index == ssa.Value(l.jPhi) && l.byteV == nil {
						l.byteV = x
					}
				}
			}
		}
		loops = append(loops, l)
	}
	if len(loops) != 2 || loops[0].byteV == nil || loops[1].byteV == nil {
		R.Unknown(key+"#loops", pos, fmt.Sprintf("%d cursor loops inside the operand loop, 2 expected (scanning, separators)", len(loops)))
		return
	}
	scanL, sepL := loops[0], loops[1]
	if scanL.jPhi.Pos() > sepL.jPhi.Pos() || (scanL.counter == nil && sepL.counter != nil) {
		scanL, sepL = sepL, scanL
	}
	u8 := types.Typ[types.Uint8]
	intT := types.Typ[types.Int]
	// continues decides whether the loop headed by h goes round again when the byte at the cursor is cv and the
	// counter (if any) is kv: 1 yes, 0 no, -1 not determined by those two
	continues := func(l *loop, cv int64, kv int64) (int, *sym.Term) {
		hdr := fn.Blocks[l.h]
		var g *sym.Term
		for _, p := range hdr.Preds {
			if hdr.Dominates(p) && fr.Executable(p.Index, l.h) {
				eg := fr.EdgeGuard(p.Index, l.h)
				if eg == nil {
					continue
				}
				if g == nil {
					g = eg
				} else {
					g = sym.Or(g, eg)
				}
			}
		}
		hreach := fr.Reach(l.h)
		if g == nil || hreach == nil {
			return -1, nil
		}
		bt := fr.Val(l.byteV)
		sub := func(t *sym.Term) *sym.Term {
			t = sym.Subst(t, bt, sym.Const(constant.MakeInt64(cv), u8))
			if l.counter != nil {
				t = sym.Subst(t, fr.Val(l.counter), sym.Const(constant.MakeInt64(kv), intT))
			}
			return t
		}
		g2, h2 := sub(g), sub(hreach)
		switch {
		case sym.CondsContradict([]*sym.Term{h2, g2}):
			return 0, g2
		case sym.CondsContradict([]*sym.Term{h2, sym.Not(g2)}):
			return 1, g2
		}
		return -1, g2
	}
	isDigit := func(b int64) bool { return b >= '0' && b <= '9' }
	// ---- the scanning loop ----
	{
		bad := ""
		n := 0
		for cv := int64(0); cv < 256 && bad == ""; cv++ {
			for kv := int64(0); kv <= 2; kv++ {
				if scanL.counter == nil {
					bad = "the scanning loop keeps no count of the dots seen"
					break
				}
				got, g := continues(scanL, cv, kv)
				want := isDigit(cv) || (cv == '.' && kv == 0)
				n++
				if got < 0 {
					bad = fmt.Sprintf("whether the loop continues on byte %q with %d dots seen is not determined by those two: %s", rune(cv), kv, shortKey(g))
				} else if (got == 1) != want {
					bad = fmt.Sprintf("on byte %q with %d dots seen the loop continues=%v, want %v", rune(cv), kv, got == 1, want)
				}
				// the counter on the way round
				if bad == "" && got == 1 {
					hdr := fn.Blocks[scanL.h]
					for i, p := range hdr.Preds {
						if !hdr.Dominates(p) {
							continue
						}
						nv := fr.EdgeVal(scanL.counter, i)
						if nv == nil {
							continue
						}
						if os.Getenv("IVGSA_DEBUG_SCAN") != "" && cv == '0' && kv == 0 {
							fmt.Fprintf(os.Stderr, "COUNTER edge %d: %s\n   byte term %s\n", i, nv.Key(), fr.Val(scanL.byteV).Key())
						}
						nv = sym.Subst(nv, fr.Val(scanL.byteV), sym.Const(constant.MakeInt64(cv), u8))
						nv = sym.Subst(nv, fr.Val(scanL.counter), sym.Const(constant.MakeInt64(kv), intT))
						// the value may be a join over the ways round: all leaves consistent with the byte must agree
						wantK := kv
						if cv == '.' {
							wantK = kv + 1
						}
						for _, lf := range sym.DeepCases(nv, 64) {
							// under the condition under which the loop is running at all
							conds := append([]*sym.Term{}, lf.Conds...)
							if hr := fr.Reach(scanL.h); hr != nil {
								conds = append(conds, hr)
							}
							dead := sym.CondsContradict(conds)
							for _, cd := range lf.Conds {
								if b, isC := cd.BoolVal(); isC && !b {
									dead = true
								}
							}
							if dead {
								continue
							}
							if v, ok := lf.Val.Int64(); !ok || v != wantK {
								bad = fmt.Sprintf("after byte %q with %d dots seen the count becomes %s, want %d", rune(cv), kv, shortKey(lf.Val), wantK)
							}
						}
					}
				}
			}
		}
		R.Check(bad == "", key+"#number-automaton", c.Pos(scanL.jPhi), "continue over digits and the first dot only; the dot count follows", bad, fmt.Sprintf("%d (byte, dots) pairs decided", n))
		// start: cursor 1 (the first byte is part of the number whatever it is), dots = 1 iff the first byte is a dot
		hdr := fn.Blocks[scanL.h]
		okJ, okK := false, scanL.counter != nil
		detail := ""
		for i, p := range hdr.Preds {
			if hdr.Dominates(p) {
				continue
			}
			if v := fr.EdgeVal(scanL.jPhi, i); v != nil {
				if k, ok := v.Int64(); ok && k == 1 {
					okJ = true
				} else {
					detail += " cursor starts at " + shortKey(v)
				}
			}
			if scanL.counter != nil {
				v := fr.EdgeVal(scanL.counter, i)
				// depends on one byte: the first
				var first *sym.Term
				sym.Walk(v, func(x *sym.Term) bool {
					if x.Op == "index" && len(x.Args) == 2 && x.Args[1].Key() == "0" {
						first = x
					}
					return first == nil
				})
				for cv := int64(0); cv < 256; cv++ {
					vv := v
					if first != nil {
						vv = sym.Subst(v, first, sym.Const(constant.MakeInt64(cv), u8))
					}
					want := int64(0)
					if cv == '.' {
						want = 1
					}
					if k, ok := vv.Int64(); !ok || k != want {
						okK = false
						detail += fmt.Sprintf(" dots start at %s for first byte %q", shortKey(vv), rune(cv))
						break
					}
				}
			}
		}
		R.Check(okJ && okK, key+"#number-start", c.Pos(scanL.jPhi), "the number starts at the cursor: first byte taken as it is, a leading dot counted", strings.TrimSpace(detail))
	}
	// ---- what is parsed, where it goes ----
	{
		dHere := fr.Val(scanL.byteV)
		var dTerm *sym.Term
		if dHere != nil && dHere.Op == "index" {
			dTerm = dHere.Args[0]
		}
		a := parse.Args[0]
		okSlice := a != nil && (a.Op == "strslice" || a.Op == "slice") && len(a.Args) == 3 && dTerm != nil && sym.Eq(a.Args[0], dTerm) &&
			(a.Args[1] == nil || a.Args[1].IsNil() || a.Args[1].Key() == "0") && sym.Eq(a.Args[2], fr.Val(scanL.jPhi))
		R.Check(okSlice, key+"#parse.text", c.Pos(parse.Site), "ParseFloat(text from the cursor up to where the number ends)", shortKey(a))
		// the store into the operand array
		var store *sym.Event
		_ = store
	}
	// ---- separators ----
	{
		bad := ""
		for cv := int64(0); cv < 256 && bad == ""; cv++ {
			got, g := continues(sepL, cv, 0)
			want := cv == ' ' || cv == ','
			if got < 0 {
				bad = fmt.Sprintf("whether byte %q is skipped is not determined by the byte: %s", rune(cv), shortKey(g))
			} else if (got == 1) != want {
				bad = fmt.Sprintf("byte %q skipped=%v, want %v", rune(cv), got == 1, want)
			}
		}
		R.Check(bad == "", key+"#separators", c.Pos(sepL.jPhi), "after a number exactly the spaces and commas are skipped", bad)
		// the separator cursor starts where the number ended
		hdr := fn.Blocks[sepL.h]
		okStart := false
		for i, p := range hdr.Preds {
			if !hdr.Dominates(p) {
				if v := fr.EdgeVal(sepL.jPhi, i); v != nil && sym.Eq(v, fr.Val(scanL.jPhi)) {
					okStart = true
				}
			}
		}
		R.Check(okStart, key+"#separators.start", c.Pos(sepL.jPhi), "separators are skipped from the end of the number", "")
	}
	// ---- the rest of the string ----
	{
		// the string variable of the operand loop: its value on the way round is the old one cut at the separator cursor
		var dPhi *ssa.Phi
		for _, ins := range fn.Blocks[outer].Instrs {
			if phi, ok := ins.(*ssa.Phi); ok {
				if bt, isB := phi.Type().Underlying().(*types.Basic); isB && bt.Info()&types.IsString != 0 {
					dPhi = phi
				}
			}
		}
		ok := false
		detail := "no string variable carried round the operand loop"
		if dPhi != nil {
			hdr := fn.Blocks[outer]
			for i, p := range hdr.Preds {
				if hdr.Dominates(p) {
					v := fr.EdgeVal(dPhi, i)
					detail = shortKey(v)
					ok = v != nil && (v.Op == "strslice" || v.Op == "slice") && len(v.Args) == 3 && sym.Eq(v.Args[0], fr.Val(dPhi)) && sym.Eq(v.Args[1], fr.Val(sepL.jPhi)) && (v.Args[2] == nil || v.Args[2].IsNil() || sym.Eq(v.Args[2], sym.Len(fr.Val(dPhi))))
				}
			}
		}
		R.Check(ok, key+"#rest", pos, "the next operand starts after the separators: d = d[cursor:]", detail)
		// returns: the remaining string with a nil error after the last operand; the string of this operand's start
		// with ParseFloat's error
		okRet := len(rets) >= 2 && dPhi != nil
		rdetail := ""
		for _, rv := range rets {
			if len(rv.Args) == 0 || rv.Args[0] == nil || rv.Args[0].Op != "tuple" || len(rv.Args[0].Args) != 2 || dPhi == nil {
				okRet = false
				continue
			}
			s, e := rv.Args[0].Args[0], rv.Args[0].Args[1]
			if !sym.Eq(s, fr.Val(dPhi)) {
				okRet = false
				rdetail += " returns " + shortKey(s)
			}
			if !e.IsNil() && !strings.Contains(e.Key(), "ParseFloat") {
				okRet = false
				rdetail += " error " + shortKey(e)
			}
		}
		R.Check(okRet, key+"#returns", pos, "returns the remaining string (nil error), or the string at the failing operand with ParseFloat's error", strings.TrimSpace(rdetail))
	}
	// the value stored
	{
		var stores []string
		okStore := false
		in2 := c.Interp()
		in2.OnStore = func(f *sym.Frame, site ssa.Instruction, ptr, val *sym.Term) {
			if ptr != nil && ptr.Obj != nil && strings.Contains(ptr.Obj.ID, "param:args") && val != nil {
				stores = append(stores, shortKey(val))
				idxOK := len(ptr.Path) == 1 && ptr.Path[0].Sym != nil && strings.HasPrefix(ptr.Path[0].Sym.Key(), "$phi#")
				valOK := val.Op == "conv" && strings.Contains(val.Key(), "ParseFloat") && strings.HasPrefix(val.Key(), "conv:float32(extract:0(")
				if idxOK && valOK {
					okStore = true
				}
			}
		}
		in2.Run(fn, nil, nil)
		R.Check(okStore && len(stores) >= 1, key+"#store", pos, "args[i] = float32(the parsed value), i the operand counter", strings.Join(stores, " | "))
	}
}

func init() { register("C20", ruleC20_5) }

// ruleC20_5: the converter's scanner hands the text to the standard library. Operand i is read by
// fmt.Fscanf(r, "%f", &args[i]) from the reader at the cursor, after skipping spaces and nothing else (a byte that is
// not a space is put back). What a number's text means is then fmt's business, not this code's: there is no token
// buffer of its own that could be too short, no digit handling of its own that could be wrong.
func ruleC20_5(c *Ctx) {
	R := c.R
	R.Rule("C20.5", "the converter's number scanner delegates: for operand i = 0..n-1 (a counted loop) it skips spaces - reading a byte, going on exactly while it is a space, putting back the first byte that is not - and then calls fmt.Fscanf on that same reader with the format %f and the address of operand slot i; it converts no text itself", 4)
	fn := c.Fn("mdicons", "scan")
	if fn == nil {
		return
	}
	pos := c.FPos(fn)
	key := "mdicons.scan"
	in := c.Interp()
	// what is put into argument lists built in place (the operand's address handed to Fscanf)
	var boxed []*sym.Term
	in.OnStore = func(f *sym.Frame, site ssa.Instruction, ptr, val *sym.Term) {
		if ptr != nil && ptr.Obj != nil && ptr.Obj.Kind == "alloc" && val != nil && val.Op == "makeiface" {
			boxed = append(boxed, val.Args[0])
		}
	}
	_, _, fr := in.Run(fn, nil, nil)
	var scanf []*sym.Event
	var reads, unreads, others []*sym.Event
	for _, ev := range in.Events {
		if ev.Kind != "extcall" && ev.Kind != "invoke" {
			continue
		}
		switch {
		case ev.Callee == "fmt.Fscanf":
			scanf = append(scanf, ev)
		case strings.HasSuffix(ev.Callee, "ReadByte"):
			reads = append(reads, ev)
		case strings.HasSuffix(ev.Callee, "UnreadByte"):
			unreads = append(unreads, ev)
		default:
			others = append(others, ev)
		}
	}
	if os.Getenv("IVGSA_DEBUG_SCAN") != "" {
		for _, ev := range in.Events {
			fmt.Fprintf(os.Stderr, "EV %s %s args=%s guard=%.200s loops=%d\n", ev.Kind, ev.Callee, argKeys(ev.Args), shortKey(ev.Guard), len(ev.Loops))
		}
	}
	_ = fr
	if !R.Check(len(scanf) == 1 && len(others) == 0, key+"#delegates", pos, "one call of fmt.Fscanf per operand and no other text conversion", fmt.Sprintf("%d fmt.Fscanf calls, %d other library calls (%s)", len(scanf), len(others), calleeNames(others))) {
		return
	}
	sc := scanf[0]
	// reader, format, destination
	okR := len(sc.Args) >= 2 && strings.Contains(sc.Args[0].Key(), "param:r")
	format, _ := sc.Args[1].StringVal()
	// fmt scans every floating-point verb alike
	okF := len(format) == 2 && format[0] == '%' && strings.ContainsRune("eEfFgGv", rune(format[1]))
	okD := false
	var idx *sym.Term
	// the store is seen once per evaluation pass: the last one is the fixpoint's
	if len(boxed) > 0 {
		d := boxed[len(boxed)-1]
		if d.Op == "ptr" && d.Obj != nil && strings.Contains(d.Obj.ID, "param:args") && len(d.Path) == 1 {
			idx = d.Path[0].Sym
			if idx == nil {
				idx = sym.Int(d.Path[0].Index)
			}
			okD = true
		}
	}
	vdetail := fmt.Sprintf(" reader=%v format=%v slot=%v boxed=%s", okR, okF, okD, argKeys(boxed))
	R.Check(okR && okF && okD, key+"#fscanf", c.Pos(sc.Site), "fmt.Fscanf(r, \"%f\", &args[i])", argKeys(sc.Args)+" varargs:"+vdetail)
	// operand loop
	okLoop := len(sc.Loops) == 1
	if okLoop {
		li, ok := sc.Loops[0].Frame.Loop(sc.Loops[0].Header)
		okLoop = ok && li.Step == 1 && li.Op == token.LSS && strings.Contains(li.Bound.Key(), "$param:n")
		if ok {
			i0, isC := li.Init.Int64()
			okLoop = okLoop && isC && i0+li.Offset == 0 && idx != nil && sym.Eq(stripConv(idx), stripConv(li.IndexVal))
		}
	}
	R.Check(okLoop, key+"#operands", pos, "for i := 0; i < n; i++ with slot i", "")
	// the space loop: one ReadByte per round on r; UnreadByte exactly when the byte is not a space, and then the loop is left
	// (the read may be spelled once, at the top of the loop, or twice, before the loop and at its end)
	var inner *sym.Event
	okSp := len(reads) >= 1 && len(unreads) == 1 && len(unreads[0].Loops) == 1 && strings.Contains(unreads[0].Args[0].Key(), "param:r")
	for _, rd := range reads {
		if !strings.Contains(rd.Args[0].Key(), "param:r") {
			okSp = false
		}
		if len(rd.Loops) == 2 {
			inner = rd
		}
	}
	if inner == nil {
		okSp = false
	} else {
		reads = []*sym.Event{inner}
	}
	detail := fmt.Sprintf("%d ReadByte, %d UnreadByte", len(reads), len(unreads))
	if okSp {
		// the byte read
		var b *sym.Term
		for _, l := range guardLits(unreads[0].Guard) {
			x := l
			if x.Op == "not" {
				x = x.Args[0]
			}
			if x.Op == "bin" && x.Name == "==" && (x.Args[1].Key() == "32" || x.Args[0].Key() == "32") {
				b = x
				okSp = l.Op == "not" // put back when it is NOT a space
			}
		}
		if b == nil {
			okSp, detail = false, "UnreadByte does not depend on the byte being a space: "+shortKey(unreads[0].Guard)
		} else {
			// the loop goes round again exactly when the byte is a space
			h := reads[0].Loops[1].Header
			hdr := fn.Blocks[h]
			var g *sym.Term
			for _, p := range hdr.Preds {
				if hdr.Dominates(p) && fr.Executable(p.Index, h) {
					if eg := fr.EdgeGuard(p.Index, h); eg != nil {
						if g == nil {
							g = eg
						} else {
							g = sym.Or(g, eg)
						}
					}
				}
			}
			hr := fr.Reach(h)
			if g == nil || hr == nil || !sym.CondsContradict([]*sym.Term{hr, g, sym.Not(b)}) || !sym.CondsContradict([]*sym.Term{hr, sym.Not(g), b}) {
				okSp, detail = false, "the skipping loop does not continue exactly on a space: continues under "+shortKey(g)+" reached under "+shortKey(hr)
			}
		}
	}
	R.Check(okSp, key+"#spaces", pos, "skip spaces only, put the first other byte back", detail)
}

func calleeNames(evs []*sym.Event) string {
	var s []string
	for _, e := range evs {
		s = append(s, e.Callee)
	}
	return strings.Join(s, ",")
}
