package rules

import (
	"fmt"
	"go/ast"
	"go/parser"
	"go/token"
	"go/types"
	"strings"

	"golang.org/x/tools/go/ssa"
	"golang.org/x/tools/go/ssa/ssautil"

	"ivgsa/internal/effects"
)

// Positive controls for the rules whose expected number of reports on a healthy tree is zero ("no function writes
// package-level state", "no alias of package-level storage escapes", "no goroutine", "nothing but Draw writes the
// operator"). A rule that reports nothing passes vacuously if its detector is broken, so every run first analyses
// this tiny package, written to contain one instance of each thing the rules look for, with the same detectors, and
// fails the check (undecided) if any instance goes unreported.
const effectsControlSrc = `package ctl

var table [4]int
var shared = []byte{1, 2, 3}
var ptr *int

type T struct{ buf []byte; n int }

func writeGlobalElem()        { table[1] = 2 }
func writeThroughGlobalSlice() { shared[0] = 9 }
func writeViaHelper()         { set(&table) }
func set(p *[4]int)           { p[2] = 7 }
func (t *T) aliasGlobal()     { t.buf = shared }
func returnGlobal() []byte    { return shared[:1] }
func (t *T) ownOnly(x int)    { t.n = x; t.buf = append(t.buf[:0], byte(x)) }
func writeParam(b []byte)     { b[0] = 1 }
func readOnly(b []byte) int   { return int(b[0]) + table[0] }
func spawn(c chan int)        { go func() { c <- 1 }() }
func statefulOption(p [4]int) func(int) { return func(i int) { p[i&3] = i } }
func statelessOption(p [4]int) func(*T)  { return func(t *T) { t.n = p[0] } }
func (t *T) keep(b []byte)    { t.buf = b[1:] }
func (t *T) keepVia(b []byte) { t.keep(b) }
func (t *T) copyIn(b []byte)  { t.buf = append([]byte(nil), b...) }
`

type effectsControl struct {
	a    *effects.Analysis
	fn   map[string]*ssa.Function
	prog *ssa.Program
}

func buildEffectsControl() (*effectsControl, error) {
	fset := token.NewFileSet()
	f, err := parser.ParseFile(fset, "ctl.go", effectsControlSrc, 0)
	if err != nil {
		return nil, err
	}
	pkg := types.NewPackage("ctl", "ctl")
	spkg, _, err := ssautil.BuildPackage(&types.Config{}, fset, pkg, []*ast.File{f}, ssa.InstantiateGenerics)
	if err != nil {
		return nil, err
	}
	a := effects.Analyze(spkg.Prog, func(fn *ssa.Function) bool { return fn.Pkg == spkg || (fn.Parent() != nil) })
	ec := &effectsControl{a: a, fn: map[string]*ssa.Function{}, prog: spkg.Prog}
	for _, fn := range a.Funcs() {
		name := fn.Name()
		if fn.Signature.Recv() != nil {
			name = "T." + name
		}
		ec.fn[name] = fn
	}
	return ec, nil
}

// checkEffectsControl reports, under the rule in use, whether the detectors see what the control package contains.
func (c *Ctx) checkEffectsControl() {
	R := c.R
	ec, err := buildEffectsControl()
	if err != nil {
		R.Unknown("control:effects#build", "-", "the positive-control package does not build: "+err.Error())
		return
	}
	hasWrite := func(fn, kind, nameSub string) bool {
		f := ec.fn[fn]
		if f == nil {
			return false
		}
		for _, w := range ec.a.WritesOf(f) {
			if w.Root.Kind == kind && strings.Contains(w.Root.Name, nameSub) {
				return true
			}
		}
		return false
	}
	hasEscape := func(fn, via string) bool {
		f := ec.fn[fn]
		if f == nil {
			return false
		}
		for _, e := range ec.a.EscapesOf(f) {
			if e.Via == via && strings.Contains(e.Global, "shared") {
				return true
			}
		}
		return false
	}
	hasRetain := func(fn string) bool {
		f := ec.fn[fn]
		if f == nil {
			return false
		}
		for _, rt := range ec.a.RetainsOf(f) {
			if rt.Param == 1 && rt.Into.Kind == "param" && rt.Into.Name == "0" {
				return true
			}
		}
		return false
	}
	var missing []string
	want := func(ok bool, what string) {
		if !ok {
			missing = append(missing, what)
		}
	}
	want(hasWrite("writeGlobalElem", "global", "table"), "store to an element of a package-level array")
	want(hasWrite("writeThroughGlobalSlice", "global", "shared"), "store through a package-level slice")
	want(hasWrite("writeViaHelper", "global", "table"), "store through a helper handed the address of a package-level variable")
	want(hasEscape("T.aliasGlobal", "store"), "package-level slice stored into an object")
	want(hasEscape("returnGlobal", "return"), "reslice of a package-level slice returned")
	want(hasWrite("writeParam", "param", "0"), "store through a slice parameter")
	want(hasRetain("T.keep"), "a slice parameter stored into the receiver")
	want(hasRetain("T.keepVia"), "a slice parameter stored into the receiver by a callee")
	want(!hasRetain("T.copyIn") && !hasRetain("T.ownOnly"), "a method that copies its argument reported as retaining it")
	closureWrites := func(fn string) (int, bool) {
		f := ec.fn[fn]
		if f == nil {
			return 0, false
		}
		n, w := 0, false
		for _, mc := range returnedClosures(f) {
			n++
			for _, x := range ec.a.WritesOf(mc.Fn.(*ssa.Function)) {
				if x.Root.Kind == "freevar" {
					w = true
				}
			}
		}
		return n, w
	}
	n1, w1 := closureWrites("statefulOption")
	n2, w2 := closureWrites("statelessOption")
	want(n1 == 1 && w1, "a returned closure that writes its captured variable")
	want(n2 == 1 && !w2, "a returned closure that only reads its captured variable reported as stateful")
	// negatives: the detectors must stay silent on code that does none of it
	want(!hasWrite("readOnly", "param", "0") && !hasWrite("readOnly", "global", ""), "a read-only function reported as writing")
	want(!hasWrite("T.ownOnly", "global", "") && !hasEscape("T.ownOnly", "store"), "a method writing only its receiver reported as touching package-level state")
	// concurrency scan
	sawGo, sawSend := false, false
	if f := ec.fn["spawn"]; f != nil {
		for _, fn := range append([]*ssa.Function{f}, f.AnonFuncs...) {
			for _, b := range fn.Blocks {
				for _, ins := range b.Instrs {
					switch ins.(type) {
					case *ssa.Go:
						sawGo = true
					case *ssa.Send:
						sawSend = true
					}
				}
			}
		}
	}
	want(sawGo && sawSend, "a goroutine and a channel send")
	R.Check(len(missing) == 0, "control:effects", "-", "the detectors report every instance planted in the positive-control package and nothing in its clean functions",
		fmt.Sprintf("not reported / wrongly reported: %s", strings.Join(missing, "; ")))
}
