package rules

import (
	"go/constant"
	"go/token"

	"golang.org/x/tools/go/ssa"
)

func init() { register("C20", ruleC20_8) }

// ruleC20_8: the converter reads the path it was given, all of it. What C20.1 decides per verb byte holds for the
// bytes the reader yields; this rule ties the reader to the argument and the end of the loop to the end of the text:
// (a) the reader is strings.NewReader over the pathData parameter, with at most one trailing "z" removed by
// strings.TrimSuffix(pathData, "z") - the string first, the suffix second; (b) the byte loop is left with a nil
// error exactly when ReadByte reports io.EOF (the comparison's polarity included), and with that error for any other.
func ruleC20_8(c *Ctx) {
	R := c.R
	R.Rule("C20.8", "the converter reads the path it was given, to its end: its reader is strings.NewReader(pathData) with at most one trailing z removed (strings.TrimSuffix(pathData, \"z\")); the byte loop returns nil exactly when ReadByte reports io.EOF and hands any other read error back", 3)
	fn := c.Fn("mdicons", "ParsePathData")
	if fn == nil {
		R.Anchor("mdicons.ParsePathData")
		return
	}
	key := "mdicons.ParsePathData"
	var pathParam *ssa.Parameter
	for _, p := range fn.Params {
		if p.Name() == "pathData" {
			pathParam = p
		}
	}
	calleeIs := func(call *ssa.Call, pkg, name string) bool {
		f := call.Common().StaticCallee()
		if f == nil {
			return false
		}
		if f.Pkg != nil && f.Pkg.Pkg.Path() == pkg && f.Name() == name && f.Signature.Recv() == nil {
			return true
		}
		return f.Signature.Recv() != nil && f.Name() == name && f.Pkg != nil && f.Pkg.Pkg.Path() == pkg
	}
	var newReader, readByte *ssa.Call
	nNew := 0
	for _, b := range fn.Blocks {
		for _, ins := range b.Instrs {
			call, ok := ins.(*ssa.Call)
			if !ok {
				continue
			}
			if calleeIs(call, "strings", "NewReader") {
				newReader = call
				nNew++
			}
			if calleeIs(call, "strings", "ReadByte") && readByte == nil {
				readByte = call
			}
		}
	}
	// (a)
	okA := newReader != nil && nNew == 1 && pathParam != nil
	detail := "one strings.NewReader call over the parameter pathData"
	if okA {
		arg := ssaStripConv(newReader.Call.Args[0])
		switch x := arg.(type) {
		case *ssa.Parameter:
			okA = x == pathParam
		case *ssa.Call:
			okA = calleeIs(x, "strings", "TrimSuffix") && len(x.Call.Args) == 2 && ssaStripConv(x.Call.Args[0]) == ssa.Value(pathParam)
			if okA {
				k, isK := x.Call.Args[1].(*ssa.Const)
				okA = isK && k.Value != nil && k.Value.Kind() == constant.String && constant.StringVal(k.Value) == "z"
			}
			if !okA {
				detail = "the reader is built over " + ssaDescribe(arg)
			}
		default:
			okA = false
			detail = "the reader is built over " + ssaDescribe(arg)
		}
	}
	pos := c.FPos(fn)
	if newReader != nil {
		pos = c.Pos(newReader)
	}
	R.Check(okA, key+"#reader", pos, "strings.NewReader(pathData) or strings.NewReader(strings.TrimSuffix(pathData, \"z\"))", detail)
	// (b)
	if readByte == nil || newReader == nil || ssaStripConv(readByte.Call.Args[0]) != ssa.Value(newReader) {
		R.Bad(key+"#end-of-input", c.FPos(fn), "the byte loop reads from that reader with ReadByte", "no such call found")
		return
	}
	var errV ssa.Value
	for _, r := range *readByte.Referrers() {
		if ex, ok := r.(*ssa.Extract); ok && ex.Index == 1 {
			errV = ex
		}
	}
	isEOF := func(v ssa.Value) bool {
		u, ok := v.(*ssa.UnOp)
		if !ok || u.Op != token.MUL {
			return false
		}
		g, ok := u.X.(*ssa.Global)
		return ok && g.Pkg != nil && g.Pkg.Pkg.Path() == "io" && g.Name() == "EOF"
	}
	returnsNil := func(b *ssa.BasicBlock) bool {
		ret, ok := b.Instrs[len(b.Instrs)-1].(*ssa.Return)
		return ok && len(ret.Results) == 1 && ssaIsNilConst(ret.Results[0])
	}
	returnsErr := func(b *ssa.BasicBlock) bool {
		ret, ok := b.Instrs[len(b.Instrs)-1].(*ssa.Return)
		return ok && len(ret.Results) == 1 && ret.Results[0] == errV
	}
	// facts about ReadByte's error that hold in a block: read off the branches on its dominator chain
	classify := func(b *ssa.BasicBlock) (eof, isNil int) { // 1 = known true, -1 = known false, 0 = unknown
		for x := b; x != nil && x.Idom() != nil; x = x.Idom() {
			d := x.Idom()
			iff, ok := d.Instrs[len(d.Instrs)-1].(*ssa.If)
			if !ok || len(x.Preds) != 1 || x.Preds[0] != d {
				continue
			}
			bin, ok := iff.Cond.(*ssa.BinOp)
			if !ok || (bin.Op != token.EQL && bin.Op != token.NEQ) || (bin.X != errV && bin.Y != errV) {
				continue
			}
			other := bin.Y
			if bin.Y == errV {
				other = bin.X
			}
			equal := (d.Succs[0] == x) == (bin.Op == token.EQL)
			val := -1
			if equal {
				val = 1
			}
			switch {
			case isEOF(other) && eof == 0:
				eof = val
			case ssaIsNilConst(other) && isNil == 0:
				isNil = val
			}
		}
		return
	}
	okEOF, okOther := false, true
	sawErrRet := false
	why, why2 := "no return of nil on the branch where ReadByte's error is io.EOF", "no return of ReadByte's error where it is neither nil nor io.EOF"
	if errV != nil {
		for _, b := range fn.Blocks {
			if _, isRet := b.Instrs[len(b.Instrs)-1].(*ssa.Return); !isRet {
				continue
			}
			eof, isNil := classify(b)
			switch {
			case eof == 1:
				if returnsNil(b) {
					okEOF = true
				} else {
					okEOF = false
					why = "at " + c.Pos(b.Instrs[len(b.Instrs)-1]) + " io.EOF does not end the conversion with nil"
				}
			case eof == -1 && isNil == -1:
				if returnsErr(b) {
					sawErrRet = true
				} else {
					okOther = false
					why2 = "at " + c.Pos(b.Instrs[len(b.Instrs)-1]) + " a read error other than io.EOF is not handed back"
				}
			case isNil == -1 && returnsNil(b):
				// a non-nil error not known to be io.EOF ends the conversion silently
				okOther = false
				why2 = "at " + c.Pos(b.Instrs[len(b.Instrs)-1]) + " nil is returned for a read error that was not compared with io.EOF"
			case eof == -1 && isNil == 0 && returnsNil(b):
				okEOF = false
				why = "at " + c.Pos(b.Instrs[len(b.Instrs)-1]) + " nil is returned where the error is NOT io.EOF"
			}
		}
	}
	okOther = okOther && sawErrRet
	if okOther {
		why2 = ""
	}
	R.Check(okEOF, key+"#end-of-input", c.Pos(readByte), "return nil exactly when ReadByte reports io.EOF", why)
	R.Check(okOther, key+"#read-error", c.Pos(readByte), "any other read error is returned as it is", why2)
}
