package rules

import (
	"fmt"
	"go/token"
	"go/types"
	"os"
	"sort"
	"strings"

	"golang.org/x/tools/go/ssa"

	"ivgsa/internal/sym"
)

func init() { register("C02", ruleC02_1, ruleC02_rest, ruleC02_shared) }

// parseLayer computes the functions of the parse layer: everything reachable
// from the three decode entry points without going through an invoke on
// ivg.Destination (the destination's own code is another matter) and without
// the caller-supplied option closures.
func (c *Ctx) parseLayer() map[*ssa.Function]bool {
	a := c.effects()
	destT := c.P.Named("", "Destination")
	seen := map[*ssa.Function]bool{}
	var work []*ssa.Function
	for _, e := range []string{"Decode", "DecodeViewBox", "Disassemble"} {
		if f := c.P.Func("decode", e); f != nil {
			work = append(work, f)
		}
	}
	optT := c.P.Named("decode", "DecodeOption")
	for len(work) > 0 {
		fn := work[len(work)-1]
		work = work[:len(work)-1]
		if fn == nil || seen[fn] || fn.Blocks == nil || !c.P.FnInModule(fn) {
			continue
		}
		seen[fn] = true
		for _, af := range fn.AnonFuncs {
			// closures are reached when they are called or passed; the option makers' closures are excluded below
			_ = af
		}
		for _, b := range fn.Blocks {
			for _, ins := range b.Instrs {
				ci, ok := ins.(ssa.CallInstruction)
				if !ok {
					// function constants used as values (mode functions, method thunks, the printer closure)
					for _, op := range ins.Operands(nil) {
						if op == nil || *op == nil {
							continue
						}
						switch f := (*op).(type) {
						case *ssa.Function:
							work = append(work, f)
						case *ssa.MakeClosure:
							work = append(work, f.Fn.(*ssa.Function))
						}
					}
					continue
				}
				cc := ci.Common()
				if cc.IsInvoke() && destT != nil && types.Identical(cc.Value.Type(), destT) {
					continue
				}
				if !cc.IsInvoke() && optT != nil && types.Identical(cc.Value.Type(), optT) {
					continue // caller-supplied options: outside the quantifier (byte strings)
				}
				for _, op := range ins.Operands(nil) {
					if op == nil || *op == nil {
						continue
					}
					switch f := (*op).(type) {
					case *ssa.Function:
						work = append(work, f)
					case *ssa.MakeClosure:
						work = append(work, f.Fn.(*ssa.Function))
					}
				}
				if sc := cc.StaticCallee(); sc != nil {
					work = append(work, sc)
				}
			}
		}
	}
	_ = a
	return seen
}

// panicSites lists the instructions of fn that can panic.
func panicSites(fn *ssa.Function, exempt types.Type) []ssa.Instruction {
	var out []ssa.Instruction
	for _, b := range fn.Blocks {
		for _, ins := range b.Instrs {
			switch x := ins.(type) {
			case *ssa.IndexAddr, *ssa.Index, *ssa.Slice, *ssa.Panic, *ssa.MapUpdate:
				out = append(out, ins)
			case *ssa.Lookup:
				if _, isMap := x.X.Type().Underlying().(*types.Map); !isMap {
					out = append(out, ins)
				}
			case *ssa.BinOp:
				if x.Op == token.QUO || x.Op == token.REM {
					if _, _, isInt := intWidth(x.Type()); isInt {
						out = append(out, ins)
					}
				}
			case *ssa.TypeAssert:
				if !x.CommaOk {
					out = append(out, ins)
				}
			case *ssa.Call:
				cc := x.Common()
				if exempt != nil && types.Identical(cc.Value.Type(), exempt) {
					continue // a caller-supplied option: a nil option is the caller's error, not the input's
				}
				if cc.IsInvoke() {
					out = append(out, ins)
				} else {
					switch cc.Value.(type) {
					case *ssa.Function, *ssa.Builtin, *ssa.MakeClosure:
					default:
						out = append(out, ins)
					}
				}
			}
		}
	}
	return out
}

type siteResult struct {
	fn        *ssa.Function
	ins       ssa.Instruction
	evaluated int
	failures  []string
	proofs    map[string]bool
}

// boundsRun evaluates one root with the access callback installed.
type boundsRun struct {
	c       *Ctx
	results map[ssa.Instruction]*siteResult
	// printed byte-slice lengths seen (for the printer closure's precondition)
	printLens map[string]bool
}

func (br *boundsRun) install(in *sym.Interp, assume []*sym.Term) {
	in.OnAccess = func(fr *sym.Frame, site ssa.Instruction, kind string, x, y, z *sym.Term) {
		sr := br.results[site]
		if sr == nil {
			sr = &siteResult{fn: site.Parent(), ins: site, proofs: map[string]bool{}}
			br.results[site] = sr
		}
		sr.evaluated++
		b := &boundsCtx{fr: fr, post: map[string]*sym.Term{}}
		g := guardOf(fr)
		b.lits = append(b.lits, impliedFacts(guardLits(g))...)
		b.lits = append(b.lits, assume...)
		for _, ev := range in.Events {
			if ev.Kind == "consume" && ev.Result != nil && ev.Result.Op == "tuple" && len(ev.Args) >= 1 {
				b.post[ev.Result.Args[1].Name] = ev.Args[0]
			}
		}
		ok, why := b.checkAccess(kind, x, y, z)
		if !ok && os.Getenv("IVGSA_DEBUG_BOUNDS") != "" && strings.Contains(fr.Stack(), os.Getenv("IVGSA_DEBUG_BOUNDS")) {
			fmt.Fprintf(os.Stderr, "BOUNDS %s %s: x=%s y=%s\n   lits:", br.c.Pos(site), kind, shortKey(x), shortKey(y))
			for _, l := range b.lits {
				fmt.Fprintf(os.Stderr, " [%s]", shortKey(l))
			}
			fmt.Fprintln(os.Stderr)
		}
		if ok {
			sr.proofs[why] = true
		} else {
			msg := kind + ": " + why + " [stack " + fr.Stack() + "]"
			dup := false
			for _, f := range sr.failures {
				if f == msg {
					dup = true
				}
			}
			if !dup && len(sr.failures) < 4 {
				sr.failures = append(sr.failures, msg)
			}
		}
	}
}

// guardOf returns the absolute path condition at the instruction being evaluated in fr.
func guardOf(fr *sym.Frame) *sym.Term { return fr.CurrentGuard() }

// ruleC02_1: no panic in the parse layer.
func ruleC02_1(c *Ctx) { c.boundsRule(false) }

// ruleC11_7: the same obligations restricted to the code that runs only for the disassembler.
func ruleC11_7(c *Ctx) { c.boundsRule(true) }

// printerOnly reports whether the instruction runs only when a printer is present: it lies in the printer closure
// or in a block dominated by the true edge of a "p != nil" test.
func printerOnly(ins ssa.Instruction) bool {
	fn := ins.Parent()
	if fn.Parent() != nil && (fn.Parent().Name() == "Disassemble" || isPrinterSignature(fn.Signature)) {
		return true // the printer closure, built in Disassemble or in a helper of it
	}
	b := ins.Block()
	for d := b; d != nil; d = d.Idom() {
		id := d.Idom()
		if id == nil || len(id.Instrs) == 0 {
			continue
		}
		iff, ok := id.Instrs[len(id.Instrs)-1].(*ssa.If)
		if !ok || id.Succs[0] != d || len(d.Preds) != 1 {
			continue
		}
		cmp, ok := iff.Cond.(*ssa.BinOp)
		if !ok || cmp.Op != token.NEQ {
			continue
		}
		if n, ok := cmp.X.Type().(*types.Named); ok && n.Obj().Name() == "printer" {
			if k, isC := cmp.Y.(*ssa.Const); isC && k.IsNil() {
				return true
			}
		}
	}
	return false
}

func (c *Ctx) boundsRule(printerPart bool) {
	R := c.R
	if printerPart {
		R.Rule("C11.7", "no panic in the code that runs only for the disassembler (the printer closure and every region guarded by a printer being present): each index, slice, division and call there is shown in range / non-nil under its path condition in every context (2x256 opcode keys, operand decoders, metadata chunks per format); so Disassemble cannot panic where Decode returns", 40)
	} else {
		R.Rule("C02.1", "no panic in the parse layer: every index, slice, string index, integer division, unchecked type assertion, call through a function value and interface call in the functions reachable from Decode / DecodeViewBox / Disassemble (not counting the destination's and the caller's option code) is shown in range / non-nil under the path condition of every context in which it is evaluated (2x256 opcode keys, every operand decoder, metadata chunks per identifier and palette format, the printer closure), and every such instruction is evaluated in some context", 150)
	}
	R.Assume("pointers handed between the decode functions are non-nil by construction (addresses of locals); a Destination's own methods and caller-supplied options are outside the parse layer")
	layer := c.parseLayer()
	var optT types.Type
	if n := c.P.Named("decode", "DecodeOption"); n != nil {
		optT = n
	}
	br := &boundsRun{c: c, results: map[ssa.Instruction]*siteResult{}, printLens: map[string]bool{}}
	sty, drw := c.modeFuncs()
	if sty == nil || drw == nil {
		return
	}
	srcNonEmpty := sym.Bin(tokLSS, sym.Int(0), sym.Op("len", "", types.Typ[types.Int], sym.Atom("param:src", nil)), nil)
	var allPrints []*sym.Event
	runDec := func(fn *ssa.Function, args []*sym.Term, assume []*sym.Term, configure func(h *decHooks)) (*sym.Interp, *sym.Frame) {
		h := c.newDecHooks()
		if configure != nil {
			configure(h)
		}
		in := c.Interp()
		in.Hooks = h
		br.install(in, assume)
		_, _, fr := in.Run(fn, args, nil)
		for _, ev := range in.Events {
			if ev.Kind == "print" {
				allPrints = append(allPrints, ev)
			}
		}
		return in, fr
	}
	// 1. the two mode functions, every opcode byte; precondition len(src) >= 1 (B5, shown below)
	for _, fn := range []*ssa.Function{sty, drw} {
		for k := 0; k < 256; k++ {
			kk := k
			runDec(fn, nil, []*sym.Term{srcNonEmpty}, func(h *decHooks) { h.pinInputByte("src", 0, int64(kk)) })
		}
	}
	// 2. the operand decoders themselves, and the postcondition every caller relies on:
	//    a decoder returns a byte count n in 0..4 with n <= len(b)
	var decNames []string
	for name := range decoderKinds {
		decNames = append(decNames, name)
	}
	sort.Strings(decNames)
	for _, name := range decNames {
		fn := c.Method("decode", "buffer", name, false)
		if fn == nil {
			R.Unknown("(decode.buffer)."+name+"#postcondition", "-", "operand decoder not found")
			continue
		}
		in, fr := runDec(fn, nil, nil, func(h *decHooks) {
			for d := range decoderKinds {
				h.enter[d] = true
			}
		})
		lenb := sym.Len(in.ParamTerm(fn.Params[0].Name(), fn.Params[0].Type()))
		okPost, nLeaves, detail := true, 0, ""
		for _, ev := range in.Events {
			if ev.Kind != "return" || ev.Frame != fr || len(ev.Args) == 0 || ev.Args[0] == nil {
				continue
			}
			for _, lf := range sym.CasesUnder(guardLits(ev.Guard), ev.Args[0], 512) {
				if lf.Val.Op != "tuple" || len(lf.Val.Args) != 2 {
					okPost, detail = false, "unexpected result "+shortKey(lf.Val)
					continue
				}
				nLeaves++
				n := constBig(lf.Val.Args[1])
				if n == nil || n.Sign() < 0 || n.Int64() > 4 {
					okPost, detail = false, "byte count "+shortKey(lf.Val.Args[1])
					continue
				}
				b := &boundsCtx{fr: fr, lits: impliedFacts(lf.Conds)}
				if lo := b.lenLower(lenb); lo == nil || lo.Cmp(n) < 0 {
					okPost, detail = false, fmt.Sprintf("returns n=%s where only len(b) >= %v is known (%s)", n, lo, c.Pos(ev.Site))
				}
			}
		}
		if printerPart {
			continue
		}
		R.Check(okPost && nLeaves > 0, "(decode.buffer)."+name+"#postcondition", c.FPos(fn), "every return has a constant byte count n in 0..4 with len(b) >= n on its path", fmt.Sprintf("%d return paths %s", nLeaves, detail))
	}
	// 3. metadata chunks: identifier symbolic, and the palette per format
	if fn := c.Fn("decode", "decodeMetadataChunk"); fn != nil {
		runDec(fn, nil, nil, nil)
		for f := 0; f < 4; f++ {
			ff := f
			runDec(fn, nil, nil, func(h *decHooks) {
				h.natVals = []*sym.Term{nil, u32(1)}
				h.pinAny0 = u8(int64(5 | ff<<6))
			})
		}
	}
	// 4. decode itself and the entry points
	var decodeIn *sym.Interp
	var decodeFr *sym.Frame
	if fn := c.Fn("decode", "decode"); fn != nil {
		decodeIn, decodeFr = runDec(fn, nil, nil, func(h *decHooks) { h.opaque["decodeMetadataChunk"] = true })
	}
	for _, e := range []string{"Decode", "DecodeViewBox", "Disassemble"} {
		if fn := c.Fn("decode", e); fn != nil {
			runDec(fn, nil, nil, func(h *decHooks) { h.opaque["decode"] = true })
		}
	}
	// 5. helpers of the root package reached from the decoder (also evaluated inline above)
	for fn := range layer {
		if fn.Pkg != nil && c.P.Rel(fn.Pkg.Pkg) == "" && fn.Parent() == nil {
			runDec(fn, nil, nil, nil)
		}
	}
	// 6. the printer closure under its precondition len(b) <= 4
	maxPrint := int64(0)
	okPrintLens := true
	for _, pr := range allPrints {
		b := pr.Args[0]
		if b.IsNil() {
			continue
		}
		l := sym.Len(b)
		if v, ok := l.Int64(); ok {
			if v > maxPrint {
				maxPrint = v
			}
			continue
		}
		if l.Op == "atom" && strings.HasPrefix(l.Name, "n@") {
			if maxPrint < 4 {
				maxPrint = 4
			}
			continue
		}
		okPrintLens = false
		if os.Getenv("IVGSA_DEBUG") != "" {
			fmt.Fprintln(os.Stderr, "print length:", l.Key(), "at", c.Pos(pr.Site))
		}
	}
	R.Check(okPrintLens && maxPrint <= 4 && len(allPrints) > 1000, "decode#printer-argument-lengths", "-", "every printer call passes nil, a 1- or 4-byte prefix, or the bytes of one operand (at most 4)", fmt.Sprintf("max %d over %d print sites evaluated", maxPrint, len(allPrints)))
	if clo := c.printerFunc(); clo != nil {
		in := c.Interp()
		lenb := sym.Op("len", "", types.Typ[types.Int], sym.Atom("param:b", nil))
		br.install(in, []*sym.Term{sym.Bin(tokLEQ, lenb, sym.Int(4), nil)})
		var binds []*sym.Term
		for _, fv := range clo.FreeVars {
			binds = append(binds, in.ParamTerm("free:"+fv.Name(), fv.Type()))
		}
		in.CallFunction(clo, in.RootArgs(clo), binds, sym.NewMem(), nil, nil, true)
	}

	// B5 / B8 for the mode-function call in decode's main loop
	if decodeIn != nil && !printerPart {
		var mfCall *sym.Event
		for _, ev := range decodeIn.Events {
			if ev.Kind == "indirect" && len(ev.Args) == 3 {
				mfCall = ev
			}
		}
		if mfCall == nil {
			R.Bad("decode.decode#modefunc-call", "-", "the main loop calls the current mode function", "not found")
		} else {
			// B5: len(src) > 0 on the path
			want := sym.Bin(tokLSS, sym.Int(0), sym.Len(mfCall.Args[2]), nil)
			R.Check(impliesLit([]*sym.Term{mfCall.Guard}, want), "decode.decode#modefunc-call:nonempty", c.Pos(mfCall.Site), "mode functions are only called with a non-empty buffer (their precondition for src[0])", shortKey(mfCall.Guard))
			// B8: the function value is never nil: initially a function constant; afterwards the previous call's first result,
			// used only when that call returned no error; every mode function returns a non-nil mode with a nil error (from the tables)
			callee := mfCall.Callee
			okNil := false
			detail := ""
			if phiT := findPhiByKey(decodeFr, callee); phiT != nil {
				init, back := phiEdges(decodeFr, phiT)
				okInit := len(init) == 1 && init[0].Op == "fn"
				okBack := len(back) == 1 && back[0].Op == "extract" && back[0].Name == "0"
				okNil = okInit && okBack
				detail = fmt.Sprintf("init=%s back=%s", argKeys(init), argKeys(back))
				// all success leaves return a mode function constant
				for _, drawing := range []bool{false, true} {
					for _, s := range c.decSummaries(drawing) {
						if !s.Reserved && (s.Next == "" || strings.HasPrefix(s.Next, "?")) {
							okNil = false
							detail = fmt.Sprintf("opcode 0x%02x returns mode %s without error", s.Key, s.Next)
						}
					}
				}
				// the loop is left on error: the back edge is under err == nil
				okErr := false
				for _, ev := range decodeIn.Events {
					if ev.Kind == "return" && ev.Frame == decodeFr && len(ev.Args) == 1 && ev.Args[0] != nil && ev.Args[0].Op == "extract" && ev.Args[0].Name == "2" {
						okErr = true // "return err" with err = third result of the call
					}
				}
				// ... or the loop's own test: the call is only reached while an error variable, which every round sets to
				// the call's error result, is nil
				if !okErr {
					for _, l := range guardLits(mfCall.Guard) {
						if l.Op == "bin" && l.Name == "==" && len(l.Args) == 2 && l.Args[1].IsNil() && l.Args[0].Op == "atom" {
							if ephi := phiOfAtom(decodeFr, l.Args[0]); ephi != nil {
								_, eb := phiEdges(decodeFr, ephi)
								if len(eb) == 1 && eb[0].Op == "extract" && eb[0].Name == "2" {
									okErr = true
								}
							}
						}
					}
				}
				if !okErr {
					okNil = false
					detail += " (no 'return err' after the call)"
				}
			}
			R.Check(okNil, "decode.decode#modefunc-call:non-nil", c.Pos(mfCall.Site), "the mode function value is a function constant or the result of an error-free mode function call", detail)
			if sr := br.results[mfCall.Site]; sr != nil && okNil {
				sr.failures = nil
				sr.proofs["mode function value: see decode.decode#modefunc-call:non-nil"] = true
			}
		}
	}

	// report per site
	var fns []*ssa.Function
	for fn := range layer {
		fns = append(fns, fn)
	}
	sort.Slice(fns, func(i, j int) bool { return fns[i].String() < fns[j].String() })
	nSites, nTrivial := 0, 0
	counts := map[string]int{}
	for _, fn := range fns {
		if isPkgInit(fn) {
			continue
		}
		name := c.P.FuncName(fn)
		seenKey := map[string]int{}
		for _, ins := range panicSites(fn, optT) {
			if printerPart && !printerOnly(ins) {
				continue
			}
			nSites++
			kind := strings.TrimPrefix(fmt.Sprintf("%T", ins), "*ssa.")
			seenKey[kind]++
			construct := fmt.Sprintf("%s#%s%d", name, kind, seenKey[kind])
			counts[kind]++
			if _, isPanic := ins.(*ssa.Panic); isPanic {
				R.Bad(construct, c.Pos(ins), "no explicit panic in the parse layer", "panic statement")
				continue
			}
			sr := br.results[ins]
			if sr == nil || sr.evaluated == 0 {
				// exception table
				if strings.HasPrefix(name, "decode.WithColorAt$") || strings.HasPrefix(name, "decode.WithPalette$") {
					continue
				}
				R.Unknown(construct, c.Pos(ins), "never evaluated in any analysed context (no verdict)")
				continue
			}
			if len(sr.failures) > 0 {
				R.Bad(construct, c.Pos(ins), "in range / non-nil in every context", strings.Join(sr.failures, " | "))
				continue
			}
			var proofs []string
			for p := range sr.proofs {
				proofs = append(proofs, p)
			}
			sort.Strings(proofs)
			if len(proofs) > 3 {
				proofs = proofs[:3]
			}
			triv := isTrivialSite(ins)
			if triv {
				nTrivial++
			}
			R.Obligation(construct, c.Pos(ins), triv, fmt.Sprintf("evaluated %d times", sr.evaluated), strings.Join(proofs, " ; "))
		}
	}
	pfx := "C02.1"
	if printerPart {
		pfx = "C11.7"
	}
	R.Count(pfx+".functions_in_parse_layer", len(fns))
	R.Count(pfx+".sites", nSites)
	R.Count(pfx+".trivial_sites(constant index into a fresh argument array)", nTrivial)
	for k, v := range counts {
		R.Count(pfx+".sites."+k, v)
	}
}

func isTrivialSite(ins ssa.Instruction) bool {
	ia, ok := ins.(*ssa.IndexAddr)
	if !ok {
		if sl, ok := ins.(*ssa.Slice); ok {
			if al, ok := sl.X.(*ssa.Alloc); ok && sl.Low == nil && sl.High == nil {
				_ = al
				return true
			}
		}
		return false
	}
	if _, ok := ia.Index.(*ssa.Const); !ok {
		return false
	}
	_, isAlloc := ia.X.(*ssa.Alloc)
	return isAlloc
}

func findPhiByKey(fr *sym.Frame, key string) *ssa.Phi {
	for _, b := range fr.Fn.Blocks {
		for _, ins := range b.Instrs {
			phi, ok := ins.(*ssa.Phi)
			if !ok {
				break
			}
			if v := fr.Val(phi); v != nil && v.Key() == key {
				return phi
			}
		}
	}
	return nil
}

// isPrinterSignature: func(b []byte, format string, args ...interface{}) - the shape of decode.printer.
func isPrinterSignature(sig *types.Signature) bool {
	if sig == nil || sig.Results().Len() != 0 || sig.Params().Len() != 3 || !sig.Variadic() {
		return false
	}
	b, ok := sig.Params().At(1).Type().Underlying().(*types.Basic)
	return tyIsByteSeq(sig.Params().At(0).Type()) && ok && b.Kind() == types.String
}
