package rules

import (
	"fmt"
	"go/constant"
	"go/types"
	"strings"

	"golang.org/x/tools/go/ssa"

	"ivgsa/internal/cfgx"
	"ivgsa/internal/poly"
	"ivgsa/internal/sym"
)

func init() { register("C15", ruleC15, ruleC15_6) }

// ruleC15_6: a gradient paint exists for every well-formed gradient: initGradient refuses nothing but invalid stops.
func ruleC15_6(c *Ctx) {
	c.R.Rule("C15.6", "every well-formed gradient is painted: initGradient visits the NSTOPS stops named by the gradient colour, reading colour register (CBASE+i) mod 64 and number register (NBASE+i) mod 64, and refuses exactly on a non-premultiplied stop colour, an offset outside [0,1] or a non-increasing offset - there is no other way to lose the paint (no bound on the stop count)", 4)
	r := c.newRend()
	if !r.ok {
		c.R.Unknown("render.(*Renderer).initGradient#validation", "-", "Renderer model not available")
		return
	}
	checkInitGradientValidation(c, r, "C15.6")
}

func ruleC15(c *Ctx) {
	R := c.R
	R.Assume("real arithmetic: rounding and the validity of the 16-bit results as premultiplied colours are not decided")
	f64 := types.Typ[types.Float64]

	// ---- C15.2 spread dispatch ----
	R.Rule("C15.2", "Spread.Clamp per spread mode: identity inside [0,1]; none -> a negative sentinel; pad -> 0 below, 1 above; repeat -> x - floor(x) on both sides; reflect -> a two-phase wave selected by a parity test whose even phase is repeat's expression and whose two phases sum to 1 everywhere (mirror condition), the negative side being the positive side applied to -x", 12)
	if fn := c.Method("render", "Spread", "Clamp", false); fn != nil {
		pos := c.FPos(fn)
		spreadT := c.Named("render", "Spread")
		xA := sym.Atom("param:x", f64)
		ge0 := sym.Bin(tokLEQ, sym.Const(constant.MakeFloat64(0), f64), xA, nil)
		le1 := sym.Bin(tokLEQ, xA, sym.Const(constant.MakeFloat64(1), f64), nil)
		for _, sp := range []string{"SpreadNone", "SpreadPad", "SpreadReflect", "SpreadRepeat"} {
			sv, ok := constVal(c, "render", sp)
			if !ok {
				continue
			}
			key := "render.(Spread).Clamp#" + sp
			in := c.Interp()
			in.Hooks = newSimpleHooks()
			args := in.RootArgs(fn)
			args[0] = sym.Const(constant.MakeInt64(sv), spreadT)
			res, _, _ := in.Run(fn, args, nil)
			leaves := sym.DeepCases(res, 64)
			if leaves == nil || len(in.Warn) > 0 {
				R.Unknown(key, pos, "too many cases or warnings")
				continue
			}
			type region struct {
				name string
				cond *sym.Term
			}
			regions := []region{{"inside", sym.And(ge0, le1)}, {"above", sym.And(ge0, sym.Not(le1))}, {"below", sym.Not(ge0)}}
			for _, rg := range regions {
				rk := key + ":" + rg.name
				var vals []poly.Case
				var parities []*sym.Term
				okNF := true
				for _, lf := range leaves {
					if sym.CondsContradict(append([]*sym.Term{rg.cond}, lf.Conds...)) {
						continue
					}
					env := poly.NewEnv()
					env.Rename[xA.Key()] = "x"
					v, okv := env.One(lf.Val)
					if !okv {
						okNF = false
						continue
					}
					// the conditions beyond the region split
					var lits []*sym.Term
					for _, cd := range lf.Conds {
						lits = append(lits, guardLits(cd)...)
					}
					// simplify each condition under the region's own literals
					var simp []*sym.Term
					for _, l := range lits {
						for _, rl := range guardLits(rg.cond) {
							if rl.Op == "not" {
								l = sym.Assume(l, rl.Args[0], false)
							} else {
								l = sym.Assume(l, rl, true)
							}
						}
						if bv, isC := l.BoolVal(); isC && bv {
							continue
						}
						simp = append(simp, guardLits(l)...)
					}
					lits = simp
					var extra []*sym.Term
					for _, l := range lits {
						if !impliesLit([]*sym.Term{rg.cond}, l) {
							extra = append(extra, l)
						}
					}
					// drop literals implied by the region and the other remaining ones
					for changed := true; changed; {
						changed = false
						for i, l := range extra {
							rest := append([]*sym.Term{rg.cond}, extra[:i]...)
							rest = append(rest, extra[i+1:]...)
							if impliesLit(rest, l) {
								extra = append(extra[:i:i], extra[i+1:]...)
								changed = true
								break
							}
						}
					}
					vals = append(vals, poly.Case{Conds: extra, Val: v})
					parities = append(parities, extra...)
				}
				if !okNF || len(vals) == 0 {
					R.Unknown(rk, pos, "no normal form")
					continue
				}
				X := poly.RatVar("x")
				negX := X.Neg()
				fl := func(arg poly.Rat) poly.Rat { return poly.RatVar("floor(" + arg.String() + ")") }
				single := func(want poly.Rat, what string) {
					ok := len(vals) == 1 && len(vals[0].Conds) == 0 && vals[0].Val.Equal(want)
					got := ""
					for _, v := range vals {
						got += v.Val.String() + " "
					}
					R.Check(ok, rk, pos, what+": "+want.String(), got)
				}
				if rg.name == "inside" {
					single(X, "identity")
					continue
				}
				switch sp {
				case "SpreadNone":
					ok := len(vals) == 1 && len(vals[0].Conds) == 0
					if ok {
						cv, isC := vals[0].Val.Num.IsConst()
						ok = isC && cv.Sign() < 0
					}
					R.Check(ok, rk, pos, "a negative constant (mapped to transparent by At)", vals[0].Val.String())
				case "SpreadPad":
					if rg.name == "above" {
						single(poly.RatInt(1), "the end colour's offset")
					} else {
						single(poly.RatInt(0), "the start colour's offset")
					}
				case "SpreadRepeat":
					single(X.Sub(fl(X)), "the fractional part")
				case "SpreadReflect":
					arg := X
					if rg.name == "below" {
						arg = negX
					}
					// two phases distinguished by one parity condition and its negation
					if len(vals) != 2 || len(vals[0].Conds) != 1 || len(vals[1].Conds) != 1 || !sym.Eq(sym.Not(vals[0].Conds[0]), vals[1].Conds[0]) {
						R.Bad(rk, pos, "two phases selected by one parity test", fmt.Sprintf("%d cases: %s | %s", len(vals), condKey(vals[0].Conds), condKey(vals[len(vals)-1].Conds)))
						continue
					}
					even, odd := vals[0], vals[1]
					// the even phase is the one whose condition is "(int(arg) & 1) == 0"
					if even.Conds[0].Op == "not" {
						even, odd = odd, even
					}
					pc := even.Conds[0]
					okPar := pc.Op == "bin" && pc.Name == "==" && pc.Args[1].Key() == "0" && pc.Args[0].Op == "bin" && pc.Args[0].Name == "&" && pc.Args[0].Args[1].Key() == "1"
					if okPar {
						// parity of the truncation of arg
						e2 := poly.NewEnv()
						e2.Rename[xA.Key()] = "x"
						inner := pc.Args[0].Args[0]
						for inner.Op == "conv" && !(inner.Args[0].T != nil && isFloatT(inner.Args[0].T)) {
							inner = inner.Args[0]
						}
						if inner.Op == "conv" {
							a, oka := e2.One(inner.Args[0])
							okPar = oka && a.Equal(arg)
						} else {
							okPar = false
						}
					}
					R.Check(okPar, rk+":parity", pos, "phase chosen by the parity of the integer part of "+arg.String(), shortKey(pc))
					f := arg.Sub(fl(arg))
					R.Check(even.Val.Equal(f), rk+":even", pos, "even phase = repeat's expression "+f.String(), even.Val.String())
					sum := even.Val.Add(odd.Val)
					R.Check(sum.Equal(poly.RatInt(1)), rk+":mirror", pos, "the two phases are complementary everywhere: even + odd = 1 (in particular at integers, where the wave must be continuous)", "even + odd = "+sum.String()+" (odd phase "+odd.Val.String()+")")
				}
			}
		}
	}

	// ---- C15.3/4 At: shape, interpolation, end colours ----
	gradT := c.Named("render", "Gradient")
	if at := c.Method("render", "Gradient", "At", true); at != nil && gradT != nil {
		pos := c.FPos(at)
		R.Rule("C15.4", "shape: linear evaluates row 0 of the pixel->gradient matrix at the pixel centre (x+1/2, y+1/2); radial takes the distance sqrt(gx^2+gy^2) of rows 0 and 1; the spread's Clamp is applied to that offset", 4)
		R.Rule("C15.3", "interpolation: inside a range [O0,O1] the colour is ((1-t)*C0 + t*C1) per channel with t = (o-O0)/Width, each channel from its own fields; a not->=0 offset gives transparent; below the first range the first colour; past the last range the last colour; ranges are built from consecutive stops with Width = O1-O0; Init takes First/Last from the first/last stop", 12)
		shapeT := c.Named("render", "Shape")
		for _, sh := range []string{"ShapeLinear", "ShapeRadial"} {
			sv, ok := constVal(c, "render", sh)
			if !ok {
				continue
			}
			in := c.Interp()
			h := newSimpleHooks("Clamp")
			h.pins[fmt.Sprintf("param:g|.%d", fieldIndex(gradT, "Shape"))] = sym.Const(constant.MakeInt64(sv), shapeT)
			in.Hooks = h
			_, _, fr := in.Run(at, nil, nil)
			// the loop over the ranges lives in At itself or in a helper it was split into
			lfr := fr
			for _, f := range append([]*sym.Frame{fr}, collectFrames(in.Events)...) {
				if len(f.Headers()) == 1 {
					lfr = f
					break
				}
			}
			key := "render.(*Gradient).At#" + sh
			var clamp *sym.Event
			for _, ev := range in.Events {
				if ev.Kind == "opaquecall" && ev.Callee == "Clamp" {
					clamp = ev
				}
			}
			R.Use("C15.4")
			if clamp == nil || len(clamp.Args) != 2 {
				R.Bad(key+":clamp", pos, "the offset goes through Spread.Clamp", "no call")
				continue
			}
			R.Check(clamp.Args[0].Key() == fmt.Sprintf("$init:param:g.%d", fieldIndex(gradT, "Spread")), key+":spread", pos, "the gradient's own spread", shortKey(clamp.Args[0]))
			env := poly.NewEnv()
			pi := fieldIndex(gradT, "Pix2Grad")
			for k := 0; k < 6; k++ {
				env.Rename[fmt.Sprintf("$init:param:g.%d[%d]", pi, k)] = fmt.Sprintf("P%d", k)
			}
			env.Rename["$param:x"] = "x"
			env.Rename["$param:y"] = "y"
			off, okp := env.One(clamp.Args[1])
			half := poly.RatInt(1).Div(poly.RatInt(2))
			px, py := v("x").Add(half), v("y").Add(half)
			gx := v("P0").Mul(px).Add(v("P1").Mul(py)).Add(v("P2"))
			gy := v("P3").Mul(px).Add(v("P4").Mul(py)).Add(v("P5"))
			if sh == "ShapeLinear" {
				R.Check(okp && off.Equal(gx), key+":offset", pos, "P0*(x+1/2) + P1*(y+1/2) + P2", off.String())
			} else {
				sq := env.SqrtSquare(off.Mul(off))
				R.Check(okp && sq.Equal(gx.Mul(gx).Add(gy.Mul(gy))) && strings.Contains(off.String(), "sqrt"), key+":offset", pos, "sqrt(gx^2 + gy^2)", off.String())
			}
			// interpolation and end colours: classify the returns (both shapes: everything after the offset is shared)
			R.Use("C15.3")
			oT := sym.Call("Clamp", f64, clamp.Args...)
			ri := fieldIndex(gradT, "Ranges")
			first := fmt.Sprintf("$init:param:g.%d", fieldIndex(gradT, "First"))
			last := fmt.Sprintf("$init:param:g.%d", fieldIndex(gradT, "Last"))
			nonneg := sym.Bin(tokLEQ, sym.Const(constant.MakeFloat64(0), f64), oT, nil)
			var sawTransparent, sawFirst, sawLast, sawInterp bool
			for _, ev := range in.Events {
				if ev.Kind != "return" || (ev.Frame != fr && ev.Frame != lfr) || len(ev.Args) == 0 || ev.Args[0] == nil {
					continue
				}
				val := ev.Args[0]
				if val.Op == "makeiface" {
					val = val.Args[0]
				}
				if ev.Frame == fr && fr != lfr && (val.Op == "ite" || (val.Op == "atom" && strings.HasPrefix(val.Name, "mem#"))) {
					// At merely forwards what the helper holding the range loop returned: those returns are classified
					// where they are made
					continue
				}
				g := ev.Guard
				switch {
				case val.Op == "zero":
					if strings.Contains(g.Key(), "len(") && !strings.Contains(g.Key(), "Clamp") {
						continue // no ranges at all
					}
					sawTransparent = true
					R.Check(impliesLit([]*sym.Term{g}, sym.Not(nonneg)), key+":transparent", c.Pos(ev.Site), "transparent exactly when not (offset >= 0)", shortKey(g))
				case val.Key() == first:
					sawFirst = true
					o0 := fmt.Sprintf("$init:deref:$init:param:g.%d[0].0", ri)
					want := sym.Bin(tokLSS, oT, keyTerm(o0), nil)
					okF := false
					for _, l := range guardLits(g) {
						if l.Op == "bin" && l.Name == "<" && sym.Eq(l.Args[0], oT) && l.Args[1].Key() == o0 {
							okF = true
						}
					}
					_ = want
					R.Check(okF, key+":first", c.Pos(ev.Site), "First when the offset is below the first range's start", shortKey(g))
				case val.Key() == last:
					sawLast = true
					// reached only after the loop over all ranges is exhausted
					okLast := len(lfr.Headers()) == 1 && ev.Frame == lfr
					if okLast {
						hb := lfr.Fn.Blocks[lfr.Headers()[0]]
						rb := ev.Site.Block()
						// the return lies behind the loop: dominated by its header and not part of it
						okLast = hb.Dominates(rb) && rb != hb
						if cfl := cfgx.New(lfr.Fn, nil); okLast {
							for _, b := range cfl.Loops[hb.Index] {
								if b == rb.Index {
									okLast = false
								}
							}
						}
					}
					R.Check(okLast, key+":last", c.Pos(ev.Site), "Last only after every range has been tried (the return is reached through the loop's exit)", "")
				case val.Op == "agg" && len(val.Args) == 4:
					sawInterp = true
					// range fields: Offset0, Offset1, Width, R0,R1,G0,G1,B0,B1,A0,A1
					rngT := c.Named("render", "Range")
					if rngT == nil {
						continue
					}
					// rename field:k(index(ranges, i)) -> names
					env2 := poly.NewEnv()
					var rterm *sym.Term
					sym.Walk(val, func(t *sym.Term) bool {
						if rterm == nil && t.Op == "field" && t.Args[0].Op == "index" {
							rterm = t.Args[0]
						}
						return true
					})
					if rterm == nil {
						R.Unknown(key+":interpolate", c.Pos(ev.Site), "range element not found")
						continue
					}
					st := rngT.Underlying().(*types.Struct)
					for k := 0; k < st.NumFields(); k++ {
						env2.Rename[sym.Field(rterm, k, st.Field(k).Type()).Key()] = st.Field(k).Name()
					}
					env2.Rename[oT.Key()] = "o"
					for ci, chn := range []string{"R", "G", "B", "A"} {
						ch := val.Args[ci]
						for ch.Op == "conv" {
							ch = ch.Args[0]
						}
						got, okc := env2.One(ch)
						t := v("o").Sub(v("Offset0")).Div(v("Width"))
						want := poly.RatInt(1).Sub(t).Mul(v(chn + "0")).Add(t.Mul(v(chn + "1")))
						R.Check(okc && got.Equal(want), key+":interpolate:"+chn, c.Pos(ev.Site), "(1-t)*"+chn+"0 + t*"+chn+"1, t=(o-Offset0)/Width", got.String())
					}
					// guard: Offset0 <= o <= Offset1
					inRange := 0
					for _, l := range guardLits(g) {
						if l.Op == "bin" && l.Name == "<=" {
							if sym.Eq(l.Args[1], oT) && strings.HasPrefix(l.Args[0].Key(), "field:0(") {
								inRange++
							}
							if sym.Eq(l.Args[0], oT) && strings.HasPrefix(l.Args[1].Key(), "field:1(") {
								inRange++
							}
						}
					}
					R.Check(inRange == 2, key+":interpolate:range", c.Pos(ev.Site), "when Offset0 <= o <= Offset1", shortKey(g))
				default:
					R.Bad(key+":return", c.Pos(ev.Site), "every return is transparent, the first colour, an interpolated colour or the last colour", shortKey(val))
				}
			}
			R.Check(sawTransparent && sawFirst && sawLast && sawInterp, key+":cases", pos, "transparent, first, interpolated, last", fmt.Sprintf("%v %v %v %v", sawTransparent, sawFirst, sawInterp, sawLast))
		}
		// MakeRange, AppendRanges, Init
		R.Use("C15.3")
		if mr := c.Fn("render", "MakeRange"); mr != nil {
			in := c.Interp()
			res, _, _ := in.Run(mr, nil, nil)
			rngT := c.Named("render", "Range")
			stopT := c.Named("render", "Stop")
			ok := res != nil && res.Op == "agg" && rngT != nil && stopT != nil
			detail := shortKey(res)
			if ok {
				st := rngT.Underlying().(*types.Struct)
				env := poly.NewEnv()
				get := func(name string) (poly.Rat, bool) {
					i := fieldIndex(rngT, name)
					if i < 0 || i >= len(res.Args) {
						return poly.Rat{}, false
					}
					return env.One(res.Args[i])
				}
				_ = st
				offI, colI := fieldIndex(stopT, "Offset"), fieldIndex(stopT, "RGBA64")
				name := func(p string, f int) string { return fmt.Sprintf("field:%d($param:%s)", f, p) }
				env.Rename[name("s0", offI)] = "o0"
				env.Rename[name("s1", offI)] = "o1"
				for ci, chn := range []string{"R", "G", "B", "A"} {
					env.Rename[fmt.Sprintf("field:%d(%s)", ci, name("s0", colI))] = chn + "s0"
					env.Rename[fmt.Sprintf("field:%d(%s)", ci, name("s1", colI))] = chn + "s1"
				}
				o0, k1 := get("Offset0")
				o1, k2 := get("Offset1")
				w, k3 := get("Width")
				ok = k1 && k2 && k3 && o0.Equal(v("o0")) && o1.Equal(v("o1")) && w.Equal(v("o1").Sub(v("o0")))
				for _, chn := range []string{"R", "G", "B", "A"} {
					a, ka := get(chn + "0")
					b, kb := get(chn + "1")
					if !ka || !kb || !a.Equal(v(chn+"s0")) || !b.Equal(v(chn+"s1")) {
						ok = false
						detail = "channel " + chn
					}
				}
			}
			R.Check(ok, "render.MakeRange", c.FPos(mr), "Offset0/1 and colours from stop 0/1, Width = Offset1 - Offset0", detail)
		}
		if ar := c.Fn("render", "AppendRanges"); ar != nil {
			in := c.Interp()
			in.Hooks = newSimpleHooks("MakeRange")
			in.Run(ar, nil, nil)
			var loopCall *sym.Event
			for _, ev := range in.Events {
				if ev.Kind == "opaquecall" && ev.Callee == "MakeRange" && len(ev.Loops) == 1 {
					loopCall = ev
				}
			}
			ok := false
			detail := "no MakeRange in a loop"
			if loopCall == nil {
				for _, ev := range in.Events {
					if ev.Callee == "MakeRange" {
						detail += fmt.Sprintf(" [%s loops=%d]", ev.Kind, len(ev.Loops))
					}
				}
				detail += " warn=" + strings.Join(in.Warn, ";")
			}
			if loopCall != nil {
				li, okl := loopCall.Loops[0].Frame.Loop(loopCall.Loops[0].Header)
				a0, a1 := loopCall.Args[0], loopCall.Args[1]
				detail = fmt.Sprintf("MakeRange(%s, %s) counted loop=%v", shortKey(a0), shortKey(a1), okl)
				// the first stop of a range may be carried round the loop instead of being indexed again: a variable that
				// starts as stops[0] and becomes, on the way round, the stop just used as the second one - by induction it
				// is stops[i] in round i
				if okl && a0.Op == "atom" && a1.Op == "index" {
					lf := loopCall.Loops[0].Frame
					if phi := phiOfAtom(lf, a0); phi != nil && phi.Block().Index == loopCall.Loops[0].Header {
						pinit, pback := phiEdges(lf, phi)
						detail += fmt.Sprintf(" carried: init=%s back=%s", argKeys(pinit), argKeys(pback))
						i00, _ := li.Init.Int64()
						first := false
						if len(pinit) == 1 {
							switch {
							case pinit[0].Op == "index":
								first = sameInt(pinit[0].Args[1], sym.Int(i00+li.Offset)) && strings.Contains(pinit[0].Args[0].Key(), "param:stops")
							default:
								// the element as first loaded from the caller's slice
								first = strings.HasSuffix(pinit[0].Key(), fmt.Sprintf("param:stops[%d]", i00+li.Offset))
							}
						}
						if first && len(pback) == 1 && sym.Eq(pback[0], a1) {
							a0 = sym.Index(a1.Args[0], li.IndexVal, a0.T)
						}
					}
				}
				if okl && a0.Op == "index" && a1.Op == "index" {
					i0 := a0.Args[1]
					want := sym.Bin(tokADD, i0, sym.Int(1), types.Typ[types.Int])
					init, _ := li.Init.Int64()
					ok = sameInt(a1.Args[1], want) && sameInt(i0, li.IndexVal) && init+li.Offset == 0 && li.Step == 1 &&
						strings.Contains(li.Bound.Key(), "len($param:stops)") && strings.Contains(a0.Args[0].Key(), "param:stops") && strings.Contains(a1.Args[0].Key(), "param:stops")
					detail = fmt.Sprintf("MakeRange(%s, %s) bound %s", shortKey(a0), shortKey(a1), shortKey(li.Bound))
					// bound must be len(stops)-1
					e := poly.NewEnv()
					e.Rename["len($param:stops)"] = "n"
					if b, okb := e.One(li.Bound); !okb || !b.Equal(v("n").Sub(poly.RatInt(1))) {
						ok = false
					}
				}
			}
			R.Check(ok, "render.AppendRanges", c.FPos(ar), "range i = MakeRange(stops[i], stops[i+1]) for i in 0..len-2", detail)
		}
		if init := c.Method("render", "Gradient", "Init", true); init != nil {
			in := c.Interp()
			in.Hooks = newSimpleHooks("AppendRanges")
			_, mem, fr := in.Run(init, nil, nil)
			_ = fr
			ok := mem != nil
			detail := ""
			if ok {
				gobj := in.ParamObj("g", gradT)
				for _, f := range []struct{ field, param string }{{"Shape", "shape"}, {"Spread", "spread"}, {"Pix2Grad", "pix2Grad"}} {
					got := in.LoadAt(mem, gobj, sym.Path{sym.F(fieldIndex(gradT, f.field))})
					if got.Key() != "$param:"+f.param {
						ok = false
						detail = f.field + " = " + shortKey(got)
					}
				}
				rg := in.LoadAt(mem, gobj, sym.Path{sym.F(fieldIndex(gradT, "Ranges"))})
				if rg.Op != "call" || rg.Name != "AppendRanges" || !strings.Contains(rg.Args[1].Key(), "param:stops") || sym.Len(rg.Args[0]).Key() != "0" {
					ok = false
					detail = "Ranges = " + shortKey(rg)
				}
				fs := in.LoadAt(mem, gobj, sym.Path{sym.F(fieldIndex(gradT, "First"))})
				ls := in.LoadAt(mem, gobj, sym.Path{sym.F(fieldIndex(gradT, "Last"))})
				okF, okL := false, false
				for _, lf := range sym.DeepCases(fs, 8) {
					if strings.Contains(lf.Val.Key(), "param:stops[0]") || strings.Contains(lf.Val.Key(), "index($init:deref:$param:stops,0)") {
						okF = true
					}
				}
				for _, lf := range sym.DeepCases(ls, 8) {
					k := lf.Val.Key()
					if strings.Contains(k, "bin:-(len($param:stops),1)") {
						okL = true
					}
				}
				if !okF || !okL {
					ok = false
					detail = "First = " + shortKey(fs) + " Last = " + shortKey(ls)
				}
			}
			R.Check(ok, "render.(*Gradient).Init", c.FPos(init), "stores shape, spread, matrix, ranges rebuilt from [:0], First/Last from the first/last stop", detail)
		}
	}

	// ---- C15.1 pixel -> gradient matrix ----
	R.Rule("C15.1", "the matrix handed to Gradient.Init composes the viewBox->gradient matrix in the six number registers with the pixel->viewBox map: pix2Grad*(px,py,1) = M*(unabsX(px), unabsY(py), 1) as an identity in px, py; the composition is done in float64", 3)
	if ig := c.Method("render", "Renderer", "initGradient", true); ig != nil {
		r := c.newRend()
		if r.ok {
			rin, _, _ := r.run(ig, map[string]*sym.Term{"nReg": sym.Atom("nReg", nil), "cReg": sym.Atom("cReg", nil)}, "ValidAlphaPremulColor", "DecodeGradient", "Init")
			var init *sym.Event
			for _, ev := range rin.Events {
				if ev.Kind == "opaquecall" && ev.Callee == "Init" {
					init = ev
				}
			}
			if init == nil || len(init.Args) != 5 || init.Args[3].Op != "agg" || len(init.Args[3].Args) != 6 {
				R.Bad("render.(*Renderer).initGradient#matrix", c.FPos(ig), "a 2x3 matrix handed to Init", "not found")
			} else {
				// precision: the composition is carried out in float64 - the float32 inputs (registers, scale, bias)
				// are widened before any arithmetic is done on them. (Composing in float32 and widening the result
				// loses the low bits of the reciprocal pixel scale, which shows as wrong colours at exact offsets.)
				narrow := ""
				f32t := types.Typ[types.Float32]
				pin2 := map[string]*sym.Term{"nReg": sym.Atom("nReg", nil), "cReg": sym.Atom("cReg", nil),
					"scaleX": sym.Atom("scaleX", f32t), "scaleY": sym.Atom("scaleY", f32t), "biasX": sym.Atom("biasX", f32t), "biasY": sym.Atom("biasY", f32t)}
				rin2, _, _ := r.run(ig, pin2, "ValidAlphaPremulColor", "DecodeGradient", "Init")
				var init2 *sym.Event
				for _, ev := range rin2.Events {
					if ev.Kind == "opaquecall" && ev.Callee == "Init" {
						init2 = ev
					}
				}
				var entries []*sym.Term
				if init2 != nil && len(init2.Args) == 5 && init2.Args[3].Op == "agg" {
					entries = init2.Args[3].Args
				} else {
					narrow = "matrix not found with the transform fields pinned"
				}
				for _, e := range entries {
					sym.Walk(e, func(t *sym.Term) bool {
						if t.Op == "bin" && t.T != nil {
							if b, isB := t.T.Underlying().(*types.Basic); isB && b.Kind() == types.Float32 {
								switch t.Name {
								case "+", "-", "*", "/":
									narrow = shortKey(t)
								}
							}
						}
						return narrow == ""
					})
				}
				R.Check(narrow == "", "render.(*Renderer).initGradient#matrix.float64", c.FPos(ig), "every arithmetic step of the matrix composition is done in float64", "a float32 operation: "+narrow)
				env := r.env()
				// name the six matrix registers by their offset from NBASE
				var regs []*sym.Term
				for _, e := range init.Args[3].Args {
					sym.Walk(e, func(t *sym.Term) bool {
						if t.Op == "index" && t.Args[0].Key() == "$nReg" {
							regs = append(regs, t)
						}
						return true
					})
				}
				for _, rg := range regs {
					if x, isMod := mod64(rg.Args[1]); isMod {
						e2 := poly.NewEnv()
						e2.Rename["extract:1(call:DecodeGradient($param:rgba))"] = "nBase"
						if p, okp := e2.One(x); okp {
							d := p.Sub(v("nBase")).Add(poly.RatInt(6))
							if cv, isC := d.Num.IsConst(); isC {
								f, _ := cv.Float64()
								env.Rename[rg.Key()] = fmt.Sprintf("m%d", int(f))
							}
						}
					}
				}
				var P []poly.Rat
				okAll := true
				for _, e := range init.Args[3].Args {
					p, okp := env.One(e)
					if !okp {
						okAll = false
					}
					P = append(P, p)
				}
				g := newGeom()
				if okAll {
					px, py := v("px"), v("py")
					ux := px.Mul(g.W).Div(g.Dx).Add(v("vb.MinX"))
					uy := py.Mul(g.H).Div(g.Dy).Add(v("vb.MinY"))
					for row := 0; row < 2; row++ {
						got := P[3*row].Mul(px).Add(P[3*row+1].Mul(py)).Add(P[3*row+2])
						want := v(fmt.Sprintf("m%d", 3*row)).Mul(ux).Add(v(fmt.Sprintf("m%d", 3*row+1)).Mul(uy)).Add(v(fmt.Sprintf("m%d", 3*row+2)))
						R.Check(got.Equal(want), fmt.Sprintf("render.(*Renderer).initGradient#matrix.row%d", row), c.FPos(ig), "M row applied to the un-mapped pixel", got.String())
					}
				} else {
					R.Unknown("render.(*Renderer).initGradient#matrix", c.FPos(ig), "no normal form")
				}
				// stops: offset and colour scaled to 16 bits
				_ = init
			}
		}
	}

	// ---- C15.5 accessors ----
	R.Rule("C15.5", "accessors: GradientShape/SpreadMethod return the stored shape/spread, Transform returns the six matrix entries in a..f order", 3)
	if gradT != nil {
		for _, a := range []struct{ m, field string }{{"GradientShape", "Shape"}, {"SpreadMethod", "Spread"}} {
			fn := c.Method("render", "Gradient", a.m, true)
			if fn == nil {
				continue
			}
			in := c.Interp()
			res, _, _ := in.Run(fn, nil, nil)
			want := fmt.Sprintf("$init:param:g.%d", fieldIndex(gradT, a.field))
			R.Check(res != nil && stripConv(res).Key() == want, "render.(*Gradient)."+a.m, c.FPos(fn), "the stored "+a.field, shortKey(res))
		}
		if fn := c.Method("render", "Gradient", "Transform", true); fn != nil {
			in := c.Interp()
			res, _, _ := in.Run(fn, nil, nil)
			ok := res != nil && res.Op == "tuple" && len(res.Args) == 6
			if ok {
				for k, a := range res.Args {
					if a.Key() != fmt.Sprintf("$init:param:g.%d[%d]", fieldIndex(gradT, "Pix2Grad"), k) {
						ok = false
					}
				}
			}
			R.Check(ok, "render.(*Gradient).Transform", c.FPos(fn), "Pix2Grad[0..5] in order", shortKey(res))
		}
	}
}

func isFloatT(t types.Type) bool {
	b, ok := t.Underlying().(*types.Basic)
	return ok && b.Info()&types.IsFloat != 0
}

var _ ssa.Value

func init() { register("C15", ruleC15_7) }

// ruleC15_7: the stops the paint interpolates are the stops the registers hold. initGradient writes stop i of the
// scratch array from colour register (CBASE+i) mod 64 and number register (NBASE+i) mod 64 - the offset as it is, each
// colour channel widened to 16 bits by 0x101 - inside the stop loop and nowhere else, and hands exactly the first
// NSTOPS elements to Gradient.Init.
func ruleC15_7(c *Ctx) {
	R := c.R
	R.Rule("C15.7", "the stops interpolated are the stops in the registers: initGradient stores stop i (the stop loop's counter) as {offset: NREG[(NBASE+i) mod 64], colour: each channel of CREG[(CBASE+i) mod 64] times 0x101, channels in place}, stores into the stop array nowhere else, and hands Gradient.Init the first NSTOPS elements of that array", 4)
	r := c.newRend()
	ig := c.Method("render", "Renderer", "initGradient", true)
	if !r.ok || ig == nil {
		return
	}
	pos := c.FPos(ig)
	key := "render.(*Renderer).initGradient#stops"
	stopsPath := r.fieldPath("stops")
	if stopsPath == nil {
		return
	}
	in := c.Interp()
	h := c.newRendHooks(in)
	for _, o := range []string{"ValidAlphaPremulColor", "DecodeGradient", "Init"} {
		h.opaque[o] = true
	}
	type st struct {
		path  sym.Path
		val   *sym.Term
		loops []sym.LoopRef
		site  ssa.Instruction
	}
	var stores []st
	in.OnStore = func(fr *sym.Frame, site ssa.Instruction, ptr, val *sym.Term) {
		if ptr == nil || ptr.Obj == nil || !strings.HasSuffix(ptr.Obj.ID, "param:z") || len(ptr.Path) <= len(stopsPath) {
			return
		}
		for i, e := range stopsPath {
			if ptr.Path[i].Field != e.Field {
				return
			}
		}
		if ev := in.Emit(fr, "store:stops", site, "", []*sym.Term{ptr, val}, nil); ev != nil {
			stores = append(stores, st{ptr.Path, val, ev.Loops, site})
		}
	}
	mem := r.resetM.Clone()
	zobj := in.ParamObj("z", r.T)
	mem.Store(zobj, r.fieldPath("cReg"), sym.Atom("cReg", nil))
	mem.Store(zobj, r.fieldPath("nReg"), sym.Atom("nReg", nil))
	in.Run(ig, nil, mem)
	var initEv *sym.Event
	for _, ev := range in.Events {
		if ev.Kind == "opaquecall" && ev.Callee == "Init" {
			initEv = ev
		}
	}
	if initEv == nil || len(initEv.Args) != 5 {
		R.Unknown(key, pos, "the call of Gradient.Init was not found")
		return
	}
	dg := func(k int) *sym.Term {
		return sym.Extract(sym.Call("DecodeGradient", nil, sym.Atom("param:rgba", nil)), k, types.Typ[types.Uint8])
	}
	// what Init gets
	sl := initEv.Args[4]
	okSl := sl.Op == "slice" && len(sl.Args) == 3 && sl.Args[0].Op == "ptr" && sl.Args[0].Path.String() == stopsPath.String() &&
		sl.Args[1].Key() == "0" && stripIntConv(sl.Args[2]).Key() == dg(4).Key()
	R.Check(okSl, key+":handed-on", c.Pos(initEv.Site), "Init(..., z.stops[:NSTOPS])", shortKey(sl))
	// the stores
	var loop *sym.LoopRef
	bad := ""
	perField := map[string]*sym.Term{}
	var idx *sym.Term
	for _, s := range stores {
		if len(s.loops) != 1 {
			bad = "a store into the stop array outside the stop loop at " + c.Pos(s.site)
			continue
		}
		if loop == nil {
			l := s.loops[0]
			loop = &l
		} else if loop.Header != s.loops[0].Header || loop.Frame != s.loops[0].Frame {
			bad = "stores into the stop array in two different loops (" + c.Pos(s.site) + ")"
			continue
		}
		e := s.path[len(stopsPath)]
		if e.Sym == nil {
			bad = "a store at a fixed index " + fmt.Sprint(e.Index)
			continue
		}
		if idx == nil {
			idx = e.Sym
		} else if !sym.Eq(idx, e.Sym) {
			bad = "stores at two different indices in one round"
		}
		// a whole Stop (or a whole colour) stored at once counts field by field
		var spread func(prefix string, v *sym.Term)
		spread = func(prefix string, v *sym.Term) {
			if v != nil && v.Op == "agg" {
				for k, a := range v.Args {
					spread(fmt.Sprintf("%s.%d", prefix, k), a)
				}
				return
			}
			perField[prefix] = v
		}
		spread(s.path[len(stopsPath)+1:].String(), s.val)
	}
	okIdx := false
	var li *sym.LoopInfo
	if loop != nil && idx != nil {
		if l, ok := loop.Frame.Loop(loop.Header); ok {
			li = l
			okIdx = sym.Eq(stripConv(idx), stripConv(l.IndexVal)) && stripIntConv(l.Bound).Key() == dg(4).Key()
		}
	}
	R.Check(bad == "" && okIdx, key+":where", pos, "stored at the stop loop's counter, in the stop loop (0..NSTOPS-1), nowhere else", bad+fmt.Sprintf(" (%d stores, index %s)", len(stores), shortKey(idx)))
	if li == nil {
		return
	}
	// the values: Stop{Offset float64, RGBA64{R,G,B,A uint16}}
	reg := func(t *sym.Term, regs string, base *sym.Term) bool {
		t = stripConv(t)
		if t.Op != "index" || t.Args[0].Key() != regs {
			return false
		}
		x, ok := mod64(t.Args[1])
		if !ok {
			return false
		}
		e := poly.NewEnv()
		e.Rename[base.Key()] = "base"
		e.Rename[li.IndexVal.Key()] = "i"
		e.Rename[stripConv(li.IndexVal).Key()] = "i"
		g, ok := e.One(x)
		return ok && g.Equal(v("base").Add(v("i")))
	}
	okOff := perField[".0"] != nil && reg(perField[".0"], "$nReg", dg(1))
	R.Check(okOff, key+":offset", pos, "offset = NREG[(NBASE+i) mod 64]", shortKey(perField[".0"]))
	okCol := true
	detail := ""
	for ch := 0; ch < 4; ch++ {
		val := perField[fmt.Sprintf(".1.%d", ch)]
		if val == nil {
			okCol, detail = false, fmt.Sprintf("channel %d is not stored", ch)
			continue
		}
		// uint16(c.X) * 0x101
		vv := val
		okCh := vv.Op == "bin" && vv.Name == "*" && len(vv.Args) == 2
		if okCh {
			a, b := vv.Args[0], vv.Args[1]
			if a.IsConst() {
				a, b = b, a
			}
			k, isC := b.Int64()
			src := stripConv(a)
			okCh = isC && k == 0x101 && src.Op == "field" && src.Name == fmt.Sprint(ch) && reg(src.Args[0], "$cReg", dg(0))
		}
		if !okCh {
			okCol, detail = false, fmt.Sprintf("channel %d = %s", ch, shortKey(val))
		}
	}
	R.Check(okCol, key+":colour", pos, "each channel = the same channel of CREG[(CBASE+i) mod 64] times 0x101", detail)
}
