package rules

import (
	"fmt"
	"go/types"
	"strings"

	"ivgsa/internal/sym"
)

func init() { register("C01", ruleC01_6, ruleC01_8) }

// ruleC01_8: the resolution a path is written with (shared with C08.4).
func ruleC01_8(c *Ctx) {
	m := c.newEncModel()
	if !m.ok {
		return
	}
	c.R.Rule("C01.8", "resolution of a path: the bytes StartPath writes (its own start point included) and the flag the rest of the path is quantised with are determined by the public HighResolutionCoordinates field at the time of StartPath, never by the copy an earlier path left; no drawing method changes it", 20)
	c.checkResolutionLatch(m)
}

// ruleC01_6: end-of-input agreement between the decoder and the Encoder.
//
// The converse clause of C01 quantifies over every stream the decoder accepts.
// The decoder accepts when the input ends; whether it does so only in styling
// mode is read off the path condition of its final "return nil". For every
// mode in which it accepts, Encoder.Bytes in the corresponding mode must either
// fail or hand out bytes that contain the operations received so far, i.e. its
// result must depend on the pending (not yet flushed) drawing operations.
func ruleC01_6(c *Ctx) {
	R := c.R
	R.Rule("C01.6", "end-of-input agreement: in every mode in which the decoder accepts the end of the input, Encoder.Bytes either reports an error or returns bytes that include the drawing operations received but not yet written (its result depends on the pending operation and its arguments)", 2)
	dec := c.Fn("decode", "decode")
	bytesFn := c.Method("encode", "Encoder", "Bytes", true)
	m := c.newEncModel()
	if dec == nil || bytesFn == nil || !m.ok {
		R.Unknown("decode.decode#end-of-input", "-", "decode.decode or Encoder.Bytes not found")
		return
	}
	// decoder side
	h := c.newDecHooks()
	h.opaque["decodeMetadataChunk"] = true
	in := c.Interp()
	in.Hooks = h
	_, _, fr := in.Run(dec, nil, nil)
	var mf *sym.Event
	for _, ev := range in.Events {
		if ev.Kind == "indirect" && len(ev.Args) == 3 {
			mf = ev
		}
	}
	if mf == nil {
		R.Unknown("decode.decode#end-of-input", c.FPos(dec), "the main loop's mode-function call was not found")
		return
	}
	acceptsAnyMode := false
	var endRet *sym.Event
	for _, ev := range in.Events {
		if ev.Kind != "return" || ev.Frame != fr || len(ev.Args) != 1 || ev.Args[0] == nil {
			continue
		}
		// a success return: the nil constant, or an error variable that can still be nil there (a loop written
		// "for err == nil && len(src) > 0" with a single "return err" after it)
		if !ev.Args[0].IsNil() {
			isNil := sym.Bin(tokEQL, ev.Args[0], sym.Nil(ev.Args[0].T), nil)
			can := ev.Args[0].Op == "atom" && !sym.CondsContradict([]*sym.Term{ev.Guard, isNil}) && impliesSomewhere(ev.Guard, isNil)
			if !can {
				continue
			}
		}
		rb, mb := rootBlock(ev), rootBlock(mf)
		if rb == nil || mb == nil || !reaches(mb.Index, rb.Index, fr) {
			continue // "return nil" for metadataOnly, before the main loop
		}
		endRet = ev
		if !sym.Mentions(ev.Guard, mf.Callee) {
			acceptsAnyMode = true
		}
	}
	if endRet == nil {
		R.Unknown("decode.decode#end-of-input", c.FPos(dec), "no successful return after the main loop")
		return
	}
	R.OK("decode.decode#end-of-input", c.Pos(endRet.Site), fmt.Sprintf("accepts at end of input; conditional on the current mode: %v", !acceptsAnyMode))
	if !acceptsAnyMode {
		R.OK("encode.(*Encoder).Bytes#mode=Drawing:pending-operations", c.FPos(bytesFn), "the decoder rejects input that ends inside a path, nothing to agree on")
		return
	}
	// encoder side: Bytes in drawing mode with a pending operation
	modeT := c.Named("encode", "mode")
	noErr := sym.Nil(types.Universe.Lookup("error").Type())
	drawArgsIdx := -1
	if st, isS := m.T.Underlying().(*types.Struct); isS {
		for i := 0; i < st.NumFields(); i++ {
			if st.Field(i).Name() == "drawArgs" {
				drawArgsIdx = i
			}
		}
	}
	pendingOp := sym.Atom("pending.drawOp", types.Typ[types.Uint8])
	run := m.run(bytesFn, map[string]*sym.Term{"mode": modeConst(m.modes["modeDrawing"], modeT), "err": noErr, "drawOp": pendingOp}, nil, nil)
	ok, detail := false, "no result"
	if run.res != nil {
		ok = true
		nOK := 0
		for _, ev := range run.in.Events {
			if ev.Kind != "return" || ev.Frame != run.fr || len(ev.Args) == 0 || ev.Args[0] == nil {
				continue
			}
			res := ev.Args[0]
			if res.Op != "tuple" || len(res.Args) != 2 {
				ok, detail = false, "unexpected result "+shortKey(res)
				continue
			}
			if impliesLit(guardLits(ev.Guard), sym.Not(sym.Bin(tokEQL, res.Args[1], noErr, nil))) || (res.Args[1].Op == "makeiface") {
				continue // reports an error
			}
			hasArgs := false
			for d := range run.in.Deps(res.Args[0]) {
				if strings.Contains(d, "drawArgs") || strings.Contains(d, fmt.Sprintf("param:e.%d", drawArgsIdx)) {
					hasArgs = true
				}
			}
			if !hasArgs {
				ok, detail = false, "returns "+shortKey(res.Args[0])+" with a nil error at "+c.Pos(ev.Site)+": the pending drawing operation (drawOp, drawArgs) is not part of the returned bytes"
			} else {
				nOK++
			}
		}
		if ok {
			detail = fmt.Sprintf("%d successful return(s) depend on the pending arguments", nOK)
			ok = nOK > 0
		}
	}
	R.Check(ok, "encode.(*Encoder).Bytes#mode=Drawing:pending-operations", c.FPos(bytesFn), "error, or bytes that include the pending drawing operation", detail)
}


// impliesSomewhere: the literal occurs positively in the condition (one of its alternatives requires it).
func impliesSomewhere(g, lit *sym.Term) bool {
	found := false
	var walk func(t *sym.Term, pos bool)
	walk = func(t *sym.Term, pos bool) {
		switch t.Op {
		case "and", "or":
			for _, a := range t.Args {
				walk(a, pos)
			}
		case "not":
			walk(t.Args[0], !pos)
		default:
			if pos && sym.Eq(t, lit) {
				found = true
			}
		}
	}
	walk(g, true)
	return found
}
