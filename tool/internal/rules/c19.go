package rules

import (
	"fmt"
	"go/constant"
	"go/types"
	"strings"

	"golang.org/x/tools/go/ssa"

	"ivgsa/internal/poly"
	"ivgsa/internal/sym"
)

func init() { register("C19", ruleC19, ruleC19_6) }

// ruleC19_6: "the stops given are the ones rendered" - the renderer's side: what the helpers wrote is accepted.
func ruleC19_6(c *Ctx) {
	c.R.Rule("C19.6", "what the helpers write is what the renderer accepts: initGradient walks exactly the NSTOPS registers the gradient value names and refuses only invalid stops (non-premultiplied colour, offset outside [0,1], non-increasing offsets), so all 58 stops that fit beside the matrix are rendered", 4)
	r := c.newRend()
	if !r.ok {
		c.R.Unknown("render.(*Renderer).initGradient#validation", "-", "Renderer model not available")
		return
	}
	checkInitGradientValidation(c, r, "C19.6")
}

// genHooks: invokes on ivg.Destination become DELIVER events; CSel()/NSel()
// return atoms versioned by the number of state-changing deliveries before
// them (kept in abstract memory), so that repeated read-backs without an
// intervening write are the same value.
type genHooks struct {
	sym.NoHooks
	c      *Ctx
	destT  types.Type
	opaque map[string]bool
	in     *sym.Interp
}

func (c *Ctx) newGenHooks(in *sym.Interp) *genHooks {
	h := &genHooks{c: c, opaque: map[string]bool{}, in: in}
	if n := c.Named("", "Destination"); n != nil {
		h.destT = n
	}
	in.Hooks = h
	return h
}

func (h *genHooks) verObj() *sym.Object {
	return h.in.Obj("alloc:destversion", "alloc", types.Typ[types.Int])
}

func (h *genHooks) Call(in *sym.Interp, fr *sym.Frame, site ssa.CallInstruction, callee *ssa.Function, args []*sym.Term) (bool, *sym.Term) {
	if site == nil {
		return false, nil
	}
	cc := site.Common()
	if callee == nil && cc.IsInvoke() && h.destT != nil && types.Identical(cc.Value.Type(), h.destT) {
		m := cc.Method.Name()
		ver := in.LoadAt(fr.Mem(), h.verObj(), nil)
		ev := in.Emit(fr, "deliver", site, m, args[1:], fr.Mem())
		if ev != nil {
			ev.Note = ver.Key()
		}
		switch m {
		case "CSel":
			return true, sym.Atom("cSel@"+ver.Key(), types.Typ[types.Uint8])
		case "NSel":
			return true, sym.Atom("nSel@"+ver.Key(), types.Typ[types.Uint8])
		}
		fr.Mem().Store(h.verObj(), nil, sym.Bin(tokADD, ver, sym.Int(1), types.Typ[types.Int]))
		return true, nil
	}
	if callee != nil && h.opaque[callee.Name()] {
		var rt types.Type
		if rs := callee.Signature.Results(); rs.Len() == 1 {
			rt = rs.At(0).Type()
		} else if rs.Len() > 1 {
			rt = rs
		}
		in.Emit(fr, "opaquecall", site, callee.Name(), canonArgs(callee, args), fr.Mem())
		if rt == nil {
			return true, nil
		}
		return true, sym.Call(callee.Name(), rt, args...)
	}
	return false, nil
}

// evBefore reports whether event a executes before event b on every path that
// executes b (both in the root frame or inlined under it): a's root block
// strictly dominates b's, or they share the block and a comes first.
func evBefore(a, b *sym.Event) bool {
	ba, bb := rootBlock(a), rootBlock(b)
	if ba == nil || bb == nil {
		return false
	}
	if ba == bb {
		return a.Seq < b.Seq
	}
	return ba.Dominates(bb)
}

func ruleC19(c *Ctx) {
	R := c.R
	R.Assume("real arithmetic for the geometry identities; a destination's CSel()/NSel() return the current selector and only change through the calls made (true for both bundled destinations, C07.1)")
	genT := c.Named("generate", "Generator")
	if genT == nil {
		return
	}
	run := func(name string, opaque ...string) (*sym.Interp, *sym.Term, *sym.Frame, *ssa.Function) {
		fn := c.Method("generate", "Generator", name, true)
		if fn == nil {
			return nil, nil, nil, nil
		}
		in := c.Interp()
		h := c.newGenHooks(in)
		for _, o := range opaque {
			h.opaque[o] = true
		}
		res, _, fr := in.Run(fn, nil, nil)
		return in, res, fr, fn
	}

	// ---- C19.1 geometry ----
	R.Rule("C19.1", "helper geometry as identities of rational functions: linear has offset 0 at (x1,y1), 1 at (x2,y2), constant along the perpendicular, second row zero; circular maps the centre to the origin, the point centre+radius vector to unit distance, is a uniform scale; elliptical maps centre, centre+r, centre+s to (0,0), (1,0), (0,1); shape, spread and stops are passed through", 19)
	matrixOf := func(name string) ([]poly.Rat, *poly.Env, *sym.Event, *ssa.Function) {
		in, _, _, fn := run(name, "SetGradient")
		if in == nil {
			return nil, nil, nil, nil
		}
		var call *sym.Event
		for _, ev := range in.Events {
			if ev.Kind == "opaquecall" && ev.Callee == "SetGradient" {
				call = ev
			}
		}
		if call == nil || len(call.Args) != 5 || call.Args[4].Op != "agg" || len(call.Args[4].Args) != 6 {
			R.Bad("generate.(*Generator)."+name+"#matrix", c.FPos(fn), "one call of SetGradient with a 2x3 matrix", "not found")
			return nil, nil, nil, fn
		}
		env := poly.NewEnv()
		for _, p := range fn.Params {
			env.Rename["$param:"+p.Name()] = p.Name()
		}
		var m []poly.Rat
		for _, e := range call.Args[4].Args {
			cs := env.Cases(e)
			if len(cs) != 1 || len(cs[0].Conds) != 0 {
				R.Unknown("generate.(*Generator)."+name+"#matrix", c.FPos(fn), "matrix entry has no normal form: "+shortKey(e))
				return nil, nil, nil, fn
			}
			m = append(m, env.SqrtSquare(cs[0].Val))
		}
		return m, env, call, fn
	}
	apply := func(m []poly.Rat, x, y poly.Rat) (poly.Rat, poly.Rat) {
		return m[0].Mul(x).Add(m[1].Mul(y)).Add(m[2]), m[3].Mul(x).Add(m[4].Mul(y)).Add(m[5])
	}
	passThrough := func(name string, call *sym.Event, fn *ssa.Function, wantShape string) {
		key := "generate.(*Generator)." + name
		shapeV, ok := constVal(c, "generate", wantShape)
		sv, isC := call.Args[1].Int64()
		R.Check(ok && isC && sv == shapeV, key+"#shape", c.FPos(fn), wantShape, shortKey(call.Args[1]))
		R.Check(call.Args[2].Key() == "$param:spread", key+"#spread", c.FPos(fn), "the spread argument", shortKey(call.Args[2]))
		R.Check(strings.Contains(call.Args[3].Key(), "$param:stops"), key+"#stops", c.FPos(fn), "the stops argument", shortKey(call.Args[3]))
	}
	if m, env, call, fn := matrixOf("SetLinearGradient"); m != nil {
		key := "generate.(*Generator).SetLinearGradient"
		pos := c.FPos(fn)
		x1, y1, x2, y2 := v("x1"), v("y1"), v("x2"), v("y2")
		o1, _ := apply(m, x1, y1)
		o2, _ := apply(m, x2, y2)
		dx, dy := x2.Sub(x1), y2.Sub(y1)
		o3, _ := apply(m, x1.Add(dy), y1.Sub(dx))
		R.Check(o1.IsZero(), key+"#offset0", pos, "offset 0 at (x1,y1)", o1.String())
		R.Check(o2.Equal(poly.RatInt(1)), key+"#offset1", pos, "offset 1 at (x2,y2)", o2.String())
		R.Check(o3.IsZero(), key+"#perpendicular", pos, "offset 0 along the perpendicular through (x1,y1)", o3.String())
		R.Check(m[3].IsZero() && m[4].IsZero() && m[5].IsZero(), key+"#row2", pos, "second row zero", m[3].String()+","+m[4].String()+","+m[5].String())
		passThrough("SetLinearGradient", call, fn, "GradientShapeLinear")
		_ = env
	}
	if m, env, call, fn := matrixOf("SetCircularGradient"); m != nil {
		key := "generate.(*Generator).SetCircularGradient"
		pos := c.FPos(fn)
		cx, cy, rx, ry := v("cx"), v("cy"), v("rx"), v("ry")
		ox, oy := apply(m, cx, cy)
		R.Check(ox.IsZero() && oy.IsZero(), key+"#centre", pos, "the centre maps to the origin", ox.String()+","+oy.String())
		px, py := apply(m, cx.Add(rx), cy.Add(ry))
		d2 := env.SqrtSquare(px.Mul(px).Add(py.Mul(py)))
		R.Check(d2.Equal(poly.RatInt(1)), key+"#radius", pos, "centre + radius vector maps to distance 1", d2.String())
		R.Check(m[0].Equal(m[4]) && m[1].IsZero() && m[3].IsZero(), key+"#uniform", pos, "a = e, b = d = 0", "")
		passThrough("SetCircularGradient", call, fn, "GradientShapeRadial")
	}
	if m, _, call, fn := matrixOf("SetEllipticalGradient"); m != nil {
		key := "generate.(*Generator).SetEllipticalGradient"
		pos := c.FPos(fn)
		cx, cy, rx, ry, sx, sy := v("cx"), v("cy"), v("rx"), v("ry"), v("sx"), v("sy")
		ox, oy := apply(m, cx, cy)
		R.Check(ox.IsZero() && oy.IsZero(), key+"#centre", pos, "the centre maps to the origin", ox.String()+","+oy.String())
		px, py := apply(m, cx.Add(rx), cy.Add(ry))
		R.Check(px.Equal(poly.RatInt(1)) && py.IsZero(), key+"#axis-r", pos, "centre + r maps to (1,0)", px.String()+","+py.String())
		qx, qy := apply(m, cx.Add(sx), cy.Add(sy))
		R.Check(qx.IsZero() && qy.Equal(poly.RatInt(1)), key+"#axis-s", pos, "centre + s maps to (0,1)", qx.String()+","+qy.String())
		passThrough("SetEllipticalGradient", call, fn, "GradientShapeRadial")
	}

	// ---- SetGradient ----
	in, _, fr, fn := run("SetGradient")
	if in == nil {
		return
	}
	pos := c.FPos(fn)
	key := "generate.(*Generator).SetGradient"
	var dels, reads []*sym.Event
	var errRets, okRets []*sym.Event
	for _, ev := range in.Events {
		switch ev.Kind {
		case "deliver":
			if ev.Callee == "CSel" || ev.Callee == "NSel" {
				reads = append(reads, ev)
			} else {
				dels = append(dels, ev)
			}
		case "return":
			if ev.Frame == fr && len(ev.Args) == 1 && ev.Args[0] != nil {
				if ev.Args[0].IsNil() {
					okRets = append(okRets, ev)
				} else {
					errRets = append(errRets, ev)
				}
			}
		}
	}
	byName := func(name string) []*sym.Event {
		var out []*sym.Event
		for _, ev := range dels {
			if ev.Callee == name {
				out = append(out, ev)
			}
		}
		return out
	}

	// C19.5 no truncating conversion feeds a range check
	R.Rule("C19.5", "no narrowing conversion of an unbounded length feeds a condition that guards an error return (the stop-count limit must be tested on the untruncated count)", 1)
	{
		bad := ""
		for _, r := range append(append([]*sym.Event{}, errRets...), okRets...) {
			g := r.Guard
			sym.Walk(g, func(t *sym.Term) bool {
				if t.Op == "conv" && t.Args[0].Op == "len" {
					if w, _, ok := intWidth(t.T); ok && w < int(sym.IntSize) {
						// fine if the same guard bounds the un-narrowed length within the narrow type
						bounded := false
						sym.Walk(g, func(a *sym.Term) bool {
							if a.Op == "bin" && a.Name == "<" && sym.Eq(a.Args[1], t.Args[0]) {
								if k, isC := a.Args[0].Int64(); isC && k < (int64(1)<<uint(w)) && impliesLit([]*sym.Term{g}, sym.Not(a)) {
									bounded = true
								}
							}
							return true
						})
						if !bounded {
							bad = shortKey(t)
						}
					}
				}
				return true
			})
		}
		R.Check(bad == "", key+"#uint8(len(stops))", pos, "the length is compared before it is narrowed", "a guard of an error return tests "+bad+", which wraps modulo 256 (300 stops pass as 44)")
	}

	// C19.3 errors before effects
	R.Rule("C19.3", "errors before effects: both documented errors are returned before anything is written (no state-changing delivery can precede or accompany an error return); the stop limit is 64 minus the six matrix registers", 3)
	{
		ok := len(errRets) == 2
		why := fmt.Sprintf("%d error returns", len(errRets))
		for _, r := range errRets {
			for _, d := range dels {
				if !sym.CondsContradict([]*sym.Term{r.Guard, d.Guard}) && !evBefore(r, d) && !exclusiveBlocks(fr, r, d) {
					ok, why = false, "delivery "+d.Callee+" is possible on a path that returns an error"
				}
			}
		}
		R.Check(ok, key+"#errors-first", pos, "two error returns, both before any write", why)
		// the limit constant
		limOK := false
		for _, r := range errRets {
			sym.Walk(r.Guard, func(t *sym.Term) bool {
				if t.Op == "bin" && t.Name == "<" {
					if k, isC := t.Args[0].Int64(); isC && k == 64-6 && strings.Contains(t.Args[1].Key(), "len($param:stops)") {
						limOK = true
					}
				}
				return true
			})
		}
		R.Check(limOK, key+"#limit", pos, "too many stops iff 58 < number of stops", "no such test")
		// overlap test: CSEL or CSEL+64 within [cBase, cBase+nStops)
		ovOK := false
		for _, r := range errRets {
			k := r.Guard.Key()
			if strings.Contains(k, "$cSel@0") && strings.Contains(k, "bin:+($cSel@0,64)") {
				ovOK = true
			}
		}
		R.Check(ovOK, key+"#overlap", pos, "the colour selector and the selector plus 64 are both tested against the stop range", "not found")
		// ... and exactly: over every selector value 0..63 and every stop count 0..64 (finite, enumerated completely by
		// substituting the constants into the guards of the error returns and folding), an error is returned iff there
		// are more than 58 stops or some stop register (10+i) mod 64, i < count, is the selected one
		{
			var cselAtom, lenTerm *sym.Term
			var guards []*sym.Term
			for _, r := range errRets {
				guards = append(guards, r.Guard)
				sym.Walk(r.Guard, func(t *sym.Term) bool {
					if t.Op == "atom" && t.Name == "cSel@0" {
						cselAtom = t
					}
					if t.Key() == "len($param:stops)" {
						lenTerm = t
					}
					return true
				})
			}
			okEx := cselAtom != nil && lenTerm != nil
			detail := "selector read or stop count not found in the guards"
			if okEx {
				detail = ""
				all := sym.Or(guards...)
				intT := types.Typ[types.Int]
				u8t := types.Typ[types.Uint8]
			outer:
				for L := int64(0); L <= 64; L++ {
					gl := sym.Subst(all, lenTerm, sym.Const(constant.MakeInt64(L), intT))
					for x := int64(0); x < 64; x++ {
						g := sym.Subst(gl, cselAtom, sym.Const(constant.MakeInt64(x), u8t))
						got, isC := simplifyBits(g).BoolVal()
						want := L > 58
						for i := int64(0); i < L && !want; i++ {
							if (10+i)%64 == x {
								want = true
							}
						}
						if !isC {
							okEx = false
							detail = fmt.Sprintf("CSEL=%d, %d stops: the guard does not fold to a constant: %s", x, L, shortKey(g))
							break outer
						}
						if got != want {
							okEx = false
							detail = fmt.Sprintf("CSEL=%d, %d stops: error returned = %v, wanted %v", x, L, got, want)
							break outer
						}
					}
				}
			}
			R.Check(okEx, key+"#errors-exact", pos, "an error iff more than 58 stops or CSEL is one of the stop registers (10+i) mod 64", detail)
		}
	}

	// C19.2 layout
	R.Rule("C19.2", "register layout: the gradient colour (naming CBASE, NBASE, shape, spread, NSTOPS) is written at ADJ 0 before the selectors move; the selectors are set to the bases; matrix entry i goes to NREG[NBASE-6+i] (ADJ 6-i, no increment) - the register initGradient reads it from; each stop writes colour then offset with post-increment, in stop order", 6)
	{
		creg := byName("SetCReg")
		nreg := byName("SetNReg")
		csel := byName("SetCSel")
		nsel := byName("SetNSel")
		if len(creg) != 2 || len(nreg) != 2 || len(csel) != 2 || len(nsel) != 2 {
			R.Bad(key+"#shape", pos, "two SetCReg, two SetNReg, two SetCSel, two SetNSel call sites", fmt.Sprintf("%d %d %d %d", len(creg), len(nreg), len(csel), len(nsel)))
		} else {
			// identify roles by loop nesting
			var gradW, stopC, matW, stopN *sym.Event
			for _, e := range creg {
				if len(e.Loops) == 0 {
					gradW = e
				} else {
					stopC = e
				}
			}
			for _, e := range nreg {
				if b, _ := e.Args[1].BoolVal(); b {
					stopN = e
				} else {
					matW = e
				}
			}
			// selectors: first pair sets the bases, second restores
			setC, restC := csel[0], csel[1]
			if !evBefore(setC, restC) {
				setC, restC = restC, setC
			}
			setN, restN := nsel[0], nsel[1]
			if !evBefore(setN, restN) {
				setN, restN = restN, setN
			}
			if gradW == nil || stopC == nil || matW == nil || stopN == nil {
				R.Bad(key+"#roles", pos, "gradient write, stop colour write, matrix write, stop offset write", "roles not found")
			} else {
				// gradient colour
				adj0, _ := gradW.Args[0].Int64()
				inc0, _ := gradW.Args[1].BoolVal()
				R.Check(gradW.Args[0].IsConst() && adj0 == 0 && !inc0 && evBefore(gradW, setC) && evBefore(gradW, setN), key+"#gradient.write", c.Pos(gradW.Site), "SetCReg(0, false, gradient) before the selectors are moved", fmt.Sprintf("adj=%s incr=%s", shortKey(gradW.Args[0]), shortKey(gradW.Args[1])))
				// the gradient value names the bases the selectors are set to
				gcol := gradW.Args[2]
				cBase, nBase := setC.Args[0], setN.Args[0]
				okNames := false
				detail := shortKey(gcol)
				if gcol.Op == "agg" && len(gcol.Args) == 2 && gcol.Args[1].Op == "agg" {
					// decode it with the repository's own DecodeGradient
					if dg := c.Fn("", "DecodeGradient"); dg != nil {
						in2 := c.Interp()
						res, _, _ := in2.Run(dg, []*sym.Term{gcol.Args[1]}, nil)
						if res != nil && res.Op == "tuple" && len(res.Args) == 5 {
							cb, e1 := toBits(res.Args[0], 8)
							nb, e2 := toBits(res.Args[1], 8)
							wcb, e3 := toBits(sym.Bin(tokAND, cBase, u8(63), types.Typ[types.Uint8]), 8)
							wnb, e4 := toBits(sym.Bin(tokAND, nBase, u8(63), types.Typ[types.Uint8]), 8)
							sh, e5 := toBits(res.Args[2], 8)
							sp, e6 := toBits(res.Args[3], 8)
							ns, e7 := toBits(res.Args[4], 8)
							wsh, _ := toBits(sym.Bin(tokAND, sym.Conv(sym.Atom("param:shape", c.Named("generate", "GradientShape")), types.Typ[types.Uint8]), u8(1), types.Typ[types.Uint8]), 8)
							wsp, _ := toBits(sym.Bin(tokAND, sym.Conv(sym.Atom("param:spread", c.Named("generate", "GradientSpread")), types.Typ[types.Uint8]), u8(3), types.Typ[types.Uint8]), 8)
							if e1 == nil && e2 == nil && e3 == nil && e4 == nil && e5 == nil && e6 == nil && e7 == nil {
								okNames = cb.equal(wcb) && nb.equal(wnb) && sh.equal(wsh) && sp.equal(wsp)
								// NSTOPS: the low six bits of the stop count
								_ = ns
								detail = fmt.Sprintf("CBASE=%s NBASE=%s shape=%s spread=%s", cb, nb, sh, sp)
							}
						}
					}
					// and it is a gradient-encoding colour
					// (the specification's test - alpha zero, bit 7 of blue set - on the bits of the colour written;
					// that ValidGradient is this test is C04.8's business, so its spelling does not matter here)
					if rgba := gcol.Args[1]; len(rgba.Args) == 4 {
						bb, eb := toBits(rgba.Args[2], 8)
						ab, ea := toBits(rgba.Args[3], 8)
						isGrad := eb == nil && ea == nil && bb[7].Atom == "" && bb[7].Const == 1
						for i := 0; isGrad && i < 8; i++ {
							if ab[i].Atom != "" || ab[i].Const != 0 {
								isGrad = false
							}
						}
						if !isGrad {
							okNames = false
							detail += fmt.Sprintf(" (not a gradient-encoding colour: B=%s A=%s)", shortKey(rgba.Args[2]), shortKey(rgba.Args[3]))
						}
					} else {
						okNames = false
						detail += " (colour literal not recognised)"
					}
				}
				R.Check(okNames, key+"#gradient.value", c.Pos(gradW.Site), "decodes (DecodeGradient) to the bases the selectors are set to, the shape and the spread, and is a gradient-encoding colour", detail)
				// matrix
				li, okl := (*sym.LoopInfo)(nil), false
				if len(matW.Loops) == 1 {
					li, okl = matW.Loops[0].Frame.Loop(matW.Loops[0].Header)
				}
				if !okl {
					R.Unknown(key+"#matrix", c.Pos(matW.Site), "matrix loop not recognised")
				} else {
					env := poly.NewEnv()
					env.Rename[li.IndexVal.Key()] = "i"
					adj, ok1 := env.One(matW.Args[0])
					trip, _ := loopTrip(matW.Loops[0])
					i0, _ := li.Init.Int64()
					okM := ok1 && adj.Equal(poly.RatInt(6).Sub(v("i"))) && trip == 6 && i0+li.Offset == 0
					val := matW.Args[2]
					okV := val.Op == "index" && val.Args[0].Key() == "$param:transform" && sym.Eq(val.Args[1], li.IndexVal)
					R.Check(okM && okV && evBefore(setN, matW), key+"#matrix", c.Pos(matW.Site), "for i in 0..5: SetNReg(6-i, false, transform[i]) after NSEL := NBASE", fmt.Sprintf("adj=%s value=%s trip=%d", shortKey(matW.Args[0]), shortKey(val), trip))
				}
				// stops
				adjC, _ := stopC.Args[0].Int64()
				adjN, _ := stopN.Args[0].Int64()
				incC, _ := stopC.Args[1].BoolVal()
				incN, _ := stopN.Args[1].BoolVal()
				sameLoop := len(stopC.Loops) == 1 && len(stopN.Loops) == 1 && stopC.Loops[0].Header == stopN.Loops[0].Header
				okS := stopC.Args[0].IsConst() && stopN.Args[0].IsConst() && adjC == 0 && adjN == 0 && incC && incN && sameLoop && evBefore(setC, stopC) && evBefore(setN, stopN)
				R.Check(okS, key+"#stops.write", c.Pos(stopC.Site), "per stop: SetCReg(0, true, colour) and SetNReg(0, true, offset), after the selectors are at the bases", "")
				if sameLoop {
					li, okl := stopC.Loops[0].Frame.Loop(stopC.Loops[0].Header)
					okR := okl && strings.Contains(li.Bound.Key(), "len($param:stops)")
					if okl {
						i0, _ := li.Init.Int64()
						okR = okR && i0+li.Offset == 0 && li.Step == 1
					}
					off := stopN.Args[2]
					okO := off.Op == "field" && off.Args[0].Op == "index" && okl && sym.Eq(off.Args[0].Args[1], li.IndexVal)
					R.Check(okR && okO, key+"#stops.order", c.Pos(stopN.Site), "stops are written in order, offset from the same stop as the colour", shortKey(off))
					// C19.6 colour conversion
					R.Rule("C19.6", "stop colours are converted with Color.RGBA() and >>8 per channel in R,G,B,A order, built as a direct colour", 1)
					col := stopC.Args[2]
					okC := col.Op == "agg" && len(col.Args) == 2 && col.Args[1].Op == "agg" && len(col.Args[1].Args) == 4
					if okC {
						for k, ch := range col.Args[1].Args {
							t := ch
							for t.Op == "conv" {
								t = t.Args[0]
							}
							if t.Op != "bin" || t.Name != ">>" || t.Args[1].Key() != "8" || t.Args[0].Op != "extract" || t.Args[0].Name != fmt.Sprint(k) {
								okC = false
							}
						}
					}
					R.Check(okC, key+"#stops.colour", c.Pos(stopC.Site), "RGBAColor{r>>8, g>>8, b>>8, a>>8}", shortKey(col))
					R.Use("C19.2")
				}
				// reader agreement: initGradient reads the matrix at (NBASE-6+k) mod 64 for k = 0..5 in a..f order
				if ig := c.Method("render", "Renderer", "initGradient", true); ig != nil {
					r := c.newRend()
					if r.ok {
						rin, _, _ := r.run(ig, map[string]*sym.Term{"nReg": sym.Atom("nReg", nil), "cReg": sym.Atom("cReg", nil)}, "ValidAlphaPremulColor", "DecodeGradient", "Init")
						var init *sym.Event
						for _, ev := range rin.Events {
							if ev.Kind == "opaquecall" && ev.Callee == "Init" {
								init = ev
							}
						}
						okRd := false
						detail := "Init call not found"
						if init != nil && len(init.Args) == 5 && init.Args[3].Op == "agg" && len(init.Args[3].Args) == 6 {
							okRd = true
							detail = ""
							for k, e := range init.Args[3].Args {
								// the entry must read exactly one number register: NREG[(NBASE - 6 + k) mod 64]
								var regs []*sym.Term
								sym.Walk(e, func(t *sym.Term) bool {
									if t.Op == "index" && t.Args[0].Key() == "$nReg" {
										regs = append(regs, t)
									}
									return true
								})
								want := map[int]map[int64]bool{0: {0: true}, 1: {1: true}, 2: {0: true, 1: true, 2: true}, 3: {3: true}, 4: {4: true}, 5: {3: true, 4: true, 5: true}}[k]
								got := map[int64]bool{}
								for _, rg := range regs {
									x, isMod := mod64(rg.Args[1])
									if !isMod {
										okRd, detail = false, "unmasked register index"
										continue
									}
									env := poly.NewEnv()
									env.Rename["extract:1(call:DecodeGradient($param:rgba))"] = "nBase"
									p, okp := env.One(x)
									if !okp {
										okRd = false
										continue
									}
									d := p.Sub(v("nBase")).Add(poly.RatInt(6))
									if cv, isC := d.Num.IsConst(); isC {
										if f, _ := cv.Float64(); f >= 0 && f < 6 {
											got[int64(f)] = true
										}
									} else {
										okRd, detail = false, "register index "+p.String()
									}
								}
								for kk := range want {
									if !got[kk] {
										okRd = false
										detail = fmt.Sprintf("pixel-matrix entry %d does not read matrix register %d", k, kk)
									}
								}
								for kk := range got {
									if !want[kk] {
										okRd = false
										detail = fmt.Sprintf("pixel-matrix entry %d reads matrix register %d", k, kk)
									}
								}
							}
						}
						R.Check(okRd, "render.(*Renderer).initGradient#matrix.registers", c.FPos(ig), "entry k of the viewBox->gradient matrix is read from NREG[(NBASE-6+k) mod 64] - where SetGradient writes transform[k]", detail)
					}
				}
				// C19.4 selectors restored
				R.Rule("C19.4", "selectors restored: the values passed to the final SetCSel/SetNSel are CSel()/NSel() results read before the first write, and the restoring calls come after every other write on the success path", 4)
				R.Check(restC.Args[0].Key() == "$cSel@0", key+"#restore.CSEL", c.Pos(restC.Site), "SetCSel(the CSEL read before any write)", shortKey(restC.Args[0]))
				R.Check(restN.Args[0].Key() == "$nSel@0", key+"#restore.NSEL", c.Pos(restN.Site), "SetNSel(the NSEL read before any write)", shortKey(restN.Args[0]))
				last := true
				for _, d := range dels {
					if d == restC || d == restN {
						continue
					}
					if !(evBefore(d, restC) || loopBefore(d, restC)) || !(evBefore(d, restN) || loopBefore(d, restN)) {
						last = false
					}
				}
				R.Check(last, key+"#restore.last", pos, "nothing is written after the selectors are restored", "a write may follow")
				uncond := true
				for _, okr := range okRets {
					if !evBefore(restC, okr) || !evBefore(restN, okr) {
						uncond = false
					}
				}
				R.Check(uncond && len(okRets) == 1, key+"#restore.always", pos, "every successful return is preceded by both restoring calls", "")
			}
		}
	}
}

// exclusiveBlocks: the two events sit in blocks neither of which can reach the other.
func exclusiveBlocks(fr *sym.Frame, a, b *sym.Event) bool {
	ba, bb := rootBlock(a), rootBlock(b)
	if ba == nil || bb == nil {
		return false
	}
	return !reaches(ba.Index, bb.Index, fr) && !reaches(bb.Index, ba.Index, fr)
}

// loopBefore: a sits in a loop whose header dominates b's block while b is outside that loop.
func loopBefore(a, b *sym.Event) bool {
	if len(a.Loops) == 0 {
		return false
	}
	h := a.Loops[0].Frame.Fn.Blocks[a.Loops[0].Header]
	bb := rootBlock(b)
	if bb == nil {
		return false
	}
	for _, l := range b.Loops {
		if l.Header == a.Loops[0].Header {
			return false
		}
	}
	return h.Dominates(bb)
}
