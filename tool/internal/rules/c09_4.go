package rules

import (
	"fmt"
	"go/types"
	"sort"
	"strings"

	"golang.org/x/tools/go/ssa"

	"ivgsa/internal/cfgx"
	"ivgsa/internal/poly"
	"ivgsa/internal/sym"
)

func init() { register("C09", ruleC09_4); register("C01", ruleC09_4) }

// ruleC09_4: the suggested-palette writer of Encoder.Reset.
//
// A palette is written in one of four per-entry forms chosen for the whole
// palette. The choice is sound only if the flag that selects a form says that
// EVERY explicit entry fits it. The rule reads the selection loop off the
// evaluated function: each flag starts true and is updated to flag AND
// pred(entry i); the loop visits every explicit entry (its only exit is the
// counted header test over the same range the writing loops use); and each
// writing loop runs under the flags whose predicate makes its form lossless.
func ruleC09_4(c *Ctx) {
	R := c.R
	R.Rule("C09.4", "suggested-palette writer: each form flag is the conjunction over ALL explicit entries of its predicate (initially true, updated to flag AND IsK(entry i), the loop left only by its counted test, over the same range the writing loops use); the 1-, 2- and 3-byte writing loops run only under the flag of Is1, Is2, Is3 respectively, the form bits written are bytes-per-entry minus one, Is3 is exactly A == 0xff, and entries are trimmed only when they equal the decoder's default (opaque black)", 14)
	m := c.newEncModel()
	reset := c.Method("encode", "Encoder", "Reset", true)
	if !m.ok || reset == nil {
		R.Unknown("encode.(*Encoder).Reset#palette", "-", "Encoder.Reset not found")
		return
	}
	pos := c.FPos(reset)
	run := m.run(reset, nil, nil, func(h *encHooks) {
		for _, o := range []string{"Is1", "Is2", "Is3", "Encode1", "Encode2"} {
			h.opaque[o] = true
		}
	})
	// the frame that holds the form-selection loop: Reset itself, or a helper it was moved into
	fr, reset := paletteFrame(run, reset)
	palKey := "$param:palette"
	cf := cfgx.New(reset, nil)

	// 1. the flags
	type flag struct {
		phi    *ssa.Phi
		atom   *sym.Term
		pred   string
		header int
	}
	var flags []*flag
	byKey := map[string]*flag{}
	for _, h := range fr.Headers() {
		for _, ins := range reset.Blocks[h].Instrs {
			phi, ok := ins.(*ssa.Phi)
			if !ok {
				break
			}
			if b, isB := phi.Type().Underlying().(*types.Basic); !isB || b.Kind() != types.Bool {
				continue
			}
			v := fr.Val(phi)
			if v == nil || v.Op != "atom" {
				continue
			}
			init, back := phiEdges(fr, phi)
			name := phi.Comment
			construct := "encode.(*Encoder).Reset#flag:" + name
			if len(init) != 1 || len(back) == 0 {
				R.Unknown(construct, pos, "unrecognised loop-carried flag")
				continue
			}
			if bv, isC := init[0].BoolVal(); !isC || !bv {
				R.Bad(construct, pos, "the flag starts as true (an empty conjunction)", shortKey(init[0]))
				continue
			}
			li, okL := fr.Loop(h)
			if !okL {
				R.Unknown(construct, pos, "the selection loop is not a counted loop")
				continue
			}
			// the value carried round the loop, gated by the conditions of the back edges
			var next *sym.Term
			hb := reset.Blocks[h]
			for i, p := range hb.Preds {
				if !hb.Dominates(p) || !fr.Executable(p.Index, h) {
					continue
				}
				g := fr.EdgeGuard(p.Index, h)
				ev := fr.EdgeVal(phi, i)
				if g == nil || ev == nil {
					continue
				}
				if next == nil {
					next = ev
				} else {
					next = sym.Ite(g, ev, next)
				}
			}
			// within one iteration the header's own condition holds
			if hc, bodyOnTrue, okH := fr.HeaderCond(h); okH && next != nil {
				next = sym.Assume(next, hc, bodyOnTrue)
			}
			if r := fr.Reach(h); r != nil && next != nil {
				for _, l := range guardLits(r) {
					if l.Op == "not" {
						next = sym.Assume(next, l.Args[0], false)
					} else {
						next = sym.Assume(next, l, true)
					}
				}
			}
			back = []*sym.Term{next}
			// the predicate call on the current entry
			var predCall *sym.Term
			if next != nil {
				sym.Walk(next, func(x *sym.Term) bool {
					if x.Op == "call" && strings.HasPrefix(x.Name, "Is") {
						predCall = x
					}
					return true
				})
			}
			if predCall == nil {
				R.Bad(construct, pos, "updated with a predicate of the current entry", argKeys(back))
				continue
			}
			wantElem := sym.Index(sym.Atom("param:palette", nil), li.IndexVal, nil)
			elemOK := len(predCall.Args) == 1 && stripElem(predCall.Args[0]).Key() == stripElem(wantElem).Key()
			okAcc := equivalent(next, sym.And(v, predCall))
			R.Check(okAcc && elemOK, construct, pos, "flag' = flag AND "+predCall.Name+"(palette[i]) on every iteration", fmt.Sprintf("update %s on entry %s", argKeys(back), shortKey(predCall.Args[0])))
			f := &flag{phi, v, predCall.Name, h}
			flags = append(flags, f)
			byKey[v.Key()] = f
		}
	}
	if len(flags) == 0 {
		R.Unknown("encode.(*Encoder).Reset#flags", pos, "no form-selection flags found")
		return
	}
	// 2. the selection loop(s): single exit through the counted test
	seenH := map[int]bool{}
	var selBound *sym.Term
	_ = selBound
	selRange, okR := "", false
	for _, f := range flags {
		if seenH[f.header] {
			continue
		}
		seenH[f.header] = true
		inLoop := map[int]bool{}
		for _, b := range cf.Loops[f.header] {
			inLoop[b] = true
		}
		exits := 0
		for b := range inLoop {
			for _, s := range reset.Blocks[b].Succs {
				if !inLoop[s.Index] && b != f.header {
					exits++
				}
			}
		}
		R.Check(exits == 0, fmt.Sprintf("encode.(*Encoder).Reset#selection-loop@block%d:single-exit", f.header), c.Pos(reset.Blocks[f.header].Instrs[0]), "the loop is left only by its counted test, so every explicit entry is examined", fmt.Sprintf("%d other exits", exits))
		if li, ok := fr.Loop(f.header); ok {
			selBound = li.Bound
			selRange, okR = loopRangeKey(li)
			R.Check(okR, fmt.Sprintf("encode.(*Encoder).Reset#selection-loop@block%d:range", f.header), pos, "visits indices in steps of one from a constant start up to a bound", fmt.Sprintf("step %d op %s", li.Step, li.Op))
		}
	}
	// 3. the writing loops
	flagState := func(g *sym.Term) map[string]bool {
		out := map[string]bool{}
		for _, l := range guardLits(g) {
			if f := byKey[l.Key()]; f != nil {
				out[f.pred] = true
			}
			if l.Op == "not" {
				if f := byKey[l.Args[0].Key()]; f != nil {
					out[f.pred] = false
				}
			}
		}
		return out
	}
	nWrite := 0
	var altHeader []*sym.Event
	for _, ev := range run.in.Events {
		if ev.Kind != "append" || ev.Frame != fr {
			continue
		}
		mentionsPal := false
		for _, a := range ev.Args[1:] {
			if sym.Mentions(a, palKey) {
				mentionsPal = true
			}
		}
		if len(ev.Loops) == 0 {
			if len(ev.Args) == 2 && len(flagState(ev.Guard)) > 0 {
				altHeader = append(altHeader, ev)
			}
			continue
		}
		if !mentionsPal {
			continue
		}
		nWrite++
		st := flagState(ev.Guard)
		nBytes := len(ev.Args) - 1
		construct := fmt.Sprintf("encode.(*Encoder).Reset#write-loop:%d-byte", nBytes)
		// range of the writing loop
		h := ev.Loops[len(ev.Loops)-1]
		li, okL := fr.Loop(h.Header)
		sameRange := false
		if okL && okR {
			wr, okW := loopRangeKey(li)
			sameRange = okW && wr == selRange
		}
		var elem *sym.Term
		if okL {
			elem = sym.Index(sym.Atom("param:palette", nil), li.IndexVal, nil)
		}
		R.Check(sameRange, construct+":range", c.Pos(ev.Site), "writes exactly the entries the selection examined", "")
		need := ""
		okVals := elem != nil
		switch nBytes {
		case 1:
			need = "Is1"
			okVals = okVals && mentionsCall(ev.Args[1], "Encode1", elem)
		case 2:
			need = "Is2"
			// byte i of the entry is component i of its Encode2 result - each byte its own, in order
			okVals = okVals && mentionsCall(ev.Args[1], "Encode2", elem) && mentionsCall(ev.Args[2], "Encode2", elem) &&
				callComponent(ev.Args[1], "Encode2") == 0 && callComponent(ev.Args[2], "Encode2") == 1
		case 3, 4:
			if nBytes == 3 {
				need = "Is3"
			}
			for i := 0; i < nBytes && okVals; i++ {
				okVals = ev.Args[1+i].Op == "field" && ev.Args[1+i].Name == fmt.Sprint(i) && ev.Args[1+i].Args[0].Key() == elem.Key()
			}
		default:
			okVals = false
		}
		R.Check(okVals, construct+":bytes", c.Pos(ev.Site), "the entry's encoding in this form (channels in order R,G,B[,A])", argKeys(ev.Args[1:]))
		if need != "" {
			R.Check(st[need], construct+":guard", c.Pos(ev.Site), "runs only when "+need+" held for every explicit entry", fmt.Sprintf("flags on the path: %v", st))
		} else {
			R.OK(construct+":guard", c.Pos(ev.Site), "the 4-byte form stores every colour")
		}
		// form bits of the header byte on the same flag state
		for _, hv := range altHeader {
			if fmt.Sprint(flagState(hv.Guard)) != fmt.Sprint(st) || !sameBranch(hv, ev) {
				continue
			}
			// byte(n) | form<<6 with n the trimmed count (at most 63, counted down from 63)
			hvv := hv.Args[1]
			form := int64(0)
			if hvv.Op == "bin" && hvv.Name == "|" {
				if k, isC := hvv.Args[1].Int64(); isC {
					form, hvv = k, hvv.Args[0]
				}
			}
			okCount := false
			if cnt := stripIntConv(stripElem(hvv)); cnt.Op == "atom" {
				if tp := phiOfAtom(fr, cnt); tp != nil {
					if tl, okT := fr.Loop(tp.Block().Index); okT && tl.Phi == tp && tl.Step == -1 {
						if iv, isC := tl.Init.Int64(); isC && iv == 63 {
							okCount = true
						}
					}
				}
			}
			okBits := okCount && form&0x3f == 0 && form>>6 == int64(nBytes-1)
			R.Check(okBits, construct+":form-bits", c.Pos(hv.Site), fmt.Sprintf("bits 6-7 of the count byte are %d", nBytes-1), shortKey(hv.Args[1]))
		}
	}
	if nWrite != 4 {
		R.Unknown("encode.(*Encoder).Reset#write-loops", pos, fmt.Sprintf("%d writing loops found, 4 expected", nWrite))
	}
	// 4. Is3 is exactly "opaque": dropping the alpha byte is lossless only then
	if is3 := c.Fn("", "Is3"); is3 != nil {
		cc := c.newColourCtx()
		u8t := types.Typ[types.Uint8]
		ch := []*sym.Term{sym.Atom("R", u8t), sym.Atom("G", u8t), sym.Atom("B", u8t), sym.Atom("A", u8t)}
		data := &sym.Term{Op: "agg", Args: ch}
		if cc != nil {
			got := cc.call(is3, data)
			want := sym.Bin(tokEQL, ch[3], u8(255), nil)
			R.Check(got != nil && equivalent(got, want), "ivg.Is3", c.FPos(is3), "A == 0xff (the 3-byte form drops the alpha byte and the decoder supplies 0xff)", shortKey(got))
		}
	} else {
		R.Unknown("ivg.Is3", "-", "not found")
	}
	// 5. trimming compares with opaque black only
	var aggs []string
	seenAgg := map[string]bool{}
	for _, ev := range run.in.Events {
		if ev.Frame != fr {
			continue
		}
		sym.Walk(ev.Guard, func(x *sym.Term) bool {
			if x.Op == "bin" && x.Name == "==" {
				// a whole palette entry compared with a fixed colour (either side, any spelling of the constant)
				for k := 0; k < 2; k++ {
					el, other := x.Args[k], x.Args[1-k]
					if el.Op == "index" && el.Args[0].Key() == palKey && !sym.Mentions(other, palKey) && len(atomsOf(other)) == 0 {
						key := other.Key()
						if other.Op == "zero" {
							key = "agg(0,0,0,0)"
						}
						if !seenAgg[key] {
							seenAgg[key] = true
							aggs = append(aggs, key)
						}
					}
				}
			}
			return true
		})
	}
	sort.Strings(aggs)
	R.Check(len(aggs) == 1 && aggs[0] == "agg(0,0,0,255)", "encode.(*Encoder).Reset#trim", pos, "trailing entries are dropped only when they are opaque black, which the decoder restores", strings.Join(aggs, " "))
}

// stripElem removes value-preserving conversions around a palette element.
func stripElem(t *sym.Term) *sym.Term {
	for t.Op == "conv" || t.Op == "makeiface" {
		t = t.Args[0]
	}
	return t
}

// mentionsCall: v is computed from a call of the named function on (a colour built from) elem.
// callComponent: v is element k of the array a call of name returns (index(extract:0(call), k), index(call, k), with
// conversions looked through): k, else -1.
func callComponent(v *sym.Term, name string) int64 {
	for v != nil && v.Op == "conv" && len(v.Args) == 1 {
		v = v.Args[0]
	}
	if v == nil || v.Op != "index" || len(v.Args) != 2 {
		return -1
	}
	k, ok := v.Args[1].Int64()
	if !ok {
		return -1
	}
	b := v.Args[0]
	for b != nil && (b.Op == "extract" || strings.HasPrefix(b.Op, "extract")) && len(b.Args) >= 1 {
		b = b.Args[0]
	}
	if b != nil && b.Op == "call" && b.Name == name {
		return k
	}
	return -1
}

func mentionsCall(v *sym.Term, name string, elem *sym.Term) bool {
	found := false
	sym.Walk(v, func(x *sym.Term) bool {
		if x.Op == "call" && x.Name == name && sym.Mentions(x, elem.Key()) {
			found = true
		}
		return !found
	})
	return found
}

// sameBranch: the header append and the writing loop belong to the same arm of the form selection: the header's
// block dominates the loop's block and no other header append lies between (the arms are disjoint).
func sameBranch(hdr, loopEv *sym.Event) bool {
	hb, lb := hdr.Site.Block(), loopEv.Site.Block()
	return hb != nil && lb != nil && hb.Dominates(lb)
}

// paletteFlags evaluates Encoder.Reset once with the colour predicates and encoders opaque and returns, for every
// loop-carried boolean whose update is semantically "flag AND IsK(palette[i])" with initial value true, the name
// of its predicate; plus the run itself. Shared by C09.1's guard discovery (term level, independent of how the
// conjunction is spelled in the source).
type paletteFlagModel struct {
	run   *encRun
	preds map[string]string // flag atom key -> predicate name
}

func (c *Ctx) paletteFlags() *paletteFlagModel {
	if c.palFlags != nil {
		return c.palFlags
	}
	m := c.newEncModel()
	reset := c.Method("encode", "Encoder", "Reset", true)
	pm := &paletteFlagModel{preds: map[string]string{}}
	c.palFlags = pm
	if !m.ok || reset == nil {
		return pm
	}
	run := m.run(reset, nil, nil, func(h *encHooks) {
		for _, o := range []string{"Is1", "Is2", "Is3", "Encode1", "Encode2"} {
			h.opaque[o] = true
		}
	})
	pm.run = run
	fr, reset := paletteFrame(run, reset)
	for _, h := range fr.Headers() {
		for _, ins := range reset.Blocks[h].Instrs {
			phi, ok := ins.(*ssa.Phi)
			if !ok {
				break
			}
			if b, isB := phi.Type().Underlying().(*types.Basic); !isB || b.Kind() != types.Bool {
				continue
			}
			v := fr.Val(phi)
			if v == nil || v.Op != "atom" {
				continue
			}
			init, _ := phiEdges(fr, phi)
			if len(init) != 1 {
				continue
			}
			if bv, isC := init[0].BoolVal(); !isC || !bv {
				continue
			}
			next := gatedBackValue(fr, reset, h, phi)
			if next == nil {
				continue
			}
			var predCall *sym.Term
			sym.Walk(next, func(x *sym.Term) bool {
				if x.Op == "call" && strings.HasPrefix(x.Name, "Is") {
					predCall = x
				}
				return true
			})
			if predCall != nil && equivalent(next, sym.And(v, predCall)) {
				pm.preds[v.Key()] = predCall.Name
			}
		}
	}
	return pm
}

// gatedBackValue: the value a loop-header phi receives round the loop, gated by the back edges' conditions, within
// one iteration (the header's own condition and reach assumed).
func gatedBackValue(fr *sym.Frame, fn *ssa.Function, h int, phi *ssa.Phi) *sym.Term {
	var next *sym.Term
	hb := fn.Blocks[h]
	for i, p := range hb.Preds {
		if !hb.Dominates(p) || !fr.Executable(p.Index, h) {
			continue
		}
		g := fr.EdgeGuard(p.Index, h)
		ev := fr.EdgeVal(phi, i)
		if g == nil || ev == nil {
			continue
		}
		if next == nil {
			next = ev
		} else {
			next = sym.Ite(g, ev, next)
		}
	}
	if next == nil {
		return nil
	}
	if hc, bodyOnTrue, okH := fr.HeaderCond(h); okH {
		next = sym.Assume(next, hc, bodyOnTrue)
	}
	if r := fr.Reach(h); r != nil {
		for _, l := range guardLits(r) {
			if l.Op == "not" {
				next = sym.Assume(next, l.Args[0], false)
			} else {
				next = sym.Assume(next, l, true)
			}
		}
	}
	return next
}

// guardingPredicates: the predicates whose "holds for every entry" flag is known true where the call is made.
func (pm *paletteFlagModel) guardingPredicates(call ssa.Instruction) ([]string, bool) {
	if pm.run == nil {
		return nil, false
	}
	for _, ev := range pm.run.in.Events {
		if ev.Kind != "opaquecall" || ev.Site != call {
			continue
		}
		var out []string
		for _, l := range guardLits(ev.Guard) {
			if p, ok := pm.preds[l.Key()]; ok {
				out = append(out, p)
			}
		}
		return out, true
	}
	return nil, false
}

// loopRangeKey describes the index range a counted loop visits, independent of how the loop is written:
// "first..last" with last in polynomial normal form (range-over-slice, i < n+1 and i <= n give the same key).
func loopRangeKey(li *sym.LoopInfo) (string, bool) {
	if li.Step != 1 {
		return "", false
	}
	i0, isC := li.Init.Int64()
	if !isC {
		return "", false
	}
	env := poly.NewEnv()
	b, ok := env.One(li.Bound)
	if !ok {
		return "", false
	}
	switch li.Op.String() {
	case "<":
		b = b.Sub(poly.RatInt(1))
	case "<=":
	default:
		return "", false
	}
	// the loop tests index+Offset against the bound: the element index is phi+Offset as well (IndexVal)
	return fmt.Sprintf("%d..%s", i0+li.Offset, b.String()), true
}

// paletteFrame returns the frame (and its function) in which the palette form selection happens: the first frame of
// the run, Reset's own or an inlined helper's, that has a loop-carried boolean starting as true.
func paletteFrame(run *encRun, reset *ssa.Function) (*sym.Frame, *ssa.Function) {
	frames := append([]*sym.Frame{run.fr}, collectFrames(run.in.Events)...)
	for _, f := range frames {
		for _, h := range f.Headers() {
			for _, ins := range f.Fn.Blocks[h].Instrs {
				phi, ok := ins.(*ssa.Phi)
				if !ok {
					break
				}
				if b, isB := phi.Type().Underlying().(*types.Basic); !isB || b.Kind() != types.Bool {
					continue
				}
				if v := f.Val(phi); v == nil || v.Op != "atom" {
					continue
				}
				init, _ := phiEdges(f, phi)
				if len(init) == 1 {
					if bv, isC := init[0].BoolVal(); isC && bv {
						return f, f.Fn
					}
				}
			}
		}
	}
	return run.fr, reset
}
