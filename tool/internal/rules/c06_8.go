package rules

import (
	"fmt"
	"go/constant"
	"go/token"
	"go/types"
	"math"
	"math/big"
	"os"
	"sort"
	"strings"
	"time"

	"golang.org/x/tools/go/ssa"

	"ivgsa/internal/poly"
	"ivgsa/internal/sym"
)

func init() { register("C06", ruleC06_8) }

// ruleC06_8: the centre parameterisation of an arc, as formulas. What the cubic segments are built from - the centre
// (cx, cy), the effective radii and the cosine and sine of the rotation - is compared, as rational functions over
// the reals with the cosine, the sine and the two square roots as atoms, with the endpoint-to-centre conversion of
// the SVG implementation notes (F.6.5) in each of its cases: radii scaled up or not, centre offset positive or
// clamped to zero, flags equal or different. Nothing numerical is decided; a wrong sign, a swapped sine and cosine, a
// radius taken before the scale-up or a missing half are different formulas.
func ruleC06_8(c *Ctx) {
	R := c.R
	R.Rule("C06.8", "endpoint-to-centre conversion (SVG implementation notes F.6.5) as formulas over the reals, cos/sin of the rotation and the two square roots as atoms: x1' = C*(x1-x2)/2 + S*(y1-y2)/2, y1' = -S*(x1-x2)/2 + C*(y1-y2)/2; L = x1'^2/rx^2 + y1'^2/ry^2, radii multiplied by sqrt(L) exactly when L > 1; (cx', cy') = s*(rx*y1'/ry, -ry*x1'/rx) with s = sqrt(rx^2 ry^2/(rx^2 y1'^2 + ry^2 x1'^2) - 1) when that radicand is positive and 0 otherwise, negated exactly when the two flags are equal; (cx, cy) = (C*cx' - S*cy' + (x1+x2)/2, S*cx' + C*cy' + (y1+y2)/2); rotation angle 2*pi*turns; the start point is the pen mapped back into viewBox space - in every case, for each of the six quantities the segments are built from; and each of the three control points of a segment is centre + R(phi)*(RX*(cos t -/+ k sin t), RY*(sin t +/- k cos t)) with k = 8 sin^2(h/2)/(3 sin h), h half the angle step, mapped into pixel space", 12)
	r := c.newRend()
	abs := c.Method("render", "Renderer", "AbsArcTo", true)
	if !r.ok || abs == nil {
		R.Unknown("render.(*Renderer).AbsArcTo:centre", "-", "Renderer model or AbsArcTo not available")
		return
	}
	key := "render.(*Renderer).AbsArcTo:centre"
	pos := c.FPos(abs)
	t0 := time.Now()
	in, _, _ := r.run(abs, map[string]*sym.Term{"disabled": sym.False}, "absX", "absY", "relX", "relY", "unabsX", "unabsY")
	if os.Getenv("IVGSA_DEBUG_ARC") != "" {
		fmt.Fprintf(os.Stderr, "ARC run done at %dms\n", time.Since(t0).Milliseconds())
	}
	var cube *sym.Event
	for _, ev := range rasterEvents(in) {
		if ev.Callee == "CubeTo" {
			cube = ev
		}
	}
	if cube == nil || cube.Frame == nil || cube.Frame.Parent == nil {
		R.Unknown(key, pos, "the cubic is not issued from a segment helper whose inputs could be examined")
		return
	}
	fr := cube.Frame
	type input struct {
		name string
		term *sym.Term
	}
	var inputs []input
	isFloat := func(t *sym.Term) bool {
		if t == nil || t.T == nil {
			return false
		}
		return strings.HasPrefix(t.T.String(), "float")
	}
	for i, a := range fr.Args {
		if i < len(fr.Fn.Params) && isFloat(a) {
			inputs = append(inputs, input{fr.Fn.Params[i].Name(), a})
		}
	}
	for i, a := range fr.Bindings {
		if i < len(fr.Fn.FreeVars) && isFloat(a) {
			inputs = append(inputs, input{fr.Fn.FreeVars[i].Name(), a})
		}
	}
	// variables of the enclosing function that the helper reads directly (captured by reference): what it loads
	for _, fv := range fr.Fn.FreeVars {
		seenFV := false
		for _, b := range fr.Fn.Blocks {
			for _, ins := range b.Instrs {
				ld, ok := ins.(*ssa.UnOp)
				if !ok || ld.Op != token.MUL || ld.X != ssa.Value(fv) || seenFV {
					continue
				}
				if t := fr.Val(ld); isFloat(t) {
					inputs = append(inputs, input{fv.Name(), t})
					seenFV = true
				}
			}
		}
	}
	// the two angle inputs: formulas in the sweep-adjusted extent and the segment count - or, for the start angle, a
	// variable carried round the segment loop that becomes the end angle just used (C06.2 shows what it then is)
	isAngleFormula := func(t *sym.Term) bool {
		return sym.Mentions(t, "$param:sweep") && strings.Contains(t.Key(), "math.Ceil")
	}
	isAngle := func(t *sym.Term) bool {
		if isAngleFormula(t) {
			return true
		}
		if t.Op != "atom" {
			return false
		}
		for f := fr.Parent; f != nil; f = f.Parent {
			if phi := phiOfAtom(f, t); phi != nil {
				_, back := phiEdges(f, phi)
				return len(back) == 1 && isAngleFormula(back[0])
			}
		}
		return false
	}
	// look through joins that were only abbreviated for their size (without rebuilding the terms)
	walkDeep := func(t *sym.Term, fn func(*sym.Term) bool) {
		seen := map[string]bool{}
		var rec func(t *sym.Term)
		rec = func(t *sym.Term) {
			sym.Walk(t, func(x *sym.Term) bool {
				if x.Op == "atom" {
					if v := fr.CollapsedValue(x.Name); v != nil && !seen[x.Name] {
						seen[x.Name] = true
						rec(v)
					}
				}
				return fn(x)
			})
		}
		rec(t)
	}
	if os.Getenv("IVGSA_DEBUG_ARC") != "" {
		fmt.Fprintf(os.Stderr, "ARC expand done at %dms\n", time.Since(t0).Milliseconds())
	}
	// the base quantities, found by what they are
	env := poly.NewEnv()
	env.MaxCases = 512
	env.Expand = func(name string) *sym.Term { return fr.CollapsedValue(name) }
	var cosT, sinT, x1T, y1T, rxT, ryT *sym.Term
	for _, inp := range inputs {
		walkDeep(inp.term, func(x *sym.Term) bool {
			if x.Op != "call" || len(x.Args) == 0 {
				return true
			}
			switch x.Name {
			case "math.Cos", "math.Sin":
				if sym.Mentions(x.Args[0], "$param:xAxisRotation") && !strings.Contains(x.Args[0].Key(), "call:") {
					if x.Name == "math.Cos" {
						cosT = x
					} else {
						sinT = x
					}
				}
				return false
			case "unabsX":
				x1T = x
				return false
			case "unabsY":
				y1T = x
				return false
			case "math.Abs":
				if sym.Mentions(x.Args[0], "$param:rx") && !sym.Mentions(x.Args[0], "$param:ry") {
					rxT = x
				}
				if sym.Mentions(x.Args[0], "$param:ry") && !sym.Mentions(x.Args[0], "$param:rx") {
					ryT = x
				}
				return false
			}
			return true
		})
	}
	if cosT == nil || sinT == nil || x1T == nil || y1T == nil || rxT == nil || ryT == nil {
		R.Bad(key+":inputs", pos, "the segments are built from cos/sin of the rotation, the absolute radii and the pen mapped back into viewBox space", fmt.Sprintf("found cos=%v sin=%v unabsX=%v unabsY=%v |rx|=%v |ry|=%v", cosT != nil, sinT != nil, x1T != nil, y1T != nil, rxT != nil, ryT != nil))
		return
	}
	v := poly.RatVar
	// the rotation angle, the start point and the radii are what they should be
	{
		e0 := poly.NewEnv()
		e0.Rename["$param:xAxisRotation"] = "turns"
		e0.Rename["$param:rx"] = "rxArg"
		e0.Rename["$param:ry"] = "ryArg"
		twoPi := new(big.Rat)
		twoPi.SetFloat64(2 * math.Pi)
		want := poly.RatOf(poly.ConstPoly(twoPi)).Mul(v("turns"))
		ca, ok1 := e0.One(cosT.Args[0])
		sa, ok2 := e0.One(sinT.Args[0])
		R.Check(ok1 && ok2 && ca.Equal(want) && sa.Equal(want), key+":rotation", pos, "cos and sin of 2*pi*xAxisRotation (turns to radians)", shortKey(cosT.Args[0])+" / "+shortKey(sinT.Args[0]))
		okPen := len(x1T.Args) == 2 && len(y1T.Args) == 2 && strings.HasPrefix(x1T.Args[1].Key(), "$penX") && strings.HasPrefix(y1T.Args[1].Key(), "$penY")
		R.Check(okPen, key+":start", pos, "the start point is (unabsX(pen x), unabsY(pen y))", shortKey(x1T)+" / "+shortKey(y1T))
		ra, ok3 := e0.One(rxT.Args[0])
		rb, ok4 := e0.One(ryT.Args[0])
		R.Check(ok3 && ok4 && ra.Equal(v("rxArg")) && rb.Equal(v("ryArg")), key+":radii", pos, "|rx| and |ry|", shortKey(rxT)+" / "+shortKey(ryT))
	}
	env.Rename[cosT.Key()] = "C"
	env.Rename[sinT.Key()] = "S"
	env.Rename[x1T.Key()] = "x1"
	env.Rename[y1T.Key()] = "y1"
	env.Rename[rxT.Key()] = "rx"
	env.Rename[ryT.Key()] = "ry"
	env.Rename["$param:x"] = "x2"
	env.Rename["$param:y"] = "y2"

	// ---- the reference, in stages; each stage names the code's own term once it is shown to be the right quantity,
	// so that the next stage is a small formula ----
	two := poly.RatInt(2)
	one := poly.RatInt(1)
	zero := poly.RatInt(0)
	C, S := v("C"), v("S")
	hdx := v("x1").Sub(v("x2")).Div(two)
	hdy := v("y1").Sub(v("y2")).Div(two)
	x1p := C.Mul(hdx).Add(S.Mul(hdy))
	y1p := S.Neg().Mul(hdx).Add(C.Mul(hdy))
	lam := x1p.Mul(x1p).Div(v("rx").Mul(v("rx"))).Add(y1p.Mul(y1p).Div(v("ry").Mul(v("ry"))))
	// all comparison literals "k < X" that occur as conditions inside the inputs
	var lits []*sym.Term
	seenLit := map[string]bool{}
	for _, inp := range inputs {
		walkDeep(inp.term, func(x *sym.Term) bool {
			if x.Op == "ite" {
				for _, l := range guardLits(x.Args[0]) {
					if l.Op == "not" {
						l = l.Args[0]
					}
					if l.Op == "bin" && (l.Name == "<" || l.Name == "<=") && !seenLit[l.Key()] {
						seenLit[l.Key()] = true
						lits = append(lits, l)
					}
				}
			}
			return true
		})
	}
	stamp := func(what string) {
		if os.Getenv("IVGSA_DEBUG_ARC") != "" {
			fmt.Fprintf(os.Stderr, "ARC %s at %dms\n", what, time.Since(t0).Milliseconds())
		}
	}
	stamp("start")
	// threshold reads a comparison of some quantity with a constant, in any spelling (k < X, X >= k, !(X <= k), ...):
	// the quantity, the constant, and whether the comparison says the quantity is above the constant. Whether the
	// boundary itself is included does not matter for the two tests of the conversion: at L = 1 the radii are
	// multiplied by 1, at A = 0 the offset is the root of 0.
	threshold := func(lit *sym.Term) (x *sym.Term, k poly.Rat, above bool, ok bool) {
		neg := false
		l := lit
		if l.Op == "not" {
			neg, l = true, l.Args[0]
		}
		if l.Op != "bin" || (l.Name != "<" && l.Name != "<=") || len(l.Args) != 2 {
			return nil, poly.Rat{}, false, false
		}
		// a < b (or a <= b): b is above a
		switch {
		case l.Args[0].IsConst():
			kk, okk := env.One(l.Args[0])
			return l.Args[1], kk, !neg, okk
		case l.Args[1].IsConst():
			kk, okk := env.One(l.Args[1])
			return l.Args[0], kk, neg, okk
		}
		return nil, poly.Rat{}, false, false
	}
	// stage 1: the radii check L, compared with 1
	var lamT *sym.Term
	for _, l := range lits {
		if x, k, _, ok := threshold(l); ok && k.Equal(one) {
			if rhs, ok := env.One(x); ok && rhs.Equal(lam) {
				lamT = x
			}
			env.Err = nil
		}
	}
	if !R.Check(lamT != nil, key+":radii-check", pos, "the radii are scaled up exactly when L = x1'^2/rx^2 + y1'^2/ry^2 > 1, with x1' = C*(x1-x2)/2 + S*(y1-y2)/2 and y1' = -S*(x1-x2)/2 + C*(y1-y2)/2", fmt.Sprintf("no condition 1 < L with that L among the %d comparisons the inputs depend on", len(lits))) {
		return
	}
	env.Rename[lamT.Key()] = "L"
	stamp("stage1")
	sqrtL := poly.Rat{}
	haveSqrtL := false
	findSqrt := func(arg poly.Rat) (poly.Rat, bool) {
		for name, a := range env.Sqrt {
			if a.Equal(arg) {
				return v(name), true
			}
		}
		return poly.Rat{}, false
	}
	// stage 2: the effective radii
	matchedRole := map[string]string{}
	roleOf := map[int]string{}
	order := make([]int, len(inputs))
	for i := range order {
		order[i] = i
	}
	sort.Slice(order, func(a, b int) bool { return len(inputs[order[a]].term.Key()) < len(inputs[order[b]].term.Key()) })
	for _, i := range order {
		inp := inputs[i]
		if matchedRole["rx"] != "" && matchedRole["ry"] != "" {
			break
		}
		if !sym.Mentions(inp.term, lamT.Key()) {
			continue // does not depend on the radii check: not an effective radius
		}
		cs := env.Cases(inp.term)
		if env.Err != nil {
			env.Err = nil
			continue
		}
		if !haveSqrtL {
			sqrtL, haveSqrtL = findSqrt(v("L"))
		}
		for _, role := range []string{"rx", "ry"} {
			okAll := len(cs) == 2 && haveSqrtL
			for _, k := range cs {
				scale, fixed := false, false
				for _, cd := range k.Conds {
					if x, kk, above, ok := threshold(cd); ok && kk.Equal(one) && x.Key() == lamT.Key() {
						scale, fixed = above, true
					}
				}
				want := v(role)
				if scale {
					want = want.Mul(sqrtL)
				}
				if !fixed || !k.Val.Equal(want) {
					okAll = false
				}
			}
			if okAll && matchedRole[role] == "" {
				matchedRole[role] = inp.name
				roleOf[i] = role
				env.Rename[inp.term.Key()] = strings.ToUpper(role)
				R.OK(fmt.Sprintf("%s:%s", key, inp.name), pos, "is the effective radius "+role+": |"+role+"|*sqrt(L) when L > 1, |"+role+"| otherwise")
			}
		}
	}
	if !R.Check(matchedRole["rx"] != "" && matchedRole["ry"] != "", key+":radii.effective", pos, "the segments get |rx|*sqrt(L), |ry|*sqrt(L) when L > 1 and |rx|, |ry| otherwise", fmt.Sprintf("rx: %q ry: %q", matchedRole["rx"], matchedRole["ry"])) {
		return
	}
	stamp("stage2")
	RX, RY := v("RX"), v("RY")
	// stage 3: the radicand of the centre offset, compared with 0
	radicFor := func(scale bool) poly.Rat {
		rxe, rye := v("rx"), v("ry")
		if scale {
			rxe, rye = rxe.Mul(sqrtL), rye.Mul(sqrtL)
		}
		return rxe.Mul(rxe).Mul(rye.Mul(rye)).Div(rxe.Mul(rxe).Mul(y1p.Mul(y1p)).Add(rye.Mul(rye).Mul(x1p.Mul(x1p)))).Sub(one)
	}
	var radT *sym.Term
	for _, l := range lits {
		xq, kq, _, okq := threshold(l)
		env.Err = nil
		if !okq || xq.Key() == lamT.Key() || !kq.Equal(zero) {
			continue
		}
		cs := env.Cases(xq)
		if env.Err != nil || len(cs) != 2 {
			env.Err = nil
			continue
		}
		okBoth := true
		for _, k := range cs {
			scale, fixed := false, false
			for _, cd := range k.Conds {
				if x, kk, above, ok := threshold(cd); ok && kk.Equal(one) && x.Key() == lamT.Key() {
					scale, fixed = above, true
				}
			}
			if !fixed || !k.Val.Equal(radicFor(scale)) {
				okBoth = false
			}
		}
		if okBoth {
			radT = xq
		}
	}
	if !R.Check(radT != nil, key+":radicand", pos, "the centre offset is sqrt(A) exactly when A = RX^2 RY^2/(RX^2 y1'^2 + RY^2 x1'^2) - 1 > 0 (RX, RY the effective radii of the case)", "no condition 0 < A with that A") {
		return
	}
	env.Rename[radT.Key()] = "A"
	stamp("stage3")
	// stage 4: centre, cosine, sine
	for i, inp := range inputs {
		if roleOf[i] != "" {
			continue
		}
		if isAngle(inp.term) {
			continue // the two angle inputs are C06.2's business
		}
		cs := env.Cases(inp.term)
		construct := fmt.Sprintf("%s:%s", key, inp.name)
		if env.Err != nil {
			R.Unknown(construct, pos, "too many cases: "+env.Err.Error())
			env.Err = nil
			continue
		}
		sqrtA, haveSqrtA := findSqrt(v("A"))
		found, why := "", ""
		for _, role := range []string{"cx", "cy", "cos", "sin"} {
			okAll := len(cs) > 0
			for _, k := range cs {
				var aFix, aPos, sFix, same bool
				for _, cd := range k.Conds {
					for _, lit := range guardLits(cd) {
						neg := false
						x := lit
						if x.Op == "not" {
							neg, x = true, x.Args[0]
						}
						switch {
						case x.Op == "bin" && x.Name == "==" && (x.Args[0].Key()+"|"+x.Args[1].Key() == "$param:largeArc|$param:sweep" || x.Args[0].Key()+"|"+x.Args[1].Key() == "$param:sweep|$param:largeArc"):
							sFix, same = true, !neg
						case x.Op == "bin" && (x.Name == "<" || x.Name == "<="):
							xq, kq, above, okq := threshold(lit)
							env.Err = nil
							if okq && kq.Equal(zero) && xq.Key() == radT.Key() {
								aFix, aPos = true, above
							} else if okq && kq.Equal(one) && xq.Key() == lamT.Key() {
								// already part of RX, RY
							} else {
								okAll, why = false, "depends on "+shortKey(lit)
							}
						default:
							okAll, why = false, "depends on "+shortKey(lit)
						}
					}
				}
				for _, ap := range []bool{false, true} {
					if aFix && aPos != ap {
						continue
					}
					for _, sm := range []bool{false, true} {
						if sFix && same != sm {
							continue
						}
						step := zero
						if ap {
							if !haveSqrtA {
								okAll, why = false, "no square root of A is taken"
								continue
							}
							step = sqrtA
						}
						if sm {
							step = step.Neg()
						}
						cxp := step.Mul(RX).Mul(y1p).Div(RY)
						cyp := step.Neg().Mul(RY).Mul(x1p).Div(RX)
						var want poly.Rat
						switch role {
						case "cx":
							want = C.Mul(cxp).Sub(S.Mul(cyp)).Add(v("x1").Add(v("x2")).Div(two))
						case "cy":
							want = S.Mul(cxp).Add(C.Mul(cyp)).Add(v("y1").Add(v("y2")).Div(two))
						case "cos":
							want = C
						default:
							want = S
						}
						if !k.Val.Equal(want) {
							okAll = false
						}
					}
				}
				if !okAll {
					break
				}
			}
			if okAll {
				found = role
				break
			}
		}
		if found == "" {
			if os.Getenv("IVGSA_DEBUG_ARC") != "" {
				for _, k := range cs {
					fmt.Fprintf(os.Stderr, "INPUT %s case %.300s\n   = %.400s\n", inp.name, condKey(k.Conds), k.Val.String())
				}
			}
			d := "is none of centre x, centre y, cos, sin of the conversion in all of its cases"
			if why != "" {
				d += " (" + why + ")"
			}
			R.Bad(construct, pos, "(cx, cy) = (C*cx' - S*cy' + (x1+x2)/2, S*cx' + C*cy' + (y1+y2)/2) with (cx', cy') = s*(RX*y1'/RY, -RY*x1'/RX), s = sqrt(A) if A > 0 else 0, negated when the flags are equal; or C; or S", d+fmt.Sprintf("; %d cases", len(cs)))
			continue
		}
		if prev := matchedRole[found]; prev != "" {
			R.Bad(construct, pos, "each quantity of the conversion is handed to the segments once", "both "+prev+" and "+inp.name+" are the conversion's "+found)
			continue
		}
		matchedRole[found] = inp.name
		R.OK(construct, pos, fmt.Sprintf("is the conversion's %s in each of its %d cases", found, len(cs)))
	}
	stamp("stage4")
	for _, role := range []string{"cx", "cy", "rx", "ry", "cos", "sin"} {
		if matchedRole[role] == "" {
			R.Bad(key+":missing:"+role, pos, "the segments are built from the conversion's "+role, "no input of the segment helper is that quantity")
		}
	}
	// ---- the cubic of one segment (the formulae librsvg uses) ----
	{
		var taT, tbT *sym.Term
		for _, inp := range inputs {
			if !isAngle(inp.term) {
				continue
			}
			if inp.term.Op == "atom" {
				taT = inp.term // the carried start angle
				continue
			}
			plusOne := false
			sym.Walk(inp.term, func(x *sym.Term) bool {
				if x.Op == "bin" && x.Name == "+" && len(x.Args) == 2 && x.Args[1].Key() == "1" && strings.HasPrefix(x.Args[0].Key(), "$phi#") {
					plusOne = true
				}
				return !plusOne
			})
			if plusOne {
				tbT = inp.term
			} else if taT == nil {
				taT = inp.term
			}
		}
		termOf := map[string]*sym.Term{}
		for _, inp := range inputs {
			for role, name := range matchedRole {
				if name == inp.name {
					termOf[role] = inp.term
				}
			}
		}
		complete := taT != nil && tbT != nil
		for _, role := range []string{"cx", "cy", "rx", "ry", "cos", "sin"} {
			if termOf[role] == nil {
				complete = false
			}
		}
		skey := "render.(*Renderer).AbsArcTo:segment"
		if !complete {
			R.Unknown(skey, pos, "the inputs of the segment helper could not all be identified (see the obligations above)")
		} else {
			e2 := poly.NewEnv()
			e2.Expand = env.Expand
			e2.Rename[termOf["cx"].Key()] = "cx"
			e2.Rename[termOf["cy"].Key()] = "cy"
			e2.Rename[termOf["rx"].Key()] = "RX"
			e2.Rename[termOf["ry"].Key()] = "RY"
			e2.Rename[termOf["cos"].Key()] = "C"
			e2.Rename[termOf["sin"].Key()] = "S"
			e2.Rename[taT.Key()] = "ta"
			e2.Rename[tbT.Key()] = "tb"
			f64 := types.Typ[types.Float64]
			bin := func(op token.Token, a, b *sym.Term) *sym.Term {
				return &sym.Term{Op: "bin", Name: op.String(), Args: []*sym.Term{a, b}, T: f64}
			}
			call := func(name string, a *sym.Term) *sym.Term { return sym.Call(name, f64, a) }
			num := func(v float64) *sym.Term { return sym.Const(constant.MakeFloat64(v), f64) }
			h := bin(token.MUL, bin(token.SUB, tbT, taT), num(0.5))
			q := call("math.Sin", bin(token.MUL, h, num(0.5)))
			tt := bin(token.QUO, bin(token.MUL, bin(token.MUL, num(8), q), q), bin(token.MUL, num(3), call("math.Sin", h)))
			cos1, sin1 := call("math.Cos", taT), call("math.Sin", taT)
			cos2, sin2 := call("math.Cos", tbT), call("math.Sin", tbT)
			RXt, RYt, Ct, St := termOf["rx"], termOf["ry"], termOf["cos"], termOf["sin"]
			px := []*sym.Term{
				bin(token.MUL, RXt, bin(token.SUB, cos1, bin(token.MUL, tt, sin1))),
				bin(token.MUL, RXt, bin(token.ADD, cos2, bin(token.MUL, tt, sin2))),
				bin(token.MUL, RXt, cos2),
			}
			py := []*sym.Term{
				bin(token.MUL, RYt, bin(token.ADD, sin1, bin(token.MUL, tt, cos1))),
				bin(token.MUL, RYt, bin(token.SUB, sin2, bin(token.MUL, tt, cos2))),
				bin(token.MUL, RYt, sin2),
			}
			for k := 0; k < 6 && k < len(cube.Args); k++ {
				a := cube.Args[k]
				construct := fmt.Sprintf("%s:point%d.%s", skey, k/2+1, map[bool]string{true: "x", false: "y"}[k%2 == 0])
				if a.Op != "call" || len(a.Args) < 2 {
					R.Bad(construct, c.Pos(cube.Site), "a mapped control point", shortKey(a))
					continue
				}
				var want *sym.Term
				if k%2 == 0 {
					want = bin(token.SUB, bin(token.ADD, termOf["cx"], bin(token.MUL, Ct, px[k/2])), bin(token.MUL, St, py[k/2]))
				} else {
					want = bin(token.ADD, bin(token.ADD, termOf["cy"], bin(token.MUL, St, px[k/2])), bin(token.MUL, Ct, py[k/2]))
				}
				got, ok1 := e2.One(a.Args[len(a.Args)-1])
				ref, ok2 := e2.One(want)
				R.Check(ok1 && ok2 && got.Equal(ref), construct, c.Pos(cube.Site), "the rotated, translated point of the cubic that approximates the ellipse between the two angles: centre + R(phi)*(RX*(cos t -/+ k sin t), RY*(sin t +/- k cos t)), k = 8 sin^2(h/2)/(3 sin h), h half the angle step (the end point with k = 0)", map[bool]string{true: got.String(), false: shortKey(a)}[ok1])
			}
		}
	}
	// ---- the two angles ----
	c.checkArcAngles(r, in, fr, env, threshold, lamT, radT, x1p, y1p, key, pos)
	R.Count("C06.8.wall_ms", int(time.Since(t0).Milliseconds()))
}

// checkArcAngles: step 4 of the conversion. theta1 is the angle from (1, 0) to a = ((x1'-cx')/RX, (y1'-cy')/RY), the
// extent is the angle from a to b = ((-x1'-cx')/RX, (-y1'-cy')/RY), where angle(u, v) is the arc cosine of
// u.v/(|u||v|) (clamped at -1 and 1) taken negative when u x v < 0; a full turn is added to a negative extent when
// sweeping and subtracted from a positive one when not.
func (c *Ctx) checkArcAngles(r *rend, in *sym.Interp, seg *sym.Frame, env *poly.Env,
	threshold func(*sym.Term) (*sym.Term, poly.Rat, bool, bool), lamT, radT *sym.Term, x1p, y1p poly.Rat, key, pos string) {
	R := c.R
	v := poly.RatVar
	akey := "render.(*Renderer).AbsArcTo:angles"
	root := seg.Parent
	if root == nil {
		return
	}
	// the frames of the angle helper: the function (other than the segment helper) called from AbsArcTo with four
	// float arguments in which an arc cosine is taken
	var frames []*sym.Frame
	for _, f := range collectFrames(in.Events) {
		if f.Parent == nil || f == seg || len(f.Args) != 4 {
			continue
		}
		acos := false
		for _, ev := range in.Events {
			if ev.Frame == f && ev.Kind == "extcall" && ev.Callee == "math.Acos" {
				acos = true
			}
		}
		if acos {
			frames = append(frames, f)
		}
	}
	if len(frames) != 2 || frames[0].Fn != frames[1].Fn || frames[0].Parent != frames[1].Parent {
		R.Unknown(akey, pos, fmt.Sprintf("%d calls of an angle helper found, 2 expected", len(frames)))
		return
	}
	sort.Slice(frames, func(i, j int) bool { return frames[i].Site.Pos() < frames[j].Site.Pos() })
	zero, one, two := poly.RatInt(0), poly.RatInt(1), poly.RatInt(2)
	_ = two
	RX, RY := v("RX"), v("RY")
	findSqrt := func(arg poly.Rat) (poly.Rat, bool) {
		for name, a := range env.Sqrt {
			if a.Equal(arg) {
				return v(name), true
			}
		}
		return poly.Rat{}, false
	}
	sqrtA, haveSqrtA := findSqrt(v("A"))
	// value of a term in every case of (A > 0?, flags equal?) against a reference
	matches := func(t *sym.Term, want func(step poly.Rat) poly.Rat) (bool, string) {
		cs := env.Cases(t)
		if env.Err != nil {
			e := env.Err.Error()
			env.Err = nil
			return false, e
		}
		for _, k := range cs {
			var aFix, aPos, sFix, same bool
			for _, cd := range k.Conds {
				for _, lit := range guardLits(cd) {
					neg := false
					x := lit
					if x.Op == "not" {
						neg, x = true, x.Args[0]
					}
					if x.Op == "bin" && x.Name == "==" && (x.Args[0].Key()+"|"+x.Args[1].Key() == "$param:largeArc|$param:sweep" || x.Args[0].Key()+"|"+x.Args[1].Key() == "$param:sweep|$param:largeArc") {
						sFix, same = true, !neg
						continue
					}
					if xq, kq, above, okq := threshold(lit); okq {
						env.Err = nil
						if kq.Equal(zero) && xq.Key() == radT.Key() {
							aFix, aPos = true, above
							continue
						}
						if kq.Equal(one) && xq.Key() == lamT.Key() {
							continue
						}
					}
					return false, "depends on " + shortKey(lit)
				}
			}
			for _, ap := range []bool{false, true} {
				if aFix && aPos != ap {
					continue
				}
				for _, sm := range []bool{false, true} {
					if sFix && same != sm {
						continue
					}
					step := zero
					if ap {
						if !haveSqrtA {
							return false, "no square root of A"
						}
						step = sqrtA
					}
					if sm {
						step = step.Neg()
					}
					if !k.Val.Equal(want(step)) {
						return false, "differs when A>0=" + fmt.Sprint(ap) + ", flags equal=" + fmt.Sprint(sm) + ": " + k.Val.String()
					}
				}
			}
		}
		return len(cs) > 0, ""
	}
	cxp := func(step poly.Rat) poly.Rat { return step.Mul(RX).Mul(y1p).Div(RY) }
	cyp := func(step poly.Rat) poly.Rat { return step.Neg().Mul(RY).Mul(x1p).Div(RX) }
	ax := func(s poly.Rat) poly.Rat { return x1p.Sub(cxp(s)).Div(RX) }
	ay := func(s poly.Rat) poly.Rat { return y1p.Sub(cyp(s)).Div(RY) }
	bx := func(s poly.Rat) poly.Rat { return x1p.Neg().Sub(cxp(s)).Div(RX) }
	by := func(s poly.Rat) poly.Rat { return y1p.Neg().Sub(cyp(s)).Div(RY) }
	cst := func(k int64) func(poly.Rat) poly.Rat { return func(poly.Rat) poly.Rat { return poly.RatInt(k) } }
	wants := [2][4]func(poly.Rat) poly.Rat{{cst(1), cst(0), ax, ay}, {ax, ay, bx, by}}
	names := [2][4]string{{"1", "0", "(x1'-cx')/RX", "(y1'-cy')/RY"}, {"(x1'-cx')/RX", "(y1'-cy')/RY", "(-x1'-cx')/RX", "(-y1'-cy')/RY"}}
	for fi, f := range frames {
		for ai, a := range f.Args {
			ok, why := matches(a, wants[fi][ai])
			R.Check(ok, fmt.Sprintf("%s:call%d.arg%d", akey, fi+1, ai), c.Pos(f.Site), names[fi][ai], why)
		}
	}
	// the helper itself
	{
		fn := frames[0].Fn
		in2 := c.Interp()
		c.newRendHooks(in2)
		var binds []*sym.Term
		for _, fv := range fn.FreeVars {
			binds = append(binds, in2.ParamTerm("free:"+fv.Name(), fv.Type()))
		}
		res, _, _ := in2.CallFunction(fn, in2.RootArgs(fn), binds, sym.NewMem(), nil, nil, true)
		e := poly.NewEnv()
		e.MaxCases = 64
		pn := []string{"ux", "uy", "vx", "vy"}
		for i, p := range fn.Params {
			if i < 4 {
				e.Rename["$param:"+p.Name()] = pn[i]
			}
		}
		hkey := akey + ":helper"
		if res == nil {
			R.Unknown(hkey, c.FPos(fn), "the angle helper has no result")
		} else {
			cs := e.Cases(res)
			dot := v("ux").Mul(v("vx")).Add(v("uy").Mul(v("vy")))
			cross := v("ux").Mul(v("vy")).Sub(v("uy").Mul(v("vx")))
			var cosv poly.Rat
			haveCos := false
			var nu, nv poly.Rat
			okN := 0
			for name, a := range e.Sqrt {
				if a.Equal(v("ux").Mul(v("ux")).Add(v("uy").Mul(v("uy")))) {
					nu = v(name)
					okN++
				}
				if a.Equal(v("vx").Mul(v("vx")).Add(v("vy").Mul(v("vy")))) {
					nv = v(name)
					okN++
				}
			}
			if okN == 2 {
				cosv, haveCos = dot.Div(nu.Mul(nv)), true
			}
			pi := new(big.Rat)
			pi.SetFloat64(math.Pi)
			piR := poly.RatOf(poly.ConstPoly(pi))
			problems := ""
			if e.Err != nil || !haveCos || len(cs) == 0 {
				problems = fmt.Sprintf("cases=%d norms found=%d err=%v", len(cs), okN, e.Err)
			}
			classify := func(lit *sym.Term) (string, bool, bool) {
				x := lit
				if x.Op != "bin" || (x.Name != "<" && x.Name != "<=") {
					return "", false, false
				}
				lhs, ok1 := e.One(x.Args[0])
				rhs, ok2 := e.One(x.Args[1])
				if !ok1 || !ok2 {
					return "", false, false
				}
				d := rhs.Sub(lhs) // the literal says d > 0 (or >= 0)
				switch {
				case d.Equal(poly.RatInt(-1).Sub(cosv)):
					return "low", true, true // cos <= -1
				case d.Equal(cosv.Add(one)):
					return "low", false, true // cos >= -1
				case d.Equal(cosv.Sub(one)):
					return "high", true, true // cos >= 1
				case d.Equal(one.Sub(cosv)):
					return "high", false, true
				case d.Equal(cross.Neg()):
					return "neg", true, true // u x v < 0
				case d.Equal(cross):
					return "neg", false, true
				}
				return "", false, false
			}
			for _, k := range cs {
				if problems != "" {
					break
				}
				states, why := caseStates(k.Conds, classify)
				if why != "" {
					problems = why
					break
				}
				for _, st := range states {
					if st["low"] && st["high"] {
						continue
					}
					var mag poly.Rat
					switch {
					case st["low"]:
						mag = piR
					case st["high"]:
						mag = zero
					default:
						mag = poly.Rat{}
						for _, n := range k.Val.Num.Vars() {
							if strings.HasPrefix(n, "acos(") {
								mag = v(n)
							}
						}
						if mag.Num == nil {
							problems = "no arc cosine between the clamps: " + k.Val.String()
							continue
						}
					}
					want := mag
					if neg, known := st["neg"]; known && neg {
						want = mag.Neg()
					} else if !known && !mag.Equal(zero) {
						problems = "the sign of the angle does not depend on the orientation of the two vectors"
					}
					if !k.Val.Equal(want) {
						problems = "returns " + k.Val.String() + " where " + want.String() + " is expected"
					}
				}
			}
			// the arc cosine is taken of the cosine itself
			for name := range e.Atoms {
				_ = name
			}
			for _, ev := range in2.Events {
				if ev.Kind == "extcall" && ev.Callee == "math.Acos" && len(ev.Args) == 1 && problems == "" {
					if a, ok := e.One(ev.Args[0]); !ok || !haveCos || !a.Equal(cosv) {
						problems = "the arc cosine is taken of " + shortKey(ev.Args[0])
					}
				}
			}
			R.Check(problems == "", hkey, c.FPos(fn), "angle(u, v) = acos(u.v/(|u||v|)), pi below -1 and 0 above 1, negative when u x v < 0", problems)
		}
	}
	// the sweep adjustment of the extent: found inside the start angle of a segment, theta1 + extent*i/n
	{
		t1 := frames[0].Parent.Val(frames[0].Site.(ssa.Value))
		d := frames[1].Parent.Val(frames[1].Site.(ssa.Value))
		var ta *sym.Term
		for i, a := range seg.Args {
			_ = i
			if a != nil && a.Op == "bin" && a.Name == "+" && len(a.Args) == 2 && t1 != nil && a.Args[0].Key() == t1.Key() {
				ta = a // either angle will do: both are theta1 + extent*k/n
			}
		}
		skey := akey + ":sweep"
		var ext *sym.Term
		if ta != nil {
			q := ta.Args[1]
			if q.Op == "bin" && q.Name == "/" && q.Args[0].Op == "bin" && q.Args[0].Name == "*" {
				ext = q.Args[0].Args[0]
			}
		}
		if t1 == nil || d == nil || ext == nil {
			R.Unknown(skey, pos, "the segment angles are not of the form theta1 + extent*i/n with theta1 the first angle")
			return
		}
		e := poly.NewEnv()
		e.Rename[d.Key()] = "d"
		twoPi := new(big.Rat)
		twoPi.SetFloat64(2 * math.Pi)
		tp := poly.RatOf(poly.ConstPoly(twoPi))
		problems := ""
		cs := e.Cases(ext)
		if e.Err != nil || len(cs) == 0 {
			problems = "too many cases"
		}
		classify := func(lit *sym.Term) (string, bool, bool) {
			x := lit
			if x.Key() == "$param:sweep" {
				return "sweep", true, true
			}
			if x.Op != "bin" || (x.Name != "<" && x.Name != "<=") {
				return "", false, false
			}
			lhs, ok1 := e.One(x.Args[0])
			rhs, ok2 := e.One(x.Args[1])
			if !ok1 || !ok2 {
				return "", false, false
			}
			strict := x.Name == "<"
			switch {
			case lhs.Equal(v("d")) && rhs.Equal(zero) && strict:
				return "dneg", true, true // d < 0
			case lhs.Equal(zero) && rhs.Equal(v("d")) && !strict:
				return "dneg", false, true // 0 <= d
			case lhs.Equal(zero) && rhs.Equal(v("d")) && strict:
				return "dpos", true, true // 0 < d
			case lhs.Equal(v("d")) && rhs.Equal(zero) && !strict:
				return "dpos", false, true // d <= 0
			}
			return "", false, false
		}
		for _, k := range cs {
			if problems != "" {
				break
			}
			states, why := caseStates(k.Conds, classify)
			if why != "" {
				problems = why
				break
			}
			for _, st := range states {
				if st["dneg"] && st["dpos"] {
					continue
				}
				sweep, known := st["sweep"]
				want := v("d")
				switch {
				case !known:
					problems = "the extent does not depend on the sweep flag"
				case sweep:
					if dn, ok := st["dneg"]; !ok {
						problems = "when sweeping the extent is not adjusted by whether it is negative"
					} else if dn {
						want = want.Add(tp)
					}
				default:
					if dp, ok := st["dpos"]; !ok {
						problems = "when not sweeping the extent is not adjusted by whether it is positive"
					} else if dp {
						want = want.Sub(tp)
					}
				}
				if problems == "" && !k.Val.Equal(want) {
					problems = fmt.Sprintf("extent %s where %s is expected (%v)", k.Val.String(), want.String(), st)
				}
			}
		}
		R.Check(problems == "", skey, pos, "a full turn is added to a negative extent when sweeping and subtracted from a positive one when not; otherwise the extent is the angle from a to b", problems)
	}
}

// caseStates enumerates the truth assignments of the predicates that the atomic literals of the conditions stand for
// (classify maps a literal to a predicate name and the polarity the literal gives it) under which all conditions
// hold. A literal classify does not know is reported.
func caseStates(conds []*sym.Term, classify func(*sym.Term) (string, bool, bool)) ([]map[string]bool, string) {
	type leaf struct {
		name string
		pol  bool
	}
	leaves := map[string]leaf{}
	var names []string
	seen := map[string]bool{}
	why := ""
	var collect func(t *sym.Term)
	collect = func(t *sym.Term) {
		switch t.Op {
		case "and", "or", "not":
			for _, a := range t.Args {
				collect(a)
			}
			return
		}
		if strings.Contains(t.Key(), "$reach#") {
			leaves[t.Key()] = leaf{"", true}
			return
		}
		n, pol, ok := classify(t)
		if !ok {
			why = "depends on " + shortKey(t)
			return
		}
		leaves[t.Key()] = leaf{n, pol}
		if !seen[n] {
			seen[n] = true
			names = append(names, n)
		}
	}
	for _, cd := range conds {
		collect(cd)
	}
	if why != "" {
		return nil, why
	}
	sort.Strings(names)
	if len(names) > 6 {
		return nil, "too many distinctions in one case"
	}
	var eval func(t *sym.Term, asg map[string]bool) bool
	eval = func(t *sym.Term, asg map[string]bool) bool {
		switch t.Op {
		case "and":
			for _, a := range t.Args {
				if !eval(a, asg) {
					return false
				}
			}
			return true
		case "or":
			for _, a := range t.Args {
				if eval(a, asg) {
					return true
				}
			}
			return false
		case "not":
			return !eval(t.Args[0], asg)
		}
		lf := leaves[t.Key()]
		if lf.name == "" {
			return true // a reachability abbreviation: no constraint on the distinctions
		}
		return asg[lf.name] == lf.pol
	}
	var out []map[string]bool
	for m := 0; m < 1<<len(names); m++ {
		asg := map[string]bool{}
		for i, n := range names {
			asg[n] = m&(1<<i) != 0
		}
		ok := true
		for _, cd := range conds {
			if !eval(cd, asg) {
				ok = false
			}
		}
		if ok {
			out = append(out, asg)
		}
	}
	return out, ""
}
