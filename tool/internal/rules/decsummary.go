package rules

import (
	"fmt"
	"go/constant"
	"go/types"
	"os"
	"strings"

	"golang.org/x/tools/go/ssa"

	"ivgsa/internal/sym"
)

// operandRef identifies one operand read within a repetition.
type operandRef struct {
	Kind  string
	Ev    *sym.Event
	Index int64 // index within the event's inner loop (0 if none)
}

// opSummary is the behaviour extracted from the decoder for one opcode key.
type opSummary struct {
	Key       int
	Reserved  bool
	ErrConst  string
	Reps      int64
	HasLoop   bool
	Operands  []operandRef
	Deliver   *sym.Event
	Method    string
	Next      string
	Problems  []string
	ErrLeaves int
	OkLeaves  int
	tr        *decTrace
}

func (s *opSummary) problem(format string, args ...interface{}) {
	s.Problems = append(s.Problems, fmt.Sprintf(format, args...))
}

func destMethodName(callee string) string {
	if i := strings.LastIndex(callee, "."); i >= 0 {
		return callee[i+1:]
	}
	return callee
}

func isDestinationInvoke(ev *sym.Event) bool {
	return strings.Contains(ev.Callee, "ivg.Destination).")
}

// summarise folds the trace of a mode function under one opcode key.
func summarise(tr *decTrace) *opSummary {
	s := &opSummary{Key: tr.Key, tr: tr, Reps: 1}
	for _, w := range tr.Warn {
		s.problem("interpreter: %s", w)
	}
	if tr.Result == nil {
		s.problem("function never returns")
		return s
	}
	// result leaves: every return of the mode function under its own guard
	var leaves []sym.TermCase
	for _, ret := range tr.Returns {
		if len(ret.Args) == 0 || ret.Args[0] == nil {
			s.problem("return without values")
			continue
		}
		ls := sym.CasesUnder(guardLits(ret.Guard), ret.Args[0], 256)
		if ls == nil && ret.Args[0] != nil {
			s.problem("a return value has too many cases")
		}
		leaves = append(leaves, ls...)
	}
	nexts := map[string]bool{}
	errs := map[string]bool{}
	for _, lf := range leaves {
		if lf.Val.Op != "tuple" || len(lf.Val.Args) != 3 {
			s.problem("result leaf is not a (mode, buffer, error) triple: %s", lf.Val.Key())
			continue
		}
		e := lf.Val.Args[2]
		if e.IsNil() {
			s.OkLeaves++
			m := lf.Val.Args[0]
			if m.Op == "fn" {
				nexts[m.Fn.Name()] = true
			} else {
				nexts["?"+m.Key()] = true
			}
			continue
		}
		s.ErrLeaves++
		if e.Op == "makeiface" && e.Args[0].IsConst() {
			errs[typeName(e.T)+":"+e.Args[0].Key()] = true
		} else {
			errs["?"+e.Key()] = true
		}
	}
	s.ErrConst = strings.Join(sortedKeys(errs), "|")
	if s.OkLeaves == 0 {
		s.Reserved = true
		return s
	}
	if len(nexts) != 1 {
		s.problem("successful returns disagree on the next mode: %v", sortedKeys(nexts))
	}
	for k := range nexts {
		s.Next = k
	}
	// the repetition loop: a loop of the root frame that contains consume/deliver events
	var rep *sym.LoopRef
	interesting := append(append([]*sym.Event{}, tr.Consumes...), tr.Delivers...)
	for _, ev := range interesting {
		for i := range ev.Loops {
			l := ev.Loops[i]
			if l.Frame == tr.Frame {
				if rep == nil {
					rep = &l
				} else if rep.Header != l.Header {
					s.problem("more than one loop in the mode function contains operand reads or deliveries")
				}
			}
		}
	}
	if rep != nil {
		s.HasLoop = true
		t, ok := loopTrip(*rep)
		if !ok {
			s.problem("repetition loop is not a counted loop with constant bounds")
		}
		s.Reps = t
	}
	inRep := func(ev *sym.Event) ([]sym.LoopRef, bool) {
		if rep == nil {
			return ev.Loops, true
		}
		if len(ev.Loops) == 0 || ev.Loops[0].Frame != rep.Frame || ev.Loops[0].Header != rep.Header {
			return nil, false
		}
		return ev.Loops[1:], true
	}
	for _, ev := range tr.Consumes {
		inner, ok := inRep(ev)
		if !ok {
			s.problem("operand read outside the repetition loop at %s", ev.Frame.Stack())
			continue
		}
		kind := decoderKinds[ev.Callee]
		if kind == "" {
			kind = "?" + ev.Callee
		}
		switch len(inner) {
		case 0:
			s.Operands = append(s.Operands, operandRef{kind, ev, 0})
		case 1:
			t, ok := loopTrip(inner[0])
			if !ok {
				s.problem("inner operand loop is not a counted loop with constant bounds at %s", ev.Frame.Stack())
				continue
			}
			li, _ := inner[0].Frame.Loop(inner[0].Header)
			if i0, ok := li.Init.Int64(); !ok || i0+li.Offset != 0 {
				s.problem("inner operand loop does not count from 0")
			}
			for k := int64(0); k < t; k++ {
				s.Operands = append(s.Operands, operandRef{kind, ev, k})
			}
		default:
			s.problem("operand read nested in %d inner loops", len(inner))
		}
	}
	var dels []*sym.Event
	for _, ev := range tr.Delivers {
		if isDestinationInvoke(ev) {
			dels = append(dels, ev)
		} else {
			s.problem("invoke of %s in the decoder", ev.Callee)
		}
	}
	if len(dels) != 1 {
		var ms []string
		for _, d := range dels {
			ms = append(ms, destMethodName(d.Callee))
		}
		s.problem("expected exactly one delivery per repetition, found %d %v", len(dels), ms)
		return s
	}
	s.Deliver = dels[0]
	// arguments as they are on the delivering path: values handed back by helpers with several returns arrive as
	// "ite(a read failed, zero, value)"; next to the delivery's own path condition (every read succeeded) they
	// are the value
	{
		lits := normaliseLits(guardLits(s.Deliver.Guard))
		cp := *s.Deliver
		cp.Args = append([]*sym.Term{}, s.Deliver.Args...)
		for i, a := range cp.Args {
			if a == nil {
				continue
			}
			for _, l := range lits {
				if l.Op == "not" {
					a = sym.Assume(a, l.Args[0], false)
				} else if l.Op != "and" && l.Op != "or" {
					a = sym.Assume(a, l, true)
				}
			}
			cp.Args[i] = simplifyUnder(a, lits)
		}
		s.Deliver = &cp
		if os.Getenv("IVGSA_DEBUG_DELIVER") != "" && tr.Key == 0xc0 {
			for _, l := range lits {
				fmt.Fprintln(os.Stderr, "LIT", l.Key())
			}
			for i, a := range cp.Args {
				if a != nil {
					fmt.Fprintln(os.Stderr, "ARG", i, a.Key())
				}
			}
		}
	}
	s.Method = destMethodName(dels[0].Callee)
	if inner, ok := inRep(dels[0]); !ok || len(inner) != 0 {
		s.problem("delivery is not executed exactly once per repetition (loop nesting %d)", len(dels[0].Loops))
	}
	for _, ev := range tr.Others {
		switch ev.Kind {
		case "indirect", "extcall":
			if ev.Kind == "extcall" && (strings.HasPrefix(ev.Callee, "fmt.") || strings.HasPrefix(ev.Callee, "math.")) {
				continue
			}
			s.problem("unexpected %s %s", ev.Kind, ev.Callee)
		case "globalwrite", "mapupdate", "copy":
			s.problem("unexpected %s", ev.Kind)
		}
	}
	if len(tr.Panics) > 0 {
		s.problem("%d reachable explicit panics", len(tr.Panics))
	}
	return s
}

func typeName(t types.Type) string {
	if n, ok := t.(*types.Named); ok {
		return n.Obj().Name()
	}
	return t.String()
}

// valAtomsIn returns the names of "val@" atoms mentioned by t.
func valAtomsIn(t *sym.Term) []string {
	m := map[string]bool{}
	sym.Walk(t, func(x *sym.Term) bool {
		if x.Op == "atom" && strings.HasPrefix(x.Name, "val@") {
			m[x.Name] = true
		}
		return true
	})
	return sortedKeys(m)
}

func eventValAtom(ev *sym.Event) string {
	if ev.Result != nil && ev.Result.Op == "tuple" {
		return ev.Result.Args[0].Name
	}
	return ""
}

// argOperandIndex decides which operand (index into s.Operands) a delivered
// argument carries, or -1 with a reason.
func (s *opSummary) argOperandIndex(arg *sym.Term) (int, string) {
	atoms := valAtomsIn(arg)
	if len(atoms) != 1 {
		return -1, fmt.Sprintf("argument mentions %d operand values: %s", len(atoms), arg.Key())
	}
	// the consume event that produced it
	var ev *sym.Event
	for _, c := range s.tr.Consumes {
		if eventValAtom(c) == atoms[0] {
			ev = c
		}
	}
	if ev == nil {
		return -1, "operand value of an unknown read"
	}
	idx := int64(0)
	t := arg
	if t.Op == "weak" {
		// weak:<frame>#<store>#<k>(value, old, relative index term)
		parts := strings.Split(t.Name, "#")
		var k int64
		fmt.Sscanf(parts[len(parts)-1], "%d", &k)
		idx = k
		frameID := strings.Join(parts[:len(parts)-2], "#")
		// the store must sit in the frame that owns the read's inner loop, and be indexed by that loop's counter
		var inner *sym.LoopRef
		for i := range ev.Loops {
			if ev.Loops[i].Frame.ID == frameID {
				inner = &ev.Loops[i]
			}
		}
		if inner == nil {
			return -1, "array cell written outside the loop that reads the operand"
		}
		li, ok := inner.Frame.Loop(inner.Header)
		if !ok || len(t.Args) < 3 || !sym.Eq(t.Args[2], li.IndexVal) {
			return -1, "array cell is not indexed by the operand loop's counter"
		}
		if len(valAtomsIn(t.Args[0])) != 1 {
			return -1, "stored value is not a single operand"
		}
	} else {
		// direct value, possibly gated by the read's own failure test: ite(n==0, 0, val) or val
		if !isValOrGated(t, atoms[0]) {
			return -1, "argument is computed from the operand, not the operand itself: " + t.Key()
		}
	}
	for i, o := range s.Operands {
		if o.Ev == ev && o.Index == idx {
			return i, ""
		}
	}
	return -1, fmt.Sprintf("no operand %d at that read", idx)
}

func isValOrGated(t *sym.Term, atom string) bool {
	if t.Op == "atom" && t.Name == atom {
		return true
	}
	if t.Op == "ite" {
		// one arm is the value, the other a constant (the failure result, never delivered)
		a, b := t.Args[1], t.Args[2]
		if a.IsConst() && isValOrGated(b, atom) {
			return true
		}
		if b.IsConst() && isValOrGated(a, atom) {
			return true
		}
	}
	return false
}

// flagBitOf decides whether boolean term t is "bit b of operand value atom is
// set" by constant-folding t with the atom replaced by each value 0..15 (the
// term only mentions that one atom), also ignoring the read's failure gate.
func flagBitOf(t *sym.Term, atom string, bit uint, nAtom string) (bool, string) {
	// structure: every integer the flag is computed from is, bit for bit, a constant or bit `bit` of the operand
	// (exact for all 2^32 operand values; a detour through a float, an addition or another bit is refused)
	akey := sym.Atom(atom, nil).Key()
	why := ""
	sym.Walk(t, func(x *sym.Term) bool {
		if why != "" || x.Op != "bin" {
			return why == ""
		}
		switch x.Name {
		case "==", "<", "<=":
		default:
			return true
		}
		for _, a := range x.Args {
			if a.IsConst() || !sym.Mentions(a, akey) {
				continue
			}
			w, _, isInt := intWidth(a.T)
			if !isInt {
				why = "the flag is computed from a non-integer value " + shortKey(a)
				return false
			}
			bits, err := toBits(a, w)
			if err != nil {
				why = "the flag is not a bit-level function of the operand: " + err.Error()
				return false
			}
			for _, b := range bits {
				if b.Atom != "" && (b.Atom != akey || b.Bit != int(bit)) {
					why = fmt.Sprintf("the flag depends on %s, expected only bit %d of the operand", b.String(), bit)
					return false
				}
			}
		}
		return false
	})
	if why != "" {
		return false, why
	}
	for v := int64(0); v < 16; v++ {
		x := sym.Subst(t, sym.Atom(atom, nil), sym.Const(constant.MakeInt64(v), types.Typ[types.Uint32]))
		// the read succeeded: n != 0 (pick the constant 1 for the opaque length)
		x = sym.Subst(x, sym.Atom(nAtom, nil), sym.Const(constant.MakeInt64(1), types.Typ[types.Int]))
		bv, ok := x.BoolVal()
		if !ok {
			return false, "flag expression does not fold to a constant for operand value " + fmt.Sprint(v) + ": " + x.Key()
		}
		if bv != ((v>>bit)&1 == 1) {
			return false, fmt.Sprintf("flag is %v for operand value %d, expected bit %d", bv, v, bit)
		}
	}
	return true, ""
}

// compareWithSpec produces the list of disagreements between the extracted
// summary and the specification row.
func (s *opSummary) compareWithSpec(spec opSpec, modeFns map[string]string) []string {
	var out []string
	out = append(out, s.Problems...)
	if spec.Reserved != s.Reserved {
		if spec.Reserved {
			out = append(out, "specification reserves this opcode but the decoder accepts it")
		} else {
			out = append(out, "specification defines this opcode but the decoder always fails with "+s.ErrConst)
		}
		return out
	}
	if spec.Reserved {
		if len(s.tr.Consumes) > 0 || len(s.tr.Delivers) > 0 {
			out = append(out, "reserved opcode reads operands or delivers a call")
		}
		if !strings.HasPrefix(s.ErrConst, "DecodeError:") || strings.Contains(s.ErrConst, "|") {
			out = append(out, "reserved opcode must fail with one DecodeError, got "+s.ErrConst)
		}
		return out
	}
	if s.Reps != spec.Reps {
		out = append(out, fmt.Sprintf("repeat count %d, specification says %d", s.Reps, spec.Reps))
	}
	if s.Method != spec.Method {
		out = append(out, fmt.Sprintf("delivers %s, specification says %s", s.Method, spec.Method))
	}
	var kinds []string
	for _, o := range s.Operands {
		kinds = append(kinds, o.Kind)
	}
	if strings.Join(kinds, ",") != strings.Join(spec.Operands, ",") {
		out = append(out, fmt.Sprintf("operands [%s], specification says [%s]", strings.Join(kinds, ","), strings.Join(spec.Operands, ",")))
	}
	if want := modeFns[spec.Next]; s.Next != want {
		out = append(out, fmt.Sprintf("next mode %s, specification says %s (%s)", s.Next, spec.Next, want))
	}
	if s.Deliver != nil && s.Method == spec.Method {
		args := s.Deliver.Args[1:] // drop the receiver
		if len(args) != len(spec.Args) {
			out = append(out, fmt.Sprintf("%d arguments delivered, specification says %d", len(args), len(spec.Args)))
		} else {
			for i, want := range spec.Args {
				got := args[i]
				switch want.Kind {
				case argConstInt:
					if v, ok := got.Int64(); !ok || v != want.Int {
						out = append(out, fmt.Sprintf("argument %d is %s, specification says constant %d", i, got.Key(), want.Int))
					}
				case argConstBool:
					if v, ok := got.BoolVal(); !ok || v != want.Bool {
						out = append(out, fmt.Sprintf("argument %d is %s, specification says constant %v", i, got.Key(), want.Bool))
					}
				case argOperand:
					k, why := s.argOperandIndex(got)
					if k != want.K {
						if why == "" {
							why = fmt.Sprintf("carries operand %d", k)
						}
						out = append(out, fmt.Sprintf("argument %d must be operand %d: %s", i, want.K, why))
					}
				case argFlagBit:
					atoms := valAtomsIn(got)
					if len(atoms) != 1 || want.K >= len(s.Operands) || eventValAtom(s.Operands[want.K].Ev) != atoms[0] {
						out = append(out, fmt.Sprintf("argument %d must be bit %d of operand %d, found %s", i, want.Bit, want.K, got.Key()))
						break
					}
					nAtom := s.Operands[want.K].Ev.Result.Args[1].Name
					if ok, why := flagBitOf(got, atoms[0], want.Bit, nAtom); !ok {
						out = append(out, fmt.Sprintf("argument %d must be bit %d of operand %d: %s", i, want.Bit, want.K, why))
					}
				}
			}
		}
		// the delivery may depend only on the destination being present, operand reads succeeding and loop counters
		for _, lit := range guardLits(s.Deliver.Guard) {
			if why := badDeliveryCondition(lit); why != "" {
				out = append(out, "delivery is conditional on "+why)
			}
		}
	}
	return out
}

// badDeliveryCondition returns "" if the literal is an acceptable reason for a
// delivery to happen or not: destination nil test, operand read success,
// loop counter tests.
func badDeliveryCondition(lit *sym.Term) string {
	bad := ""
	sym.Walk(lit, func(x *sym.Term) bool {
		if bad != "" {
			return false
		}
		if x.Op == "atom" {
			switch {
			case x.Name == "param:dst", strings.HasPrefix(x.Name, "n@"), strings.HasPrefix(x.Name, "phi#"):
			default:
				bad = "the value " + x.Name + " in " + lit.Key()
			}
		}
		return true
	})
	return bad
}

// modeFuncNames resolves the two decoder mode functions by role: values of the
// named func type decode.modeFunc defined in package decode.
func (c *Ctx) modeFuncs() (styling, drawing *ssa.Function) {
	styling = c.Fn("decode", "decodeStyling")
	drawing = c.Fn("decode", "decodeDrawing")
	return
}
