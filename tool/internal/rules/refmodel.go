package rules

// Reference models written from spec/iconvg-spec-v0.md. They are the oracle
// for the decoder/encoder table rules; every row cites its section.

// argKind says what a delivered argument must be.
type argKind int

const (
	argConstInt  argKind = iota // a constant integer
	argConstBool                // a constant boolean
	argOperand                  // the value of operand K of this repetition
	argFlagBit                  // bit Bit of operand K is set
)

type argSpec struct {
	Kind argKind
	Int  int64
	Bool bool
	K    int
	Bit  uint
}

// opSpec is what one opcode byte means in one mode.
type opSpec struct {
	Reserved bool
	Method   string   // ivg.Destination method delivered (once per repetition)
	Reps     int64    // repeat count
	Operands []string // operand kinds per repetition, in stream order
	Args     []argSpec
	Next     string // mode function after the instruction: "styling" or "drawing"
	Letter   byte   // SVG-style mnemonic for drawing ops (0 for styling)
}

func operands(k ...int) []argSpec {
	var out []argSpec
	for _, i := range k {
		out = append(out, argSpec{Kind: argOperand, K: i})
	}
	return out
}

func repeat(kind string, n int) []string {
	var out []string
	for i := 0; i < n; i++ {
		out = append(out, kind)
	}
	return out
}

// stylingSpec: spec section "Styling Opcodes".
func stylingSpec(b int) opSpec {
	adj := int64(b & 7)
	switch {
	case b <= 0x3f: // "Opcodes 0x00 to 0x3F sets CSEL to the low 6 bits of the opcode."
		return opSpec{Method: "SetCSel", Reps: 1, Args: []argSpec{{Kind: argConstInt, Int: int64(b & 0x3f)}}, Next: "styling"}
	case b <= 0x7f: // "Opcodes 0x40 to 0x7F sets NSEL to the low 6 bits of the opcode."
		return opSpec{Method: "SetNSel", Reps: 1, Args: []argSpec{{Kind: argConstInt, Int: int64(b & 0x3f)}}, Next: "styling"}
	case b <= 0xa7:
		// 0x80-0x86 1 byte, 0x88-0x8E 2 byte, 0x90-0x96 3 byte direct, 0x98-0x9E 4 byte,
		// 0xA0-0xA6 3 byte indirect; 0x87,0x8F,0x97,0x9F,0xA7: CREG[CSEL], then CSEL++.
		kind := []string{"color1", "color2", "color3Direct", "color4", "color3Indirect"}[(b-0x80)/8]
		incr := adj == 7
		if incr {
			adj = 0
		}
		return opSpec{Method: "SetCReg", Reps: 1, Operands: []string{kind},
			Args: []argSpec{{Kind: argConstInt, Int: adj}, {Kind: argConstBool, Bool: incr}, {Kind: argOperand, K: 0}}, Next: "styling"}
	case b <= 0xbf:
		// 0xA8-0xAE real, 0xB0-0xB6 coordinate, 0xB8-0xBE zero-to-one; 0xAF,0xB7,0xBF: NREG[NSEL], then NSEL++.
		kind := []string{"real", "coordinate", "zeroToOne"}[(b-0xa8)/8]
		incr := adj == 7
		if incr {
			adj = 0
		}
		return opSpec{Method: "SetNReg", Reps: 1, Operands: []string{kind},
			Args: []argSpec{{Kind: argConstInt, Int: adj}, {Kind: argConstBool, Bool: incr}, {Kind: argOperand, K: 0}}, Next: "styling"}
	case b <= 0xc6: // "Opcodes 0xC0 to 0xC6 switch to the drawing mode, and are followed by two coordinates"
		return opSpec{Method: "StartPath", Reps: 1, Operands: repeat("coordinate", 2),
			Args: append([]argSpec{{Kind: argConstInt, Int: adj}}, operands(0, 1)...), Next: "drawing"}
	case b == 0xc7: // "Opcode 0xC7 sets the Level of Detail bounds LOD0 and LOD1 to the two real numbers"
		return opSpec{Method: "SetLOD", Reps: 1, Operands: repeat("real", 2), Args: operands(0, 1), Next: "styling"}
	}
	return opSpec{Reserved: true} // "All other opcodes are reserved."
}

// drawingSpec: spec section "Drawing Opcodes".
func drawingSpec(b int) opSpec {
	coords := func(method string, letter byte, reps int64, n int) opSpec {
		idx := make([]int, n)
		for i := range idx {
			idx[i] = i
		}
		return opSpec{Method: method, Letter: letter, Reps: reps, Operands: repeat("coordinate", n), Args: operands(idx...), Next: "drawing"}
	}
	arc := func(method string, letter byte, reps int64) opSpec {
		// "(rx, ry, xAxisRotation, flags, x, y)": coordinates, an angle (zero-to-one), a natural, coordinates;
		// "The 0x01 bit of the decoded natural number is the large-arc-flag and the 0x02 bit is the sweep-flag."
		return opSpec{Method: method, Letter: letter, Reps: reps,
			Operands: []string{"coordinate", "coordinate", "zeroToOne", "natural", "coordinate", "coordinate"},
			Args: []argSpec{{Kind: argOperand, K: 0}, {Kind: argOperand, K: 1}, {Kind: argOperand, K: 2},
				{Kind: argFlagBit, K: 3, Bit: 0}, {Kind: argFlagBit, K: 3, Bit: 1}, {Kind: argOperand, K: 4}, {Kind: argOperand, K: 5}},
			Next: "drawing"}
	}
	switch {
	case b <= 0x1f: // RC in [1,32]
		return coords("AbsLineTo", 'L', int64(b-0x00)+1, 2)
	case b <= 0x3f:
		return coords("RelLineTo", 'l', int64(b-0x20)+1, 2)
	case b <= 0x4f: // RC in [1,16]
		return coords("AbsSmoothQuadTo", 'T', int64(b-0x40)+1, 2)
	case b <= 0x5f:
		return coords("RelSmoothQuadTo", 't', int64(b-0x50)+1, 2)
	case b <= 0x6f:
		return coords("AbsQuadTo", 'Q', int64(b-0x60)+1, 4)
	case b <= 0x7f:
		return coords("RelQuadTo", 'q', int64(b-0x70)+1, 4)
	case b <= 0x8f:
		return coords("AbsSmoothCubeTo", 'S', int64(b-0x80)+1, 4)
	case b <= 0x9f:
		return coords("RelSmoothCubeTo", 's', int64(b-0x90)+1, 4)
	case b <= 0xaf:
		return coords("AbsCubeTo", 'C', int64(b-0xa0)+1, 6)
	case b <= 0xbf:
		return coords("RelCubeTo", 'c', int64(b-0xb0)+1, 6)
	case b <= 0xcf:
		return arc("AbsArcTo", 'A', int64(b-0xc0)+1)
	case b <= 0xdf:
		return arc("RelArcTo", 'a', int64(b-0xd0)+1)
	case b == 0xe1: // one z op and then end the path ... switch back to the styling mode
		return opSpec{Method: "ClosePathEndPath", Letter: 'Z', Reps: 1, Next: "styling"}
	case b == 0xe2:
		return coords("ClosePathAbsMoveTo", 'Y', 1, 2)
	case b == 0xe3:
		return coords("ClosePathRelMoveTo", 'y', 1, 2)
	case b == 0xe6:
		return coords("AbsHLineTo", 'H', 1, 1)
	case b == 0xe7:
		return coords("RelHLineTo", 'h', 1, 1)
	case b == 0xe8:
		return coords("AbsVLineTo", 'V', 1, 1)
	case b == 0xe9:
		return coords("RelVLineTo", 'v', 1, 1)
	}
	return opSpec{Reserved: true} // 0xE0, 0xE4, 0xE5 and all other opcodes are reserved
}

// decoderKinds maps the operand decoder methods of decode.buffer to operand
// kinds. Rule C03.2 verifies that each method implements its kind.
var decoderKinds = map[string]string{
	"decodeNatural":        "natural",
	"decodeReal":           "real",
	"decodeCoordinate":     "coordinate",
	"decodeZeroToOne":      "zeroToOne",
	"decodeColor1":         "color1",
	"decodeColor2":         "color2",
	"decodeColor3Direct":   "color3Direct",
	"decodeColor4":         "color4",
	"decodeColor3Indirect": "color3Indirect",
}
