package rules

import (
	"fmt"
	"go/types"
	"math/big"
	"strings"

	"golang.org/x/tools/go/ssa"

	"ivgsa/internal/poly"
	"ivgsa/internal/sym"
)

func init() { register("C03", ruleC03_2) }

const (
	lenB = "len($param:b)"
)

func byteAtomKey(i int) string { return fmt.Sprintf("$init:deref:$param:b[%d]", i) }
func byteAtom(i int) *sym.Term {
	return sym.Atom(fmt.Sprintf("init:deref:$param:b[%d]", i), types.Typ[types.Uint8])
}

// specNatural: spec section "Natural Numbers": tag xxxxxxx0 -> 1 byte, value b0>>1;
// xxxxxx01 -> 2 bytes little endian, >>2; xxxxxx11 -> 4 bytes little endian, >>2.
func specNaturalLen(length int, tag int) int64 {
	switch {
	case tag&1 == 0:
		if length >= 1 {
			return 1
		}
	case tag&3 == 1:
		if length >= 2 {
			return 2
		}
	default:
		if length >= 4 {
			return 4
		}
	}
	return 0
}

func specNaturalBits(n int64) bitVec {
	out := make(bitVec, 32)
	src := func(bit int) bitSrc { return bitSrc{Atom: byteAtomKey(bit / 8), Bit: bit % 8} }
	switch n {
	case 1:
		for i := 0; i < 7; i++ {
			out[i] = src(i + 1)
		}
	case 2:
		for i := 0; i < 14; i++ {
			out[i] = src(i + 2)
		}
	case 4:
		for i := 0; i < 30; i++ {
			out[i] = src(i + 2)
		}
	}
	return out
}

// checkLengthGate verifies, on the finite abstraction (length class 0..6, tag
// bits of byte 0), that exactly one leaf applies and that its byte count is
// the specification's.
func checkLengthGate(c *Ctx, construct, pos string, leaves []sym.TermCase, want func(length, tag int) int64, nOf func(v *sym.Term) *sym.Term, tags []int) {
	R := c.R
	for _, lf := range leaves {
		for _, a := range atomsOf(lf.Conds...) {
			if a != "$param:b" && a != byteAtomKey(0) {
				R.Bad(construct+":gate", pos, "acceptance depends only on the length and on byte 0", "condition mentions "+a)
				return
			}
		}
	}
	for length := 0; length <= 6; length++ {
		for _, tag := range tags {
			for _, hi := range []int{0x00, 0xfc} {
				sub := map[string]*sym.Term{lenB: sym.Int(int64(length)), byteAtomKey(0): u8(int64(tag | hi))}
				hits := 0
				var got *sym.Term
				for _, lf := range leaves {
					all, ok := foldConds(lf.Conds, sub)
					if !ok {
						R.Unknown(construct+":gate", pos, fmt.Sprintf("a condition does not fold for length=%d byte0=%#x: %s", length, tag|hi, condKey(lf.Conds)))
						return
					}
					if all {
						hits++
						got = nOf(lf.Val)
					}
				}
				w := want(length, tag)
				gv, isC := int64(-1), false
				if got != nil {
					gv, isC = got.Int64()
				}
				if hits != 1 || !isC || gv != w {
					R.Bad(construct+":gate", pos, fmt.Sprintf("length=%d byte0=%#x consumes %d bytes", length, tag|hi, w),
						fmt.Sprintf("%d applicable leaves, count=%s", hits, shortKey(got)))
					return
				}
			}
		}
	}
	R.OK(construct+":gate", pos, "exactly one case applies for every (length class 0..6, tag) and its byte count is the specification's; short input gives 0")
}

func ruleC03_2(c *Ctx) {
	R := c.R
	R.Rule("C03.2", "operand decoders against the specification's number and colour tables: acceptance gate on (length, tag), value as bit-wiring / rational normal form per form, all 256 one-byte colours", 30)
	R.Assume("integer arithmetic in the number decoders does not overflow (values are below 2^30); float conversions are exact over the reals")

	tuple2 := func(v *sym.Term, i int) *sym.Term {
		if v == nil || v.Op != "tuple" || len(v.Args) != 2 {
			return nil
		}
		return v.Args[i]
	}
	nOf := func(v *sym.Term) *sym.Term { return tuple2(v, 1) }

	// --- natural ---
	if fn := c.Method("decode", "buffer", "decodeNatural", false); fn != nil {
		h := c.newDecHooks()
		h.enter["decodeNatural"] = true
		in := c.Interp()
		in.Hooks = h
		leaves, _, ok := rootLeaves(in, fn, nil, nil)
		pos := c.FPos(fn)
		key := "decode.(buffer).decodeNatural"
		if !ok || len(in.Warn) > 0 {
			R.Unknown(key+":analysis", pos, "cases or warnings: "+strings.Join(in.Warn, "; "))
		}
		checkLengthGate(c, key, pos, leaves, specNaturalLen, nOf, []int{0, 1, 2, 3})
		seen := map[int64]bool{}
		for _, lf := range leaves {
			n, okn := nOf(lf.Val).Int64()
			if !okn {
				R.Bad(key+":count", pos, "constant byte count per case", shortKey(nOf(lf.Val)))
				continue
			}
			u := tuple2(lf.Val, 0)
			if n == 0 {
				if v, ok := u.Int64(); !ok || v != 0 {
					R.Bad(key+":value:n=0", pos, "0", shortKey(u))
				}
				continue
			}
			if seen[n] {
				continue
			}
			seen[n] = true
			got, err := toBits(u, 32)
			if err != nil {
				R.Unknown(fmt.Sprintf("%s:value:n=%d", key, n), pos, err.Error())
				continue
			}
			want := specNaturalBits(n)
			R.Check(got.equal(want), fmt.Sprintf("%s:value:n=%d", key, n), pos, want.String(), got.String())
		}
		R.Check(seen[1] && seen[2] && seen[4] && len(seen) == 3, key+":forms", pos, "forms of 1, 2 and 4 bytes", fmt.Sprint(seen))
	}

	// --- real, coordinate, zero-to-one: keyed by the natural's byte count ---
	type numSpec struct {
		name string
		one  func(U poly.Rat) poly.Rat
		two  func(U poly.Rat) poly.Rat
	}
	rat := func(a, b int64) poly.Rat { return poly.RatOf(poly.ConstPoly(big.NewRat(a, b))) }
	specs := []numSpec{
		// "Real Numbers": 1 and 2 byte forms are the natural number itself
		{"decodeReal", func(U poly.Rat) poly.Rat { return U }, func(U poly.Rat) poly.Rat { return U }},
		// "Coordinate Numbers": 1 byte: natural - 64; 2 byte: (natural - 64*128) / 64
		{"decodeCoordinate", func(U poly.Rat) poly.Rat { return U.Sub(rat(64, 1)) }, func(U poly.Rat) poly.Rat { return U.Sub(rat(64*128, 1)).Div(rat(64, 1)) }},
		// "Zero-to-One Numbers": 1 byte: natural / 120; 2 byte: natural / 15120
		{"decodeZeroToOne", func(U poly.Rat) poly.Rat { return U.Div(rat(120, 1)) }, func(U poly.Rat) poly.Rat { return U.Div(rat(15120, 1)) }},
	}
	for _, sp := range specs {
		fn := c.Method("decode", "buffer", sp.name, false)
		if fn == nil {
			continue
		}
		pos := c.FPos(fn)
		for _, n := range []int64{0, 1, 2, 4} {
			key := fmt.Sprintf("decode.(buffer).%s:n=%d", sp.name, n)
			h := c.newDecHooks()
			nn := n
			h.natN = &nn
			in := c.Interp()
			in.Hooks = h
			res, _, _ := in.Run(fn, nil, nil)
			if res == nil || res.Op != "tuple" || len(res.Args) != 2 || len(in.Warn) > 0 {
				R.Unknown(key, pos, "result is not a (value, count) pair: "+shortKey(res)+" "+strings.Join(in.Warn, ";"))
				continue
			}
			nConsumes := 0
			var U *sym.Term
			for _, ev := range in.Events {
				if ev.Kind == "consume" {
					nConsumes++
					if ev.Callee != "decodeNatural" {
						nConsumes += 100
					}
					U = ev.Result.Args[0]
				}
			}
			if nConsumes != 1 {
				R.Bad(key, pos, "exactly one natural number is read", fmt.Sprintf("%d reads", nConsumes))
				continue
			}
			if v, ok := res.Args[1].Int64(); !ok || v != n {
				R.Bad(key+":count", pos, fmt.Sprintf("returns the natural's byte count %d", n), shortKey(res.Args[1]))
				continue
			}
			f := res.Args[0]
			switch n {
			case 0:
				cs := poly.NewEnv()
				r, ok := cs.One(f)
				R.Check(ok && r.IsZero(), key, pos, "0 on short input", shortKey(f))
			case 1, 2:
				env := poly.NewEnv()
				env.Rename[U.Key()] = "U"
				got, ok := env.One(f)
				want := sp.one(poly.RatVar("U"))
				if n == 2 {
					want = sp.two(poly.RatVar("U"))
				}
				R.Check(ok && got.Equal(want), key, pos, want.String(), map[bool]string{true: got.String(), false: shortKey(f)}[ok])
			case 4:
				// float32 from the bits natural<<2 (the two tag bits cleared)
				okForm := f.Op == "call" && f.Name == "math.Float32frombits" && len(f.Args) == 1
				if okForm {
					got, err := toBits(f.Args[0], 32)
					want := make(bitVec, 32)
					for i := 2; i < 32; i++ {
						want[i] = bitSrc{Atom: U.Key(), Bit: i - 2}
					}
					if err != nil {
						R.Unknown(key, pos, err.Error())
					} else {
						R.Check(got.equal(want), key, pos, "math.Float32frombits(natural<<2)", got.String())
					}
				} else {
					R.Bad(key, pos, "math.Float32frombits(natural<<2)", shortKey(f))
				}
			}
		}
	}

	// --- colours ---
	ctorTyp := func(name string, nargs int) *sym.Term {
		fn := c.Fn("", name)
		if fn == nil {
			return nil
		}
		in := c.Interp()
		res, _, _ := in.Run(fn, nil, nil)
		if res == nil || res.Op != "agg" || len(res.Args) != 2 {
			R.Unknown("ivg."+name+":shape", c.FPos(fn), "constructor result is not Color{typ, data}: "+shortKey(res))
			return nil
		}
		if !res.Args[0].IsConst() {
			R.Unknown("ivg."+name+":typ", c.FPos(fn), "constructor does not set a constant colour type")
			return nil
		}
		return res.Args[0]
	}
	typRGBA := ctorTyp("RGBAColor", 1)
	runCtor := func(name string, args ...*sym.Term) *sym.Term {
		fn := c.Fn("", name)
		if fn == nil {
			return nil
		}
		in := c.Interp()
		res, _, _ := in.Run(fn, args, nil)
		return res
	}
	rgbaAgg := func(r, g, b, a *sym.Term) *sym.Term {
		return &sym.Term{Op: "agg", Args: []*sym.Term{r, g, b, a}}
	}

	// decodeColor1 + ivg.DecodeColor1: all 256 byte values (keyed constant propagation)
	if fn := c.Method("decode", "buffer", "decodeColor1", false); fn != nil && typRGBA != nil {
		pos := c.FPos(fn)
		tab := []int64{0x00, 0x40, 0x80, 0xc0, 0xff}
		bad := 0
		for v := 0; v < 256; v++ {
			h := c.newDecHooks()
			h.enter["decodeColor1"] = true
			h.pinInputByte("b", 0, int64(v))
			in := c.Interp()
			in.Hooks = h
			leaves, _, _ := rootLeaves(in, fn, nil, nil)
			var want *sym.Term
			switch {
			case v < 125: // base-5 digits r,g,b -> {00,40,80,c0,ff}, alpha ff
				want = runCtor("RGBAColor", rgbaAgg(u8(tab[v/25]), u8(tab[(v/5)%5]), u8(tab[v%5]), u8(0xff)))
			case v == 125:
				want = runCtor("RGBAColor", rgbaAgg(u8(0xc0), u8(0xc0), u8(0xc0), u8(0xc0)))
			case v == 126:
				want = runCtor("RGBAColor", rgbaAgg(u8(0x80), u8(0x80), u8(0x80), u8(0x80)))
			case v == 127:
				want = runCtor("RGBAColor", rgbaAgg(u8(0), u8(0), u8(0), u8(0)))
			case v < 192: // custom palette, indexed by the byte minus 128
				want = runCtor("PaletteIndexColor", u8(int64(v-128)))
			default: // CREG, indexed by the byte minus 192
				want = runCtor("CRegColor", u8(int64(v-192)))
			}
			var got *sym.Term
			for _, lf := range leaves {
				all, ok := foldConds(lf.Conds, map[string]*sym.Term{lenB: sym.Int(1)})
				if ok && all {
					got = lf.Val
				}
			}
			construct := fmt.Sprintf("decode.(buffer).decodeColor1#byte=0x%02x", v)
			R.Count("C03.2.color1_keys", 1)
			if got == nil || got.Op != "tuple" || want == nil || normAgg(got.Args[0]) != normAgg(want) {
				bad++
				R.Bad(construct, pos, shortKey(want), shortKey(got))
			} else if n, ok := got.Args[1].Int64(); !ok || n != 1 {
				bad++
				R.Bad(construct, pos, "consumes 1 byte", shortKey(got.Args[1]))
			} else {
				R.OK(construct, pos)
			}
		}
	}

	// multi-byte colours: gate on length, channels as bit wiring
	dup := func(byteIdx, lowBit int) bitVec { // nibble duplicated: 0x11 * nibble
		out := make(bitVec, 8)
		for i := 0; i < 4; i++ {
			out[i] = bitSrc{Atom: byteAtomKey(byteIdx), Bit: lowBit + i}
			out[i+4] = out[i]
		}
		return out
	}
	whole := func(byteIdx int) bitVec { return atomBits(byteAtomKey(byteIdx), 8) }
	type colSpec struct {
		name string
		size int64
		ch   []bitVec // R,G,B,A for RGBA kinds
	}
	for _, cs := range []colSpec{
		// "2 byte encoding": 4 bit values extended to 8 bits by duplicating each nibble, R,G,B,A order
		{"decodeColor2", 2, []bitVec{dup(0, 4), dup(0, 0), dup(1, 4), dup(1, 0)}},
		// "3 byte direct encoding": R,G,B 8 bit values, alpha implicitly 255
		{"decodeColor3Direct", 3, []bitVec{whole(0), whole(1), whole(2), constBits(255, 8)}},
		// "4 byte encoding": R,G,B,A
		{"decodeColor4", 4, []bitVec{whole(0), whole(1), whole(2), whole(3)}},
	} {
		fn := c.Method("decode", "buffer", cs.name, false)
		if fn == nil || typRGBA == nil {
			continue
		}
		pos := c.FPos(fn)
		key := "decode.(buffer)." + cs.name
		leaves := colourLeaves(c, fn, cs.name)
		size := cs.size
		checkLengthGate(c, key, pos, leaves, func(length, tag int) int64 {
			if int64(length) >= size {
				return size
			}
			return 0
		}, nOf, []int{0})
		for _, lf := range leaves {
			if n, _ := nOf(lf.Val).Int64(); n != cs.size {
				continue
			}
			col := lf.Val.Args[0]
			if col.Op != "agg" || len(col.Args) != 2 || col.Args[1].Op != "agg" || len(col.Args[1].Args) != 4 {
				R.Unknown(key+":value", pos, "not a Color{typ, RGBA{...}} value: "+shortKey(col))
				continue
			}
			R.Check(sym.Eq(col.Args[0], typRGBA), key+":type", pos, "direct RGBA colour (the type RGBAColor sets)", shortKey(col.Args[0]))
			for i, chName := range []string{"R", "G", "B", "A"} {
				got, err := toBits(col.Args[1].Args[i], 8)
				if err != nil {
					R.Unknown(key+":"+chName, pos, err.Error())
					continue
				}
				R.Check(got.equal(cs.ch[i]), key+":"+chName, pos, cs.ch[i].String(), got.String())
			}
		}
	}
	// 3 byte indirect: BlendColor(t, c0, c1) of bytes 0, 1, 2
	if fn := c.Method("decode", "buffer", "decodeColor3Indirect", false); fn != nil {
		pos := c.FPos(fn)
		key := "decode.(buffer).decodeColor3Indirect"
		leaves := colourLeaves(c, fn, "decodeColor3Indirect")
		checkLengthGate(c, key, pos, leaves, func(length, tag int) int64 {
			if length >= 3 {
				return 3
			}
			return 0
		}, nOf, []int{0})
		want := runCtor("BlendColor", byteAtom(0), byteAtom(1), byteAtom(2))
		for _, lf := range leaves {
			if n, _ := nOf(lf.Val).Int64(); n != 3 {
				continue
			}
			R.Check(want != nil && normAgg(lf.Val.Args[0]) == normAgg(want), key+":value", pos, "BlendColor(byte0, byte1, byte2): "+shortKey(want), shortKey(lf.Val.Args[0]))
		}
	}
}

func colourLeaves(c *Ctx, fn *ssa.Function, name string) []sym.TermCase {
	h := c.newDecHooks()
	h.enter[name] = true
	in := c.Interp()
	in.Hooks = h
	leaves, _, ok := rootLeaves(in, fn, nil, nil)
	if !ok || len(in.Warn) > 0 {
		c.R.Unknown("decode.(buffer)."+name+":analysis", c.FPos(fn), "cases or warnings: "+strings.Join(in.Warn, "; "))
	}
	return leaves
}

// normAgg renders an aggregate term with zero-valued components expanded so
// that Color{} built by different routes compare equal.
func normAgg(t *sym.Term) string {
	if t == nil {
		return "<nil>"
	}
	if t.Op == "agg" {
		var parts []string
		for _, a := range t.Args {
			parts = append(parts, normAgg(a))
		}
		return "{" + strings.Join(parts, ",") + "}"
	}
	if t.Op == "zero" && t.T != nil {
		if st, ok := t.T.Underlying().(*types.Struct); ok {
			var parts []string
			for i := 0; i < st.NumFields(); i++ {
				parts = append(parts, normAgg(sym.Zero(st.Field(i).Type())))
			}
			return "{" + strings.Join(parts, ",") + "}"
		}
	}
	return t.Key()
}
