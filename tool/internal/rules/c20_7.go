package rules

import (
	"fmt"
	"go/types"
	"strings"

	"ivgsa/internal/sym"
)

func init() { register("C20", ruleC20_7) }

// ruleC20_7: SetTransform REPLACES the configured transform: after SetTransform(ts...) the transform list the path data
// is normalised with is a function of ts alone, on every path - nothing of the list configured before survives (an
// empty ts means the identity, not "leave as it is") - and it is the concatenation of ts (what normalize, checked under
// C20.2, applies is Concat of the stored list).
func ruleC20_7(c *Ctx) {
	R := c.R
	R.Rule("C20.7", "SetTransform replaces the configured transform: on every path the stored list depends on the arguments only (nothing configured before survives, an empty argument list included) and holds their concatenation", 2)
	fn := c.Method("generate", "Generator", "SetTransform", true)
	gen := c.Named("generate", "Generator")
	if fn == nil || gen == nil {
		R.Anchor("generate.(*Generator).SetTransform")
		return
	}
	fi := fieldIndex(gen, "transforms")
	if fi < 0 {
		R.Anchor("field generate.Generator.transforms")
		return
	}
	in := c.Interp()
	h := newSimpleHooks("Concat")
	in.Hooks = h
	recv := fn.Params[0].Name()
	z := in.ParamObj(recv, gen)
	st0 := sym.NewMem()
	old := sym.Atom("old.transforms", gen.Underlying().(*types.Struct).Field(fi).Type())
	st0.Store(z, sym.Path{sym.F(fi)}, old)
	_, mem, _ := in.Run(fn, nil, st0)
	key := "generate.(*Generator).SetTransform"
	if mem == nil {
		R.Unknown(key+"#returns", c.FPos(fn), "does not return")
		return
	}
	v := in.LoadAt(mem, z, sym.Path{sym.F(fi)})
	leaves := sym.DeepCases(v, 16)
	okFresh := len(leaves) > 0
	okConcat := len(leaves) > 0
	detail := ""
	for _, lf := range leaves {
		if sym.CondsContradict(lf.Conds) {
			continue
		}
		// append(old[:0], x...): the old backing array may be reused, its contents are not - what counts is the elements
		if a := lf.Val; a.Op == "append" && len(a.Args) >= 2 && a.Args[0].Op == "slice" && len(a.Args[0].Args) >= 3 {
			lo, ok1 := a.Args[0].Args[1].Int64()
			hi, ok2 := a.Args[0].Args[2].Int64()
			if ok1 && ok2 && lo == 0 && hi == 0 {
				lf.Val = sym.Tuple(a.Args[1:]...)
			}
		}
		k := lf.Val.Key()
		if strings.Contains(k, "old.transforms") || in.Deps(lf.Val)["old.transforms"] {
			okFresh = false
			detail = "the list configured before is kept under " + condKey(lf.Conds) + ": " + shortKey(lf.Val)
		}
		// the stored list: one element, the concatenation of the arguments
		hasConcat := false
		sym.Walk(lf.Val, func(x *sym.Term) bool {
			if x.Op == "call" && x.Name == "Concat" && len(x.Args) == 1 && wholeParam(x.Args[0], "transforms") {
				hasConcat = true
			}
			return true
		})
		if !hasConcat {
			// looked at through memory: a fresh slice whose only element is the Concat result
			if lf.Val.Op == "ptr" || lf.Val.Op == "slice" {
				var el *sym.Term
				if lf.Val.Obj != nil {
					el = in.LoadAt(mem, lf.Val.Obj, append(append(sym.Path{}, lf.Val.Path...), sym.PathElem{Field: -1, Index: 0}))
				} else if len(lf.Val.Args) > 0 && lf.Val.Args[0].Obj != nil {
					b := lf.Val.Args[0]
					el = in.LoadAt(mem, b.Obj, append(append(sym.Path{}, b.Path...), sym.PathElem{Field: -1, Index: 0}))
				}
				if el != nil {
					sym.Walk(el, func(x *sym.Term) bool {
						if x.Op == "call" && x.Name == "Concat" && len(x.Args) == 1 && wholeParam(x.Args[0], "transforms") {
							hasConcat = true
						}
						return true
					})
				}
			}
		}
		if !hasConcat {
			okConcat = false
			if detail == "" {
				detail = fmt.Sprintf("stored %s under %s", shortKey(lf.Val), condKey(lf.Conds))
			}
		}
	}
	R.Check(okFresh, key+"#replaces", c.FPos(fn), "the stored list depends on the arguments only, on every path", detail)
	R.Check(okConcat, key+"#concatenation", c.FPos(fn), "the stored list holds Concat(arguments)", detail)
}

// wholeParam: the parameter itself, or the slice of all of it.
func wholeParam(t *sym.Term, name string) bool {
	k := strings.ReplaceAll(t.Key(), "$init:", "$")
	p := "$param:" + name
	return k == p || k == "slice("+p+",0,len("+p+"))" || k == "slice("+p+",0,bin:len("+p+"))"
}
