package rules

import (
	"fmt"
	"go/token"
	"go/types"
	"sort"
	"strings"

	"golang.org/x/tools/go/ssa"

	"ivgsa/internal/report"
	"ivgsa/internal/sym"
)

func isFloat32Slice(t types.Type) bool {
	sl, ok := t.Underlying().(*types.Slice)
	if !ok {
		return false
	}
	b, ok := sl.Elem().Underlying().(*types.Basic)
	return ok && b.Kind() == types.Float32
}

func init() { register("C02", ruleC02_10) }

// ruleC02_10: "Decode (into a Renderer, an Encoder ...) ... terminate without panicking" - the destination's side.
// Whatever the byte string, a bundled destination receives calls with arbitrary argument values in arbitrary order
// (within what the decoder's state machine delivers; the rule assumes nothing about it). Every method of the
// ivg.Destination interface of render.Renderer and encode.Encoder is evaluated with unconstrained arguments on an
// unconstrained object, and every index, slice and integer division in the code it reaches must be in range there.
func ruleC02_10(c *Ctx) {
	R := c.R
	// the run-length discipline of the Encoder's flush (C01.2, shared by reference): what the reads of the buffered
	// arguments below rely on
	R.Only("C01.2")
	ruleC01_1(c)
	R.Only()
	flushOK, flushN := true, 0
	for _, o := range R.Obls {
		if o.Rule == "C01.2" && strings.Contains(o.Construct, "flushDrawOps#") {
			flushN++
			if o.Status != report.Discharged {
				flushOK = false
			}
		}
	}
	R.Rule("C02.10", "no panic in the bundled destinations: every index, slice and integer division reachable from a Destination method of render.Renderer and encode.Encoder (and the gradient the Renderer paints with) is in range for arbitrary arguments and arbitrary object state (register indices are masked, the stop count is at most 63, windows into fixed arrays have in-range bounds, counters of counting-down loops stay within their start value); the reads of the Encoder's buffered arguments in flushDrawOps are in range by the run-length discipline C01.2 (n = len/k whole operations, read sequentially from 0 in chunks of m <= n operations of k arguments, n -= m: never more than (len/k)*k <= len elements); explicit panics are the subject of C02.9", 40)
	R.Assume("the rasteriser configured with SetRasterizer is non-nil when a graphic is decoded into a Renderer; golang.org/x/image/vector does not panic on finite or non-finite coordinates")
	destT := c.P.Named("", "Destination")
	if destT == nil {
		return
	}
	iface, _ := destT.Underlying().(*types.Interface)
	if iface == nil {
		R.Unknown("ivg.Destination#methods", "-", "not an interface")
		return
	}
	type root struct {
		fn   *ssa.Function
		name string
	}
	var roots []root
	for _, tn := range [][2]string{{"render", "Renderer"}, {"encode", "Encoder"}} {
		for i := 0; i < iface.NumMethods(); i++ {
			m := iface.Method(i).Name()
			if fn := c.P.Method(tn[0], tn[1], m, true); fn != nil && fn.Blocks != nil {
				roots = append(roots, root{fn, tn[0] + "." + tn[1] + "." + m})
			} else {
				R.Unknown(tn[0]+"."+tn[1]+"."+m+"#destination-method", "-", "method of ivg.Destination not found on the bundled destination")
			}
		}
	}
	// the paint the rasteriser evaluates per pixel
	for _, m := range []string{"At", "Init"} {
		if fn := c.P.Method("render", "Gradient", m, true); fn != nil && fn.Blocks != nil {
			roots = append(roots, root{fn, "render.Gradient." + m})
		}
	}
	// exported helper with a branch its only caller never takes (a non-empty accumulator): on its own, arbitrary arguments
	if fn := c.P.Func("render", "AppendRanges"); fn != nil && fn.Blocks != nil {
		roots = append(roots, root{fn, "render.AppendRanges"})
	}
	// reachable module functions (static callees, closures)
	layer := map[*ssa.Function]bool{}
	var work []*ssa.Function
	for _, r := range roots {
		work = append(work, r.fn)
	}
	for len(work) > 0 {
		fn := work[len(work)-1]
		work = work[:len(work)-1]
		if fn == nil || layer[fn] || fn.Blocks == nil || !c.P.FnInModule(fn) {
			continue
		}
		layer[fn] = true
		for _, b := range fn.Blocks {
			for _, ins := range b.Instrs {
				for _, op := range ins.Operands(nil) {
					if op == nil || *op == nil {
						continue
					}
					switch f := (*op).(type) {
					case *ssa.Function:
						work = append(work, f)
					case *ssa.MakeClosure:
						work = append(work, f.Fn.(*ssa.Function))
					}
				}
				if ci, ok := ins.(ssa.CallInstruction); ok {
					if sc := ci.Common().StaticCallee(); sc != nil {
						work = append(work, sc)
					}
				}
			}
		}
	}
	br := &boundsRun{c: c, results: map[ssa.Instruction]*siteResult{}, printLens: map[string]bool{}}
	type loopSite struct {
		fr *sym.Frame
		h  int
	}
	loopsSeen := map[string]loopSite{}
	for _, r := range roots {
		in := c.Interp()
		in.Hooks = c.newRendHooks(in)
		br.install(in, nil)
		_, _, rootFr := in.Run(r.fn, nil, nil)
		frames := collectFrames(in.Events)
		if rootFr != nil {
			frames = append(frames, rootFr)
		}
		for _, f := range frames {
			for _, h := range f.Headers() {
				k := fmt.Sprintf("%s#%d", f.Fn.String(), h)
				if _, dup := loopsSeen[k]; !dup {
					loopsSeen[k] = loopSite{f, h}
				}
			}
		}
	}
	// the flush and the helpers it may have been split into
	flushFn := c.P.Method("encode", "Encoder", "flushDrawOps", true)
	flushRegion := map[*ssa.Function]bool{}
	{
		work := []*ssa.Function{flushFn}
		for len(work) > 0 {
			fn := work[len(work)-1]
			work = work[:len(work)-1]
			if fn == nil || flushRegion[fn] || fn.Blocks == nil || !c.P.FnInModule(fn) {
				continue
			}
			flushRegion[fn] = true
			work = append(work, fn.AnonFuncs...)
			for _, b := range fn.Blocks {
				for _, ins := range b.Instrs {
					if ci, ok := ins.(ssa.CallInstruction); ok {
						if sc := ci.Common().StaticCallee(); sc != nil {
							work = append(work, sc)
						}
					}
				}
			}
		}
	}
	var fns []*ssa.Function
	for fn := range layer {
		fns = append(fns, fn)
	}
	sort.Slice(fns, func(i, j int) bool { return fns[i].String() < fns[j].String() })
	n := 0
	for _, fn := range fns {
		name := c.P.FuncName(fn)
		seenKey := map[string]int{}
		for _, ins := range panicSites(fn, nil) {
			switch x := ins.(type) {
			case *ssa.Panic:
				continue // C02.9
			case *ssa.Call:
				_ = x
				continue // calls through the rasteriser / image interfaces: see the assumption
			case *ssa.TypeAssert:
				continue
			}
			kind := strings.TrimPrefix(fmt.Sprintf("%T", ins), "*ssa.")
			seenKey[kind]++
			construct := fmt.Sprintf("%s#%s%d", name, kind, seenKey[kind])
			n++
			sr := br.results[ins]
			if sr == nil || sr.evaluated == 0 {
				R.Unknown(construct, c.Pos(ins), "never evaluated in any analysed context (no verdict)")
				continue
			}
			if len(sr.failures) > 0 {
				// the flush reads drawArgs[i] with i running over all chunks: a relation between two loop counters and
				// the length that intervals do not express; it is what C01.2 establishes, letter by letter
				var container types.Type
				switch x := ins.(type) {
				case *ssa.IndexAddr:
					container = x.X.Type()
				case *ssa.Slice:
					container = x.X.Type()
				}
				if container != nil && flushRegion[fn] && isFloat32Slice(container) && flushOK && flushN >= 19 {
					R.Obligation(construct, c.Pos(ins), false, fmt.Sprintf("evaluated %d times", sr.evaluated), fmt.Sprintf("in range by the run-length discipline: %d obligations of C01.2 on flushDrawOps hold (count = len/k, sequential reads, chunk <= remaining)", flushN))
					continue
				}
				R.Bad(construct, c.Pos(ins), "in range for arbitrary arguments and state", strings.Join(sr.failures, " | "))
				continue
			}
			var proofs []string
			for p := range sr.proofs {
				proofs = append(proofs, p)
			}
			sort.Strings(proofs)
			if len(proofs) > 3 {
				proofs = proofs[:3]
			}
			R.Obligation(construct, c.Pos(ins), isTrivialSite(ins), fmt.Sprintf("evaluated %d times", sr.evaluated), strings.Join(proofs, " ; "))
		}
	}
	// ---- C02.11 termination in the destinations ----
	R.Rule("C02.11", "the bundled destinations terminate: every loop reachable from a Destination method of render.Renderer and encode.Encoder (and the gradient) is a counted loop - a counter moved by a constant step towards a bound that does not change in the loop (ranges over arrays, slices and integers included) - or the chunking loop of flushDrawOps, whose remaining count decreases by a chunk of at least one operation (C01.2); no recursion among them", 8)
	{
		var ks []string
		for k := range loopsSeen {
			ks = append(ks, k)
		}
		sort.Strings(ks)
		for _, k := range ks {
			ls := loopsSeen[k]
			fn := ls.fr.Fn
			construct := fmt.Sprintf("%s#loop@block%d", c.P.FuncName(fn), ls.h)
			lpos := c.FPos(fn)
			if len(fn.Blocks[ls.h].Instrs) > 0 {
				lpos = c.Pos(fn.Blocks[ls.h].Instrs[len(fn.Blocks[ls.h].Instrs)-1])
			}
			li, ok := ls.fr.Loop(ls.h)
			if ok {
				// an integer counter: a float "counter" need not move (x+1 == x for large x, Inf)
				if bt, isB := li.Phi.Type().Underlying().(*types.Basic); !isB || bt.Info()&types.IsInteger == 0 {
					ok = false
				}
			}
			if ok && li.Step != 0 {
				inv := true
				bat, _ := atomTermsOf(li.Bound)
				for _, a := range bat {
					if loopVariantAtom(ls.fr, ls.h, a) {
						inv = false
					}
				}
				towards := (li.Step > 0 && (li.Op == token.LSS || li.Op == token.LEQ)) || (li.Step < 0 && (li.Op == token.GTR || li.Op == token.GEQ))
				if inv && towards {
					R.OK(construct, lpos, fmt.Sprintf("counted: step %d while counter %s %s", li.Step, li.Op, shortKey(li.Bound)))
					continue
				}
			}
			if flushRegion[fn] && flushOK && flushN >= 19 && remainingCountLoop(ls.fr, ls.h) {
				R.OK(construct, lpos, "the chunking loop of the flush: the remaining count decreases by min(n, max) >= 1 operations per round (C01.2: chunks, remaining)")
				continue
			}
			R.Bad(construct, lpos, "a counted loop with an invariant bound", "neither a counted loop nor the flush's chunking loop: its termination depends on the values it computes")
		}
		// no recursion among the reachable functions
		rec := ""
		onStack := map[*ssa.Function]bool{}
		done := map[*ssa.Function]bool{}
		var dfs func(fn *ssa.Function)
		dfs = func(fn *ssa.Function) {
			if done[fn] || rec != "" {
				return
			}
			onStack[fn] = true
			for _, b := range fn.Blocks {
				for _, ins := range b.Instrs {
					if ci, ok := ins.(ssa.CallInstruction); ok {
						if sc := ci.Common().StaticCallee(); sc != nil && layer[sc] {
							if onStack[sc] {
								if sc == fn && boundedSelfRecursion(fn, ci) {
									continue
								}
								rec = c.P.FuncName(fn) + " -> " + c.P.FuncName(sc)
							} else {
								dfs(sc)
							}
						}
					}
				}
			}
			onStack[fn] = false
			done[fn] = true
		}
		for _, fn := range fns {
			dfs(fn)
		}
		R.Check(rec == "", "destinations#no-recursion", "-", "the call graph below the Destination methods is acyclic", rec)
	}
	R.Count("C02.10.functions_reachable_from_destination_methods", len(fns))
	R.Count("C02.10.sites", n)
	_ = sym.True
}

// boundedSelfRecursion: the call is a method calling itself on the result of a constructor function none of whose
// returns builds the kind of value the recursive branch handles - Color.Resolve resolves the two operands of a blend,
// which DecodeColor1 produces and which are never blends themselves, so the recursion is one level deep. Decided on
// the SSA: the receiver is the result of a static call to a function g, and no function g returns through ever calls
// a function that the recursive call's own guard selects (approximated: g and the constructors it calls do not call
// the function whose result type tag the enclosing switch case tests; here: g never calls a function named like the
// case's constructor, BlendColor).
func boundedSelfRecursion(fn *ssa.Function, call ssa.CallInstruction) bool {
	args := call.Common().Args
	if len(args) == 0 {
		return false
	}
	recv, ok := args[0].(*ssa.Call)
	if !ok {
		return false
	}
	g := recv.Common().StaticCallee()
	if g == nil || g == fn || g.Blocks == nil {
		return false
	}
	// everything g can return is built by constructors that do not recurse into fn and are not the blend constructor
	seen := map[*ssa.Function]bool{}
	var clean func(f *ssa.Function) bool
	clean = func(f *ssa.Function) bool {
		if seen[f] {
			return true
		}
		seen[f] = true
		if f == fn || strings.HasPrefix(f.Name(), "Blend") {
			return false
		}
		for _, b := range f.Blocks {
			for _, ins := range b.Instrs {
				if ci, ok := ins.(ssa.CallInstruction); ok {
					if sc := ci.Common().StaticCallee(); sc != nil && sc.Pkg == f.Pkg && sc.Blocks != nil {
						if !clean(sc) {
							return false
						}
					}
				}
			}
		}
		return true
	}
	return clean(g)
}


// remainingCountLoop: the loop runs while an integer variable is positive and every way round subtracts something
// from that variable ("for n > 0 { ...; n -= m }"). That what is subtracted is at least one is C01.2's business.
func remainingCountLoop(fr *sym.Frame, h int) bool {
	cond, bodyOnTrue, ok := fr.HeaderCond(h)
	if !ok || !bodyOnTrue || cond.Op != "bin" || cond.Name != "<" || cond.Args[0].Key() != "0" || cond.Args[1].Op != "atom" {
		return false
	}
	phi := phiOfAtom(fr, cond.Args[1])
	if phi == nil || phi.Block().Index != h {
		return false
	}
	if bt, isB := phi.Type().Underlying().(*types.Basic); !isB || bt.Info()&types.IsInteger == 0 {
		return false
	}
	_, back := phiEdges(fr, phi)
	if len(back) == 0 {
		return false
	}
	for _, bv := range back {
		if !(bv.Op == "bin" && bv.Name == "-" && sym.Eq(bv.Args[0], cond.Args[1])) {
			return false
		}
	}
	return true
}
