package rules

import (
	"fmt"
	"go/types"
	"sort"
	"strings"

	"golang.org/x/tools/go/ssa"

	"ivgsa/internal/report"
	"ivgsa/internal/sym"
)

func isFloat32Slice(t types.Type) bool {
	sl, ok := t.Underlying().(*types.Slice)
	if !ok {
		return false
	}
	b, ok := sl.Elem().Underlying().(*types.Basic)
	return ok && b.Kind() == types.Float32
}

func init() { register("C02", ruleC02_10) }

// ruleC02_10: "Decode (into a Renderer, an Encoder ...) ... terminate without panicking" - the destination's side.
// Whatever the byte string, a bundled destination receives calls with arbitrary argument values in arbitrary order
// (within what the decoder's state machine delivers; the rule assumes nothing about it). Every method of the
// ivg.Destination interface of render.Renderer and encode.Encoder is evaluated with unconstrained arguments on an
// unconstrained object, and every index, slice and integer division in the code it reaches must be in range there.
func ruleC02_10(c *Ctx) {
	R := c.R
	// the run-length discipline of the Encoder's flush (C01.2, shared by reference): what the reads of the buffered
	// arguments below rely on
	R.Only("C01.2")
	ruleC01_1(c)
	R.Only()
	flushOK, flushN := true, 0
	for _, o := range R.Obls {
		if o.Rule == "C01.2" && strings.Contains(o.Construct, "flushDrawOps#") {
			flushN++
			if o.Status != report.Discharged {
				flushOK = false
			}
		}
	}
	R.Rule("C02.10", "no panic in the bundled destinations: every index, slice and integer division reachable from a Destination method of render.Renderer and encode.Encoder (and the gradient the Renderer paints with) is in range for arbitrary arguments and arbitrary object state (register indices are masked, the stop count is at most 63, windows into fixed arrays have in-range bounds, counters of counting-down loops stay within their start value); the reads of the Encoder's buffered arguments in flushDrawOps are in range by the run-length discipline C01.2 (n = len/k whole operations, read sequentially from 0 in chunks of m <= n operations of k arguments, n -= m: never more than (len/k)*k <= len elements); explicit panics are the subject of C02.9", 40)
	R.Assume("the rasteriser configured with SetRasterizer is non-nil when a graphic is decoded into a Renderer; golang.org/x/image/vector does not panic on finite or non-finite coordinates")
	destT := c.P.Named("", "Destination")
	if destT == nil {
		return
	}
	iface, _ := destT.Underlying().(*types.Interface)
	if iface == nil {
		R.Unknown("ivg.Destination#methods", "-", "not an interface")
		return
	}
	type root struct {
		fn   *ssa.Function
		name string
	}
	var roots []root
	for _, tn := range [][2]string{{"render", "Renderer"}, {"encode", "Encoder"}} {
		for i := 0; i < iface.NumMethods(); i++ {
			m := iface.Method(i).Name()
			if fn := c.P.Method(tn[0], tn[1], m, true); fn != nil && fn.Blocks != nil {
				roots = append(roots, root{fn, tn[0] + "." + tn[1] + "." + m})
			} else {
				R.Unknown(tn[0]+"."+tn[1]+"."+m+"#destination-method", "-", "method of ivg.Destination not found on the bundled destination")
			}
		}
	}
	// the paint the rasteriser evaluates per pixel
	for _, m := range []string{"At", "Init"} {
		if fn := c.P.Method("render", "Gradient", m, true); fn != nil && fn.Blocks != nil {
			roots = append(roots, root{fn, "render.Gradient." + m})
		}
	}
	// exported helper with a branch its only caller never takes (a non-empty accumulator): on its own, arbitrary arguments
	if fn := c.P.Func("render", "AppendRanges"); fn != nil && fn.Blocks != nil {
		roots = append(roots, root{fn, "render.AppendRanges"})
	}
	// reachable module functions (static callees, closures)
	layer := map[*ssa.Function]bool{}
	var work []*ssa.Function
	for _, r := range roots {
		work = append(work, r.fn)
	}
	for len(work) > 0 {
		fn := work[len(work)-1]
		work = work[:len(work)-1]
		if fn == nil || layer[fn] || fn.Blocks == nil || !c.P.FnInModule(fn) {
			continue
		}
		layer[fn] = true
		for _, b := range fn.Blocks {
			for _, ins := range b.Instrs {
				for _, op := range ins.Operands(nil) {
					if op == nil || *op == nil {
						continue
					}
					switch f := (*op).(type) {
					case *ssa.Function:
						work = append(work, f)
					case *ssa.MakeClosure:
						work = append(work, f.Fn.(*ssa.Function))
					}
				}
				if ci, ok := ins.(ssa.CallInstruction); ok {
					if sc := ci.Common().StaticCallee(); sc != nil {
						work = append(work, sc)
					}
				}
			}
		}
	}
	br := &boundsRun{c: c, results: map[ssa.Instruction]*siteResult{}, printLens: map[string]bool{}}
	for _, r := range roots {
		in := c.Interp()
		in.Hooks = c.newRendHooks(in)
		br.install(in, nil)
		in.Run(r.fn, nil, nil)
	}
	// the flush and the helpers it may have been split into
	flushFn := c.P.Method("encode", "Encoder", "flushDrawOps", true)
	flushRegion := map[*ssa.Function]bool{}
	{
		work := []*ssa.Function{flushFn}
		for len(work) > 0 {
			fn := work[len(work)-1]
			work = work[:len(work)-1]
			if fn == nil || flushRegion[fn] || fn.Blocks == nil || !c.P.FnInModule(fn) {
				continue
			}
			flushRegion[fn] = true
			work = append(work, fn.AnonFuncs...)
			for _, b := range fn.Blocks {
				for _, ins := range b.Instrs {
					if ci, ok := ins.(ssa.CallInstruction); ok {
						if sc := ci.Common().StaticCallee(); sc != nil {
							work = append(work, sc)
						}
					}
				}
			}
		}
	}
	var fns []*ssa.Function
	for fn := range layer {
		fns = append(fns, fn)
	}
	sort.Slice(fns, func(i, j int) bool { return fns[i].String() < fns[j].String() })
	n := 0
	for _, fn := range fns {
		name := c.P.FuncName(fn)
		seenKey := map[string]int{}
		for _, ins := range panicSites(fn, nil) {
			switch x := ins.(type) {
			case *ssa.Panic:
				continue // C02.9
			case *ssa.Call:
				_ = x
				continue // calls through the rasteriser / image interfaces: see the assumption
			case *ssa.TypeAssert:
				continue
			}
			kind := strings.TrimPrefix(fmt.Sprintf("%T", ins), "*ssa.")
			seenKey[kind]++
			construct := fmt.Sprintf("%s#%s%d", name, kind, seenKey[kind])
			n++
			sr := br.results[ins]
			if sr == nil || sr.evaluated == 0 {
				R.Unknown(construct, c.Pos(ins), "never evaluated in any analysed context (no verdict)")
				continue
			}
			if len(sr.failures) > 0 {
				// the flush reads drawArgs[i] with i running over all chunks: a relation between two loop counters and
				// the length that intervals do not express; it is what C01.2 establishes, letter by letter
				var container types.Type
				switch x := ins.(type) {
				case *ssa.IndexAddr:
					container = x.X.Type()
				case *ssa.Slice:
					container = x.X.Type()
				}
				if container != nil && flushRegion[fn] && isFloat32Slice(container) && flushOK && flushN >= 19 {
					R.Obligation(construct, c.Pos(ins), false, fmt.Sprintf("evaluated %d times", sr.evaluated), fmt.Sprintf("in range by the run-length discipline: %d obligations of C01.2 on flushDrawOps hold (count = len/k, sequential reads, chunk <= remaining)", flushN))
					continue
				}
				R.Bad(construct, c.Pos(ins), "in range for arbitrary arguments and state", strings.Join(sr.failures, " | "))
				continue
			}
			var proofs []string
			for p := range sr.proofs {
				proofs = append(proofs, p)
			}
			sort.Strings(proofs)
			if len(proofs) > 3 {
				proofs = proofs[:3]
			}
			R.Obligation(construct, c.Pos(ins), isTrivialSite(ins), fmt.Sprintf("evaluated %d times", sr.evaluated), strings.Join(proofs, " ; "))
		}
	}
	R.Count("C02.10.functions_reachable_from_destination_methods", len(fns))
	R.Count("C02.10.sites", n)
	_ = sym.True
}
