package rules

import (
	"fmt"
	"go/constant"
	"go/types"
	"os"
	"strings"

	"golang.org/x/tools/go/ssa"

	"ivgsa/internal/poly"
	"ivgsa/internal/sym"
)

func init() { register("C13", ruleC13) }

// runChunk evaluates decodeMetadataChunk with the metadata identifier pinned
// (second natural read) and, optionally, byte 0 of the palette header.
func (c *Ctx) runChunk(mid *int64, configure func(h *decHooks)) (*sym.Interp, *sym.Mem, *sym.Frame, *ssa.Function) {
	fn := c.Fn("decode", "decodeMetadataChunk")
	if fn == nil {
		return nil, nil, nil, nil
	}
	h := c.newDecHooks()
	if mid != nil {
		h.natVals = []*sym.Term{nil, u32(*mid)}
	}
	if configure != nil {
		configure(h)
	}
	in := c.Interp()
	in.Hooks = h
	in.OnStore = func(fr *sym.Frame, site ssa.Instruction, ptr, val *sym.Term) {
		if ptr.Obj != nil && ptr.Obj.ID == "param:m" {
			in.Emit(fr, "store:m", site, ptr.Path.String(), []*sym.Term{ptr, val}, nil)
		}
	}
	_, mem, fr := in.Run(fn, nil, nil)
	return in, mem, fr, fn
}

func ruleC13(c *Ctx) {
	R := c.R
	metaT := c.Named("", "Metadata")
	if metaT == nil {
		return
	}
	mobj := func(in *sym.Interp) *sym.Object { return in.ParamObj("m", metaT) }
	vbIdx, palIdx := fieldIndex(metaT, "ViewBox"), fieldIndex(metaT, "Palette")
	errT := c.Named("decode", "DecodeError")
	isDecodeErr := func(t *sym.Term) bool {
		return t != nil && t.Op == "makeiface" && errT != nil && types.Identical(t.T, errT)
	}
	// returns of a frame: (guard, src', err)
	type ret struct {
		guard    *sym.Term
		buf, err *sym.Term
		mem      *sym.Mem
	}
	returnsOf := func(in *sym.Interp, fr *sym.Frame) []ret {
		var out []ret
		for _, ev := range in.Events {
			if ev.Kind == "return" && ev.Frame == fr && len(ev.Args) == 1 && ev.Args[0] != nil {
				for _, lf := range sym.CasesUnder(guardLits(ev.Guard), ev.Args[0], 64) {
					if lf.Val.Op == "tuple" && len(lf.Val.Args) == 2 {
						// literals simplified against each other: values that come back from a helper as
						// "ite(read failed, 0, value)" read as the value next to "the read succeeded"
						out = append(out, ret{sym.And(normaliseLits(lf.Conds)...), lf.Val.Args[0], lf.Val.Args[1], ev.Mem})
					}
				}
			}
		}
		return out
	}

	// ---- C13.3 viewBox ----
	R.Rule("C13.3", "MID 0: four coordinates are read and stored as MinX, MinY, MaxX, MaxY in that order; the chunk is rejected iff MinX > MaxX or MinY > MaxY or any of the four is infinite or NaN (propositional equivalence over the comparison atoms); a degenerate box (min == max) is accepted", 7)
	{
		mid := int64(0)
		in, mem, fr, fn := c.runChunk(&mid, nil)
		if in != nil && mem != nil {
			pos := c.FPos(fn)
			key := "decode.decodeMetadataChunk#mid=viewBox"
			var coords []*sym.Event
			for _, ev := range in.Events {
				if ev.Kind == "consume" && ev.Callee == "decodeCoordinate" {
					coords = append(coords, ev)
				}
			}
			R.Check(len(coords) == 4, key+":operands", pos, "four coordinates", fmt.Sprint(len(coords)))
			if len(coords) == 4 {
				var vals []*sym.Term
				okMem := mem
				for _, r := range returnsOf(in, fr) {
					if r.err.IsNil() && r.mem != nil {
						okMem = r.mem
					}
				}
				for k, name := range []string{"MinX", "MinY", "MaxX", "MaxY"} {
					got := in.LoadAt(okMem, mobj(in), sym.Path{sym.F(vbIdx), sym.F(k)})
					want := coords[k].Result.Args[0]
					// on the accepting path the field holds the k-th coordinate read
					okv := false
					for _, lf := range sym.DeepCases(got, 64) {
						if sym.Eq(lf.Val, want) {
							okv = true
						}
					}
					R.Check(okv, key+":"+name, pos, fmt.Sprintf("coordinate %d", k), shortKey(got))
					vals = append(vals, got)
				}
				// validity
				f32 := types.Typ[types.Float32]
				naninf := func(x *sym.Term) *sym.Term {
					bits := sym.Call("math.Float32bits", types.Typ[types.Uint32], x)
					return sym.Bin(tokEQL, sym.Bin(tokAND, bits, u32(0x7f800000), types.Typ[types.Uint32]), u32(0x7f800000), nil)
				}
				_ = f32
				invalid := sym.Or(sym.Bin(tokLSS, vals[2], vals[0], nil), sym.Bin(tokLSS, vals[3], vals[1], nil), naninf(vals[0]), naninf(vals[1]), naninf(vals[2]), naninf(vals[3]))
				var readOK []*sym.Term
				for _, ev := range coords {
					readOK = append(readOK, sym.Not(sym.Bin(tokEQL, ev.Result.Args[1], sym.Int(0), nil)))
				}
				// rejected-as-invalid: error returns reached with all four reads successful, before the length test
				var rejected, accepted []*sym.Term
				for _, r := range returnsOf(in, fr) {
					if sym.CondsContradict(append([]*sym.Term{r.guard}, readOK...)) {
						continue // a read failed
					}
					if r.err.IsNil() {
						accepted = append(accepted, r.guard)
					} else {
						rejected = append(rejected, r.guard)
					}
				}
				allRead := sym.And(readOK...)
				// every accepting path implies validity; invalidity implies rejection
				okAcc := len(accepted) > 0
				for _, a := range accepted {
					if !sym.CondsContradict([]*sym.Term{a, simplifyUnder(invalid, guardLits(a))}) {
						okAcc = false
					}
				}
				R.Check(okAcc, key+":valid-only", pos, "no accepting path with an inverted, infinite or NaN box", "an invalid box can be accepted")
				// a valid box is not rejected by the validity test: all rejections with a valid box are the length check
				okRej := true
				for _, r := range rejected {
					if !sym.CondsContradict([]*sym.Term{r, simplifyUnder(invalid, guardLits(r))}) {
						continue // rejects (at least) invalid boxes
					}
					// rejects valid boxes: must be the framing test
					if !strings.Contains(r.Key(), "conv:int64") {
						okRej = false
					}
				}
				R.Check(okRej, key+":valid-accepted", pos, "a valid box (including min == max) is rejected only by the chunk length test", "some valid box is rejected")
				_ = allRead
			}
		}
	}

	// ---- C13.2 palette ----
	R.Rule("C13.2", "MID 1: header byte N | format<<6; N+1 colours of the format's width are read (all four formats x N in {0,5,63}); each stored entry is the colour's data when it is a direct, premultiplied colour and opaque black otherwise (sanitised through Color.RGBA)", 24)
	{
		formats := []string{"decodeColor1", "decodeColor2", "decodeColor3Direct", "decodeColor4"}
		for f := 0; f < 4; f++ {
			for _, n := range []int{0, 5, 63} {
				mid := int64(1)
				hb := int64(n | f<<6)
				in, mem, frp, fn := c.runChunk(&mid, func(h *decHooks) {
					// byte 0 of the buffer after the two naturals: pin by role through every candidate slice offset expression
					h.pinAny0 = u8(hb)
					h.opaque["ValidAlphaPremulColor"] = false
				})
				if in == nil {
					continue
				}
				pos := c.FPos(fn)
				key := fmt.Sprintf("decode.decodeMetadataChunk#mid=palette,format=%d,N=%d", f, n)
				if mem == nil {
					R.Unknown(key, pos, "does not return")
					continue
				}
				var cols []*sym.Event
				for _, ev := range in.Events {
					if ev.Kind == "consume" && strings.HasPrefix(ev.Callee, "decodeColor") {
						cols = append(cols, ev)
					}
				}
				okK := len(cols) == 1 && cols[0].Callee == formats[f]
				trip := int64(-1)
				if okK && len(cols[0].Loops) == 1 {
					trip, _ = loopTrip(cols[0].Loops[0])
				}
				R.Check(okK && trip == int64(n+1), key+":entries", pos, fmt.Sprintf("%d colours read with %s", n+1, formats[f]), fmt.Sprintf("%d sites, trip %d", len(cols), trip))
				if !okK {
					continue
				}
				// stored value: the store into m.Palette inside the loop
				var stored *sym.Term
				var pal *sym.Term = sym.Nil(nil)
				_ = frp
				_ = mem
				for _, ev := range in.Events {
					if ev.Kind == "store:m" && len(ev.Loops) == 1 && ev.Args[0].Path[0].Field == palIdx && len(ev.Args[0].Path) == 2 && ev.Args[0].Path[1].Sym != nil {
						stored = &sym.Term{Op: "upd", Args: []*sym.Term{pal, ev.Args[0].Path[1].Sym, ev.Args[1]}}
					}
				}
				okS := false
				detail := shortKey(pal)
				if stored != nil {
					li, okl := cols[0].Loops[0].Frame.Loop(cols[0].Loops[0].Header)
					okIdx := okl && sym.Eq(stripConv(stored.Args[1]), li.IndexVal)
					col := cols[0].Result.Args[0]
					val := stored.Args[2]
					// val must be: data(col) if typ(col)==RGBA and premultiplied, else opaque black
					cc := c.newColourCtx()
					if cc != nil {
						u8t := types.Typ[types.Uint8]
						typ := sym.Field(col, 0, nil)
						data := sym.Field(col, 1, nil)
						ch := func(i int) *sym.Term { return sym.Field(data, i, u8t) }
						valid := sym.And(sym.Bin(tokEQL, typ, cc.typs["RGBAColor"], nil),
							sym.Bin(tokLEQ, ch(0), ch(3), nil), sym.Bin(tokLEQ, ch(1), ch(3), nil), sym.Bin(tokLEQ, ch(2), ch(3), nil))
						black := "{0,0,0,255}"
						okS = okIdx
						n1, n2 := 0, 0
						for _, lf := range sym.DeepCases(val, 64) {
							g := normCmp(sym.And(lf.Conds...)) // guard clauses spell "r <= a" as "not (a < r)"
							switch {
							case normAgg(lf.Val) == black:
								n1++
								if !sym.CondsContradict([]*sym.Term{g, valid}) {
									okS = false
									detail = "a valid colour is replaced by black"
								}
							case normAgg(lf.Val) == normAgg(data) || sym.Eq(lf.Val, data):
								n2++
								if !sym.CondsContradict([]*sym.Term{g, sym.Not(valid)}) {
									okS = false
									detail = "an invalid colour is stored"
								}
							default:
								okS = false
								detail = "stores " + shortKey(lf.Val)
							}
						}
						if n1 == 0 || n2 == 0 {
							okS = false
							detail = fmt.Sprintf("cases: %d black, %d data", n1, n2)
						}
					}
				}
				R.Check(okS, key+":sanitised", pos, "entry i := colour if direct and premultiplied else opaque black", detail)
			}
		}
	}

	// ---- C13.4 framing and unknown identifiers ----
	R.Rule("C13.4", "framing: a chunk is accepted only if the bytes consumed after the length field equal the declared length (compared in 64-bit); identifiers other than 0 and 1 are rejected with a DecodeError; every error is a DecodeError", 4)
	for _, midv := range []int64{2, 3, 1 << 29} {
		mid := midv
		in, _, fr, fn := c.runChunk(&mid, nil)
		if in == nil {
			continue
		}
		okU := true
		n := 0
		for _, r := range returnsOf(in, fr) {
			n++
			if r.err.IsNil() || !isDecodeErr(r.err) {
				okU = false
			}
		}
		R.Check(okU && n > 0, fmt.Sprintf("decode.decodeMetadataChunk#mid=%d", midv), c.FPos(fn), "always a DecodeError", "accepted on some path")
	}
	{
		mid := int64(0)
		in, _, fr, fn := c.runChunk(&mid, nil)
		if in != nil {
			pos := c.FPos(fn)
			key := "decode.decodeMetadataChunk#framing"
			var nats []*sym.Event
			for _, ev := range in.Events {
				if ev.Kind == "consume" && ev.Callee == "decodeNatural" {
					nats = append(nats, ev)
				}
			}
			okF := false
			detail := "no accepting return"
			for _, r := range returnsOf(in, fr) {
				if r.err.IsNil() {
					detail = "accepting return under " + shortKey(r.guard)
					if os.Getenv("IVGSA_DEBUG") != "" {
						fmt.Fprintln(os.Stderr, "ACCEPT", r.guard.Key())
					}
				}
				if !r.err.IsNil() {
					if !isDecodeErr(r.err) {
						R.Bad(key+":errortype", pos, "DecodeError", shortKey(r.err))
					}
					continue
				}
				// find the equality literal on int64 lengths in the guard
				lits := guardLits(r.guard)
				for li, l0 := range lits {
					if l0.Op != "bin" || l0.Name != "==" {
						continue
					}
					// simplify the literal under the other literals of the guard (successful reads: n != 0)
					l := l0
					var others []*sym.Term
					for lj, o := range lits {
						if lj == li {
							continue
						}
						others = append(others, o)
						if o.Op == "not" {
							l = sym.Assume(l, o.Args[0], false)
						} else {
							l = sym.Assume(l, o, true)
						}
					}
					// conditions of joins inherited from a helper's several returns follow from the guard as a whole
					l = simplifyUnder(l, others)
					if l.Op != "bin" || l.Name != "==" {
						continue
					}
					a, b := l.Args[0], l.Args[1]
					if !(is64(a) && is64(b)) {
						continue
					}
					// consumed = (lo_end - lo_0), declared = first natural's value
					env := poly.NewEnv()
					pa, ok1 := env.One(a)
					pb, ok2 := env.One(b)
					if !ok1 || !ok2 || len(nats) < 1 {
						continue
					}
					// a - b must equal: (len - lo_end) - ((len - lo_0) - declared) = lo_0 - lo_end + declared
					diff := pa.Sub(pb)
					// lo_0 = n_length (bytes of the length natural); lo_end = returned buffer's lo
					// declared length minus the byte counts of everything read after the length field
					decl, ok5 := env.One(nats[0].Result.Args[0])
					if !ok5 {
						continue
					}
					want := decl
					for _, ev := range in.Events {
						if ev.Kind == "consume" && ev != nats[0] {
							nk, okn := env.One(ev.Result.Args[1])
							if okn {
								want = want.Sub(nk)
							}
						}
					}
					if diff.Equal(want) || diff.Equal(want.Neg()) {
						okF = true
					} else {
						detail = "length test compares " + diff.String() + ", want " + want.String()
					}
				}
			}
			R.Check(okF, key+":length", pos, "accepted only if bytes consumed after the length field == declared length, in int64", detail)
		}
	}

	// ---- C13.1 defaults and C13.5 metadata-only ----
	R.Rule("C13.1", "defaults: Decode and DecodeViewBox start from a copy of ivg.DefaultMetadata, whose initialiser is viewBox (-32,-32,32,32) and 64 opaque blacks", 4)
	{
		in0 := c.Interp()
		if g := c.P.Global("", "DefaultMetadata"); g != nil {
			dm := in0.LoadAt(in0.Global, in0.GlobalObj(g), nil)
			okD := dm.Op == "agg" && len(dm.Args) == 2
			detail := shortKey(dm)
			if okD {
				okD = normAgg(dm.Args[vbIdx]) == "{-32,-32,32,32}"
				pal := dm.Args[palIdx]
				if pal.Op != "agg" || len(pal.Args) != 64 {
					okD = false
				} else {
					for _, e := range pal.Args {
						if normAgg(e) != "{0,0,0,255}" {
							okD = false
						}
					}
				}
			}
			R.Check(okD, "ivg.DefaultMetadata", "-", "viewBox (-32,-32,32,32), 64 x 000000ff", detail)
			for _, entry := range []string{"Decode", "DecodeViewBox"} {
				fn := c.Fn("decode", entry)
				if fn == nil {
					continue
				}
				h := c.newDecHooks()
				h.opaque["decode"] = true
				in := c.Interp()
				in.Hooks = h
				in.Run(fn, nil, nil)
				var call *sym.Event
				for _, ev := range in.Events {
					if ev.Kind == "opaquecall" && ev.Callee == "decode" {
						call = ev
					}
				}
				okE := false
				detail := "no call of decode"
				if call != nil && len(call.Args) >= 5 && call.Args[2].Op == "ptr" {
					// the metadata handed over: content of the pointee at the call = DefaultMetadata (recorded before the havoc)
					okE = len(call.VarArgs) > 2 && false
					detail = "metadata argument"
				}
				// the memory snapshot is not kept in the event: check structurally instead that the pointee is a local
				// initialised by a load of the global
				okE, detail = localCopyOfGlobal(fn, g)
				R.Check(okE, "decode."+entry+"#defaults", c.FPos(fn), "passes a local copy of ivg.DefaultMetadata", detail)
				if entry == "DecodeViewBox" && call != nil {
					// arguments are found by the callee's parameter names, wherever they stand
					dfn := c.Fn("decode", "decode")
					dstA, onlyA := argByParam(dfn, call.Args, "dst"), argByParam(dfn, call.Args, "metadataOnly")
					R.Check(dstA != nil && dstA.IsNil() && onlyA != nil && onlyA.Key() == "true", "decode.DecodeViewBox#metadataOnly", c.FPos(fn), "decode(nil destination, ..., metadataOnly=true)", argKeys(call.Args))
				}
			}
		}
	}
	R.Rule("C13.5", "metadata-only decoding runs the same chunk loop and options, then returns before any use of the destination", 3)
	if fn := c.Fn("decode", "decode"); fn != nil {
		trace := func(only bool) (*sym.Interp, []string) {
			h := c.newDecHooks()
			h.opaque["decodeMetadataChunk"] = true
			in := c.Interp()
			in.Hooks = h
			args := in.RootArgs(fn)
			for i, p := range fn.Params {
				if p.Name() == "metadataOnly" {
					args[i] = sym.Bool(only)
				}
			}
			in.Run(fn, args, nil)
			var sig []string
			for _, ev := range in.Events {
				switch ev.Kind {
				case "consume", "opaquecall", "invoke", "indirect":
					k := ev.Kind + ":" + ev.Callee
					if ev.Kind == "indirect" {
						if strings.Contains(ev.Callee, "param:opts") {
							k = "option"
						} else {
							k = "modefunc"
						}
					}
					sig = append(sig, k)
				}
			}
			return in, sig
		}
		_, full := trace(false)
		_, only := trace(true)
		okDst := true
		for _, s := range only {
			if strings.HasPrefix(s, "invoke") || s == "modefunc" {
				okDst = false
			}
		}
		R.Check(okDst, "decode.decode#metadataOnly:silent", c.FPos(fn), "no destination call and no instruction decoding", strings.Join(only, " "))
		var fullMeta []string
		for _, s := range full {
			if !strings.HasPrefix(s, "invoke") && s != "modefunc" {
				fullMeta = append(fullMeta, s)
			}
		}
		R.Check(strings.Join(fullMeta, " ") == strings.Join(only, " "), "decode.decode#metadataOnly:same-validation", c.FPos(fn), "same metadata reads, chunk decoding and options as a full decode: "+strings.Join(fullMeta, " "), strings.Join(only, " "))
		R.Check(len(only) >= 3, "decode.decode#metadataOnly:nonvacuous", c.FPos(fn), "count, chunks, options", fmt.Sprint(len(only)))
	}
}

func stripConv(t *sym.Term) *sym.Term {
	for t.Op == "conv" {
		t = t.Args[0]
	}
	return t
}

func is64(t *sym.Term) bool {
	if t.T == nil {
		return false
	}
	b, ok := t.T.Underlying().(*types.Basic)
	return ok && b.Kind() == types.Int64
}

// localCopyOfGlobal reports whether fn stores a load of global g into a local
// allocation whose address it passes on.
func localCopyOfGlobal(fn *ssa.Function, g *ssa.Global) (bool, string) {
	for _, b := range fn.Blocks {
		for _, ins := range b.Instrs {
			st, ok := ins.(*ssa.Store)
			if !ok {
				continue
			}
			ld, ok := st.Val.(*ssa.UnOp)
			if !ok || ld.X != ssa.Value(g) {
				continue
			}
			if _, ok := st.Addr.(*ssa.Alloc); ok {
				return true, ""
			}
		}
	}
	return false, "no local initialised from " + g.Name()
}

var _ = constant.MakeInt64

// argByParam returns the argument of a call of fn that is bound to the parameter called name (nil if there is none).
func argByParam(fn *ssa.Function, args []*sym.Term, name string) *sym.Term {
	if fn == nil {
		return nil
	}
	if i := canonIndex(fn, name); i >= 0 && i < len(args) {
		return args[i]
	}
	return nil
}
