package rules

import (
	"fmt"
	"go/types"
	"strings"

	"golang.org/x/tools/go/ssa"

	"ivgsa/internal/poly"
	"ivgsa/internal/sym"
)

func init() { register("C16", ruleC16, ruleC16_4, ruleC16_5) }

// ruleC16_5: clause (b) - a graphic expressed with the viewBox, all coordinates and the gradient matrices scaled by
// a power of two gives the same pixels. Over the reals this is scale invariance of what reaches the rasteriser, and
// that follows from two identities decided elsewhere and evaluated here too: every coordinate handed to the
// rasteriser is the affine viewBox->rectangle image of its operand (C05.4: homogeneous of degree 0 in viewBox and
// operand together), and the pixel->gradient matrix is the gradient matrix applied to the pixel mapped back into
// viewBox space (C15.1: dividing the matrix's linear part by the factor cancels the factor of the map). That a power
// of two commutes with float32 rounding is arithmetic, not structure, and is not decided.
func ruleC16_5(c *Ctx) {
	c.R.Only("C05.4")
	ruleC05(c)
	c.R.Only("C15.1")
	ruleC15(c)
	c.R.Only()
}

// ruleC16_4: clause (c) - colours through palette indices, registers and blends resolve to the colour a direct
// colour would give (the resolution of Color.Resolve, shared with C04.4 / C09.5 / C14.4).
func ruleC16_4(c *Ctx) {
	c.R.Rule("C16.4", "colouring through the palette, the registers or a blend is the same as the equivalent direct colour: Color.Resolve returns a direct colour as is, the table entry at the masked index unchanged for palette and register colours (whatever it holds - a register may hold a gradient descriptor), and the specification's per-channel blend of the resolved operands", 7)
	ruleResolve(c, "C16.4")
}

// ruleC16 decides the structural preconditions of the pixel-invariance
// property: paint and mask live in rectangle-relative pixel space (every
// rasteriser argument and the pixel->gradient matrix depend on the target
// rectangle only through its size), only the target rectangle can be painted,
// and the compositing operator applies to the first Draw only.
func ruleC16(c *Ctx) {
	R := c.R
	R.Assume("pixel identity itself, power-of-two rescaling and the behaviour of golang.org/x/image/vector are not decided: not applicable to static analysis")
	r := c.newRend()
	if !r.ok {
		return
	}
	f32 := types.Typ[types.Float32]
	pins := map[string]*sym.Term{
		"disabled":         sym.False,
		"prevSmoothType":   sym.Atom("prevType", types.Typ[types.Uint8]),
		"prevSmoothPointX": sym.Atom("prevX", f32),
		"prevSmoothPointY": sym.Atom("prevY", f32),
	}
	shift := func(p poly.Rat) poly.Rat {
		p = p.SubstVar("r.Min.X", v("r.Min.X").Add(v("dX")))
		p = p.SubstVar("r.Max.X", v("r.Max.X").Add(v("dX")))
		p = p.SubstVar("r.Min.Y", v("r.Min.Y").Add(v("dY")))
		p = p.SubstVar("r.Max.Y", v("r.Max.Y").Add(v("dY")))
		return p
	}
	R.Rule("C16.2", "translation invariance of the geometry: replacing the target rectangle r by r+(dX,dY) leaves every coordinate handed to the rasteriser and every entry of the pixel->gradient matrix unchanged (they depend on r only through its size)", 60)
	methods := []string{"StartPath"}
	for _, ve := range verbTable() {
		methods = append(methods, ve.name)
	}
	for _, name := range methods {
		fn := c.Method("render", "Renderer", name, true)
		if fn == nil {
			continue
		}
		in, _, _ := r.run(fn, pins, "initGradient", "ValidAlphaPremulColor", "ValidGradient")
		for _, ev := range rasterEvents(in) {
			if rasterQueries[ev.Callee] || ev.Callee == "Draw" || ev.Callee == "ClosePath" {
				continue
			}
			for i, a := range ev.Args {
				env := r.env()
				env.Rename["$prevX"] = "prevX"
				env.Rename["$prevY"] = "prevY"
				key := fmt.Sprintf("render.(*Renderer).%s:%s.arg%d", name, ev.Callee, i)
				ok := true
				detail := ""
				cs := env.Cases(a)
				if env.Err != nil || len(cs) == 0 {
					R.Unknown(key, c.Pos(ev.Site), "no normal form")
					continue
				}
				for _, cse := range cs {
					if !shift(cse.Val).Equal(cse.Val) {
						ok, detail = false, cse.Val.String()
					}
				}
				R.Check(ok, key, c.Pos(ev.Site), "unchanged when the rectangle is translated", detail)
			}
		}
	}
	// pixel->gradient matrix
	if ig := c.Method("render", "Renderer", "initGradient", true); ig != nil {
		rin, _, _ := r.run(ig, map[string]*sym.Term{"nReg": sym.Atom("nReg", nil), "cReg": sym.Atom("cReg", nil)}, "ValidAlphaPremulColor", "DecodeGradient", "Init")
		for _, ev := range rin.Events {
			if ev.Kind == "opaquecall" && ev.Callee == "Init" && len(ev.Args) == 5 && ev.Args[3].Op == "agg" {
				for k, e := range ev.Args[3].Args {
					env := r.env()
					p, ok := env.One(e)
					R.Check(ok && shift(p).Equal(p), fmt.Sprintf("render.(*Renderer).initGradient#matrix[%d]", k), c.FPos(ig), "unchanged when the rectangle is translated", p.String())
				}
			}
		}
	}

	// C16.1 only the target rectangle is painted; the rasteriser is sized to it
	R.Rule("C16.1", "only the target rectangle can be painted: Draw is the only rasteriser method taking a rectangle and receives z.r with source offset (0,0); the rasteriser is Reset to the rectangle's size at every path start; SetRasterizer stores the rectangle (an empty one normalised) and recomputes the transform", 4)
	if rt := c.Named("raster", "Rasterizer"); rt != nil {
		it := rt.Underlying().(*types.Interface)
		var rectMethods []string
		for i := 0; i < it.NumMethods(); i++ {
			sig := it.Method(i).Type().(*types.Signature)
			for k := 0; k < sig.Params().Len(); k++ {
				if strings.HasSuffix(sig.Params().At(k).Type().String(), "image.Rectangle") {
					rectMethods = append(rectMethods, it.Method(i).Name())
				}
			}
		}
		R.Check(len(rectMethods) == 1 && rectMethods[0] == "Draw", "raster.Rasterizer#rectangle-methods", "-", "Draw only", strings.Join(rectMethods, ","))
	}
	if fn := c.Method("render", "Renderer", "ClosePathEndPath", true); fn != nil {
		in, _, _ := r.run(fn, pins)
		ok := false
		for _, ev := range rasterEvents(in) {
			if ev.Callee == "Draw" && len(ev.Args) == 3 {
				zr := in.LoadAt(r.resetM, r.zobj(in), r.fieldPath("r"))
				ok = normAgg(ev.Args[0]) == normAgg(zr) && isZeroPoint(ev.Args[2])
			}
		}
		R.Check(ok, "render.(*Renderer).ClosePathEndPath#Draw", c.FPos(fn), "Draw(z.r, paint, (0,0))", "")
	}
	if fn := c.Method("render", "Renderer", "StartPath", true); fn != nil {
		in, _, _ := r.run(fn, pins, "initGradient", "ValidAlphaPremulColor", "ValidGradient")
		ok := false
		g := newGeom()
		for _, ev := range rasterEvents(in) {
			if ev.Callee == "Reset" && len(ev.Args) == 2 {
				env := r.env()
				w, ok1 := env.One(ev.Args[0])
				h, ok2 := env.One(ev.Args[1])
				ok = ok1 && ok2 && w.Equal(g.Dx) && h.Equal(g.Dy)
			}
		}
		R.Check(ok, "render.(*Renderer).StartPath#Reset", c.FPos(fn), "Reset(r.Dx(), r.Dy())", "")
	}
	if fn := c.Method("render", "Renderer", "SetRasterizer", true); fn != nil {
		in := c.Interp()
		c.newRendHooks(in)
		// the state before the call: everything the transform is made of is marked "old"
		st0 := sym.NewMem()
		z0 := in.ParamObj("z", r.T)
		rT := r.T.Underlying().(*types.Struct)
		for i := 0; i < rT.NumFields(); i++ {
			switch rT.Field(i).Name() {
			case "scaleX", "scaleY", "biasX", "biasY", "r":
				st0.Store(z0, sym.Path{sym.F(i)}, sym.Atom("old."+rT.Field(i).Name(), rT.Field(i).Type()))
			}
		}
		_, mem, _ := in.Run(fn, nil, st0)
		ok := mem != nil
		detail := ""
		if ok {
			// the transform after the call is a function of the new rectangle and the viewBox only
			for _, f := range []string{"scaleX", "scaleY", "biasX", "biasY"} {
				v := in.LoadAt(mem, z0, r.fieldPath(f))
				if strings.Contains(v.Key(), "$old.") {
					ok = false
					detail = f + " still depends on the state before the call: " + shortKey(v)
				}
				for d := range in.Deps(v) {
					if strings.HasPrefix(d, "old.") {
						ok = false
						detail = f + " still depends on the state before the call (" + d + ")"
					}
				}
			}
		}
		if ok {
			z := in.ParamObj("z", r.T)
			rv := in.LoadAt(mem, z, r.fieldPath("r"))
			// r or the zero rectangle (when empty)
			// on every path: the rectangle as given, or the zero rectangle for an empty one - decided from the
			// rectangle alone (not clipped against, or otherwise dependent on, the rasteriser)
			leaves := sym.DeepCases(rv, 16)
			ok = len(leaves) > 0
			for _, lf := range leaves {
				if sym.CondsContradict(lf.Conds) {
					continue
				}
				isParam := lf.Val.Key() == "$param:r"
				isZero := lf.Val.Op == "zero" || strings.Trim(normAgg(lf.Val), "{},0 ") == ""
				dep := false
				for _, cd := range lf.Conds {
					if sym.Mentions(cd, "$param:dst") || strings.Contains(cd.Key(), "call") || strings.Contains(cd.Key(), "havoc") {
						dep = true
					}
				}
				if !(isParam || isZero) || dep {
					ok = false
					detail = "r = " + shortKey(lf.Val) + " under " + condKey(lf.Conds)
				}
			}
			// the transform is recomputed from the new rectangle: scaleX mentions the parameter r
			sx := in.LoadAt(mem, z, r.fieldPath("scaleX"))
			if !strings.Contains(sx.Key(), "$param:r") {
				ok = false
				detail = "scaleX = " + shortKey(sx)
			}
			zz := in.LoadAt(mem, z, r.fieldPath("z"))
			if zz.Key() != "$param:dst" {
				ok = false
				detail = "z = " + shortKey(zz)
			}
		}
		R.Check(ok, "render.(*Renderer).SetRasterizer", c.FPos(fn), "stores the rasteriser and the rectangle and recomputes the transform from it", detail)
	}

	// C16.3 compositing operator
	R.Rule("C16.3", "vec.Rasterizer.Draw copies the configured operator into the wrapped rasteriser before drawing with the caller's arguments unchanged, and reverts to draw.Over afterwards, so it applies to the first drawn path only; no other code in the module writes the configured operator", 4)
	if fn := c.Method("raster/vec", "Rasterizer", "Draw", true); fn != nil {
		// SSA order: store inner.DrawOp := load z.DrawOp ; call inner.Draw(z.Dst, r, src, sp) ; store z.DrawOp := Over
		var order []string
		var callArgsOK bool
		for _, b := range fn.Blocks {
			for _, ins := range b.Instrs {
				switch x := ins.(type) {
				case *ssa.Store:
					if fa, ok := x.Addr.(*ssa.FieldAddr); ok {
						st := fa.X.Type().Underlying().(*types.Pointer).Elem().Underlying().(*types.Struct)
						fname := st.Field(fa.Field).Name()
						owner := fa.X.Type().Underlying().(*types.Pointer).Elem().String()
						val := "?"
						if k, ok := x.Val.(*ssa.Const); ok && k.Value != nil {
							val = "const:" + k.Value.ExactString()
						} else if ld, ok := x.Val.(*ssa.UnOp); ok {
							if fa2, ok := ld.X.(*ssa.FieldAddr); ok {
								st2 := fa2.X.Type().Underlying().(*types.Pointer).Elem().Underlying().(*types.Struct)
								val = "field:" + st2.Field(fa2.Field).Name()
							}
						}
						short := owner[strings.LastIndex(owner, "/")+1:]
						order = append(order, fmt.Sprintf("store %s.%s=%s", short, fname, val))
					}
				case *ssa.Call:
					if callee := x.Common().StaticCallee(); callee != nil && callee.Name() == "Draw" {
						order = append(order, "call Draw")
						args := x.Common().Args
						// (recv, dst=z.Dst, r, src, sp): the last three are this method's parameters in order
						callArgsOK = len(args) == 5 && len(fn.Params) == 4 && args[2] == ssa.Value(fn.Params[1]) && args[3] == ssa.Value(fn.Params[2]) && args[4] == ssa.Value(fn.Params[3])
						if ld, ok := args[1].(*ssa.UnOp); ok {
							if fa, ok := ld.X.(*ssa.FieldAddr); ok {
								st := fa.X.Type().Underlying().(*types.Pointer).Elem().Underlying().(*types.Struct)
								if st.Field(fa.Field).Name() != "Dst" {
									callArgsOK = false
								}
							}
						} else {
							callArgsOK = false
						}
					}
				}
			}
		}
		over, okOver := constValExt(c, "image/draw", "Over")
		want := []string{"store vector.Rasterizer.DrawOp=field:DrawOp", "call Draw", fmt.Sprintf("store vec.Rasterizer.DrawOp=const:%d", over)}
		R.Check(okOver && strings.Join(order, " ; ") == strings.Join(want, " ; "), "vec.(*Rasterizer).Draw#order", c.FPos(fn), strings.Join(want, " ; "), strings.Join(order, " ; "))
		R.Check(callArgsOK, "vec.(*Rasterizer).Draw#arguments", c.FPos(fn), "inner Draw(z.Dst, r, src, sp) with the caller's arguments", "")
		R.Check(len(fn.Blocks) == 1, "vec.(*Rasterizer).Draw#straight-line", c.FPos(fn), "no branch: the revert always happens", fmt.Sprint(len(fn.Blocks)))
	}
	// the configured operator survives until the first Draw: nothing in the module but Draw's own revert writes it
	if vt := c.P.Named("raster/vec", "Rasterizer"); vt != nil {
		var writers []string
		for _, fn := range c.P.AllFuncs() {
			if !c.P.FnInModule(fn) {
				continue
			}
			for _, b := range fn.Blocks {
				for _, ins := range b.Instrs {
					st, ok := ins.(*ssa.Store)
					if !ok {
						continue
					}
					fa, ok := st.Addr.(*ssa.FieldAddr)
					if !ok {
						continue
					}
					pt, ok := fa.X.Type().Underlying().(*types.Pointer)
					if !ok || !types.Identical(pt.Elem(), vt) {
						continue
					}
					if vt.Underlying().(*types.Struct).Field(fa.Field).Name() != "DrawOp" {
						continue
					}
					if fn.Name() == "Draw" && fn.Signature.Recv() != nil {
						continue
					}
					writers = append(writers, c.P.FuncName(fn)+" at "+c.Pos(ins))
				}
			}
		}
		R.Check(len(writers) == 0, "vec.Rasterizer.DrawOp#writers", "-", "the operator the caller configured is written only by Draw's revert, so it reaches the first drawn path (Reset, path construction and the renderer leave it alone)", strings.Join(writers, ", "))
	} else {
		R.Unknown("vec.Rasterizer.DrawOp#writers", "-", "type vec.Rasterizer not found")
	}
}

// constValExt reads an integer constant of an imported (non-module) package.
func constValExt(c *Ctx, path, name string) (int64, bool) {
	for _, pk := range c.P.Pkgs {
		for _, imp := range pk.Types.Imports() {
			if imp.Path() == path {
				if k, ok := imp.Scope().Lookup(name).(*types.Const); ok {
					if v, ok := constantInt64(k); ok {
						return v, true
					}
				}
			}
		}
	}
	return 0, false
}
