package rules

import (
	"fmt"
	"go/constant"
	"go/token"
	"go/types"
	"sort"
	"strings"

	"golang.org/x/tools/go/ssa"

	"ivgsa/internal/sym"
)

// decHooks steers the interpreter over package decode: operand decoders
// (methods of the named type decode.buffer) are not entered but recorded as
// CONSUME events returning an opaque (value, n) pair; calls through a value of
// the named func type decode.printer are recorded as PRINT events; invokes on
// ivg.Destination are recorded as DELIVER events by the interpreter itself.
type decHooks struct {
	sym.NoHooks
	c        *Ctx
	bufferT  types.Type
	printerT types.Type
	// pinned initial memory contents, keyed by object id + path
	pins map[string]*sym.Term
	// enter lists operand decoders that are entered instead of summarised
	enter map[string]bool
	// natN, when set, pins the byte count returned by decodeNatural (a key)
	natN *int64
	// natVals pins the value returned by the k-th decodeNatural call of the run (keys); nil entries stay symbolic
	natVals []*sym.Term
	natSeen map[string]int
	// opaque lists module functions kept as opaque calls
	opaque map[string]bool
	// pinAny0, when set, is the value of the first byte of the input buffer at a
	// symbolic offset (the palette header byte, which follows two naturals)
	pinAny0 *sym.Term
	// pureOpaque lists opaque functions that do not write through their arguments
	pureOpaque map[string]bool
}

func (c *Ctx) newDecHooks() *decHooks {
	h := &decHooks{c: c, pins: map[string]*sym.Term{}, enter: map[string]bool{}, opaque: map[string]bool{}}
	if n := c.Named("decode", "buffer"); n != nil {
		h.bufferT = n
	}
	if n := c.Named("decode", "printer"); n != nil {
		h.printerT = n
	}
	return h
}

func (h *decHooks) Init(o *sym.Object, p sym.Path, t types.Type) *sym.Term {
	if v, ok := h.pins[o.ID+"|"+p.String()]; ok {
		return v
	}
	return nil
}

// Pin: a load of the input buffer at a purely symbolic offset made of operand
// byte counts (the header byte of a chunk body) can be pinned as a key.
func (h *decHooks) Pin(fr *sym.Frame, v ssa.Value) *sym.Term {
	if h.pinAny0 == nil {
		return nil
	}
	ld, ok := v.(*ssa.UnOp)
	if !ok || ld.Op != token.MUL {
		return nil
	}
	ia, ok := ld.X.(*ssa.IndexAddr)
	if !ok {
		return nil
	}
	if k, ok := ia.Index.(*ssa.Const); !ok || k.Value == nil || k.Value.ExactString() != "0" {
		return nil
	}
	if h.bufferT == nil || !types.Identical(ia.X.Type(), h.bufferT) {
		return nil
	}
	return h.pinAny0
}

// pinInputByte pins byte k of the root parameter named param.
func (h *decHooks) pinInputByte(param string, k int, v int64) {
	h.pins[fmt.Sprintf("deref:$param:%s|[%d]", param, k)] = sym.Const(constant.MakeInt64(v), types.Typ[types.Uint8])
}

// decoderName returns the operand decoder method name if fn is a method of
// decode.buffer (or a thunk of one), else "".
func (h *decHooks) decoderName(fn *ssa.Function) string {
	if fn == nil || h.bufferT == nil {
		return ""
	}
	if recv := fn.Signature.Recv(); recv != nil {
		if types.Identical(recv.Type(), h.bufferT) {
			// the operand decoders are the ones the specification's table knows; other methods of the buffer type
			// are helpers of those and are entered like any function
			if _, known := decoderKinds[fn.Name()]; known {
				return fn.Name()
			}
		}
		return ""
	}
	if strings.HasSuffix(fn.Name(), "$thunk") || strings.HasSuffix(fn.Name(), "$bound") {
		if obj, ok := fn.Object().(*types.Func); ok {
			if sig, ok := obj.Type().(*types.Signature); ok && sig.Recv() != nil && types.Identical(sig.Recv().Type(), h.bufferT) {
				if _, known := decoderKinds[obj.Name()]; known {
					return obj.Name()
				}
			}
		}
	}
	return ""
}

func (h *decHooks) Call(in *sym.Interp, fr *sym.Frame, site ssa.CallInstruction, callee *ssa.Function, args []*sym.Term) (bool, *sym.Term) {
	if site == nil {
		return false, nil
	}
	if callee == nil {
		// indirect call or invoke
		cc := site.Common()
		if !cc.IsInvoke() && h.printerT != nil && types.Identical(cc.Value.Type(), h.printerT) {
			in.Emit(fr, "print", site, "printer", args[1:], frMem(fr))
			return true, nil
		}
		// a call through a value that is, on every path, one of the operand decoders (the palette's per-format
		// colour decoder): one operand read whose decoder is the selection
		// ... or an entry of a constant table of such decoders selected by an index
		if !cc.IsInvoke() && len(args) >= 1 && args[0].Op == "index" && args[0].Args[0].Op == "agg" {
			tbl := args[0].Args[0]
			cur := tbl.Args[len(tbl.Args)-1]
			for i := len(tbl.Args) - 2; i >= 0; i-- {
				cur = sym.Ite(sym.Bin(token.EQL, args[0].Args[1], sym.Int(int64(i)), nil), tbl.Args[i], cur)
			}
			args = append([]*sym.Term{cur}, args[1:]...)
		}
		if !cc.IsInvoke() && len(args) >= 1 && args[0].Op == "ite" {
			leaves := sym.DeepCases(args[0], 16)
			var names []string
			var sig *types.Signature
			for _, lf := range leaves {
				if lf.Val.Op != "fn" || lf.Val.Fn == nil {
					names = nil
					break
				}
				name := h.decoderName(lf.Val.Fn)
				if name == "" || h.enter[name] {
					names = nil
					break
				}
				names = append(names, name)
				sig = lf.Val.Fn.Signature
			}
			if len(names) > 0 && sig != nil && sig.Results().Len() == 2 {
				id := fmt.Sprintf("%s#%d", fr.ID, ordinal(site))
				val := sym.Atom("val@"+id, sig.Results().At(0).Type())
				n := sym.Atom("n@"+id, sig.Results().At(1).Type())
				ev := in.Emit(fr, "consume", site, strings.Join(names, "|"), args[1:], nil)
				if ev != nil {
					ev.Result = sym.Tuple(val, n)
				}
				return true, sym.Tuple(val, n)
			}
		}
		return false, nil
	}
	if name := h.decoderName(callee); name != "" && !h.enter[name] {
		id := fmt.Sprintf("%s#%d", fr.ID, ordinal(site))
		res := callee.Signature.Results()
		val := sym.Atom("val@"+id, res.At(0).Type())
		n := sym.Atom("n@"+id, res.At(1).Type())
		if name == "decodeNatural" && len(h.natVals) > 0 {
			if h.natSeen == nil {
				h.natSeen = map[string]int{}
			}
			k, seen := h.natSeen[id]
			if !seen {
				k = len(h.natSeen)
				h.natSeen[id] = k
			}
			if k < len(h.natVals) && h.natVals[k] != nil {
				val = h.natVals[k]
			}
		}
		if h.natN != nil && name == "decodeNatural" {
			n = sym.Int(*h.natN)
		}
		ev := in.Emit(fr, "consume", site, name, args, nil)
		if ev != nil {
			ev.Result = sym.Tuple(val, n)
		}
		return true, sym.Tuple(val, n)
	}
	if h.opaque[callee.Name()] {
		var rt types.Type
		if rs := callee.Signature.Results(); rs.Len() == 1 {
			rt = rs.At(0).Type()
		} else if rs.Len() > 1 {
			rt = rs
		}
		ev := in.Emit(fr, "opaquecall", site, callee.Name(), canonArgs(callee, args), fr.Mem())
		if !h.pureOpaque[callee.Name()] {
			in.Havoc(fr, site, fr.Mem(), args)
		}
		if rt == nil {
			return true, nil
		}
		r := sym.Atom(fmt.Sprintf("res@%s#%d:%s", fr.ID, ordinal(site), callee.Name()), rt)
		if ev != nil {
			ev.Result = r
		}
		return true, r
	}
	return false, nil
}

func frMem(fr *sym.Frame) *sym.Mem { return fr.Mem() }

func ordinal(site ssa.Instruction) int {
	b := site.Block()
	for i, x := range b.Instrs {
		if x == site {
			return b.Index*1000 + i
		}
	}
	return -1
}

// ---- trace extraction ----

// decTrace is what the decoder does for one opcode key.
type decTrace struct {
	Key      int
	Events   []*sym.Event
	Consumes []*sym.Event
	Delivers []*sym.Event
	Prints   []*sym.Event
	Returns  []*sym.Event
	Panics   []*sym.Event
	Others   []*sym.Event
	Warn     []string
	Frame    *sym.Frame
	Result   *sym.Term
	in       *sym.Interp
}

// runModeFunc evaluates a decoder mode function with input byte 0 pinned.
func (c *Ctx) runModeFunc(fn *ssa.Function, key int) *decTrace {
	h := c.newDecHooks()
	h.pinInputByte("src", 0, int64(key))
	in := c.Interp()
	in.Hooks = h
	res, _, fr := in.Run(fn, nil, nil)
	t := &decTrace{Key: key, Events: in.Events, Warn: in.Warn, Frame: fr, Result: res, in: in}
	for _, ev := range in.Events {
		switch ev.Kind {
		case "consume":
			t.Consumes = append(t.Consumes, ev)
		case "invoke":
			t.Delivers = append(t.Delivers, ev)
		case "print":
			t.Prints = append(t.Prints, ev)
		case "return":
			if ev.Frame == fr {
				t.Returns = append(t.Returns, ev)
			}
		case "panic":
			t.Panics = append(t.Panics, ev)
		default:
			t.Others = append(t.Others, ev)
		}
	}
	return t
}

// loopTrip returns the constant trip count of the loop, if it is a counted
// loop "for i := i0; i+c < N; i++" (including the rangeindex form) with
// constant i0, c and N.
func loopTrip(l sym.LoopRef) (int64, bool) {
	li, ok := l.Frame.Loop(l.Header)
	if !ok {
		return 0, false
	}
	n, ok1 := li.Bound.Int64()
	i0, ok2 := li.Init.Int64()
	if !ok1 || !ok2 {
		return 0, false
	}
	var t int64
	switch {
	case li.Step == 1 && li.Op == token.LSS: // for i := i0; i+c < n; i++
		t = n - li.Offset - i0
	case li.Step == 1 && li.Op == token.LEQ: // for i := i0; i+c <= n; i++
		t = n - li.Offset - i0 + 1
	case li.Step == -1 && li.Op == token.GTR: // for i := i0; i+c > n; i--
		t = i0 + li.Offset - n
	case li.Step == -1 && li.Op == token.GEQ: // for i := i0; i+c >= n; i--
		t = i0 + li.Offset - n + 1
	default:
		return 0, false
	}
	if t < 0 {
		t = 0
	}
	return t, true
}

// tripProduct multiplies the trip counts of all loops an event is nested in.
func tripProduct(ev *sym.Event) (int64, bool) {
	p := int64(1)
	for _, l := range ev.Loops {
		t, ok := loopTrip(l)
		if !ok {
			return 0, false
		}
		p *= t
	}
	return p, true
}

// guardLits splits a guard into its conjunct literals.
func guardLits(g *sym.Term) []*sym.Term {
	if g == nil {
		return nil
	}
	if b, ok := g.BoolVal(); ok && b {
		return nil
	}
	if g.Op == "and" {
		return g.Args
	}
	return []*sym.Term{g}
}

// errOfReturn returns the error component of a mode function's return tuple.
func errOfReturn(ev *sym.Event) *sym.Term {
	if len(ev.Args) == 0 || ev.Args[0] == nil {
		return nil
	}
	v := ev.Args[0]
	if v.Op == "tuple" {
		return v.Args[len(v.Args)-1]
	}
	return v
}

func sortedKeys(m map[string]bool) []string {
	var out []string
	for k := range m {
		out = append(out, k)
	}
	sort.Strings(out)
	return out
}

// DebugDecHooks installs the decoder hooks with input byte 0 pinned (for ivgsa dump).
func DebugDecHooks(c *Ctx, in *sym.Interp, key int) {
	h := c.newDecHooks()
	h.pinInputByte("src", 0, int64(key))
	in.Hooks = h
}

// DebugDecHooksOpaque installs the decoder hooks with opaque functions (for ivgsa dump -key -2).
func DebugDecHooksOpaque(c *Ctx, in *sym.Interp, opaque []string) {
	h := c.newDecHooks()
	for _, o := range opaque {
		h.opaque[o] = true
	}
	in.Hooks = h
}
