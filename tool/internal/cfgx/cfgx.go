// Package cfgx provides control-flow facts over go/ssa functions:
// post-dominators, control dependence, natural loops, reachability.
package cfgx

import (
	"go/types"

	"golang.org/x/tools/go/ssa"
)

// Info holds per-function control-flow facts. An optional edge filter restricts
// the graph to "executable" edges (used after constant propagation).
type Info struct {
	Fn     *ssa.Function
	N      int
	Succs  [][]int
	Preds  [][]int
	Live   []bool   // reachable from entry via allowed edges
	PostD  [][]bool // PostD[a][b]: a post-dominates b (w.r.t. a virtual exit joining all Return/Panic blocks)
	ipdom  []int    // immediate post-dominator (-1: virtual exit)
	RPO    []int
	rpoIdx []int
	Back   map[[2]int]bool // back edges (target dominates source)
	LoopOf []int           // innermost loop header containing block, -1 if none
	Loops  map[int][]int   // header -> blocks in natural loop
}

// New computes the facts for fn. allow may be nil (all edges).
func New(fn *ssa.Function, allow func(from, to *ssa.BasicBlock) bool) *Info {
	n := len(fn.Blocks)
	in := &Info{Fn: fn, N: n, Succs: make([][]int, n), Preds: make([][]int, n), Live: make([]bool, n),
		Back: map[[2]int]bool{}, Loops: map[int][]int{}}
	// reachability with filter
	var stack []int
	if n > 0 {
		in.Live[0] = true
		stack = append(stack, 0)
	}
	for len(stack) > 0 {
		b := stack[len(stack)-1]
		stack = stack[:len(stack)-1]
		for _, s := range fn.Blocks[b].Succs {
			if allow != nil && !allow(fn.Blocks[b], s) {
				continue
			}
			in.Succs[b] = append(in.Succs[b], s.Index)
			in.Preds[s.Index] = append(in.Preds[s.Index], b)
			if !in.Live[s.Index] {
				in.Live[s.Index] = true
				stack = append(stack, s.Index)
			}
		}
	}
	// RPO
	seen := make([]bool, n)
	var post []int
	var dfs func(int)
	dfs = func(b int) {
		seen[b] = true
		for _, s := range in.Succs[b] {
			if !seen[s] {
				dfs(s)
			}
		}
		post = append(post, b)
	}
	if n > 0 {
		dfs(0)
	}
	in.rpoIdx = make([]int, n)
	for i := range in.rpoIdx {
		in.rpoIdx[i] = -1
	}
	for i := len(post) - 1; i >= 0; i-- {
		in.rpoIdx[post[i]] = len(in.RPO)
		in.RPO = append(in.RPO, post[i])
	}
	// back edges and natural loops (dominance from ssa; valid on the unfiltered graph and
	// conservative on a filtered one since removing edges only adds dominance)
	in.LoopOf = make([]int, n)
	for i := range in.LoopOf {
		in.LoopOf[i] = -1
	}
	for b := 0; b < n; b++ {
		if !in.Live[b] {
			continue
		}
		for _, s := range in.Succs[b] {
			if fn.Blocks[s].Dominates(fn.Blocks[b]) {
				in.Back[[2]int{b, s}] = true
			}
		}
	}
	for e := range in.Back {
		tail, head := e[0], e[1]
		body := map[int]bool{head: true}
		work := []int{tail}
		for len(work) > 0 {
			x := work[len(work)-1]
			work = work[:len(work)-1]
			if body[x] {
				continue
			}
			body[x] = true
			for _, p := range in.Preds[x] {
				work = append(work, p)
			}
		}
		for x := range body {
			found := false
			for _, y := range in.Loops[head] {
				if y == x {
					found = true
				}
			}
			if !found {
				in.Loops[head] = append(in.Loops[head], x)
			}
		}
	}
	// innermost loop: the smallest loop containing the block
	for h, body := range in.Loops {
		for _, x := range body {
			cur := in.LoopOf[x]
			if cur == -1 || len(in.Loops[h]) < len(in.Loops[cur]) {
				in.LoopOf[x] = h
			}
		}
	}
	in.computePostDom()
	return in
}

// IsExit reports whether block b ends the function (Return or Panic).
func IsExit(b *ssa.BasicBlock) bool {
	if len(b.Instrs) == 0 {
		return false
	}
	switch b.Instrs[len(b.Instrs)-1].(type) {
	case *ssa.Return, *ssa.Panic:
		return true
	}
	return false
}

func (in *Info) computePostDom() {
	n := in.N
	// iterative set-based algorithm; functions are small
	full := func() []bool {
		s := make([]bool, n)
		for i := range s {
			s[i] = true
		}
		return s
	}
	pd := make([][]bool, n) // pd[b] = set of blocks post-dominating b
	for b := 0; b < n; b++ {
		pd[b] = full()
	}
	changed := true
	for changed {
		changed = false
		for i := len(in.RPO) - 1; i >= 0; i-- {
			b := in.RPO[i]
			var ns []bool
			if len(in.Succs[b]) == 0 {
				ns = make([]bool, n)
			} else {
				ns = full()
				for _, s := range in.Succs[b] {
					for k := 0; k < n; k++ {
						ns[k] = ns[k] && pd[s][k]
					}
				}
			}
			ns[b] = true
			for k := 0; k < n; k++ {
				if ns[k] != pd[b][k] {
					changed = true
				}
			}
			pd[b] = ns
		}
	}
	in.PostD = make([][]bool, n)
	for a := 0; a < n; a++ {
		in.PostD[a] = make([]bool, n)
	}
	for b := 0; b < n; b++ {
		for a := 0; a < n; a++ {
			if pd[b][a] {
				in.PostD[a][b] = true
			}
		}
	}
}

// PostDominates reports whether a post-dominates b.
func (in *Info) PostDominates(a, b int) bool { return in.PostD[a][b] }

// ControlDeps returns, for block x, the set of (branch block, successor index)
// pairs x is control dependent on: x post-dominates the successor but does not
// strictly post-dominate the branch block.
func (in *Info) ControlDeps(x int) [][2]int {
	var out [][2]int
	for b := 0; b < in.N; b++ {
		if !in.Live[b] || len(in.Succs[b]) < 2 {
			continue
		}
		for si, s := range in.Succs[b] {
			if in.PostD[x][s] && !(x != b && in.PostD[x][b]) {
				out = append(out, [2]int{b, si})
			}
		}
	}
	return out
}

// Reaches reports whether block to is reachable from block from (reflexive).
func (in *Info) Reaches(from, to int) bool {
	seen := make([]bool, in.N)
	stack := []int{from}
	for len(stack) > 0 {
		b := stack[len(stack)-1]
		stack = stack[:len(stack)-1]
		if b == to {
			return true
		}
		if seen[b] {
			continue
		}
		seen[b] = true
		stack = append(stack, in.Succs[b]...)
	}
	return false
}

// ReachesAvoiding reports whether to is reachable from from without passing
// through any block in avoid (from itself is not tested against avoid).
func (in *Info) ReachesAvoiding(from, to int, avoid map[int]bool) bool {
	seen := make([]bool, in.N)
	stack := []int{from}
	first := true
	for len(stack) > 0 {
		b := stack[len(stack)-1]
		stack = stack[:len(stack)-1]
		if !first && avoid[b] {
			continue
		}
		first = false
		if b == to {
			return true
		}
		if seen[b] {
			continue
		}
		seen[b] = true
		stack = append(stack, in.Succs[b]...)
	}
	return false
}

// IsErrorReturn reports whether ret returns a non-nil value in one of its
// error-typed result positions (a constant nil is the only accepted "no error").
func IsErrorReturn(ret *ssa.Return) bool {
	for _, r := range ret.Results {
		if isErrorType(r.Type()) {
			if c, ok := r.(*ssa.Const); ok && c.IsNil() {
				continue
			}
			return true
		}
	}
	return false
}

func isErrorType(t types.Type) bool {
	n, ok := t.(*types.Named)
	return ok && n.Obj().Pkg() == nil && n.Obj().Name() == "error"
}

// InstrIndex returns the index of instr within its block, or -1.
func InstrIndex(instr ssa.Instruction) int {
	for i, x := range instr.Block().Instrs {
		if x == instr {
			return i
		}
	}
	return -1
}

// InstrDominates reports whether instruction a dominates instruction b
// (same function): a's block strictly dominates b's, or same block and a first.
func InstrDominates(a, b ssa.Instruction) bool {
	ba, bb := a.Block(), b.Block()
	if ba == bb {
		return InstrIndex(a) < InstrIndex(b)
	}
	return ba.Dominates(bb)
}

// TransControlDeps returns the transitive closure of ControlDeps for block x.
func (in *Info) TransControlDeps(x int) [][2]int {
	seen := map[[2]int]bool{}
	var out [][2]int
	visited := map[int]bool{}
	work := []int{x}
	for len(work) > 0 {
		b := work[len(work)-1]
		work = work[:len(work)-1]
		if visited[b] {
			continue
		}
		visited[b] = true
		for _, d := range in.ControlDeps(b) {
			if !seen[d] {
				seen[d] = true
				out = append(out, d)
			}
			work = append(work, d[0])
		}
	}
	return out
}
