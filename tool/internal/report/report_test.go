package report

import (
	"encoding/json"
	"os"
	"path/filepath"
	"testing"
)

// The known-findings mechanism: a listed (property, rule, construct) is printed as KNOWN-FINDING and does not
// fail the check; a different construct violating the same rule still does; a "fixed" entry suppresses nothing.
func TestKnownFindings(t *testing.T) {
	dir := t.TempDir()
	kf := KnownFile{Findings: []Finding{{Property: "P", Rule: "P.1", Construct: "pkg.F#a", What: "demo"}}, Fixed: []string{"fixed: property=P abc pkg.F#c"}}
	b, _ := json.Marshal(kf)
	os.WriteFile(filepath.Join(dir, "known_findings.json"), b, 0o644)

	r := NewRun("P", "quick", 0)
	r.Rule("P.1", "demo rule", 1)
	r.Bad("pkg.F#a", "-", "x", "y")
	if code := r.Finish(dir); code != 0 {
		t.Fatalf("a listed finding must not fail the check, exit %d", code)
	}

	r = NewRun("P", "quick", 0)
	r.Rule("P.1", "demo rule", 1)
	r.Bad("pkg.F#a", "-", "x", "y")
	r.Bad("pkg.F#b", "-", "x", "y")
	if code := r.Finish(dir); code != 1 {
		t.Fatalf("an unlisted violation of the same rule must fail the check, exit %d", code)
	}

	r = NewRun("P", "quick", 0)
	r.Rule("P.1", "demo rule", 1)
	r.Bad("pkg.F#c", "-", "x", "y")
	if code := r.Finish(dir); code != 1 {
		t.Fatalf("a fixed entry suppresses nothing, exit %d", code)
	}

	// vacuity: fewer obligations than the rule's minimum is a failure
	r = NewRun("P", "quick", 0)
	r.Rule("P.1", "demo rule", 2)
	r.OK("pkg.F#a", "-")
	if code := r.Finish(dir); code != 1 {
		t.Fatalf("a rule below its minimum instance count must fail, exit %d", code)
	}
}
