// Package report collects obligations, applies the known-findings file and
// writes evidence.
package report

import (
	"encoding/json"
	"fmt"
	"os"
	"path/filepath"
	"sort"
	"strings"
	"time"
)

type Status string

const (
	Discharged Status = "discharged"
	Violated   Status = "violated"
	Undecided  Status = "undecided"
)

// Obligation is one rule instance decided (or not) on one construct.
type Obligation struct {
	Rule      string   `json:"rule"`      // e.g. "C03.1"
	Construct string   `json:"construct"` // pkg.Func#role — never a line number
	Status    Status   `json:"status"`
	Pos       string   `json:"pos,omitempty"` // informational only
	Expected  string   `json:"expected,omitempty"`
	Found     string   `json:"found,omitempty"`
	Facts     []string `json:"facts,omitempty"`
	Trivial   bool     `json:"-"`
}

// Finding is an entry of known_findings.json.
type Finding struct {
	Property  string `json:"property"`
	Rule      string `json:"rule"`
	Construct string `json:"construct"`
	What      string `json:"what"`
}

type KnownFile struct {
	Comment  string    `json:"comment,omitempty"`
	Findings []Finding `json:"findings"`
	Fixed    []string  `json:"fixed"`
}

// Run accumulates the results for one property.
type Run struct {
	only map[string]bool
	Property    string
	Tier        string
	Seed        int64
	Start       time.Time
	Obls        []Obligation
	Analysed    map[string]int
	RuleDocs    map[string]string
	RuleMin     map[string]int
	Assumptions []string
	Notes       []string
	Samples     []interface{}
	Exhaustive  bool
	Infra       []string // infrastructure failures (anchors unresolved, panics)
	curRule     string
}

func NewRun(property, tier string, seed int64) *Run {
	return &Run{Property: property, Tier: tier, Seed: seed, Start: time.Now(),
		Analysed: map[string]int{}, RuleDocs: map[string]string{}, RuleMin: map[string]int{}}
}

// Rule declares a rule, its one-line meaning and the minimum number of
// obligations it must produce (guards against vacuous passes).
func (r *Run) Rule(id, doc string, min int) {
	r.curRule = id
	if r.only != nil && !r.only[id] {
		return // a rule function shared with another property: this property lists only some of its rules
	}
	r.RuleDocs[id] = doc
	r.RuleMin[id] = min
}

// Only restricts recording to the listed rule ids until Only() is called with no arguments: obligations of other
// rules are dropped. Used when a property shares part of another property's rule function.
func (r *Run) Only(ids ...string) {
	if len(ids) == 0 {
		r.only = nil
		return
	}
	r.only = map[string]bool{}
	for _, id := range ids {
		r.only[id] = true
	}
}

// Use selects an already declared rule as the current one.
func (r *Run) Use(id string) { r.curRule = id }

func (r *Run) add(o Obligation) {
	if o.Rule == "" {
		o.Rule = r.curRule
	}
	if r.only != nil && !r.only[o.Rule] {
		return
	}
	r.Obls = append(r.Obls, o)
}

// OK records a discharged obligation.
func (r *Run) OK(construct, pos string, facts ...string) {
	r.add(Obligation{Construct: construct, Status: Discharged, Pos: pos, Facts: facts})
}

// Obligation records a discharged obligation, optionally marked trivial.
func (r *Run) Obligation(construct, pos string, trivial bool, facts ...string) {
	r.add(Obligation{Construct: construct, Status: Discharged, Pos: pos, Facts: facts, Trivial: trivial})
}

// Bad records a violated obligation.
func (r *Run) Bad(construct, pos, expected, found string, facts ...string) {
	r.add(Obligation{Construct: construct, Status: Violated, Pos: pos, Expected: expected, Found: found, Facts: facts})
}

// Unknown records an obligation the rule could not decide.
func (r *Run) Unknown(construct, pos, why string, facts ...string) {
	r.add(Obligation{Construct: construct, Status: Undecided, Pos: pos, Found: why, Facts: facts})
}

// Check is shorthand: OK if cond else Bad.
func (r *Run) Check(cond bool, construct, pos, expected, found string, facts ...string) bool {
	if cond {
		r.add(Obligation{Construct: construct, Status: Discharged, Pos: pos, Expected: expected, Facts: facts})
	} else {
		r.Bad(construct, pos, expected, found, facts...)
	}
	return cond
}

// Anchor records an unresolved anchor: an infrastructure failure.
func (r *Run) Anchor(what string) {
	r.add(Obligation{Construct: "anchor:" + what, Status: Undecided,
		Found: "ANCHOR-UNRESOLVED: the construct this rule is anchored on was not found in the tree; the rule cannot establish its clause"})
}

func (r *Run) Count(key string, n int) { r.Analysed[key] += n }

func (r *Run) Assume(s string) {
	for _, a := range r.Assumptions {
		if a == s {
			return
		}
	}
	r.Assumptions = append(r.Assumptions, s)
}

func (r *Run) Note(format string, args ...interface{}) {
	r.Notes = append(r.Notes, fmt.Sprintf(format, args...))
}

func (r *Run) Sample(v interface{}) {
	if len(r.Samples) < 12 {
		r.Samples = append(r.Samples, v)
	}
}

// Finish applies the known-findings file, prints the summary, writes the
// evidence and violation files and returns the process exit code.
func (r *Run) Finish(verifDir string) int {
	known := loadKnown(filepath.Join(verifDir, "known_findings.json"))
	wall := time.Since(r.Start).Seconds()

	// vacuity: each declared rule must have produced its minimum number of obligations
	perRule := map[string]int{}
	for _, o := range r.Obls {
		perRule[o.Rule]++
	}
	var rules []string
	for id := range r.RuleDocs {
		rules = append(rules, id)
	}
	sort.Strings(rules)
	for _, id := range rules {
		if perRule[id] < r.RuleMin[id] {
			r.Obls = append(r.Obls, Obligation{Rule: id, Construct: "vacuity:" + id, Status: Undecided,
				Expected: fmt.Sprintf("at least %d obligations", r.RuleMin[id]),
				Found:    fmt.Sprintf("VACUOUS: only %d obligations were generated; the rule no longer sees the constructs it was written for", perRule[id])})
		}
	}

	var viol, und, knownHits []Obligation
	discharged := 0
	distinct := map[string]bool{}
	for _, o := range r.Obls {
		if !o.Trivial {
			distinct[o.Rule+"|"+o.Construct] = true
		}
		switch o.Status {
		case Discharged:
			discharged++
		default:
			if f := known.match(r.Property, o); f != nil {
				knownHits = append(knownHits, o)
				fmt.Printf("KNOWN-FINDING: property=%s rule=%s construct=%s %s\n", r.Property, o.Rule, o.Construct, f.What)
				continue
			}
			if o.Status == Violated {
				viol = append(viol, o)
			} else {
				und = append(und, o)
			}
		}
	}

	fmt.Printf("== %s (%s) rules=%d obligations=%d discharged=%d violated=%d undecided=%d known=%d wall=%.2fs\n",
		r.Property, r.Tier, len(rules), len(r.Obls), discharged, len(viol), len(und), len(knownHits), wall)
	for _, id := range rules {
		fmt.Printf("   rule %-7s n=%-4d %s\n", id, perRule[id], r.RuleDocs[id])
	}
	var akeys []string
	for k := range r.Analysed {
		akeys = append(akeys, k)
	}
	sort.Strings(akeys)
	for _, k := range akeys {
		fmt.Printf("   analysed %s=%d\n", k, r.Analysed[k])
	}
	for _, n := range r.Notes {
		fmt.Printf("   note: %s\n", n)
	}

	evDir := filepath.Join(verifDir, "evidence")
	os.MkdirAll(evDir, 0o755)
	violPath := filepath.Join(evDir, r.Property+".violations.json")
	os.Remove(violPath)

	bad := append(append([]Obligation{}, viol...), und...)
	for _, o := range bad {
		fmt.Printf("   %s rule=%s construct=%s pos=%s\n      expected: %s\n      found:    %s\n",
			strings.ToUpper(string(o.Status)), o.Rule, o.Construct, o.Pos, o.Expected, o.Found)
		for _, f := range o.Facts {
			fmt.Printf("      fact: %s\n", f)
		}
	}
	for _, s := range r.Infra {
		fmt.Printf("   INFRA %s\n", s)
	}

	samples := r.Samples
	if len(samples) == 0 {
		for i, o := range r.Obls {
			if i >= 6 {
				break
			}
			samples = append(samples, o)
		}
	}
	ruleList := []string{}
	for _, id := range rules {
		ruleList = append(ruleList, fmt.Sprintf("%s (%d obligations): %s", id, perRule[id], r.RuleDocs[id]))
	}
	ev := map[string]interface{}{
		"property_id": r.Property,
		"tier":        r.Tier,
		"seed":        r.Seed,
		"level":       "other",
		"coverage": map[string]interface{}{
			"explanation": "Static analysis of the type-checked, SSA-lowered working tree of /repo; nothing is executed. " +
				"Each rule below is a necessary structural condition of the property; obligations are rule instances on named constructs. Rules: " + strings.Join(ruleList, " | "),
			"obligations":         len(r.Obls),
			"discharged":          discharged,
			"undecided":           len(und),
			"known_findings":      len(knownHits),
			"evaluations":         len(r.Obls),
			"distinct_nontrivial": len(distinct),
			"rule":                "one case = one obligation (rule id + construct key); non-trivial = not marked trivial by its rule (e.g. constant index into a fixed array); distinct = distinct (rule, construct) pairs",
			"samples":             samples,
			"analysed":            r.Analysed,
			"exhaustive":          r.Exhaustive,
			"notes":               r.Notes,
			"infrastructure":      r.Infra,
		},
		"assumptions": r.Assumptions,
		"wall_s":      wall,
		"violations":  len(viol) + len(und),
	}
	if r.Assumptions == nil {
		ev["assumptions"] = []string{}
	}
	b, _ := json.MarshalIndent(ev, "", " ")
	if err := os.WriteFile(filepath.Join(evDir, r.Property+".json"), b, 0o644); err != nil {
		fmt.Printf("   INFRA cannot write evidence: %v\n", err)
		return 2
	}

	if len(r.Infra) > 0 {
		// a broken check: never reported as a property violation
		fmt.Printf("BROKEN-CHECK property=%s (%d infrastructure failures)\n", r.Property, len(r.Infra))
		return 2
	}
	if len(bad) > 0 {
		vb, _ := json.MarshalIndent(map[string]interface{}{
			"property_id": r.Property, "tier": r.Tier, "violations": bad,
		}, "", " ")
		os.WriteFile(violPath, vb, 0o644)
		fmt.Printf("VIOLATION property=%s replay=%s\n", r.Property, violPath)
		return 1
	}
	fmt.Printf("PASS property=%s\n", r.Property)
	return 0
}

type knownSet struct{ f []Finding }

func loadKnown(path string) knownSet {
	b, err := os.ReadFile(path)
	if err != nil {
		return knownSet{}
	}
	var kf KnownFile
	if err := json.Unmarshal(b, &kf); err != nil {
		fmt.Printf("   INFRA known_findings.json unreadable: %v\n", err)
		return knownSet{}
	}
	return knownSet{kf.Findings}
}

func (k knownSet) match(property string, o Obligation) *Finding {
	for i := range k.f {
		f := &k.f[i]
		if f.Property == property && f.Rule == o.Rule && f.Construct == o.Construct {
			return f
		}
	}
	return nil
}
